#!/usr/bin/env python3
"""Development aid: apply a proposed fix using its .md for the commit message; test-file hunks are dropped.
usage: applymd.py <name-without-ext> [subject override]"""
import sys,re,subprocess,os
name=sys.argv[1]
d='/verif/proposed_fixes/'
diff=open(d+name+'.diff').read()
# split per file
parts=re.split(r'(?m)^(?=--- a/)',diff)
kept=[p for p in parts if p.strip() and not re.match(r'--- a/\S+_test\.go',p)]
dropped=[p.split('\n')[0] for p in parts if p.strip() and re.match(r'--- a/\S+_test\.go',p)]
tmp='/tmp/'+name+'.diff'
open(tmp,'w').write(''.join(kept))
md=open(d+name+'.md').read().strip().split('\n')
subj=sys.argv[2] if len(sys.argv)>2 else re.sub(r'^C\d+\s*[—-]+\s*','',md[0]).strip()
subj=re.sub(r'^(fix:\s*)+','',subj).lstrip('# ').strip()
subj=subj[0].lower()+subj[1:]
subj=subj.rstrip('.')
body='\n'.join(l for l in md[1:] if l.strip())
body=re.sub(r'\*\*|`','',body)[:900]
if dropped: print('dropped test hunks:',dropped)
r=subprocess.run(['/verif/applyfix.sh',tmp,subj,body],capture_output=True,text=True)
print((r.stdout+r.stderr)[-600:])
