// Scratch probe (development only; removed before hand-in).
package main

import (
	"bytes"
	"fmt"
	"os"
	"strconv"

	"github.com/open2b/scriggo"
	"github.com/open2b/scriggo/native"
)

func run(name string, files scriggo.Files, globals native.Declarations, vars map[string]any) {
	var t *scriggo.Template
	var err error
	func() {
		defer func() {
			if r := recover(); r != nil {
				err = fmt.Errorf("PANIC %v", r)
			}
		}()
		t, err = scriggo.BuildTemplate(files, name, &scriggo.BuildOptions{Globals: globals})
	}()
	if err != nil {
		fmt.Printf("%q: BUILD ERROR %v\n", files[name], err)
		return
	}
	var b bytes.Buffer
	err = t.Run(&b, vars, nil)
	fmt.Printf("%q: out=%q err=%v\n", files[name], b.String(), err)
}

// usage: probe <ext> <go-quoted source>...
func main() {
	ext := os.Args[1]
	for _, a := range os.Args[2:] {
		s, err := strconv.Unquote(`"` + a + `"`)
		if err != nil {
			fmt.Println("bad arg", err)
			continue
		}
		ss := `<i>&"x`; g := native.Declarations{"V": (*string)(nil), "s": &ss}
		files := scriggo.Files{"index" + ext: []byte(s), "p" + ext: []byte("PART"), "part.html": []byte("p[{{ V }}]{% V = \"wp\" %}"), "d/x.html": []byte("DX"), "..a/x.html": []byte("ODD"), "d/..x.html": []byte("ODD2"), "d/lib2.html": []byte("{% macro K %}k{% end %}"), "d/..lib.html": []byte("{% macro K2 %}k{% end %}"), "lib2.html": []byte("{% macro L2 %}<p>&amp;[t]{% if true %}{{ s }}{% end if %}|{{ s }}{% end macro %}"), "lib.html": []byte("{% macro L %}l[{{ V }}]{% V = \"wl\" %}{% end %}")}
		run("index"+ext, files, g, map[string]any{"V": "X"})
		x := "P"
		run("index"+ext, files, g, map[string]any{"V": &x})
		fmt.Println("  caller after:", x)
	}
}
