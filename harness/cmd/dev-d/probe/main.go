// Command probe: dev tool. Reads Go programs separated by lines "----" from stdin (or one
// constant expression per line with -e) and prints the go/types and scriggo verdicts.
package main

import (
	"bufio"
	"fmt"
	"go/ast"
	"go/parser"
	"go/token"
	"go/types"
	"os"
	"strings"

	"github.com/open2b/scriggo"
)

func goCheck(src string) (string, *types.Info) {
	fset := token.NewFileSet()
	f, err := parser.ParseFile(fset, "main.go", src, parser.SkipObjectResolution)
	if err != nil {
		return "PARSE " + err.Error(), nil
	}
	info := &types.Info{Types: map[ast.Expr]types.TypeAndValue{}, Defs: map[*ast.Ident]types.Object{}}
	var first error
	conf := types.Config{GoVersion: "go1.20", Error: func(err error) {
		if first == nil {
			first = err
		}
	}}
	conf.Check("main", fset, []*ast.File{f}, info)
	if first != nil {
		return "REJECT " + first.Error(), info
	}
	out := "ACCEPT"
	ast.Inspect(f, func(n ast.Node) bool {
		if c, ok := n.(*ast.CallExpr); ok {
			if id, ok := c.Fun.(*ast.Ident); ok && id.Name == "println" {
				for _, a := range c.Args {
					tv := info.Types[a]
					out += fmt.Sprintf(" [%s %v]", tv.Type, tv.Value)
				}
			}
		}
		return true
	})
	return out, info
}

func scriggoCheck(src string) string {
	var out string
	func() {
		defer func() {
			if v := recover(); v != nil {
				out = fmt.Sprintf("PANIC %v", v)
			}
		}()
		p, err := scriggo.Build(scriggo.Files{"main.go": []byte(src)}, &scriggo.BuildOptions{AllowGoStmt: true})
		if err != nil {
			out = fmt.Sprintf("REJECT(%T) %v", err, err)
			return
		}
		out = "ACCEPT"
		if os.Getenv("PROBE_NORUN") != "" {
			return
		}
		err = p.Run(&scriggo.RunOptions{Print: func(v any) { out += fmt.Sprintf(" [%T %v]", v, v) }})
		if err != nil {
			out += fmt.Sprintf(" RUNERR %v", err)
		}
	}()
	return out
}

func main() {
	exprMode := len(os.Args) > 1 && os.Args[1] == "-e"
	sc := bufio.NewScanner(os.Stdin)
	sc.Buffer(make([]byte, 1<<20), 1<<24)
	var cur []string
	flush := func() {
		if len(cur) == 0 {
			return
		}
		src := strings.Join(cur, "\n")
		cur = nil
		g, _ := goCheck(src)
		s := scriggoCheck(src)
		fmt.Printf("go:      %s\nscriggo: %s\n\n", g, s)
	}
	for sc.Scan() {
		l := sc.Text()
		if exprMode {
			if strings.TrimSpace(l) == "" {
				continue
			}
			fmt.Println("EXPR", l)
			cur = []string{"package main\nfunc main() {\n\tconst c = " + l + "\n\tprintln(c)\n}"}
			flush()
			continue
		}
		if l == "----" {
			flush()
			continue
		}
		cur = append(cur, l)
	}
	flush()
}
