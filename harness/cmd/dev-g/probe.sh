#!/bin/bash
# usage: [VERIF_REPO=/tmp/repo-g] probe.sh <args of probe>
. /verif/env.sh
cd /verif/harness && "$VGO" run $VERIF_MODFLAG ./cmd/dev-g/probe "$@"
