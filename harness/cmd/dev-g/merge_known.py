#!/usr/bin/env python3
"""Development aid: replace the C04/C21 entries of /verif/known_findings.json by the
current props/c04/findings.json and props/c21/findings.json (atomic rewrite)."""
import json, os, tempfile
path = '/verif/known_findings.json'
kf = json.load(open(path))
mine = []
for p in ('c04', 'c21'):
    mine += json.load(open('/verif/harness/props/%s/findings.json' % p))
kf['findings'] = [f for f in kf['findings'] if f.get('property') not in ('C04', 'C21')] + mine
fd, tmp = tempfile.mkstemp(dir='/verif', prefix='.kf')
with os.fdopen(fd, 'w') as f: json.dump(kf, f, indent=1)
os.replace(tmp, path)
print(len(kf['findings']), 'findings in', path)
