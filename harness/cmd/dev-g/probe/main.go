// Command probe builds one input given on the command line and prints the outcome
// (development aid of builder G; not part of any check).
//
//	probe [-go] [-name index.html] [-run] 'source' [name2 'source2' ...]
package main

import (
	"bytes"
	"encoding/json"
	"errors"
	"flag"
	"fmt"
	"os"
	"strconv"

	"github.com/open2b/scriggo"

	"verif/gen/bytesgen"
)

func main() {
	isGo := flag.Bool("go", false, "program")
	name := flag.String("name", "index.html", "main file name")
	run := flag.Bool("run", false, "run the template")
	nodis := flag.Bool("nodis", false, "do not disassemble")
	quoted := flag.Bool("q", false, "sources are Go-quoted strings (without the outer quotes)")
	jsonIn := flag.String("json", "", "read the input (bytesgen.Input JSON) from this file")
	flag.Parse()
	if os.Getenv("PROBE_LIMITS") != "" {
		bytesgen.LimitStack()
		bytesgen.LimitAddressSpace()
	}
	args := flag.Args()
	unq := func(s string) []byte {
		if *quoted {
			u, err := strconv.Unquote(`"` + s + `"`)
			if err != nil {
				fmt.Println("bad quoted arg:", err)
				os.Exit(2)
			}
			return []byte(u)
		}
		return []byte(s)
	}
	var files []bytesgen.File
	if *isGo {
		*name = "main.go"
	}
	if *jsonIn != "" {
		b, err := os.ReadFile(*jsonIn)
		if err != nil {
			fmt.Println(err)
			os.Exit(2)
		}
		var in bytesgen.Input
		if err := json.Unmarshal(b, &in); err != nil {
			fmt.Println(err)
			os.Exit(2)
		}
		files = in.Files
		*isGo = in.Kind == "program"
		if !*isGo {
			*name = in.Main
		}
	} else {
		files = append(files, bytesgen.File{Name: *name, Data: unq(args[0])})
		for i := 1; i+1 < len(args); i += 2 {
			files = append(files, bytesgen.File{Name: args[i], Data: unq(args[i+1])})
		}
	}
	fsys := bytesgen.NewRecFS(files)
	opts := &scriggo.BuildOptions{Packages: bytesgen.Packages(), AllowGoStmt: true}
	var err error
	if *isGo {
		var p *scriggo.Program
		p, err = scriggo.Build(fsys, opts)
		if err == nil {
			asm, _ := p.Disassemble("main")
			fmt.Printf("OK (%d bytes of assembly)\n", len(asm))
		}
	} else {
		opts.Globals = bytesgen.Globals()
		var t *scriggo.Template
		t, err = scriggo.BuildTemplate(fsys, *name, opts)
		if err == nil {
			fmt.Println("OK")
			for _, n := range []int{-1, 0, 7} {
				if !*nodis {
					t.Disassemble(n)
				}
			}
			if *run {
				var b bytes.Buffer
				rerr := t.Run(&b, nil, nil)
				fmt.Printf("run: %q err=%v\n", b.String(), rerr)
			}
		}
	}
	if err != nil {
		var be *scriggo.BuildError
		if errors.As(err, &be) {
			p := be.Position()
			fmt.Printf("BuildError path=%q pos={Line:%d Col:%d Start:%d End:%d} msg=%q\n  %v\n", be.Path(), p.Line, p.Column, p.Start, p.End, be.Message(), err)
		} else {
			fmt.Printf("error (%T): %v\n", err, err)
		}
	}
	fmt.Println("opened:", fsys.OpenedNames())
}
