#!/bin/bash
# usage: [VERIF_REPO=/tmp/repo-g] mkprobe.sh  -> builds /tmp/probe-g
. /verif/env.sh
cd /verif/harness && "$VGO" build $VERIF_MODFLAG -o /tmp/probe-g ./cmd/dev-g/probe
