#!/usr/bin/env python3
"""Writes props/c04/findings.json and props/c21/findings.json (builder G).
Commit hashes of landed fixes are read from /verif/proposed_fixes/APPLIED.txt."""
import json, os
applied = {}
p = '/verif/proposed_fixes/APPLIED.txt'
if os.path.exists(p):
    for l in open(p):
        l = l.split()
        if len(l) >= 2: applied[l[0]] = l[1]
def commit(diff): return applied.get(diff, 'PENDING')
def tmpl(text, main='index.html', extra=None, **kw):
    files = [{'name': main, 'text': text}]
    for n, t in (extra or []): files.append({'name': n, 'text': t})
    d = {'kind': 'template', 'main': main, 'files': files}; d.update(kw); return d
def prog(text, extra=None):
    files = [{'name': 'main.go', 'text': text}]
    for n, t in (extra or []): files.append({'name': n, 'text': t})
    return {'kind': 'program', 'files': files}

c04 = []
def f4(n, status, what, inp, diff=None, scope=None, solo=False):
    e = {'property': 'C04', 'id': 'C04-F%d' % n, 'status': status, 'what': what,
         'witness': {'id': 'finding:C04-F%d' % n, 'data': {'inputs': [inp]}}}
    if status == 'fixed': e['commit'] = commit(diff) if diff else 'PENDING'; e['fix'] = diff
    if scope: e['scope'] = scope
    c04.append(e)
f4(1, 'fixed', 'template comment whose last byte is # ({##): lexComment indexes past the source in the lexer goroutine and kills the process', tmpl('{##'), 'C04-lexcomment-bound.diff')
f4(2, 'fixed', '{%% ... %% at end of file: a 3-byte %%} token is emitted past the source in the lexer goroutine (process death)', tmpl('{%% var S struct { bar  } %%', 'index.js'), 'C04-lexer-statements-end.diff')
f4(3, 'fixed', 'template code inside the type attribute of script/style: stale attribute offset slices past the source in the lexer goroutine (process death)', tmpl('<script type="application/ld+json>{{a}}"{{a}}"</script>'), 'C04-lexer-type-attr-index.diff')
f4(4, 'fixed', 'identifier list ending with a comma at EOF: host panic "next called after EOF"', prog('package main\n\nfunc main() {\n\tvar a, res, '), 'C04-parser-identifiers-list.diff')
f4(5, 'fixed', 'assignment operator without left-hand side in a switch header: index out of range in parseAssignment', tmpl('{% switch %= 1 %}'), 'C04-parser-assignment-no-lhs.diff')
f4(6, 'fixed', 'x-- after the semicolon of a switch header: index out of range in parseSwitch', tmpl('{% switch x := 1; x -- 1 %}{% case 1 %}one{% case 2 %}two{% end %}'), 'C04-parser-switch-incdec.diff')
f4(7, 'fixed', '(...) as function result list: nil pointer dereference in parseFuncParameters (unmodified corpus file bug228.go)', prog('package main\n\nfunc g(x int, y float32) (...)\n\nfunc main() {}\n'), 'C04-parser-func-result-ellipsis.diff')
f4(8, 'fixed', 'block statement left open at the end of a URL attribute: nil pointer dereference at tokenEndURL', tmpl('<a href="{% if a %} {%bend %}">'), 'C04-parser-endurl-unclosed-block.diff')
f4(9, 'fixed', 'macro with an unnamed parameter whose body refers to a global variable: nil pointer dereference in prepareFunctionBodyParameters', tmpl('{% macro N( string) %}{{ s }}{% end %}'), 'C04-emitter-unnamed-param-indirect.diff')
f4(10, 'fixed', 'contains with a left operand of a type that cannot contain anything: emitter panics "unexpected type"', tmpl('{{ a contains b }}', 'index.js'), 'C04-checker-contains-left-operand.diff')
f4(11, 'fixed', 'nil contains x: nil pointer dereference in binaryOp', tmpl('{{ nil contains 1 }}'), 'C04-checker-contains-left-operand.diff')
f4(12, 'fixed', 'Template.Disassemble(7) on a text starting with a multi-byte character: slice bounds out of range in disassembleText', tmpl('\ufeffgo  }}'), 'C04-disassembler-text-truncation.diff')
f4(13, 'fixed', 'switch whose init statement is not an assignment (valid Go: switch f(); {}): interface conversion panic in the type checker', prog('package main\n\nfunc f() {}\n\nfunc main() {\n\tswitch f(); {\n\t}\n}\n'), 'C04-checker-switch-init-statement.diff')
f4(14, 'fixed', 'switch x followed by a newline before %}: interface conversion panic in the type checker (same site as F13)', tmpl('{% switch x\r\n%}{% case 1 %}{% end %}'), 'C04-checker-switch-init-statement.diff')
f4(15, 'fixed', 'non-comparison binary operator on struct operands: index out of range [25] in operatorsOfKind', prog('package main\n\ntype S struct{}\n\nfunc main() {\n\tvar a, b S\n\t_ = a + b\n}\n'), 'C04-checker-operators-of-kind-bounds.diff')
f4(16, 'fixed', 'second else on the same if: parser panics "node already added to if node"', tmpl('{%if i%}{%else%}{%else%}'), 'C04-parser-double-else.diff')
f4(17, 'fixed', 'composite literal without type where none can be inferred: nil pointer dereference in checkCompositeLiteral', tmpl('{{ struct{T}{{true}} }}'), 'C04-checker-composite-literal-missing-type.diff')
f4(18, 'fixed', 'map[]T: checker panics "unexpected: <nil> (type <nil>)" on the missing key type', tmpl('{% macro B(map []string) %}{% end %}'), 'C04-parser-map-missing-key-type.diff')
f4(19, 'fixed', 'one-space text between a statement that spans lines and the next statement is cut from both sides: slice bounds out of range [1:0] in emitNodes (repaired by the C15 line-cut fix)', tmpl('{% import "imp.html"\n%} {% import p "imp.html" %}\n<i>{{ M() }}</i>\n', extra=[('imp.html', '{% macro M %}<b>m</b>{% end macro %}\n')]), 'C15-line-cut-multiline-tokens.diff')
f4(20, 'open', 'a function literal or macro that refers to a variable of an imported Scriggo package/template file (pkg.V) is emitted with empty VarRefs: Disassemble panics (index out of range in disassembleVarRef) and running it panics too; emitter defect, not a small repair',
   tmpl('{% import pkg "imported.html" %}{% macro M %}{{ pkg.V }}{% end macro %}', extra=[('imported.html', '{% var V = 5 %}\n')]),
   scope='panic:compiler.disassembleVarRef:runtime error: index out of range [N] with length N')
f4(21, 'open', 'labeled break/continue that leaves or continues an outer loop from an inner breakable statement is not implemented (upstream issue 83): the emitter panics "internal error: not implemented" instead of returning an error',
   prog('package main\n\nfunc main() {\n\tL: for { for { continue L } }\n}\n'),
   scope='panic:compiler.(*emitter).emitNodes:scriggo: internal error: not implemented')
f4(22, 'fixed', 'for-range with a left-hand side that is not an identifier (for x[0] = range a {}) made the type checker panic "internal error: unexpected"; since C03-range-assignment-target it is an ordinary error',
   prog('package main\n\nfunc main() {\n\ta := []int{1}\n\tx := []int{0, 0}\n\tfor x[0] = range a {\n\t}\n}\n'), 'C03-range-assignment-target.diff')
f4(23, 'open', 'the type checker instantiates a zero value of every declared variable type: var b [1<<32]int makes Build allocate 32 GiB (upstream issue 545); under the 8 GiB address-space limit of the worker the process dies with "out of memory", without it the build thrashes for minutes',
   prog('package main\n\nconst LARGE = ^uint(0)>>32 + 1\n\nvar b [LARGE]int\n\nfunc main() {\n\t_ = b[0]\n}\n'),
   scope='crash:compiler/types.(*Types).Zero:runtime: out of memory: cannot allocate N-byte block (N in use)')
f4(24, 'fixed', '"cannot find package" for an import queued next to a sibling import: nil pointer dereference in ParseProgram', prog('package main\n\nimport aNewName "named_imports.dir/A"\nimport . "named_imports.dir/b"\n\nfunc main() {\n\taNewName.A()\n\tB()\n}\n', extra=[('a/a.go', 'package a\n\nfunc A() {\n\n}\n'), ('b/b.go', 'package b\n\nfunc B() {\n\n}\n'), ('go.mod', 'module named_imports.dir\n\ngo 1.16\n')]), 'C04-program-missing-package-importer.diff')
f4(25, 'fixed', 'for nil { }: nil pointer dereference in the type checker', prog('package main\n\nfunc main() {\n\tfor nil { }\n}\n'), 'C03-nil-for-condition.diff')
f4(26, 'fixed', 'return nested in a block at the top level of a template: nil pointer dereference in checkReturn', tmpl('a{% if true %}{% return %}{% end %}b'), 'C04-checker-return-outside-function.diff')
f4(27, 'fixed', 'complex(nil, 1): nil pointer dereference in convert', tmpl('{{ complex(nil, 1) }}'), 'C03-nil-builtin-arguments.diff')
f4(28, 'fixed', 'real(nil): nil pointer dereference in checkBuiltinCall', tmpl('{{ real(nil) }}'), 'C03-nil-builtin-arguments.diff')
f4(29, 'fixed', 'type switch guard whose left side is not a name: interface conversion panic in the type checker', prog('package main\n\nfunc main() {\n\tswitch "a"+u := interface{}(2).(type) {\n\tcase int:\n\t}\n}\n'), 'C03-type-switch-non-identifier.diff')
f4(30, 'fixed', '_ = conversion(x), y is checked as a multi-value call: the emitter panics "reflect: NumOut of non-func type"', tmpl('{%%\nconst s5 markdown = "a"\n_ = markdown(s5),d\n%%}'), 'C04-checker-unbalanced-assignment-call.diff')
f4(31, 'fixed', '} after pending labels inside {%% %%}: index out of range [-1] in (*parsing).parent', tmpl('{%% A: B:}}%%}'), 'C04-parser-right-brace-after-labels.diff')
f4(32, 'fixed', 'nil <- c: nil pointer dereference in the type checker', prog('package main\n\nfunc main() {\n\tc := make(chan int)\n\tnil<-c\n}\n'), 'C03-send-to-nil.diff')
f4(33, 'fixed', '.(type) nested in an expression: checker panics "unexpected: <nil> (type <nil>)"', prog('package main\n\nfunc main() {\n\tvar x interface{} = 1\n\tswitch xx := x.(type).(type) {\n\tdefault:\n\t\t_ = xx\n\t}\n}\n'), 'C04-checker-type-guard-outside-switch.diff')
f4(34, 'fixed', '_, a := nil, 2: nil pointer dereference in the emitter (assignValuesToAddresses)', prog('package main\n\nfunc main() {\n\t_, a := nil, 2\n\t_ = a\n}\n'), 'C04-checker-blank-declared-nil.diff')
f4(35, 'fixed', 'array type larger than the address space: reflect.ArrayOf panic reaches the host', prog('package main\n\nfunc main() {\n\tvar a ' + '[10] ' * 27 + 'int\n\tconst ca = len(a)\n}\n'), 'C04-checker-array-larger-than-address-space.diff')
f4(36, 'fixed', 'a call of something that is not a macro name on the left of default in an extended file: interface conversion panic in checkDefault', tmpl('{% extends "layout.html" %}{% macro M %}x{% end %}', extra=[('layout.html', '{{ a.b() default "" }}')]), 'C04-36-default-call-non-identifier.diff')
chain = lambda first, step, k: '\n'.join(['const c1 = ' + first] + ['const c%d = %s' % (i, step.replace('P', 'c%d' % (i - 1))) for i in range(2, k + 1)])
f4(37, 'fixed', 'a chain of 40 doubling string constants (< 1 KB of source) makes Build copy gigabytes: no return in bounded time, then out of memory', prog('package main\n\n' + chain('"ab"', 'P + P', 40) + '\n\nfunc main() {\n\t_ = len(c40)\n}\n'), 'C04-37-constant-string-length.diff')
f4(38, 'fixed', 'Inf - Inf on overflowed float constants: math/big ErrNaN panic reaches the host', prog('package main\n\n' + chain('1.5', 'P * P', 40) + '\n\nfunc main() {\n\t_ = c40 - c40\n}\n'), 'C04-38-float-constant-exponent-limit.diff')
f4(39, 'fixed', 'squaring a complex constant 35 times: ErrNaN panic inside the constant multiplication', prog('package main\n\n' + chain('1/3.0 + 1i', 'P * P', 40) + '\n\nfunc main() {\n\t_ = c40\n}\n'), 'C04-38-float-constant-exponent-limit.diff')
f4(40, 'fixed', 'Program.Disassemble of a function that calls more than 128 distinct functions: index out of range [-128] in funcNameType', prog('package main\n\n' + ''.join('func f%d() int { return %d }\n' % (i, i) for i in range(130)) + '\nfunc main() {\n' + ''.join('\t_ = f%d()\n' % i for i in range(130)) + '}\n'), 'C04-39-disassemble-uint8-index.diff')
f4(41, 'fixed', 'a bare URL at the top level of an imported Markdown file: panic "internal error: unexpected node" in templateFileToPackage', tmpl('{% import "m.md" %}', main='index.md', extra=[('m.md', '{% macro A %}a{% end %} http://a.b/c')]), 'C04-40-toplevel-url-in-declarations-file.diff')
f4(42, 'open', 'the parser, the type checker and the emitter recurse on nested sources without a depth limit: the goroutine stack overflows (fatal error, the process dies, not recoverable). With the Go default stack limit of 1 GB: chains of 300 000 unary operators / binary operators / selectors (300-600 KB of source) and 1 000 000 nested parentheses, blocks, composite literals, index expressions, pointer types, {% if %} blocks (2-22 MB) die after about 30 s; nested function literals between 30 000 and 100 000 levels. The workers cap stacks at 64 MiB, where every recursive construct overflows between 6 000 levels (function literals) and 50 000 levels (parentheses). A nesting limit needs several sites (parseExpr recursion, statement nesting, operator and selector chains, types) and a choice of limits: not a small repair. The generator stays at or below 4 000 levels while this is open; a stack overflow on a source that nests less deeply is reported.',
   prog('package main\n\ntype T int\n\nvar x ' + '*' * 30000 + 'T\n\nfunc main() {}\n'), scope='nesting-depth>4000')
f4(43, 'fixed', 'a chain cN = cN-1*cN-1 + 1/cN-1 of float constants (1.3 KB) costs 25-70 CPU-seconds: additions of constants whose exponents differ by 10^9 bits', prog('package main\n\n' + chain('1 / 3.0', 'P * P + 1/P', 44) + '\n\nfunc main() {\n\t_ = c44\n}\n'), 'C04-38-float-constant-exponent-limit.diff')
f4(44, 'fixed', 'Program.Disassemble of a function that refers to more than 128 types: index out of range [-128] in disassembleInstruction (fn.Types[int(uint(b))])', prog('package main\n\n' + ''.join('type T%d struct{ f%d int }\n' % (i, i) for i in range(130)) + '\nfunc main() {\n' + ''.join('\t_ = interface{}(T%d{})\n' % i for i in range(130)) + '}\n'), 'C04-39-disassemble-uint8-index.diff')
json.dump(c04, open('/verif/harness/props/c04/findings.json', 'w'), indent=1, ensure_ascii=False)

c21 = []
def f21(n, status, what, inp, diff=None, scope=None):
    e = {'property': 'C21', 'id': 'C21-F%d' % n, 'status': status, 'what': what,
         'witness': {'id': 'finding:C21-F%d' % n, 'data': {'inputs': [inp]}}}
    if status == 'fixed': e['commit'] = commit(diff) if diff else 'PENDING'; e['fix'] = diff
    if scope: e['scope'] = scope
    c21.append(e)
f21(1, 'fixed', '/* */ comments in code do not advance the column and count one line however many they span: every later position on the line is off', tmpl('{{ /* c */ a b }}'), 'C21-lexer-block-comment-position.diff')
f21(2, 'fixed', 'multi-line /* */ comment: later errors are reported on the wrong line', tmpl('{{ a /* c\nd\ne */ b }}'), 'C21-lexer-block-comment-position.diff')
f21(3, 'fixed', 'rune literal advances the column by bytes', tmpl("{{ 'é' b }}"), 'C21-lexer-rune-literal-column.diff')
f21(4, 'fixed', '"unexpected #}" carries the offset of the beginning of the text token', tmpl('ab\nc #} d'), 'C21-lexer-unexpected-comment-end-offset.diff')
f21(5, 'fixed', 'raw string not terminated: line/column at EOF, offset at the opening backquote', tmpl('x\n{{ `ab\ncd'), 'C21-lexer-raw-string-not-terminated.diff')
f21(6, 'fixed', 'errors inside an interpreted string: offset of the offending byte, column of the opening quote', tmpl('{{ "ab\\q" }}'), 'C21-lexer-string-error-column.diff')
f21(7, 'fixed', 'newline in string: offset of the newline, column of the opening quote', tmpl('{{ "abé\n" }}'), 'C21-lexer-string-error-column.diff')
f21(8, 'fixed', 'automatically inserted semicolon: Start is the byte before the newline that line:column name', tmpl('{{ a\n }}'), 'C21-lexer-implicit-semicolon-start.diff')
f21(9, 'fixed', '// comment does not advance the column: the newline error after it has the column of the comment start', prog('package main\n\nfunc F//) {\n\n}\n'), 'C21-lexer-line-comment-column.diff')
f21(10, 'fixed', 'after a {# #} comment spanning lines the columns of its last line lag by 2', tmpl('https:{# a\nbç #}//{{ domain9 }}'), 'C21-lexer-multiline-comment-column.diff')
f21(11, 'fixed', 'Markdown: the column is not advanced over http:// / https://', tmpl('[a](https://x.y/{{ nil }})\n', 'index.md'), 'C21-lexer-markdown-url-column.diff')
f21(12, 'fixed', 'Markdown: the four spaces / tab opening an indented code block are not counted in the column', tmpl('# T\n\n    code {{ nil }}\n', 'index.md'), 'C21-lexer-markdown-codeblock-column.diff')
f21(13, 'open', '[check|before:unary-operator] a unary operator (+ - ! ^ * & <- not) followed by a binary operator loses its own bytes from Start: parseExpr moves the Start of the pending unary operators to the Start of their operand, so Line/Column name the operator and Start the operand (they disagree by the operator width, 2 for <-). The one-hunk repair needs the expected positions of the repository test for *a+*b to be corrected (that test says its positions were altered to make it pass), so it is recorded, not repaired. Class (structural, any message): line:column map to a byte X < Start such that the bytes X..Start consist of unary operators, white space and comments only.', tmpl('a{% *a+*b %}'), scope='check|before:unary-operator')
f21(14, 'fixed', '"function main is undeclared in the main package" is reported at 0:0', prog('package main\n\nfunc f() {}\n'), 'C21-checker-main-undeclared-position.diff')
f21(15, 'fixed', 'limit errors of programs name the path "main" instead of the file', None, 'C21-limit-error-path.diff')
f21(16, 'fixed', '"predeclared identifier itea not used" names the extended/importing file for a using statement of another file', tmpl('{% extends "extended.html" %}\n{% var V = 1; using %}content...{% end using %}', extra=[('extended.html', 'x')]), 'C21-itea-not-used-path.diff')
f21(17, 'fixed', 'label errors in an extended file name the extending file', tmpl('{% extends "layout.html" %}\n{% macro Body %}{% end macro %}\n', extra=[('layout.html', '{% LX: select %}{% default %}{% break L %}{% end %}')]), 'C21-extended-file-scope-error-path.diff')
f21(30, 'fixed', 'a newline right after </style or </script is not counted as a line', tmpl('<style>s{{a}}t</style\n\t\t\t\t{% extends{{a}}'), 'C21-lexer-end-tag-newline.diff')
f21(31, 'fixed', '"unexpected text in file with extends / in imported file": End is one past the character (len(file) for a text at the end of the file)', tmpl('{% extends "l.html" %}a', extra=[('l.html', 'x')]), 'C21-first-non-space-end.diff')
f21(32, 'fixed', 'limit errors of package-level initialisers are reported at 0:0 ($initvars has an empty position)', prog('package main\n\nvar x = []string{' + ', '.join('"s%d"' % i for i in range(300)) + '}\n\nfunc main() { _ = x }\n'), 'C21-initvars-limit-error-position.diff')
f21(33, 'open', '[cycle|package-path] the CycleError of a program import cycle carries the import path of a package (cycle/foo) as Path(), not a file of the build, and for longer cycles not the package whose file contains the reported position; the repository tests (TestCyclicPrograms) expect the package path, so it cannot be repaired without editing them. Class (structural): cycle error of a program whose Path() is not a file of the file system.',
    prog('package main\n\nimport _ "cycle/foo"\n\nfunc main() {}\n', extra=[('go.mod', 'module cycle\n'), ('foo/foo.go', 'package foo\n\nimport _ "cycle/foo"\n')]), scope='cycle|package-path')
# the limit witness: many registers
regs = 'package main\n\nfunc main() {\n' + ''.join('\tvar s%d []int\n' % i for i in range(140)) + '\tprintln(' + ', '.join('s%d' % i for i in range(140)) + ')\n}\n'
c21[14]['witness']['data']['inputs'][0] = prog(regs)
inside_doc = ('by design (gc convention) the parser gives operator-like nodes the line:column of a token INSIDE the node (the operator of a binary expression, the dot of a selector, the opening parenthesis of a call/conversion, the bracket of an index/slice, the brace of a composite literal, the inner expression of a parenthesized expression, the word operators contains/and/or/not/default) while Start/End span the whole node; every checker error positioned on such a node therefore has Line/Column that are not those of Start. Not a small repair (every node constructor and the position tests would change). Class: ')
inside = [
 ('check|inside:operator', tmpl('{% a == 3 %}')),
 ('check|inside:operand', tmpl('{%%\n(97)\n%%}')),
 ('syntax|inside:operator', tmpl('{% if sortBy := sortBy.(html) default 1 %}{% end %}')),
 ('cycle|inside:operator', tmpl('<div>\n  {{ render "partial.html" }}\n</div>\n', extra=[('partial.html', '{%  const \ts html =render "partial.html" default "" %}')])),
 ('syntax|inside:operand', tmpl('{{ (func()) default "" }}')),
]
n = 18
for key, w in inside:
    f21(n, 'open', '[' + key + '] ' + inside_doc.replace(' Class: ', ''), w, scope=key); n += 1
json.dump(c21, open('/verif/harness/props/c21/findings.json', 'w'), indent=1, ensure_ascii=False)
print(len(c04), len(c21))
