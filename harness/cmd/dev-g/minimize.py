#!/usr/bin/env python3
"""Delta-debugging minimizer (development aid of builder G).
usage: minimize.py <replay.json> <regex that the probe output must match> [file-to-minimize]
Uses the probe binary at $PROBE (built by mkprobe.sh)."""
import json, sys, subprocess, re, os, base64, tempfile
probe = os.environ.get("PROBE", "/tmp/probe-g")
rp = json.load(open(sys.argv[1]))
inp = rp["case"]["data"]["inputs"][0] if "case" in rp else rp
rx = re.compile(sys.argv[2], re.S)
def data(f):
    return f["text"].encode() if "text" in f else base64.b64decode(f["b64"])
def setdata(f, b):
    f.pop("text", None); f.pop("b64", None)
    try:
        f["text"] = b.decode("utf-8")
        if f["text"].encode() != b: raise UnicodeError
    except UnicodeError:
        f.pop("text", None); f["b64"] = base64.b64encode(b).decode()
def run(i):
    with tempfile.NamedTemporaryFile("w", suffix=".json", delete=False) as t:
        json.dump(i, t); name = t.name
    try:
        p = subprocess.run([probe, "-json", name], capture_output=True, timeout=60)
        out = (p.stdout + p.stderr).decode("utf-8", "replace")
    except subprocess.TimeoutExpired:
        out = "TIMEOUT"
    os.unlink(name)
    return out
def ok(i): return rx.search(run(i)) is not None
if not ok(inp):
    print("original does not match:\n" + run(inp)[:2000]); sys.exit(1)
# drop whole files first
changed = True
while changed:
    changed = False
    for k in range(len(inp["files"])):
        if len(inp["files"]) == 1: break
        if inp["files"][k]["name"] in (inp.get("main"), "main.go"): continue
        c = json.loads(json.dumps(inp)); del c["files"][k]
        if ok(c): inp = c; changed = True; break
names = [sys.argv[3]] if len(sys.argv) > 3 else [f["name"] for f in inp["files"]]
for name in names:
    f = next(x for x in inp["files"] if x["name"] == name)
    b = data(f)
    n = 2
    while len(b) >= 1:
        chunk = max(1, len(b) // n)
        reduced = False
        for s in range(0, len(b), chunk):
            cand = b[:s] + b[s+chunk:]
            setdata(f, cand)
            if ok(inp):
                b = cand; n = max(n - 1, 2); reduced = True; break
        if not reduced:
            if chunk == 1: break
            n = min(n * 2, len(b))
    setdata(f, b)
print(json.dumps(inp))
for f in inp["files"]:
    print(f["name"], repr(data(f)))
print(run(inp)[:1500])
