// Command dev-seq is a development aid: it generates the C01 programs lo..hi-1
// of a seed, runs them one after the other in this process and prints a hash
// of the output of each, to compare with runs of each program alone.
//
//	dev-seq <seed> <lo> <hi> [only]
package main

import (
	"crypto/sha1"
	"fmt"
	"os"
	"strconv"
	"strings"

	"github.com/open2b/scriggo"

	"verif/core"
	"verif/gen/goprog"
	"verif/oracle/gcref"
	"verif/props/c01"
)

func main() {
	seed, _ := strconv.ParseInt(os.Args[1], 10, 64)
	lo, _ := strconv.Atoi(os.Args[2])
	hi, _ := strconv.Atoi(os.Args[3])
	only := -1
	if len(os.Args) > 4 {
		only, _ = strconv.Atoi(os.Args[4])
	}
	for i := lo; i < hi; i++ {
		r := core.Rand(seed, fmt.Sprintf("C01/g-prog-%d", i))
		cfg := goprog.DefaultConfig()
		cfg.NegShift, cfg.LabelledCtl, cfg.RangePanic, cfg.AssertMsgDT, cfg.DeferBuiltinDT, cfg.PanicDefType = false, false, false, false, false, false
		switch r.Intn(4) {
		case 0:
			cfg.Stmts, cfg.Funcs = 6, 2
		case 1:
			cfg.Stmts, cfg.Funcs = 24, 7
		}
		p := goprog.Generate(r, cfg)
		src := strings.Replace(p.Source, "package main\n\n", "package main\n\n"+gcref.InitMarker+"\n", 1)
		if only >= 0 && i != only {
			continue
		}
		ob, _ := c01.RunScriggo(src, i%2 == 0, &scriggo.BuildOptions{})
		fmt.Printf("%d %x %d %q %q\n", i, sha1.Sum([]byte(ob.Out)), len(ob.Out), core.Truncate(ob.Crash, 60), core.Truncate(ob.BuildErr+ob.HostPanic, 80))
		if only >= 0 {
			os.WriteFile(fmt.Sprintf("/tmp/thr2/seq-%d.go", i), []byte(src), 0o644)
		}
	}
}
