package main

import (
	"fmt"

	"github.com/open2b/scriggo/builtin"
)

func main() {
	for _, s := range []string{"\n", "\n\n", "a\n", "\na", " \n", "\n ", "\r\n", "\r", "\t\n", "a\n\n", "\n\n\n", " ", "", "\n\t", "x: \n", " ", "\u0085", "a\n ", " a\n", "\n  \n", "  \n\n"} {
		for _, v := range []any{s, []any{s}, map[string]any{"k": s}, map[string]any{s: 1}} {
			out, err := builtin.MarshalYAML(v)
			var back any
			uerr := builtin.UnmarshalYAML(out, &back)
			okk := fmt.Sprintf("%#v", back) == fmt.Sprintf("%#v", v)
			if !okk {
				fmt.Printf("%#v -> %q (%v) -> %#v (%v)\n", v, out, err, back, uerr)
			}
		}
	}
}
