package main

import (
	"fmt"
	"os"

	"github.com/open2b/scriggo"
)

func main() {
	src, _ := os.ReadFile(os.Args[1])
	p, err := scriggo.Build(scriggo.Files{"main.go": src}, &scriggo.BuildOptions{AllowGoStmt: true})
	if err != nil {
		fmt.Println("BUILD ERROR:", err)
		return
	}
	err = p.Run(nil)
	fmt.Printf("RUN: %T %v\n", err, err)
	if pe, ok := err.(*scriggo.PanicError); ok {
		fmt.Printf("String=%q Path=%q Pos=%v\n", pe.String(), pe.Path(), pe.Position())
	}
}
