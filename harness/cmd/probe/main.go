package main

import (
	"context"
	"fmt"
	"os"
	"time"

	"github.com/open2b/scriggo"
)

func main() {
	src, _ := os.ReadFile(os.Args[1])
	p, err := scriggo.Build(scriggo.Files{"main.go": src}, &scriggo.BuildOptions{AllowGoStmt: true})
	if err != nil {
		fmt.Println("BUILD ERROR:", err)
		return
	}
	if os.Getenv("PROBE_DIS") != "" {
		asm, _ := p.Disassemble("main")
		fmt.Println(string(asm))
	}
	var ro *scriggo.RunOptions
	var cancel context.CancelFunc
	if os.Getenv("PROBE_CANCEL") != "" {
		ro = &scriggo.RunOptions{}
		ro.Context, cancel = context.WithCancel(context.Background())
	}
	err = p.Run(ro)
	if cancel != nil {
		cancel()
		time.Sleep(300 * time.Millisecond)
	}
	fmt.Printf("RUN: %T %v\n", err, err)
	if pe, ok := err.(*scriggo.PanicError); ok {
		fmt.Printf("String=%q Path=%q Pos=%v\n", pe.String(), pe.Path(), pe.Position())
	}
}
