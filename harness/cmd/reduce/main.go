// Command reduce is a development aid: line-based delta debugging of a Go
// program that makes scriggo misbehave.
//
//	reduce -re 'reflect.Value.Len' prog.go          keep: scriggo output matches the regexp
//	reduce -diff prog.go                            keep: scriggo output differs from gc's
//	reduce -run prog.go                             (internal) run under scriggo, print output
package main

import (
	"bytes"
	"context"
	"flag"
	"fmt"
	"go/ast"
	"go/importer"
	"go/parser"
	"go/token"
	"go/types"
	"os"
	"os/exec"
	"path/filepath"
	"regexp"
	"strings"
	"time"

	"github.com/open2b/scriggo"
)

var (
	reFlag   = flag.String("re", "", "regexp the scriggo output must match")
	diffFlag = flag.Bool("diff", false, "keep candidates whose scriggo output differs from gc's")
	runFlag  = flag.Bool("run", false, "internal: run the program under scriggo")
	gcOK     = flag.Bool("gcok", false, "with -re: also require that gc runs the candidate to a normal end")
	goBin    = flag.String("go", os.Getenv("VGO"), "go binary")
)

func main() {
	flag.Parse()
	path := flag.Arg(0)
	src, err := os.ReadFile(path)
	if err != nil {
		panic(err)
	}
	if *runFlag {
		runScriggo(src)
		return
	}
	var re *regexp.Regexp
	if *reFlag != "" {
		re = regexp.MustCompile(*reFlag)
	}
	tmp, _ := os.MkdirTemp("", "reduce-")
	defer os.RemoveAll(tmp)
	tests := 0
	interesting := func(lines []string) bool {
		s := strings.Join(lines, "\n") + "\n"
		if !typeChecks(s) {
			return false
		}
		tests++
		f := filepath.Join(tmp, "cand.go")
		os.WriteFile(f, []byte(s), 0o644)
		out := runChild(f)
		if re != nil {
			if !re.MatchString(out) {
				return false
			}
			if *gcOK {
				want, ok := runGC(tmp, s)
				return ok && !strings.Contains(want, "fatal error") && !strings.Contains(want, "panic:")
			}
			return true
		}
		if *diffFlag {
			want, ok := runGC(tmp, s)
			if !ok {
				return false
			}
			return normalize(out) != normalize(want)
		}
		return false
	}
	lines := strings.Split(strings.TrimRight(string(src), "\n"), "\n")
	if !interesting(lines) {
		fmt.Fprintln(os.Stderr, "the input is not interesting")
		os.Exit(1)
	}
	// ddmin over lines
	n := 2
	for len(lines) >= 2 {
		chunk := (len(lines) + n - 1) / n
		reduced := false
		for i := 0; i < len(lines); i += chunk {
			j := i + chunk
			if j > len(lines) {
				j = len(lines)
			}
			cand := append(append([]string(nil), lines[:i]...), lines[j:]...)
			if interesting(cand) {
				lines = cand
				if n > 2 {
					n--
				}
				reduced = true
				break
			}
		}
		if !reduced {
			if chunk == 1 {
				break
			}
			n *= 2
			if n > len(lines) {
				n = len(lines)
			}
		}
	}
	// second pass: remove brace-balanced regions and single lines until a fixpoint
	for changed := true; changed; {
		changed = false
		for i := 0; i < len(lines); i++ {
			t := strings.TrimSpace(lines[i])
			j := i
			if strings.HasSuffix(t, "{") {
				depth := 0
				for j = i; j < len(lines); j++ {
					depth += strings.Count(lines[j], "{") - strings.Count(lines[j], "}")
					if depth <= 0 {
						break
					}
				}
				if j >= len(lines) {
					continue
				}
			}
			cand := append(append([]string(nil), lines[:i]...), lines[j+1:]...)
			if interesting(cand) {
				lines = cand
				changed = true
				i--
			}
		}
	}
	fmt.Fprintf(os.Stderr, "%d lines, %d tests\n", len(lines), tests)
	fmt.Println(strings.Join(lines, "\n"))
}

func normalize(s string) string {
	// drop the goroutine trace of a gc crash and scriggo's RUN line
	if i := strings.Index(s, "\ngoroutine "); i >= 0 {
		s = s[:i]
	}
	var out []string
	for _, l := range strings.Split(s, "\n") {
		if strings.HasPrefix(l, "[signal ") || strings.HasPrefix(l, "exit status") {
			continue
		}
		out = append(out, l)
	}
	return strings.TrimSpace(strings.Join(out, "\n"))
}

func typeChecks(src string) bool {
	fset := token.NewFileSet()
	f, err := parser.ParseFile(fset, "main.go", src, 0)
	if err != nil {
		return false
	}
	conf := types.Config{Importer: importer.Default(), Error: func(error) {}}
	_, err = conf.Check("main", fset, []*ast.File{f}, nil)
	return err == nil
}

func runChild(file string) string {
	ctx, cancel := context.WithTimeout(context.Background(), 3*time.Second)
	defer cancel()
	exe, _ := os.Executable()
	cmd := exec.CommandContext(ctx, exe, "-run", file)
	var buf bytes.Buffer
	cmd.Stdout, cmd.Stderr = &buf, &buf
	cmd.Run()
	return buf.String()
}

func runGC(tmp, src string) (string, bool) {
	d := filepath.Join(tmp, "gc")
	os.MkdirAll(d, 0o755)
	os.WriteFile(filepath.Join(d, "go.mod"), []byte("module p\n\ngo 1.25\n"), 0o644)
	os.WriteFile(filepath.Join(d, "main.go"), []byte(src), 0o644)
	b := exec.Command(*goBin, "build", "-o", "p.bin", ".")
	b.Dir = d
	b.Env = append(os.Environ(), "GOFLAGS=-mod=mod", "GOPROXY=off", "GOTOOLCHAIN=local")
	if err := b.Run(); err != nil {
		return "", false
	}
	ctx, cancel := context.WithTimeout(context.Background(), 3*time.Second)
	defer cancel()
	cmd := exec.CommandContext(ctx, filepath.Join(d, "p.bin"))
	var buf bytes.Buffer
	cmd.Stdout, cmd.Stderr = &buf, &buf
	cmd.Env = append(os.Environ(), "GOTRACEBACK=single")
	cmd.Run()
	if ctx.Err() != nil {
		return "", false
	}
	return buf.String(), true
}

func runScriggo(src []byte) {
	p, err := scriggo.Build(scriggo.Files{"main.go": src}, &scriggo.BuildOptions{AllowGoStmt: true})
	if err != nil {
		fmt.Println("BUILD ERROR:", err)
		return
	}
	ro := &scriggo.RunOptions{}
	if os.Getenv("NOCTX") == "" {
		ctx, cancel := context.WithTimeout(context.Background(), 3*time.Second)
		defer cancel()
		ro.Context = ctx
	}
	err = p.Run(ro)
	if err != nil {
		if pe, ok := err.(*scriggo.PanicError); ok {
			fmt.Fprintln(os.Stderr, "panic: "+strings.TrimRight(pe.Error(), "\n"))
		} else {
			fmt.Fprintln(os.Stderr, "error: "+err.Error())
		}
	}
}
