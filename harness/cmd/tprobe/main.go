package main

import (
	"fmt"
	"os"
	"strings"

	"github.com/open2b/scriggo"
	"github.com/open2b/scriggo/native"
)

type Counter struct{ N int }

func (c *Counter) Add(n int) int { c.N += n; return c.N }

func main() {
	src := `{% macro Row(s string, i int) %}<li>{{ tag(rid + ":" + s) }}-{{ i }}</li>{% end %}
{% for i, it := range items %}{{ Row(it, i) }}{% end %}
{{ join(rid, "a", "b") }} {{ apply(func(s string) string { return s + rid }, "x") }}
{% f := mk() %}{{ f(n) }} {{ obj.Add(n) }} {% g := obj.Add %}{{ g(2) }}
{%% for j := 0; j < n; j++ { kvput(rid, sprint(j)) } %%}{{ kvget(rid) }}
{% var total = 0 %}{% for _, v := range nums %}{% total += v %}{% end %}{{ total }}
`
	globals := native.Declarations{
		"rid": (*string)(nil), "n": (*int)(nil), "items": (*[]string)(nil), "nums": (*[]int)(nil), "obj": (**Counter)(nil),
		"tag":    func(env native.Env, s string) string { return strings.ToUpper(s) },
		"join":   func(parts ...string) string { return strings.Join(parts, "+") },
		"apply":  func(f func(string) string, s string) string { return f(s) + f("y") },
		"mk":     func() func(int) int { return func(i int) int { return i * 3 } },
		"kvput":  func(k, v string) {},
		"kvget":  func(k string) string { return "v" },
		"sprint": func(i int) string { return fmt.Sprint(i) },
	}
	t, err := scriggo.BuildTemplate(scriggo.Files{"index.html": []byte(src)}, "index.html", &scriggo.BuildOptions{Globals: globals})
	if err != nil {
		fmt.Println("BUILD:", err)
		return
	}
	c := &Counter{}
	err = t.Run(os.Stdout, map[string]any{"rid": "r1", "n": 3, "items": []string{"a", "b"}, "nums": []int{1, 2}, "obj": c}, nil)
	fmt.Println("ERR:", err)
}
