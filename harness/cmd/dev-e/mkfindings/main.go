// Command mkfindings writes props/c06/findings.json (witness cases need typed, base64 values).
package main

import (
	"encoding/json"
	"os"

	"verif/core"
	"verif/gen/tmplgen"
	"verif/props/c06"
)

type finding struct {
	Property string    `json:"property"`
	ID       string    `json:"id"`
	Status   string    `json:"status"`
	Commit   string    `json:"commit,omitempty"`
	Fix      string    `json:"fix,omitempty"`
	What     string    `json:"what"`
	Scope    string    `json:"scope,omitempty"`
	Witness  core.Case `json:"witness"`
}

func s(v string) []tmplgen.Value {
	return []tmplgen.Value{tmplgen.StrVal(tmplgen.TString, v, "witness")}
}

func html(src string) map[string]string { return map[string]string{"index.html": src} }

var str = []string{tmplgen.TString}

// landed maps fixed findings to the proposed fix (the lead resolves PENDING to the commit through proposed_fixes/APPLIED.txt).
var landed = map[string][2]string{
	"C06-F2":  {"PENDING", "C06-string-escaped-backslash.diff"},
	"C06-F3":  {"PENDING", "C06-tag-context-space.diff"},
	"C06-F4":  {"PENDING", "C06-script-type-js-mime.diff"},
	"C06-F23": {"PENDING", "C06-lexer-context-raw-labelled.diff"},
	"C06-F24": {"PENDING", "C06-script-first-type-attribute.diff"},
	"C06-F25": {"PENDING", "C06-tag-name-show.diff"},
}

func main() {
	var fs []finding
	add := func(id, status, scope, what string, w core.Case) {
		f := finding{Property: "C06", ID: id, Status: status, What: what, Scope: scope, Witness: w}
		if status == "fixed" {
			f.Commit, f.Fix = "PENDING", ""
			if l, ok := landed[id]; ok {
				f.Commit, f.Fix = l[0], l[1]
			}
			f.Scope = ""
		}
		fs = append(fs, f)
	}
	add("C06-F1", "open", tmplgen.ScopeRenderOtherFormat,
		"{{ render \"x.txt\" }} in an HTML file (any rendered file whose format differs from the context, or any render inside an attribute or string) is written raw instead of being escaped for the context",
		c06.Witness("finding:C06-F1", "index.html", map[string]string{"index.html": "<p>{{ render \"x.txt\" }}</p><script>var a = {{ render \"y.html\" }};</script>", "x.txt": "{{ v0 }}", "y.html": "{{ v0 }}"}, str, s("<script>alert(1)</script>")))
	add("C06-F2", "fixed", tmplgen.ScopeEscapedBackslash,
		"a JS/CSS/JSON string literal ending with an escaped backslash (\"x\\\\\") leaves the lexer inside the string: following values are emitted unquoted into code",
		c06.Witness("finding:C06-F2", "index.html", html("<script>var a = \"x\\\\\"; var b = {{ v0 }};</script><style>s { content: \"x\\\\\"; left: {{ v0 }} }</style>"), str, s("alert(1) ;x")))
	add("C06-F3", "fixed", tmplgen.ScopeTagSpace,
		"a value shown in tag context keeps its spaces and becomes several attribute names",
		c06.Witness("finding:C06-F3", "index.html", html("<input {{ v0 }}><h{{ v0 }}>x</h1>"), str, s("1 disabled autofocus")))
	add("C06-F4", "fixed", tmplgen.ScopeScriptTypeJS,
		"script elements whose type is a JavaScript MIME type other than text/javascript (application/javascript, text/ecmascript, ...) or a case/space variant of module are executed by browsers but lexed as HTML: values are only HTML-escaped inside code",
		c06.Witness("finding:C06-F4", "index.html", html("<script type=\"application/javascript\">var x = {{ v0 }};</script><script type=\"MODULE\">var y = {{ v0 }};</script>"), str, s("alert(1)")))
	add("C06-F5", "open", tmplgen.ScopeRegexQuote,
		"after a JavaScript regular-expression literal containing a quote (/\"/) the lexer is inside a string: values are emitted unquoted into code",
		c06.Witness("finding:C06-F5", "index.html", html("<script>var r = /\"/; var x = {{ v0 }};</script>"), str, s("1;alert(1)//")))
	add("C06-F6", "open", tmplgen.ScopeTemplateQuote,
		"after a JavaScript template literal containing a quote the lexer is inside a string: values are emitted unquoted into code",
		c06.Witness("finding:C06-F6", "index.html", html("<script>var t = `it's`; var x = {{ v0 }};</script>"), str, s("1;alert(1)//")))
	add("C06-F7", "open", tmplgen.ScopeTemplateHole,
		"a value shown inside a JavaScript template literal is rendered as a quoted JS string whose escaping leaves ` and ${ untouched: it ends the template literal",
		c06.Witness("finding:C06-F7", "index.html", html("<script>var t = `v: {{ v0 }} w`;</script>"), str, s("`+alert(1)+`")))
	add("C06-F8", "open", tmplgen.ScopeCSSCommentQuote,
		"after a CSS comment containing a quote the lexer is inside a string: values are emitted unquoted into the style sheet",
		c06.Witness("finding:C06-F8", "index.html", html("<style>/* it's */ p { color: {{ v0 }} }</style>"), str, s("red blue")))
	add("C06-F9", "open", tmplgen.ScopeEventAttr,
		"event-handler attributes (on*) are treated as plain attributes: values are HTML-escaped only and reach the JavaScript parser as code",
		c06.Witness("finding:C06-F9", "index.html", html("<button onclick=\"go({{ v0 }})\">b</button>"), str, s("1);alert(1")))
	add("C06-F10", "open", tmplgen.ScopeStyleAttr,
		"style attributes are treated as plain attributes: values are HTML-escaped only and reach the CSS parser as declarations",
		c06.Witness("finding:C06-F10", "index.html", html("<p style=\"color: {{ v0 }}\">s</p>"), str, s("red; background: url(javascript:alert(1))")))
	add("C06-F11", "open", tmplgen.ScopeDoubleEscaped,
		"<script><!-- <script> </script> ... : the script-data double-escaped state keeps a browser inside the script element while the lexer is back in HTML; values are HTML-escaped into code",
		c06.Witness("finding:C06-F11", "index.html", html("<script>\n<!-- <script> </script>\nvar de = {{ v0 }};\n--></script>"), str, s("alert(1)")))
	add("C06-F12", "open", tmplgen.ScopeUnquotedEmpty,
		"an empty value in an unquoted attribute value (a={{ v }} b=c) makes the HTML tokenizer take the next attribute as the value",
		c06.Witness("finding:C06-F12", "index.html", html("<input value={{ v0 }} disabled title=x>"), str, s("")))
	add("C06-F13", "open", tmplgen.ScopeJSCommentHole,
		"a value shown inside a JavaScript block comment is rendered as a JS string literal, whose escaping leaves */ untouched: it ends the comment",
		c06.Witness("finding:C06-F13", "index.html", html("<script>/* c {{ v0 }} */ var x = 1;</script>"), str, s("*/alert(1)/*")))
	add("C06-F14", "open", tmplgen.ScopeMinusAdjacent,
		"a negative number shown right after a minus sign (y -{{ n }}) merges with it into the -- operator",
		c06.Witness("finding:C06-F14", "index.html", html("<script>x = y -{{ v0 }};</script>"), []string{tmplgen.TInt}, []tmplgen.Value{{T: tmplgen.TInt, I: -1, Class: "negative"}}))
	md := func(src string) map[string]string { return map[string]string{"index.md": src} }
	add("C06-F15", "open", tmplgen.ScopeMDBareURL,
		"a value shown in a bare URL of a Markdown file is URL-escaped only; *, _ and ~ pass and form emphasis",
		c06.Witness("finding:C06-F15", "index.md", md("Visit http://example.com/{{ v0 }} now.\n"), str, s("*em*")))
	add("C06-F16", "open", tmplgen.ScopeMDAutolink,
		"a Markdown autolink <http://...{{ v }}> is lexed as an HTML tag: the value is shown in tag context, where < passes and ends the autolink",
		c06.Witness("finding:C06-F16", "index.md", md("Auto <http://example.com/{{ v0 }}> link.\n"), str, s("a<b")))
	add("C06-F17", "open", tmplgen.ScopeMDURLMacro,
		"a macro call shown in a URL of a Markdown file writes its body with Markdown escaping instead of URL escaping (show-macro optimisation ignores the URL state): a space ends the link destination",
		c06.Witness("finding:C06-F17", "index.md", md("{% macro S(p string) %}{{ p }}{% end %}[link](http://example.com/p/{{ S(v0) }})\n"), str, s("a b")))
	add("C06-F18", "open", tmplgen.ScopeMDEmphasisAdj,
		"a value ending in white space shown directly before a closing emphasis delimiter (*emph {{ v }}*) stops the delimiter from closing: the emphasis disappears (low severity, inherent to Markdown flanking rules)",
		c06.Witness("finding:C06-F18", "index.md", md("Some *emph {{ v0 }}* text.\n"), str, s("a ")))
	add("C06-F19", "open", tmplgen.ScopeCommentQuote,
		"HTML comments are lexed as markup: a tag with an unbalanced quote inside a comment (<!-- <a title=\"x> -->) shifts the lexer's attribute state, so a later value in HTML text is shown in tag context, where <!-- passes",
		c06.Witness("finding:C06-F19", "index.html", html("<!-- don't <a title=\"x> here --><p>Say \"{{ v0 }}\" now</p><p>end</p>"), str, s("<!--")))
	add("C06-F20", "open", tmplgen.ScopeImportMap,
		"script elements of type importmap and speculationrules are parsed as JSON by browsers but lexed as HTML: values inside their strings are HTML-escaped, so a backslash or a line terminator breaks the JSON string",
		c06.Witness("finding:C06-F20", "index.html", html("<script type=\"importmap\">{\"imports\": {\"a\": \"/x/{{ v0 }}\", \"b\": \"/y/z.js\"}}</script>"), str, s("\\")))
	add("C06-F21", "open", tmplgen.ScopeTypedMacroTag,
		"inside a macro whose explicit result type differs from the format of the file, the lexer returns to the file's context after an HTML tag: the rest of a markdown-typed macro body in an HTML file is escaped as HTML and then converted as Markdown (*a* becomes emphasis); the rest of an html-typed macro body in a Markdown file is escaped as Markdown",
		c06.Witness("finding:C06-F21", "index.html", html("{% macro M(p string) markdown %}<b>x</b> {{ p }}{% end %}<div>{{ M(v0) }}</div>"), str, s("*a* [l](http://evil.example/)")))
	add("C06-F22", "open", tmplgen.ScopeRawTextTagQuote,
		"the content of RCDATA and raw-text elements (title, textarea, xmp, noscript, iframe, ...) is lexed as markup: a tag with an unbalanced quote inside it (<textarea><a title=\"x</textarea>) leaves the lexer in an attribute value, so values in a following script are HTML-escaped into code and unquoted attribute values keep their spaces",
		c06.Witness("finding:C06-F22", "index.html", html("<textarea><a title=\"x</textarea><script>var c = {{ v0 }};</script><p title={{ v0 }}>x</p>"), str, s("alert(1) onclick")))
	add("C06-F23", "fixed", tmplgen.ScopeRawLabelled,
		"{% raw %} and labeled statements ({% L: for ... %}) inside a macro with an explicit result type or a using body pop the lexer's saved context at their {% end %}: the rest of the body is lexed in the context of the file, a value in a js macro is HTML-escaped instead of quoted",
		c06.Witness("finding:C06-F23", "index.html", html("{% macro M(p string) js %}{% raw %}/* r */{% end raw %}{{ p }}{% end macro %}{% macro N(p string) js %}{% L: for i := 0; i < 1; i++ %}/* r */{% break L %}{% end for %}{{ p }}{% end macro %}<script>var a = {{ M(v0) }}; var b = {{ N(v0) }};</script>"), str, s("1;alert(1)")))
	add("C06-F24", "fixed", tmplgen.ScopeDupType,
		"a script element with two type attributes is lexed by the last non-JavaScript one while browsers use the first: <script type=\"text/javascript\" type=\"text/plain\"> is executed, its values are only HTML-escaped",
		c06.Witness("finding:C06-F24", "index.html", html("<script type=\"text/javascript\" type=\"text/plain\">var a = {{ v0 }};</script>"), str, s("alert(1)")))
	add("C06-F25", "fixed", tmplgen.ScopeTagNameWhole,
		"a value used as a whole tag name (<{{ x }}>) is shown in HTML context (HTML-escaped only): a space in it starts attributes",
		c06.Witness("finding:C06-F25", "index.html", html("<{{ v0 }} class=c>t</div>"), str, s("img src=y onerror=alert(1)")))
	add("C06-F26", "open", tmplgen.ScopeRegexHole,
		"a value shown inside a JavaScript regular-expression literal is rendered as a quoted JS string, whose escaping leaves / and [ untouched: it ends or unbalances the literal",
		c06.Witness("finding:C06-F26", "index.html", html("<script>var r = /a{{ v0 }}b/; var c = 1;</script>"), str, s("/;alert(1);/")))
	add("C06-F27", "open", tmplgen.ScopeMDCodeSpan,
		"a value shown inside a Markdown code span is backslash-escaped, but backslash escapes do not work in code spans: a back quote in the value ends the span",
		c06.Witness("finding:C06-F27", "index.md", md("Inline `a {{ v0 }} b` code.\n"), str, s("x` *em* `y")))
	add("C06-F28", "open", tmplgen.ScopeBytesHTML,
		"a []byte value (a slice of numbers, not a trusted type) is written raw in HTML context; the repository's test \"Byte slices are rendered as they are in context HTML\" pins this behaviour, so it is recorded, not repaired",
		c06.Witness("finding:C06-F28", "index.html", html("<p>{{ v0 }}</p>"), []string{tmplgen.TBytes}, []tmplgen.Value{tmplgen.StrVal(tmplgen.TBytes, "<script>alert(1)</script>", "witness")}))
	b, _ := json.MarshalIndent(fs, "", " ")
	os.WriteFile("props/c06/findings.json", append(b, '\n'), 0o644)
}
