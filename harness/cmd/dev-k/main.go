// Command vcheck is driver and worker of every property check.
//
//	vcheck run <id> <quick|thorough>
//	vcheck replay <file>
//	vcheck worker <id> <batch> <journal> <from> <to>
//	vcheck list
package main

import (
	"fmt"
	"os"

	"verif/core"
	_ "verif/props/c01"
)

func main() {
	if len(os.Args) < 2 {
		fmt.Fprintln(os.Stderr, "usage: vcheck run|replay|worker|list ...")
		os.Exit(2)
	}
	switch os.Args[1] {
	case "worker":
		os.Exit(core.WorkerMain(os.Args[2:]))
	case "run":
		if len(os.Args) < 4 {
			fmt.Fprintln(os.Stderr, "usage: vcheck run <id> <quick|thorough>")
			os.Exit(2)
		}
		os.Exit(core.DriverMain(os.Args[2], os.Args[3]))
	case "replay":
		if len(os.Args) < 3 {
			fmt.Fprintln(os.Stderr, "usage: vcheck replay <file>")
			os.Exit(2)
		}
		os.Exit(core.ReplayMain(os.Args[2]))
	case "list":
		for _, id := range core.IDs() {
			fmt.Println(id)
		}
	default:
		fmt.Fprintln(os.Stderr, "unknown command", os.Args[1])
		os.Exit(2)
	}
}
