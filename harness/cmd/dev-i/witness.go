package main

import (
	"encoding/json"
	"fmt"

	fp "verif/gen/faultprog"
)

// witness (development aid): dev-i witness prog|tmpl <placement> <fault> prints the
// C05 case data of one (placement, fault) pair as JSON.
func witness(kind, placement, fault string) {
	f, ok := fp.FaultByName(fault)
	if !ok {
		fmt.Println("unknown fault")
		return
	}
	var data map[string]any
	if kind == "prog" {
		pl, ok := fp.PlacementByName(placement)
		if !ok {
			fmt.Println("unknown placement")
			return
		}
		g, _ := fp.FaultByName("nilmap_write")
		h, _ := fp.FaultByName("index_slice_read")
		data = map[string]any{"kind": "prog", "label": placement + "/" + fault, "src": pl.Build(f, g, h).Src, "panics": f.Panics}
	} else {
		for _, pl := range fp.TmplPlacements {
			if pl.Name == placement {
				data = map[string]any{"kind": "tmpl", "label": placement + "/" + fault, "files": pl.Build(f), "main": pl.Main, "panics": f.Panics}
			}
		}
	}
	b, _ := json.Marshal(data)
	fmt.Println(string(b))
}
