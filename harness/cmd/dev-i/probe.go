package main

import (
	"fmt"
	"os"
	"strings"

	"github.com/open2b/scriggo"

	"verif/core"
	fp "verif/gen/faultprog"
)

// probe (development aid): dev-i probe <file>  runs a program (or, for a file with
// "== name" sections, a template) with the faultprog natives and prints what happened.
func probe(path string) {
	b, err := os.ReadFile(path)
	if err != nil {
		fmt.Println(err)
		return
	}
	log := fp.NewLog()
	var runErr error
	var out strings.Builder
	var pv any
	var panicked bool
	var stack string
	if strings.HasPrefix(string(b), "== ") {
		files := scriggo.Files{}
		var cur string
		for _, l := range strings.SplitAfter(string(b), "\n") {
			if strings.HasPrefix(l, "== ") {
				cur = strings.TrimSpace(l[3:])
				files[cur] = nil
				continue
			}
			files[cur] = append(files[cur], l...)
		}
		t, err := scriggo.BuildTemplate(files, "index.html", &scriggo.BuildOptions{Packages: fp.Packages(log)})
		if err != nil {
			fmt.Println("BUILD ERR:", err)
			return
		}
		pv, panicked, stack = core.Guard(func() { runErr = t.Run(&out, nil, nil) })
	} else {
		p, err := scriggo.Build(scriggo.Files{"main.go": b}, &scriggo.BuildOptions{Packages: fp.Packages(log)})
		if err != nil {
			fmt.Println("BUILD ERR:", err)
			return
		}
		pv, panicked, stack = core.Guard(func() { runErr = p.Run(&scriggo.RunOptions{Print: func(v any) { log.Add("P") }}) })
	}
	fmt.Println("events:", log.Events)
	if out.Len() > 0 {
		fmt.Printf("output: %q\n", out.String())
	}
	if panicked {
		fmt.Printf("HOST PANIC %T: %v\n%s\n", pv, pv, stack)
		return
	}
	fmt.Printf("err: %T %v\n", runErr, runErr)
	if pe, ok := runErr.(*scriggo.PanicError); ok {
		n := 0
		for p := pe; p != nil && n < 10; p, n = p.Next(), n+1 {
			fmt.Printf("  chain[%d] %q recovered=%v path=%q pos=%v\n", n, p.String(), p.Recovered(), p.Path(), p.Position())
		}
	}
}
