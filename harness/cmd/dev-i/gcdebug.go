package main

import (
	"fmt"
	"os"
	"os/exec"
	"strconv"

	"verif/core"
	fp "verif/gen/faultprog"
	"verif/oracle/gcpanic"
)

// gcdebug (development aid): dev-i gcdebug <n>  builds the first n nests of seed 1 with
// gc and prints the raw crash output of the ones that panic.
func gcdebug(n int) {
	r := core.Rand(1, "C12/nests")
	var srcs []string
	var nests []fp.Nest
	for i := 0; i < n; i++ {
		ns := fp.GenNest(r, fp.NestOpts{ClosureOnly: i%3 == 0})
		nests = append(nests, ns)
		srcs = append(srcs, fp.GcProgram(ns.Src, i))
	}
	dir, _ := os.MkdirTemp("/tmp/i-tmp", "gcdebug")
	ref, err := gcpanic.Build(os.Getenv("VGO"), dir, fp.GcPkg, srcs)
	if err != nil {
		fmt.Println(err)
		return
	}
	for i := range nests {
		cmd := exec.Command(ref.Exe, strconv.Itoa(i))
		out, _ := cmd.CombinedOutput()
		exp, err := ref.Run(i)
		fmt.Printf("=== %d %+v %v\n%s\n", i, exp, err, out)
	}
	fmt.Println(dir)
}
