// Command gentest writes N generated programs into a directory (development aid).
package main

import (
	"fmt"
	"os"
	"path/filepath"
	"strconv"

	"verif/core"
	"verif/gen/goprog"
)

func main() {
	dir := os.Args[1]
	n, _ := strconv.Atoi(os.Args[2])
	seed := int64(1)
	if len(os.Args) > 3 {
		seed, _ = strconv.ParseInt(os.Args[3], 10, 64)
	}
	os.MkdirAll(dir, 0o755)
	os.WriteFile(filepath.Join(dir, "go.mod"), []byte("module progs\n\ngo 1.21\n"), 0o644)
	for i := 0; i < n; i++ {
		r := core.Rand(seed, fmt.Sprintf("prog%d", i))
		p := goprog.Generate(r, goprog.DefaultConfig())
		d := filepath.Join(dir, fmt.Sprintf("p%04d", i))
		os.MkdirAll(d, 0o755)
		os.WriteFile(filepath.Join(d, "main.go"), []byte(p.Source), 0o644)
	}
}
