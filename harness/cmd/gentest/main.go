// Command gentest writes N generated programs into a directory (development aid).
package main

import (
	"fmt"
	"os"
	"path/filepath"
	"strconv"

	"verif/core"
	"verif/gen/goconc"
	"verif/gen/goprog"
)

func main() {
	kind := os.Args[1]
	dir := os.Args[2]
	n, _ := strconv.Atoi(os.Args[3])
	seed := int64(1)
	if len(os.Args) > 4 {
		seed, _ = strconv.ParseInt(os.Args[4], 10, 64)
	}
	os.MkdirAll(dir, 0o755)
	os.WriteFile(filepath.Join(dir, "go.mod"), []byte("module progs\n\ngo 1.25\n"), 0o644)
	for i := 0; i < n; i++ {
		r := core.Rand(seed, fmt.Sprintf("prog%d", i))
		var src string
		if kind == "conc" {
			src = goconc.Generate(r).Source
		} else {
			src = goprog.Generate(r, goprog.DefaultConfig()).Source
		}
		d := filepath.Join(dir, fmt.Sprintf("p%04d", i))
		os.MkdirAll(d, 0o755)
		os.WriteFile(filepath.Join(d, "main.go"), []byte(src), 0o644)
	}
}
