// Package mon holds monitors shared by the concurrency checks: the schedule
// perturbation hook (seeded yields at the VM's yield sites) and the interleaving
// trace recorder.
package mon

import (
	"crypto/sha1"
	"encoding/hex"
	"runtime"
	"sync"
	"sync/atomic"
	"time"

	"github.com/open2b/scriggo"
)

var (
	yieldSeed  atomic.Uint64 // 0 = no perturbation
	traceOn    atomic.Bool
	traceMu    sync.Mutex
	traceSites []byte
	yields     atomic.Int64
	sleeps     atomic.Int64
	siteCount  [16]atomic.Int64
	installed  sync.Once
	stepHook   atomic.Pointer[func(vm uintptr, n uint64)]
	doneHook   atomic.Pointer[func()]
	nativeHook atomic.Pointer[func(pkg, name string, fn any)]
)

// Install installs the VM hooks once per process. It must be called before any run.
func Install() {
	installed.Do(func() {
		scriggo.VerifSetHooks(scriggo.VerifHooks{
			Yield: yield,
			Step: func(vm uintptr, n uint64) {
				if h := stepHook.Load(); h != nil {
					(*h)(vm, n)
				}
			},
			DoneSet: func() {
				if h := doneHook.Load(); h != nil {
					(*h)()
				}
			},
		})
	})
}

// SetStepHook sets (or clears, with nil) the per-instruction hook. Not to be called while code runs.
func SetStepHook(f func(vm uintptr, n uint64)) {
	if f == nil {
		stepHook.Store(nil)
		return
	}
	stepHook.Store(&f)
}

// SetDoneHook sets (or clears) the done-flag hook.
func SetDoneHook(f func()) {
	if f == nil {
		doneHook.Store(nil)
		return
	}
	doneHook.Store(&f)
}

func mix(x uint64) uint64 {
	x ^= x >> 33
	x *= 0xff51afd7ed558ccd
	x ^= x >> 33
	x *= 0xc4ceb9fe1a85ec53
	x ^= x >> 33
	return x
}

// yield is the VM hook: a decision that depends only on (seed, site, per-VM counter).
func yield(vm uintptr, site int, n uint64) {
	if site >= 0 && site < len(siteCount) {
		siteCount[site].Add(1)
	}
	if traceOn.Load() {
		traceMu.Lock()
		traceSites = append(traceSites, byte(site))
		traceMu.Unlock()
	}
	seed := yieldSeed.Load()
	if seed == 0 {
		return
	}
	h := mix(seed ^ uint64(site)*0x9E3779B97F4A7C15 ^ n*0xD1B54A32D192ED03)
	switch {
	case h%5 == 0:
		yields.Add(1)
		runtime.Gosched()
	case h%37 == 1:
		sleeps.Add(1)
		time.Sleep(time.Duration(20+h%200) * time.Microsecond)
	}
}

// SetSchedule selects the perturbation seed (0 disables) and whether the site trace is recorded.
func SetSchedule(seed uint64, trace bool) {
	yieldSeed.Store(seed)
	traceMu.Lock()
	traceSites = traceSites[:0]
	traceMu.Unlock()
	traceOn.Store(trace)
}

// TraceSignature returns a hash of the recorded sequence of yield sites and its length.
func TraceSignature() (string, int) {
	traceMu.Lock()
	defer traceMu.Unlock()
	sum := sha1.Sum(traceSites)
	return hex.EncodeToString(sum[:6]), len(traceSites)
}

// Counters returns and resets the yield counters.
func Counters() map[string]int64 {
	m := map[string]int64{"yields_taken": yields.Swap(0), "sleeps_injected": sleeps.Swap(0)}
	names := []string{"", "go-before", "go-after", "send", "receive", "select", "args-get", "native-call", "args-put"}
	for i := range siteCount {
		if n := siteCount[i].Swap(0); n > 0 && i < len(names) {
			m["site:"+names[i]] = n
		}
	}
	return m
}
