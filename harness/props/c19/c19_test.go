package c19

import (
	"reflect"
	"runtime"
	"strings"
	"testing"

	"github.com/open2b/scriggo/native"

	"verif/core"
)

// The call-log name of every supplied function must be the name FuncForPC gives
// (the cross-check of the two logs depends on it).
func TestLogNames(t *testing.T) {
	resetHostVars()
	check := func(fn reflect.Value, args ...reflect.Value) {
		t.Helper()
		want := strings.TrimPrefix(runtime.FuncForPC(fn.Pointer()).Name(), hostPkg)
		takeCalls()
		if fn.Type().IsVariadic() {
			fn.CallSlice(args)
		} else {
			fn.Call(args)
		}
		log := takeCalls()
		if len(log) == 0 || canon(log[0]) != canon(want) {
			t.Errorf("function %s logged %v", want, log)
		}
	}
	v := reflect.ValueOf
	check(v(hostAdd), v(1), v(2))
	check(v(hostDouble), v(1))
	check(v(hostLen), v("a"))
	check(v(hostUpper), v("a"))
	check(v(hostIndex), v("a"), v("b"))
	check(v(hostHasPrefix), v("a"), v("b"))
	check(v(hostRepeat), v("a"), v(1))
	check(v(hostTouch))
	check(v(hostSum), v([]int{1}))
	check(v(hostSprint), v([]any{1}))
	check(v(hostGetenv), v("a"))
	check(v(hostMakeAdder), v(1))
	check(v(hostMakeAdder).Call([]reflect.Value{v(1)})[0], v(1))
	check(v(hostIdentity), v(hostDouble))
	check(v(hostNewCounter))
	check(v(hostGetShape))
	check(v(hostApply), v(func(int) int { return 0 }), v(1))
	for _, typ := range []reflect.Type{reflect.TypeFor[*HostCounter](), reflect.TypeFor[HostSquare](), reflect.TypeFor[HostCelsius](), reflect.TypeFor[HostInner]()} {
		for i := 0; i < typ.NumMethod(); i++ {
			m := typ.Method(i)
			args := []reflect.Value{reflect.New(typ).Elem()}
			if typ.Kind() == reflect.Pointer {
				args[0] = reflect.New(typ.Elem())
			}
			for j := 1; j < m.Type.NumIn(); j++ {
				args = append(args, reflect.Zero(m.Type.In(j)))
			}
			check(m.Func, args...)
		}
	}
}

func TestDecoders(t *testing.T) {
	selfTest()
	if !methodDecoderOK {
		t.Error("method value decoder does not work with this toolchain")
	}
	if !makeFuncDecoderOK {
		t.Error("MakeFunc decoder does not work with this toolchain")
	}
}

func TestClassify(t *testing.T) {
	selfTest()
	sup := newSupplied()
	sup.addDecls(allPackages()["hostlib"].Declarations)
	methods := sup.methodNames()
	mk := func(fn any) hookEvent {
		takeHookLog()
		nativeCallHook("p", "n", reflect.ValueOf(fn))
		return takeHookLog()[0]
	}
	c := &HostCounter{}
	rm := func(x any, name string) any { return reflect.ValueOf(x).MethodByName(name).Interface() }
	allowed := []any{hostAdd, reflect.ValueOf(hostMakeAdder).Call([]reflect.Value{reflect.ValueOf(1)})[0].Interface(), c.Inc, rm(c, "Inc"), (*HostCounter).Inc,
		HostSquare{}.Area, rm(HostSquare{}, "Area"), rm(HostCelsius(1), "String"), HostSquare.Secret}
	for _, fn := range allowed {
		ev := mk(fn)
		if class, _ := sup.classify(ev, methods); class == "" {
			t.Errorf("%s must be inside the allow set", ev)
		}
	}
	var sb strings.Builder
	denied := []any{forbiddenSentinel, (*HostCounter).secret, c.secret, strings.ToUpper, sb.WriteString, hostGetenv, func() {}, reflect.ValueOf}
	for _, fn := range denied {
		ev := mk(fn)
		if class, _ := sup.classify(ev, methods); class != "" {
			t.Errorf("%s must be outside the allow set (got class %s)", ev, class)
		}
	}
	// a supplied variable holding a standard function makes that function supplied
	f := strings.ToUpper
	sup.addDecls(native.Declarations{"F": &f})
	if class, _ := sup.classify(mk(strings.ToUpper), methods); class == "" {
		t.Error("a function held by a supplied variable must be inside the allow set")
	}
	// a value behind a supplied interface type is a supplied value, whatever its dynamic type
	sup2 := newSupplied()
	sup2.addDecls(native.Declarations{"getShape": hostGetShape, "Secreter": reflect.TypeFor[HostSecreter]()})
	m2 := sup2.methodNames()
	if class, _ := sup2.classify(mk(rm(HostSquare{}, "Secret")), m2); class == "" {
		t.Error("a method of the value behind a supplied interface must be inside the allow set")
	}
	if class, _ := sup2.classify(mk(rm(c, "Inc")), m2); class != "" {
		t.Error("(*HostCounter).Inc must be outside the allow set when nothing supplied reaches HostCounter")
	}
	// log name of method values
	ev := mk(rm(c, "Inc"))
	if _, ln := sup.classify(ev, methods); canon(ln) != "HostCounter.Inc" {
		t.Errorf("log name of method value = %q (target %s)", ln, ev.Target)
	}
	ev = mk(rm(HostSquare{}, "Area"))
	if _, ln := sup.classify(ev, methods); canon(ln) != "HostSquare.Area" {
		t.Errorf("log name of method value = %q (target %s)", ln, ev.Target)
	}
}

// Cases the generator expects to build must build, and the oracle must be silent
// on the unchanged tree.
func TestGeneratedCases(t *testing.T) {
	g := &gen{r: core.Rand(5, "t")}
	stat := map[string]int{}
	bad := 0
	for i := 0; i < 600; i++ {
		var cd caseData
		if i%2 == 0 {
			cd = g.program()
		} else {
			cd = g.template()
		}
		r := prop{}.Work(core.NewCase("t", cd))
		stat[cd.Kind+"/"+cd.Expect+"/"+r.Status]++
		if r.Status != core.OK && bad < 8 {
			bad++
			t.Errorf("case %d: %s: %s", i, r.Status, core.Truncate(r.Detail, 1800))
		}
	}
	t.Log(stat)
}

// The model of the importer contract: the first importer that answers with a
// package or an error decides; nested chains behave like their flattening.
func TestChainModel(t *testing.T) {
	p := func(v string) link { return link{Type: "packages", Pkgs: map[string]string{"shadow": v}} }
	e := link{Type: "custom", ID: "E", Err: []string{"shadow"}}
	n := link{Type: "custom"}
	cases := []struct {
		chain []link
		want  answer
	}{
		{[]link{n, p("2")}, answer{Kind: "pkg", Variant: "2"}},
		{[]link{p("1"), p("2")}, answer{Kind: "pkg", Variant: "1"}},
		{[]link{e, p("2")}, answer{Kind: "err", Msg: e.errMsg("shadow")}},
		{[]link{p("1"), e}, answer{Kind: "pkg", Variant: "1"}},
		{[]link{n, n}, answer{Kind: "nil"}},
		{[]link{{Nested: []link{n, e}}, p("3")}, answer{Kind: "err", Msg: e.errMsg("shadow")}},
		{[]link{{Nested: []link{n, n}}, p("3")}, answer{Kind: "pkg", Variant: "3"}},
		// native.Packages cannot return an error
		{[]link{{Type: "packages", Err: []string{"shadow"}}, p("2")}, answer{Kind: "pkg", Variant: "2"}},
	}
	for i, c := range cases {
		if got := chainAnswer(c.chain, "shadow"); got != c.want {
			t.Errorf("case %d: model says %+v, want %+v", i, got, c.want)
		}
		// the real importers built from the same description agree with the model
		// on the unchanged native package
		pk, err := makeChainImporter(c.chain).Import("shadow")
		switch {
		case c.want.Kind == "pkg" && (pk == nil || err != nil || pk.Lookup("Only"+c.want.Variant) == nil):
			t.Errorf("case %d: real chain gave %v, %v; model %+v", i, pk, err, c.want)
		case c.want.Kind == "err" && (pk != nil || err == nil || err.Error() != c.want.Msg):
			t.Errorf("case %d: real chain gave %v, %v; model %+v", i, pk, err, c.want)
		case c.want.Kind == "nil" && (pk != nil || err != nil):
			t.Errorf("case %d: real chain gave %v, %v; model %+v", i, pk, err, c.want)
		}
	}
}

// The systematic families must be silent on the unchanged tree.
func TestFamilies(t *testing.T) {
	g := &gen{r: core.Rand(3, "fam")}
	stat := map[string]int{}
	bad := 0
	all := append(g.familyNamePath(), g.familyChains()...)
	for i, cd := range all {
		r := prop{}.Work(core.NewCase("f", cd))
		stat[cd.Kind+"/"+cd.Expect+"/"+r.Status]++
		if r.Status != core.OK && bad < 8 {
			bad++
			t.Errorf("family case %d (%s): %s: %s", i, cd.Probe, r.Status, core.Truncate(r.Detail, 1200))
		}
	}
	t.Log(len(all), stat)
}
