package c19

import (
	"sort"
	"strings"
	"testing"

	"verif/core"
)

func fullConfig(tmpl bool) config {
	c := config{Importer: "custom", Pkgs: maybePaths, GoStmt: true}
	if tmpl {
		for n := range allGlobals() {
			c.Globals = append(c.Globals, n)
		}
		sort.Strings(c.Globals)
	}
	return c
}

// Every legit snippet, alone, in every import form / template mode, must build
// and run silently; every forbidden construct, alone, must be rejected.
func TestEachSnippet(t *testing.T) {
	for _, s := range legitSnippets {
		for _, form := range []string{"plain", "alias", "dot"} {
			q := map[string]string{"plain": "hostlib.", "alias": "hl.", "dot": ""}[form]
			var imps []string
			if strings.Contains(s.code, "%Q") {
				imps = append(imps, importLine(form, "hl", "hostlib"))
			}
			for _, p := range s.needs {
				imps = append(imps, importLine("plain", "", p))
			}
			for _, wrapped := range []bool{false, true} {
				if s.vars && form == "dot" && wrapped {
					continue // known Build panic of the pinned tree, see snippet.vars
				}
				code := strings.ReplaceAll(s.code, "%Q", q)
				if wrapped {
					code = "func() {\n" + code + "\n}()"
				}
				src := "package main\n\n" + strings.Join(imps, "\n") + "\n\nfunc main() {\n" + code + "\n}\n"
				cd := caseData{Kind: "program", Files: map[string]string{"main.go": src}, Config: fullConfig(false), Expect: "build", Features: []string{s.kind}}
				r := prop{}.Work(core.NewCase("t", cd))
				if r.Status != core.OK {
					t.Errorf("program snippet %s (%s, closure=%v): %s: %s", s.kind, form, wrapped, r.Status, core.Truncate(r.Detail, 700))
				}
			}
		}
		if len(s.needs) > 0 {
			continue
		}
		for _, mode := range []string{"globals", "global-package", "import", "import-for"} {
			var head, code string
			switch mode {
			case "globals":
				if !s.tmplOK {
					continue
				}
				code, _ = subGlobals(s.code)
			case "global-package":
				code = strings.ReplaceAll(s.code, "%Q", "hostlib.")
			case "import":
				head = `{% import "hostlib" %}`
				code = strings.ReplaceAll(s.code, "%Q", "hostlib.")
			case "import-for":
				names := uniqStrings(sortStrings(memberNames(s.code)))
				if len(names) > 0 {
					head = `{% import "hostlib" for ` + strings.Join(names, ", ") + ` %}`
				}
				code = strings.ReplaceAll(s.code, "%Q", "")
			}
			for _, pl := range []string{"body", "macro", "closure"} {
				if s.vars && mode == "import-for" && pl != "body" {
					continue // known Build panic of the pinned tree, see snippet.vars
				}
				var src string
				blk := "{%%\n\tif true {\n\t\t" + code + "\n\t}\n%%}\n"
				switch pl {
				case "body":
					src = head + "\n" + blk
				case "macro":
					src = head + "\n{% macro M %}" + blk + "{% end macro %}{{ M() }}\n"
				case "closure":
					src = head + "\n{%%\n\tfunc() {\n\t\t" + code + "\n\t}()\n%%}\n"
				}
				cd := caseData{Kind: "template", Main: "index.html", Files: map[string]string{"index.html": src}, Config: fullConfig(true), Expect: "build", Features: []string{s.kind}}
				r := prop{}.Work(core.NewCase("t", cd))
				if r.Status != core.OK {
					t.Errorf("template snippet %s (%s, %s): %s: %s", s.kind, mode, pl, r.Status, core.Truncate(r.Detail, 500))
				}
			}
		}
	}
	for _, list := range [][]forbiddenStmt{forbiddenStmts, forbiddenGo} {
		for _, s := range list {
			src := "package main\n\nimport \"hostlib\"\n\nfunc main() {\n\thostlib.Touch()\n" + strings.ReplaceAll(s.code, "%Q", "hostlib.") + "\n}\n"
			cfg := fullConfig(false)
			cfg.GoStmt = false
			cd := caseData{Kind: "program", Files: map[string]string{"main.go": src}, Config: cfg, Expect: "fail", Probe: s.kind}
			r := prop{}.Work(core.NewCase("t", cd))
			if r.Status != core.OK {
				t.Errorf("forbidden %s: %s: %s", s.kind, r.Status, core.Truncate(r.Detail, 500))
			}
		}
	}
}

func sortStrings(s []string) []string { sort.Strings(s); return s }
