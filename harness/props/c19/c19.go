// Package c19 checks that code can reach only the host functionality the
// embedder supplies.
//
// Build side (classifier): every generated case carries at most one forbidden
// construct (an import path the importer does not return, an undeclared name, an
// unexported member of a supplied value, a go statement without AllowGoStmt);
// Build must fail for it. Independently of the generator's bookkeeping, the
// import paths are extracted from the sources (go/parser for programs, a regular
// expression for templates) and every one must be supplied by the configuration
// or be a file / module package of the file system when the build succeeds; and
// a logging importer records what the compiler asked for.
//
// Run side (event-log checker): a hook at the entry of the VM's callNative
// records the Go function behind every native call; each must be in the allow
// set derived from the configuration (supplied function values, methods of
// supplied types and of types reachable from supplied values, function values
// returned by supplied functions, interpreter trampolines, the interpreter's own
// complex-arithmetic helpers). Every supplied function also keeps its own call
// log; the two logs are cross-checked in both directions, and a call-log entry
// of something never supplied (FORBIDDEN ...) refutes the property by itself.
package c19

import (
	"fmt"
	"go/parser"
	"go/token"
	"io/fs"
	"path"
	"regexp"
	"sort"
	"strconv"
	"strings"
	"sync"
	"testing/fstest"

	"github.com/open2b/scriggo"
	"github.com/open2b/scriggo/native"

	"verif/core"
)

type prop struct{}

func init() { core.Register(prop{}) }

func (prop) ID() string    { return "C19" }
func (prop) Level() string { return "exploration" }

func (prop) Drive(d *core.Driver) error {
	d.T.Rule = "each case is a generated program or multi-file template assembled from snippets (direct calls, calls through values, closures, defer, go, method calls/values/expressions, returned function values, callbacks, interface assertions, conversions, variables, print) under a random configuration (importer nil / native.Packages / CombinedImporter / custom logging importer / importer returning errors; random subset of 5 supplied package paths; random subset of template globals; AllowGoStmt on/off) with at most one forbidden construct (unsupplied import path in plain/alias/dot/blank/for form, undeclared name incl. names of Scriggo's builtin package and Go names of supplied functions, missing or unexported member, method outside the declared interface, go statement in main/closure/deferred closure/macro/partial/imported file/module package without AllowGoStmt). Plus two families enumerated in full in every tier: imports of paths derived from a supplied package whose name differs from its last path element (name, elements, prefixes, suffixes, case variants) in every import form and file role; CombinedImporter chains of 2-4 importers (Packages, custom importers returning package / nil / error, nested chains) with every combination of answers, judged by an executable model of the Importer contract (first importer that returns a package or an error decides: expected error text, expected package variant, shadowed members absent). Forbidden => Build must fail; otherwise the case must build, is run, and every native call seen by the callNative hook must resolve into the allow set and match the call log kept by the supplied functions. distinct_nontrivial counts distinct (rejected probe kind, importer kind) pairs and distinct (legit snippet kind @ placement, class of native-call target) pairs actually executed with at least one hook event"
	d.T.Assumptions = []string{
		"the interpreter's helpers for complex arithmetic (internal/compiler.{neg,add,sub,mul,div}Complex, NativeFunction package \"scriggo.complex\") and its reflect.MakeFunc trampolines are implementation of the language, not host functionality",
		"a method of a value that a supplied function returned, or of a type reachable from supplied declarations through exported fields/results, counts as supplied (property text: methods of supplied types/values)",
		"method values and MakeFunc values are resolved by reading the reflect.Value / makeFuncImpl layout of the pinned toolchain; a start-up self-test guards the decoders and undecoded events are counted separately",
		"template files and module packages found in the file system given to Build count as supplied by the embedder",
	}
	g := &gen{r: d.Rand("gen")}
	var cases []core.Case
	nProg := d.N(1000, 60000)
	nTmpl := d.N(800, 40000)
	for i := 0; i < nProg; i++ {
		cd := g.program()
		cases = append(cases, core.NewCase(fmt.Sprintf("prog-%d", i), cd))
		if i < 2 {
			d.T.Sample(cd)
		}
	}
	for i := 0; i < nTmpl; i++ {
		cd := g.template()
		cases = append(cases, core.NewCase(fmt.Sprintf("tmpl-%d", i), cd))
		if i < 2 {
			d.T.Sample(cd)
		}
	}
	// systematic families (the same in every tier)
	fam := 0
	for _, cd := range g.familyNamePath() {
		cases = append(cases, core.NewCase(fmt.Sprintf("namepath-%d", fam), cd))
		fam++
	}
	chains := g.familyChains()
	for i, cd := range chains {
		cases = append(cases, core.NewCase(fmt.Sprintf("chain-%d", i), cd))
		if i == 7 {
			d.T.Sample(cd)
		}
	}
	d.T.Set("cases", map[string]int{"random_programs": nProg, "random_templates": nTmpl, "family_name_path": fam, "family_importer_chains": len(chains)})
	d.Run(cases, core.RunOpts{})
	return nil
}

func toFS(files map[string]string) fs.FS {
	m := fstest.MapFS{}
	for name, src := range files {
		m[name] = &fstest.MapFile{Data: []byte(src), Mode: 0o644}
	}
	return m
}

var tmplImportRE = regexp.MustCompile(`\{%-?\s*import\s+(?:[\w.]+\s+)?"([^"]*)"`)

// sourceImports extracts the import paths written in the sources,
// independently of the generator.
func sourceImports(cd *caseData) (paths []string) {
	for name, src := range cd.Files {
		if cd.Kind == "program" {
			if !strings.HasSuffix(name, ".go") {
				continue
			}
			f, err := parser.ParseFile(token.NewFileSet(), name, src, parser.ImportsOnly)
			if f == nil || err != nil && len(f.Imports) == 0 {
				continue
			}
			for _, im := range f.Imports {
				if p, err := strconv.Unquote(im.Path.Value); err == nil {
					paths = append(paths, p)
				}
			}
		} else {
			for _, m := range tmplImportRE.FindAllStringSubmatch(src, -1) {
				paths = append(paths, name+"\x00"+m[1])
			}
		}
	}
	sort.Strings(paths)
	return paths
}

// suppliedByFS reports whether an import path is answered by the file system:
// a package directory of the module (programs) or a template file (templates).
func suppliedByFS(cd *caseData, p string) bool {
	if cd.Kind == "program" {
		mod, ok := cd.Files["go.mod"]
		if !ok {
			return false
		}
		mp := strings.TrimSpace(strings.TrimPrefix(strings.TrimSpace(mod), "module"))
		if !strings.HasPrefix(p, mp+"/") {
			return false
		}
		dir := strings.TrimPrefix(p, mp+"/")
		for name := range cd.Files {
			if path.Dir(name) == dir && strings.HasSuffix(name, ".go") {
				return true
			}
		}
		return false
	}
	i := strings.IndexByte(p, 0)
	file, imp := p[:i], p[i+1:]
	var target string
	if strings.HasPrefix(imp, "/") {
		target = path.Clean(imp[1:])
	} else {
		target = path.Join(path.Dir(file), imp)
	}
	_, ok := cd.Files[target]
	return ok
}

var runMu sync.Mutex

func canon(name string) string {
	name = strings.TrimSuffix(name, "@host")
	name = strings.TrimSuffix(name, "-fm")
	name = strings.NewReplacer("(*", "", "(", "", ")", "").Replace(name)
	// a promoted method is reported under the outer type, but it is the embedded
	// type's method that runs (and logs)
	if name == "HostOuter.Ping" {
		name = "HostInner.Ping"
	}
	return name
}

func (prop) Work(c core.Case) core.Result {
	var cd caseData
	c.Decode(&cd)
	installHook()
	runMu.Lock()
	defer runMu.Unlock()
	res := core.Result{Status: core.OK, Counts: map[string]int64{}}
	viol := func(format string, a ...any) core.Result {
		res.Status = core.Violation
		res.Detail = fmt.Sprintf(format, a...) + fmt.Sprintf("\nconfig: %+v\nprobe: %s expect: %s\nfiles: %v", cd.Config, cd.Probe, cd.Expect, cd.Files)
		return res
	}
	resetHostVars()
	takeCalls()
	takeHookLog()
	takeImportLog()

	var importer native.Importer
	if cd.Config.Importer == "chain" {
		importer = makeChainImporter(cd.Config.Chain)
	} else {
		importer = makeImporter(cd.Config.Importer, cd.Config.Pkgs)
	}
	opts := &scriggo.BuildOptions{AllowGoStmt: cd.Config.GoStmt, Packages: importer}
	// what the configured importer supplies, by the model of the importer contract
	sup := newSupplied()
	for _, p := range cd.Config.candidatePaths() {
		if a := cd.Config.resolve(p); a.Kind == "pkg" {
			if pk, ok := variantPackage(p, a.Variant); ok {
				sup.addDecls(pk.Declarations)
			}
		}
	}
	var prog *scriggo.Program
	var tmpl *scriggo.Template
	var err error
	val, panicked, stack := core.Guard(func() {
		if cd.Kind == "program" {
			prog, err = scriggo.Build(toFS(cd.Files), opts)
		} else {
			opts.Globals = makeGlobals(cd.Config.Globals)
			sup.addDecls(opts.Globals)
			tmpl, err = scriggo.BuildTemplate(toFS(cd.Files), cd.Main, opts)
		}
	})
	imps := takeImportLog()
	res.Counts["importer_requests"] += int64(len(imps))
	for _, ev := range imps {
		res.Counts["importer_answer_"+ev.Answer]++
	}
	if panicked {
		// a host panic while building is C04's business; for C19 the case did not build
		res.Counts["build_host_panics"]++
		err = fmt.Errorf("host panic: %v\n%s", val, core.Truncate(stack, 1500))
	}
	built := err == nil
	if n := len(takeCalls()); n > 0 {
		return viol("%d supplied functions were executed while BUILDING", n)
	}
	if n := len(takeHookLog()); n > 0 {
		return viol("%d native calls were made by the VM while BUILDING", n)
	}

	// --- build-side oracle ---
	if built {
		res.Counts["builds_ok"]++
		for _, p := range sourceImports(&cd) {
			shown := p
			if cd.Kind == "program" {
				if cd.Config.has(p) || suppliedByFS(&cd, p) {
					continue
				}
			} else {
				i := strings.IndexByte(p, 0)
				shown = p[i+1:]
				if cd.Config.has(shown) || suppliedByFS(&cd, p) {
					continue
				}
			}
			return viol("the build succeeded although the sources import %q, which neither the importer (kind %s, supplied %v) nor the file system provides", shown, cd.Config.Importer, cd.Config.Pkgs)
		}
		// what the importer answered with a package must be a path written in the sources
		written := map[string]bool{}
		for _, p := range sourceImports(&cd) {
			if i := strings.IndexByte(p, 0); i >= 0 {
				p = p[i+1:]
			}
			written[p] = true
		}
		for _, ev := range imps {
			if ev.Answer == "pkg" && !written[ev.Path] {
				return viol("the compiler obtained package %q from the importer, but no source file imports that path", ev.Path)
			}
		}
		if cd.Expect == "fail" {
			return viol("the build succeeded although the case contains the forbidden construct %q", cd.Probe)
		}
	} else {
		res.Counts["builds_rejected"]++
		switch cd.Expect {
		case "fail":
			if cd.ExpectErr != "" && !panicked && !strings.Contains(err.Error(), cd.ExpectErr) {
				return viol("the importer that decides the import (model of the CombinedImporter contract) returned the error %q, but Build failed with a different error: %v", cd.ExpectErr, err)
			}
			res.Counts["forbidden_rejected"]++
			res.Sigs = append(res.Sigs, "rejected:"+probeClass(cd.Probe)+"/"+cd.Kind+"/"+cd.Config.Importer)
			return res
		case "any":
			res.Counts["undecided_rejected"]++
			return res
		default:
			// a case without forbidden construct did not build: a generator problem or a
			// limitation of Scriggo; not a C19 matter, but it must be visible
			res.Status = core.Inconclusive
			res.Detail = fmt.Sprintf("case without forbidden construct did not build: %v\nfiles: %v", err, cd.Files)
			return res
		}
	}

	// --- run-side oracle ---
	var prints int64
	var pmu sync.Mutex
	ropts := &scriggo.RunOptions{Print: func(any) { pmu.Lock(); prints++; pmu.Unlock() }}
	var runErr error
	val, panicked, stack = core.Guard(func() {
		if prog != nil {
			runErr = prog.Run(ropts)
		} else {
			runErr = tmpl.Run(discard{}, nil, ropts)
		}
	})
	hooks := takeHookLog()
	callLog := takeCalls()
	res.Counts["runs"]++
	res.Counts["hook_events"] += int64(len(hooks))
	res.Counts["call_log_entries"] += int64(len(callLog))
	res.Counts["print_hook_calls"] += prints
	if panicked {
		res.Counts["run_host_panics"]++ // C05's business; the logs are still judged
	}
	if runErr != nil {
		res.Counts["run_errors"]++
	}
	// 1. nothing that was never supplied ran
	for _, n := range callLog {
		if strings.HasPrefix(n, "FORBIDDEN") {
			return viol("a function that was never supplied was executed: %s", n)
		}
	}
	for _, want := range cd.ExpectCalls {
		found := false
		for _, n := range callLog {
			found = found || canon(n) == want
		}
		if !found && !panicked && runErr == nil {
			return viol("the supplied function %s, which the deciding importer of the chain supplies, was not executed (call log %v)", want, callLog)
		}
	}
	// 2. every native call of the VM is inside the allow set
	methods := sup.methodNames()
	hookBy := map[string]int{} // canonical call-log name -> hook events
	undecodedMV := 0
	classes := map[string]bool{}
	for _, ev := range hooks {
		class, logName := sup.classify(ev, methods)
		if class == "" {
			return viol("the VM made a native call outside the allow set: %s", ev)
		}
		res.Counts["target_"+class]++
		classes[class] = true
		switch {
		case class == "method-value-undecoded":
			undecodedMV++
		case logName != "":
			hookBy[canon(logName)]++
		}
	}
	// 3. cross-check with the call log of the supplied functions
	logBy := map[string]int{}     // entries the VM is responsible for
	logByHost := map[string]int{} // entries made while a supplied function was calling back
	for _, n := range callLog {
		if strings.HasSuffix(n, "@host") {
			logByHost[canon(n)]++
		} else {
			logBy[canon(n)]++
		}
	}
	// methods called through interpreter trampolines (interface method expressions) or
	// by the renderer / fmt (String) have no hook event of their own
	viaTrampoline := classes["interpreter-trampoline"]
	for name, n := range hookBy {
		have := logBy[name] + logByHost[name]
		if have < n {
			return viol("the hook saw %d native calls of %s but the function logged only %d executions (hook log and call log disagree)", n, name, have)
		}
	}
	slack := undecodedMV
	for name, n := range logBy {
		if n > hookBy[name] {
			extra := n - hookBy[name]
			switch {
			case strings.HasSuffix(name, ".String"), viaTrampoline && strings.Contains(name, "."), cd.Concurrent:
				// may be host-initiated (renderer, trampoline) — not judged
				res.Counts["unjudged_log_entries"] += int64(extra)
			case slack >= extra && strings.Contains(name, "."):
				slack -= extra
			default:
				return viol("%s logged %d executions but the hook saw only %d native calls of it: a supplied function was executed without passing the VM's callNative (hook log and call log disagree)", name, n, hookBy[name])
			}
		}
	}
	// non-triviality: which constructs were really executed, and what they reached
	if len(hooks) > 0 {
		var cl []string
		for c := range classes {
			cl = append(cl, c)
		}
		sort.Strings(cl)
		for _, f := range cd.Features {
			res.Sigs = append(res.Sigs, "ran:"+f+"/"+cd.Kind)
		}
		for _, c := range cl {
			res.Sigs = append(res.Sigs, "target:"+c+"/"+cd.Kind+"/"+cd.Config.Importer)
		}
	}
	_ = stack
	return res
}

type discard struct{}

func (discard) Write(p []byte) (int, error) { return len(p), nil }

// probeClass shortens a probe to its class for signatures.
func probeClass(p string) string {
	if strings.HasPrefix(p, "import-path-derived-from-supplied:") {
		// keep the supplied path, the form and the role; drop the derived path
		rest := strings.TrimPrefix(p, "import-path-derived-from-supplied:")
		src := rest[:strings.Index(rest, "->")]
		i := strings.LastIndex(rest, "/")
		j := strings.LastIndex(rest[:i], "/")
		return "import-path-derived-from-supplied/" + src + rest[j:]
	}
	if strings.HasPrefix(p, "import-unsupplied:") {
		rest := strings.TrimPrefix(p, "import-unsupplied:")
		form := "plain"
		for _, f := range []string{"plain:", "alias:", "dot:", "blank:"} {
			if strings.HasPrefix(rest, f) {
				form = strings.TrimSuffix(f, ":")
				rest = strings.TrimPrefix(rest, f)
			}
		}
		return "import-unsupplied/" + form + "/" + rest
	}
	return p
}
