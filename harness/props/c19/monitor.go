package c19

import (
	"fmt"
	"reflect"
	"runtime"
	"strings"
	"sync"
	"unsafe"

	"github.com/open2b/scriggo"
	"github.com/open2b/scriggo/native"
)

// The native-call monitor: a hook at the entry of the VM's callNative records,
// for every native function the VM is about to call, which Go function it is.
//
// Resolution of the target:
//   - an ordinary function value: runtime.FuncForPC(fn.Pointer()).Name();
//   - a method value (reflect reports the trampoline reflect.methodValueCall): the
//     receiver type and the method index are read from the reflect.Value header,
//     giving "(recv).Method";
//   - a reflect.MakeFunc value (trampoline reflect.makeFuncStub): the Go function
//     wrapped by MakeFunc is read from the makeFuncImpl record.
//
// The two decoders depend on the layout of reflect.Value / makeFuncImpl of the
// pinned toolchain; selfTest checks them at start-up and, if one does not work,
// its events are classified "undecoded" (judged by the call-log cross-check only)
// and counted, never guessed.

type hookEvent struct {
	Pkg    string // NativeFunction package (as the compiler recorded it)
	Name   string // NativeFunction name
	Target string // resolved Go function
	Kind   string // func | method-value | makefunc
	Recv   reflect.Type
}

var hookLog struct {
	sync.Mutex
	events []hookEvent
}

func takeHookLog() []hookEvent {
	hookLog.Lock()
	l := hookLog.events
	hookLog.events = nil
	hookLog.Unlock()
	return l
}

const (
	flagKindMask    = 1<<5 - 1
	flagIndir       = 1 << 7
	flagMethod      = 1 << 9
	flagMethodShift = 10
)

// rvalue mirrors reflect.Value.
type rvalue struct {
	typ  unsafe.Pointer
	ptr  unsafe.Pointer
	flag uintptr
}

// makeFuncImpl mirrors reflect.makeFuncImpl (go1.25, amd64).
type makeFuncImpl struct {
	fn      uintptr
	stack   unsafe.Pointer
	argLen  uintptr
	regPtrs [2]uint8
	ftyp    unsafe.Pointer
	wrapped func([]reflect.Value) []reflect.Value
}

// decodeMethodValue returns the receiver type and method name of a method value.
func decodeMethodValue(fn reflect.Value) (recv reflect.Type, method string, ok bool) {
	defer func() {
		if recover() != nil {
			recv, method, ok = nil, "", false
		}
	}()
	rv := *(*rvalue)(unsafe.Pointer(&fn))
	if rv.flag&flagMethod == 0 {
		return nil, "", false
	}
	idx := int(rv.flag >> flagMethodShift)
	// a Value with the same type word and a plain flag: only Type() is called on it
	probe := rvalue{typ: rv.typ, ptr: nil, flag: uintptr(reflect.Func)}
	recv = (*(*reflect.Value)(unsafe.Pointer(&probe))).Type()
	if recv == nil || idx < 0 || idx >= recv.NumMethod() {
		return nil, "", false
	}
	method = recv.Method(idx).Name
	if recv.Kind() == reflect.Interface && rv.ptr != nil {
		// the dynamic type of the receiver
		iv := rvalue{typ: rv.typ, ptr: rv.ptr, flag: uintptr(reflect.Interface) | (rv.flag & flagIndir)}
		if rv.flag&flagIndir != 0 {
			if e := (*(*reflect.Value)(unsafe.Pointer(&iv))).Elem(); e.IsValid() {
				recv = e.Type()
			}
		}
	}
	return recv, method, true
}

// methodValue mirrors reflect.methodValue: a method value that was turned into
// an ordinary func value (Value.Interface of a method Value).
type methodValue struct {
	fn      uintptr
	stack   unsafe.Pointer
	argLen  uintptr
	regPtrs [2]uint8
	method  int
	rcvr    reflect.Value
}

// decodeMethodFunc decodes a materialised method value (no flagMethod, code
// pointer reflect.methodValueCall).
func decodeMethodFunc(fn reflect.Value) (recv reflect.Type, method string, ok bool) {
	defer func() {
		if recover() != nil {
			recv, method, ok = nil, "", false
		}
	}()
	rv := *(*rvalue)(unsafe.Pointer(&fn))
	if rv.ptr == nil || rv.flag&flagMethod != 0 || rv.flag&flagIndir != 0 {
		return nil, "", false
	}
	mv := (*methodValue)(rv.ptr)
	if !mv.rcvr.IsValid() {
		return nil, "", false
	}
	recv = mv.rcvr.Type()
	if mv.method < 0 || mv.method >= recv.NumMethod() {
		return nil, "", false
	}
	method = recv.Method(mv.method).Name
	if recv.Kind() == reflect.Interface {
		if e := mv.rcvr.Elem(); e.IsValid() {
			recv = e.Type()
		}
	}
	return recv, method, true
}

// decodeMakeFunc returns the name of the Go function wrapped by a MakeFunc value.
func decodeMakeFunc(fn reflect.Value) (name string, ok bool) {
	defer func() {
		if recover() != nil {
			name, ok = "", false
		}
	}()
	rv := *(*rvalue)(unsafe.Pointer(&fn))
	if rv.ptr == nil || rv.flag&flagMethod != 0 || rv.flag&flagIndir != 0 {
		return "", false
	}
	impl := (*makeFuncImpl)(rv.ptr)
	if impl.wrapped == nil {
		return "", false
	}
	f := runtime.FuncForPC(reflect.ValueOf(impl.wrapped).Pointer())
	if f == nil {
		return "", false
	}
	return f.Name(), true
}

var (
	methodDecoderOK   bool
	makeFuncDecoderOK bool
)

func selfTestProbe([]reflect.Value) []reflect.Value { return nil }

// selfTest validates the decoders against known values.
func selfTest() {
	c := &HostCounter{}
	if r, m, ok := decodeMethodValue(reflect.ValueOf(c).MethodByName("Add")); ok && r == reflect.TypeOf(c) && m == "Add" {
		var s HostShape = HostSquare{}
		v := reflect.ValueOf(&s).Elem() // interface-kind value
		if r, m, ok := decodeMethodValue(v.MethodByName("Area")); ok && m == "Area" && (r == reflect.TypeOf(HostSquare{}) || r == reflect.TypeFor[HostShape]()) {
			if r, m, ok := decodeMethodValue(reflect.ValueOf(HostCelsius(1)).MethodByName("String")); ok && r == reflect.TypeFor[HostCelsius]() && m == "String" {
				// and the materialised form
				f := reflect.ValueOf(reflect.ValueOf(c).MethodByName("Inc").Interface())
				if r, m, ok := decodeMethodFunc(f); ok && r == reflect.TypeOf(c) && m == "Inc" {
					methodDecoderOK = true
				}
			}
		}
	}
	mf := reflect.MakeFunc(reflect.TypeFor[func()](), selfTestProbe)
	if n, ok := decodeMakeFunc(mf); ok && strings.HasSuffix(n, "c19.selfTestProbe") {
		// also through an interface round trip, as the VM does
		if n, ok := decodeMakeFunc(reflect.ValueOf(mf.Interface())); ok && strings.HasSuffix(n, "c19.selfTestProbe") {
			makeFuncDecoderOK = true
		}
	}
}

func nativeCallHook(pkg, name string, fn reflect.Value) {
	ev := hookEvent{Pkg: pkg, Name: name, Kind: "func"}
	if fn.Kind() != reflect.Func {
		ev.Target = "not-a-func:" + fn.Kind().String()
	} else if f := runtime.FuncForPC(fn.Pointer()); f != nil {
		ev.Target = f.Name()
	} else {
		ev.Target = "unknown-pc"
	}
	switch ev.Target {
	case "reflect.methodValueCall":
		ev.Kind = "method-value"
		if methodDecoderOK {
			r, m, ok := decodeMethodValue(fn)
			if !ok {
				r, m, ok = decodeMethodFunc(fn)
			}
			if ok {
				ev.Recv = r
				ev.Target = "(" + r.String() + ")." + m
			}
		}
	case "reflect.makeFuncStub":
		ev.Kind = "makefunc"
		if makeFuncDecoderOK {
			if n, ok := decodeMakeFunc(fn); ok {
				ev.Target = "makefunc:" + n
			}
		}
	}
	hookLog.Lock()
	hookLog.events = append(hookLog.events, ev)
	hookLog.Unlock()
}

var hookOnce sync.Once

// installHook sets the VM hook once per worker process, before any run.
func installHook() {
	hookOnce.Do(func() {
		selfTest()
		scriggo.VerifSetHooks(scriggo.VerifHooks{NativeCall: nativeCallHook})
	})
}

// ---- the allow set ----

const hostPkg = "verif/props/c19."

// supplied describes what a configuration supplies: the names of the function
// values and the types whose methods are allowed.
type supplied struct {
	funcs map[string]bool       // FuncForPC names of supplied function values
	types map[reflect.Type]bool // supplied types and every type reachable from supplied values
}

func newSupplied() *supplied {
	return &supplied{funcs: map[string]bool{}, types: map[reflect.Type]bool{}}
}

func (s *supplied) addDecls(decls native.Declarations) {
	for _, d := range decls {
		switch d := d.(type) {
		case reflect.Type:
			s.addType(d, 0)
		case native.ImportablePackage:
			_ = d.LookupFunc(func(_ string, decl native.Declaration) error {
				s.addDecls(native.Declarations{"": decl})
				return nil
			})
		default:
			s.addValue(reflect.ValueOf(d), 0)
		}
	}
}

func (s *supplied) addValue(v reflect.Value, depth int) {
	if !v.IsValid() || depth > 6 {
		return
	}
	s.addType(v.Type(), depth)
	switch v.Kind() {
	case reflect.Func:
		if !v.IsNil() {
			if f := runtime.FuncForPC(v.Pointer()); f != nil {
				s.funcs[f.Name()] = true
			}
		}
	case reflect.Pointer, reflect.Interface:
		if !v.IsNil() {
			s.addValue(v.Elem(), depth+1)
		}
	case reflect.Struct:
		for i := 0; i < v.NumField(); i++ {
			if v.Type().Field(i).IsExported() {
				s.addValue(v.Field(i), depth+1)
			}
		}
	}
}

// addType adds t and the types reachable from it through exported fields,
// elements, function results and method results.
func (s *supplied) addType(t reflect.Type, depth int) {
	if t == nil || s.types[t] || depth > 6 {
		return
	}
	s.types[t] = true
	switch t.Kind() {
	case reflect.Pointer, reflect.Slice, reflect.Array, reflect.Chan:
		s.addType(t.Elem(), depth+1)
	case reflect.Map:
		s.addType(t.Key(), depth+1)
		s.addType(t.Elem(), depth+1)
	case reflect.Struct:
		for i := 0; i < t.NumField(); i++ {
			if f := t.Field(i); f.IsExported() {
				s.addType(f.Type, depth+1)
			}
		}
		s.addType(reflect.PointerTo(t), depth+1)
	case reflect.Func:
		for i := 0; i < t.NumOut(); i++ {
			s.addType(t.Out(i), depth+1)
		}
	}
	for i := 0; i < t.NumMethod(); i++ {
		mt := t.Method(i).Type
		for j := 0; j < mt.NumOut(); j++ {
			s.addType(mt.Out(j), depth+1)
		}
	}
}

// hostConcreteTypes lists the concrete types of this package whose values the
// supplied functions may hand out behind an interface: when a supplied
// interface type is reachable, the values behind it are supplied values too
// ("methods of supplied types/values"), whatever their dynamic type.
var hostConcreteTypes = []reflect.Type{
	reflect.TypeFor[HostSquare](), reflect.TypeFor[*HostCounter](), reflect.TypeFor[HostCelsius](),
	reflect.TypeFor[HostInner](), reflect.TypeFor[HostOuter](),
}

// closeOverInterfaces adds the concrete host types that implement a reachable
// non-empty interface type.
func (s *supplied) closeOverInterfaces() {
	for changed := true; changed; {
		changed = false
		for t := range s.types {
			if t.Kind() != reflect.Interface || t.NumMethod() == 0 {
				continue
			}
			for _, c := range hostConcreteTypes {
				if !s.types[c] && c.Implements(t) {
					s.addType(c, 0)
					changed = true
				}
			}
		}
	}
}

// methodNames returns the FuncForPC names of the methods of the supplied types
// (what a method expression or a compiled method call resolves to).
func (s *supplied) methodNames() map[string]bool {
	s.closeOverInterfaces()
	m := map[string]bool{}
	for t := range s.types {
		if t.Kind() == reflect.Interface {
			continue
		}
		for i := 0; i < t.NumMethod(); i++ {
			if f := runtime.FuncForPC(t.Method(i).Func.Pointer()); f != nil {
				m[f.Name()] = true
			}
		}
	}
	return m
}

var complexHelper = map[string]bool{
	"github.com/open2b/scriggo/internal/compiler.negComplex": true,
	"github.com/open2b/scriggo/internal/compiler.addComplex": true,
	"github.com/open2b/scriggo/internal/compiler.subComplex": true,
	"github.com/open2b/scriggo/internal/compiler.mulComplex": true,
	"github.com/open2b/scriggo/internal/compiler.divComplex": true,
}

// classify decides whether a hook event is inside the allow set. It returns the
// class of the event ("" if it is outside) and the wrapper-log name the supplied
// function will have logged ("" if the target keeps no call log).
func (s *supplied) classify(ev hookEvent, methods map[string]bool) (class, logName string) {
	t := ev.Target
	switch ev.Kind {
	case "method-value":
		if ev.Recv == nil {
			return "method-value-undecoded", ""
		}
		if s.types[ev.Recv] {
			if i := strings.Index(t, hostPkgShort); i >= 0 {
				return "method-value-of-supplied-type", strings.Replace(t, hostPkgShort, "", 1)
			}
			return "method-value-of-supplied-type", ""
		}
		return "", ""
	case "makefunc":
		if !strings.HasPrefix(t, "makefunc:") {
			return "makefunc-undecoded", ""
		}
		w := strings.TrimPrefix(t, "makefunc:")
		// trampolines of the interpreter: a Scriggo function that went to the host
		// and came back as a value, an interface method expression
		if strings.HasPrefix(w, "github.com/open2b/scriggo/internal/runtime.(*callable).Value") ||
			strings.HasPrefix(w, "github.com/open2b/scriggo/internal/compiler.(*typechecker).checkMethodExpression") {
			return "interpreter-trampoline", ""
		}
		return "", ""
	}
	if s.funcs[t] {
		return "supplied-function", strings.TrimPrefix(t, hostPkg)
	}
	if methods[strings.TrimSuffix(t, "-fm")] {
		return "method-of-supplied-type", strings.TrimPrefix(strings.TrimSuffix(t, "-fm"), hostPkg)
	}
	// function values returned by supplied functions: closures defined inside them
	if strings.HasPrefix(t, hostPkg+"host") && strings.Contains(strings.TrimPrefix(t, hostPkg), ".func") {
		outer := t[:strings.Index(t, ".func")]
		if s.funcs[outer] {
			return "function-returned-by-supplied", strings.TrimPrefix(t, hostPkg)
		}
	}
	if ev.Pkg == "scriggo.complex" && complexHelper[t] {
		return "interpreter-complex-arithmetic", ""
	}
	return "", ""
}

const hostPkgShort = "c19."

func (ev hookEvent) String() string {
	return fmt.Sprintf("%s %s.%s -> %s", ev.Kind, ev.Pkg, ev.Name, ev.Target)
}
