package c19

import (
	"fmt"
	"reflect"
	"sort"
	"strings"
	"sync"
	"sync/atomic"

	"github.com/open2b/scriggo/native"
)

// The host functionality that the harness supplies to programs and templates.
//
// Naming discipline (the native-call monitor relies on it): every function and
// method that is supplied is defined in this package with a name starting with
// "host" (functions) or on a type whose name starts with "Host" (methods), and
// logs its own call with the name that runtime.FuncForPC reports for it (without
// the package path). Things that are NOT supplied but are reachable by reflection
// from supplied values (unexported methods and fields) log a name starting with
// "FORBIDDEN": seeing one in the call log refutes the property by itself.

var calls struct {
	sync.Mutex
	log []string
}

// hostDepth > 0 while a supplied function is calling a function value it received.
var hostDepth atomic.Int32

// logCall records the execution of a supplied function.
func logCall(name string) {
	if hostDepth.Load() > 0 {
		name += "@host"
	}
	calls.Lock()
	calls.log = append(calls.log, name)
	calls.Unlock()
}

func takeCalls() []string {
	calls.Lock()
	l := calls.log
	calls.log = nil
	calls.Unlock()
	return l
}

// ---- functions ----

func hostAdd(a, b int) int          { logCall("hostAdd"); return a + b }
func hostDouble(x int) int          { logCall("hostDouble"); return 2 * x }
func hostLen(s string) int          { logCall("hostLen"); return len(s) }                     // func(string) int: VM fast path
func hostUpper(s string) string     { logCall("hostUpper"); return strings.ToUpper(s) }       // func(string) string: fast path
func hostIndex(s, t string) int     { logCall("hostIndex"); return strings.Index(s, t) }      // func(string, string) int: fast path
func hostHasPrefix(s, p string) bool { logCall("hostHasPrefix"); return strings.HasPrefix(s, p) } // fast path
func hostRepeat(s string, n int) string { // func(string, int) string: fast path
	logCall("hostRepeat")
	if n < 0 || n > 8 {
		n = 1
	}
	return strings.Repeat(s, n)
}
func hostTouch()                 { logCall("hostTouch") }
func hostSend(ch chan int, v int) { logCall("hostSend"); ch <- v }
func hostSum(xs ...int) int {
	logCall("hostSum")
	t := 0
	for _, x := range xs {
		t += x
	}
	return t
}
func hostSprint(a ...any) string { logCall("hostSprint"); return fmt.Sprint(a...) }
func hostGetenv(k string) string { logCall("hostGetenv"); return "fake-" + k }
func hostEnvName(env native.Env, s string) string {
	logCall("hostEnvName")
	return s + ":" + env.CallPath()
}

// hostWhichK / hostOnlyK: members of the K-th variant of package "shadow" (the
// same path supplied by several importers of a chain with different content).
func hostWhich1() int { logCall("hostWhich1"); return 1 }
func hostWhich2() int { logCall("hostWhich2"); return 2 }
func hostWhich3() int { logCall("hostWhich3"); return 3 }
func hostWhich4() int { logCall("hostWhich4"); return 4 }
func hostOnly1() int  { logCall("hostOnly1"); return 11 }
func hostOnly2() int  { logCall("hostOnly2"); return 12 }
func hostOnly3() int  { logCall("hostOnly3"); return 13 }
func hostOnly4() int  { logCall("hostOnly4"); return 14 }

var hostWhich = []func() int{hostWhich1, hostWhich2, hostWhich3, hostWhich4}
var hostOnly = []func() int{hostOnly1, hostOnly2, hostOnly3, hostOnly4}

// variantPackage returns the package a chain link supplies for a path: variant
// "" is the entry of allPackages; "1".."4" are the variants of "shadow"; "fake"
// is a package with the last path element as name holding two supplied functions.
func variantPackage(path, variant string) (native.Package, bool) {
	switch variant {
	case "":
		pk, ok := allPackages()[path]
		return pk, ok
	case "1", "2", "3", "4":
		k := int(variant[0] - '1')
		return native.Package{Name: "shadow", Declarations: native.Declarations{
			"Which": hostWhich[k], "Only" + variant: hostOnly[k]}}, true
	case "fake":
		name := path[strings.LastIndex(path, "/")+1:]
		return native.Package{Name: name, Declarations: native.Declarations{"Double": hostDouble, "Touch": hostTouch}}, true
	}
	return native.Package{}, false
}

// hostApply calls the function value it receives: calls made through it are
// initiated by the host, not by the VM.
func hostApply(f func(int) int, x int) int {
	logCall("hostApply")
	hostDepth.Add(1)
	defer hostDepth.Add(-1)
	return f(x)
}

// hostMakeAdder returns a function value ("function values returned by them").
func hostMakeAdder(n int) func(int) int {
	logCall("hostMakeAdder")
	return func(x int) int { logCall("hostMakeAdder.func1"); return x + n }
}

// hostIdentity gives a function value back to the code.
func hostIdentity(f func(int) int) func(int) int { logCall("hostIdentity"); return f }

func hostNewCounter() *HostCounter {
	logCall("hostNewCounter")
	return &HostCounter{Hidden: hostTouch, hidden: forbiddenSentinel}
}
func hostGetShape() HostShape { logCall("hostGetShape"); return HostSquare{Side: 3} }

// forbiddenSentinel is never declared to the code; it is only reachable through
// the unexported field HostCounter.hidden.
func forbiddenSentinel() { logCall("FORBIDDEN forbiddenSentinel") }

// ---- types ----

// HostCounter is a supplied struct type with pointer-receiver methods.
type HostCounter struct {
	N      int
	n      int
	Hidden func() // exported field holding a supplied function
	hidden func() // unexported: must be unreachable
}

func (c *HostCounter) Inc() int { logCall("(*HostCounter).Inc"); c.N++; c.n++; return c.N }
func (c *HostCounter) Add(d int) *HostCounter {
	logCall("(*HostCounter).Add")
	c.N += d
	return c
}
func (c *HostCounter) secret() int { logCall("FORBIDDEN (*HostCounter).secret"); return c.n }

// HostShape is a supplied interface type.
type HostShape interface{ Area() int }

// HostSecreter is a supplied interface type with more methods than HostShape.
type HostSecreter interface {
	Area() int
	Secret() int
}

// HostSquare implements both; Secret is not part of HostShape.
type HostSquare struct{ Side int }

func (s HostSquare) Area() int      { logCall("HostSquare.Area"); return s.Side * s.Side }
func (s HostSquare) Secret() int    { logCall("HostSquare.Secret"); return 42 }
func (s HostSquare) String() string { logCall("HostSquare.String"); return fmt.Sprintf("square(%d)", s.Side) }

// HostCelsius is a supplied non-struct type with value-receiver methods.
type HostCelsius int

func (c HostCelsius) String() string         { logCall("HostCelsius.String"); return fmt.Sprintf("%d°C", int(c)) }
func (c HostCelsius) Plus(d int) HostCelsius { logCall("HostCelsius.Plus"); return c + HostCelsius(d) }

// HostInner and HostOuter: promoted method through embedding.
type HostInner struct{ V int }

func (i HostInner) Ping() int { logCall("HostInner.Ping"); return i.V + 1 }

type HostOuter struct {
	HostInner
	Name string
}

// ---- variables (reset before every case) ----

var (
	hostTotal      int
	hostName       string
	hostCounterVar *HostCounter
	hostShapeVar   HostShape
	hostFuncVar    func(int) int
	hostCelsiusVar HostCelsius
)

func resetHostVars() {
	hostTotal = 1
	hostName = "host"
	hostCounterVar = &HostCounter{Hidden: hostTouch, hidden: forbiddenSentinel}
	hostShapeVar = HostSquare{Side: 2}
	hostFuncVar = hostDouble
	hostCelsiusVar = 21
	hostDepth.Store(0)
}

// ---- package and globals tables ----

// allPackages returns every native package the harness can supply, by path.
func allPackages() map[string]native.Package {
	return map[string]native.Package{
		"hostlib": {Name: "hostlib", Declarations: native.Declarations{
			"Add": hostAdd, "Double": hostDouble, "Len": hostLen, "Upper": hostUpper, "Index": hostIndex,
			"HasPrefix": hostHasPrefix, "Repeat": hostRepeat, "Touch": hostTouch, "Send": hostSend, "Sum": hostSum,
			"EnvName": hostEnvName, "Apply": hostApply, "MakeAdder": hostMakeAdder, "Identity": hostIdentity,
			"NewCounter": hostNewCounter, "GetShape": hostGetShape,
			"Counter": reflect.TypeFor[HostCounter](), "Shape": reflect.TypeFor[HostShape](),
			"Secreter": reflect.TypeFor[HostSecreter](), "Square": reflect.TypeFor[HostSquare](),
			"Celsius": reflect.TypeFor[HostCelsius](), "Outer": reflect.TypeFor[HostOuter](),
			"Total": &hostTotal, "Name": &hostName, "TheCounter": &hostCounterVar, "TheShape": &hostShapeVar,
			"FuncVar": &hostFuncVar, "Temp": &hostCelsiusVar,
			"Limit": native.UntypedNumericConst("10"), "Version": "v1",
		}},
		// packages with the path and name of standard ones, but holding only what is listed
		"fmt":     {Name: "fmt", Declarations: native.Declarations{"Sprint": hostSprint}},
		"strings": {Name: "strings", Declarations: native.Declarations{"ToUpper": hostUpper, "Index": hostIndex}},
		"os":      {Name: "os", Declarations: native.Declarations{"Getenv": hostGetenv}},
		"example.com/deep/pkg": {Name: "pkg", Declarations: native.Declarations{"Double": hostDouble, "Touch": hostTouch}},
		// packages whose name is not the last element of their path
		"math/rand":          {Name: "rand", Declarations: native.Declarations{"Double": hostDouble, "Touch": hostTouch}},
		"host.test/api/v2":   {Name: "api", Declarations: native.Declarations{"Double": hostDouble, "Touch": hostTouch}},
		"gopkg.test/yaml.v3": {Name: "yaml", Declarations: native.Declarations{"Double": hostDouble, "Touch": hostTouch}},
		"Mixed/Case":         {Name: "mixedcase", Declarations: native.Declarations{"Double": hostDouble, "Touch": hostTouch}},
	}
}

// allGlobals returns every template global the harness can declare, by name.
func allGlobals() native.Declarations {
	pk := allPackages()
	return native.Declarations{
		"add": hostAdd, "double": hostDouble, "upper": hostUpper, "strlen": hostLen, "touch": hostTouch, "send": hostSend,
		"sum": hostSum, "apply": hostApply, "makeAdder": hostMakeAdder, "newCounter": hostNewCounter, "getShape": hostGetShape,
		"identity": hostIdentity,
		"Counter": reflect.TypeFor[HostCounter](), "Shape": reflect.TypeFor[HostShape](), "Secreter": reflect.TypeFor[HostSecreter](),
		"Square": reflect.TypeFor[HostSquare](), "Celsius": reflect.TypeFor[HostCelsius](), "Outer": reflect.TypeFor[HostOuter](),
		"total": &hostTotal, "name": &hostName, "theCounter": &hostCounterVar, "theShape": &hostShapeVar, "funcVar": &hostFuncVar,
		"temp": &hostCelsiusVar, "limit": native.UntypedNumericConst("10"), "version": "v1",
		// globals named like Go builtins / standard packages
		"max":     hostAdd, // Go has a builtin max, Scriggo does not: here it is a supplied function
		"fmt":     pk["fmt"],
		"strings": pk["strings"],
		"hostlib": pk["hostlib"],
	}
}

// ---- importers ----

type importEvent struct {
	Path   string `json:"path"`
	Answer string `json:"answer"` // "pkg" | "nil" | "error"
}

var importLog struct {
	sync.Mutex
	events []importEvent
}

func takeImportLog() []importEvent {
	importLog.Lock()
	l := importLog.events
	importLog.events = nil
	importLog.Unlock()
	return l
}

// loggingImporter is a custom importer that logs every request.
type loggingImporter struct {
	pkgs     map[string]native.Package
	errOther bool // return an error instead of nil for unknown paths
}

func (li loggingImporter) Import(path string) (native.ImportablePackage, error) {
	ev := importEvent{Path: path}
	var p native.ImportablePackage
	var err error
	if pk, ok := li.pkgs[path]; ok {
		p, ev.Answer = pk, "pkg"
	} else if li.errOther {
		err, ev.Answer = fmt.Errorf("importer: no package %q here", path), "error"
	} else {
		ev.Answer = "nil"
	}
	importLog.Lock()
	importLog.events = append(importLog.events, ev)
	importLog.Unlock()
	return p, err
}

// makeImporter builds the importer of a configuration. Kinds: "nil" (no
// importer), "packages" (native.Packages), "combined" (CombinedImporter of a
// Packages map and a logging importer, the supplied paths split between them),
// "custom" (logging importer), "customerr" (logging importer that returns an
// error for unknown paths).
// linkImporter builds the importer of one chain link.
func linkImporter(i int, l link) native.Importer {
	if len(l.Nested) > 0 {
		var ci native.CombinedImporter
		for j, n := range l.Nested {
			ci = append(ci, linkImporter(i*10+j, n))
		}
		return ci
	}
	pkgs := map[string]native.Package{}
	for p, v := range l.Pkgs {
		if pk, ok := variantPackage(p, v); ok {
			pkgs[p] = pk
		}
	}
	if l.Type == "packages" {
		pp := native.Packages{}
		for p, pk := range pkgs {
			pp[p] = pk
		}
		return pp
	}
	return chainLinkImporter{pkgs: pkgs, errs: l.Err, msg: l.errMsg}
}

// chainLinkImporter is a custom importer: a package for some paths, an error for
// others (a policy / deny importer), (nil, nil) otherwise. It logs every request.
type chainLinkImporter struct {
	pkgs map[string]native.Package
	errs []string
	msg  func(path string) string
}

func (li chainLinkImporter) Import(path string) (native.ImportablePackage, error) {
	ev := importEvent{Path: path, Answer: "nil"}
	var p native.ImportablePackage
	var err error
	if pk, ok := li.pkgs[path]; ok {
		p, ev.Answer = pk, "pkg"
	} else {
		for _, e := range li.errs {
			if e == path {
				err, ev.Answer = fmt.Errorf("%s", li.msg(path)), "error"
			}
		}
	}
	importLog.Lock()
	importLog.events = append(importLog.events, ev)
	importLog.Unlock()
	return p, err
}

func makeChainImporter(chain []link) native.Importer {
	var ci native.CombinedImporter
	for i, l := range chain {
		ci = append(ci, linkImporter(i, l))
	}
	if len(ci) == 1 {
		return ci[0]
	}
	return ci
}

func makeImporter(kind string, paths []string) native.Importer {
	table := allPackages()
	sel := map[string]native.Package{}
	for _, p := range paths {
		if pk, ok := table[p]; ok {
			sel[p] = pk
		}
	}
	switch kind {
	case "nil":
		return nil
	case "packages":
		pp := native.Packages{}
		for p, pk := range sel {
			pp[p] = pk
		}
		return pp
	case "combined":
		a, b := native.Packages{}, map[string]native.Package{}
		sorted := append([]string{}, paths...)
		sort.Strings(sorted)
		for i, p := range sorted {
			if pk, ok := sel[p]; ok {
				if i%2 == 0 {
					a[p] = pk
				} else {
					b[p] = pk
				}
			}
		}
		return native.CombinedImporter{a, loggingImporter{pkgs: b}}
	case "customerr":
		return loggingImporter{pkgs: sel, errOther: true}
	default:
		return loggingImporter{pkgs: sel}
	}
}

func makeGlobals(names []string) native.Declarations {
	all := allGlobals()
	g := native.Declarations{}
	for _, n := range names {
		if d, ok := all[n]; ok {
			g[n] = d
		}
	}
	return g
}
