package c19

import (
	"fmt"
	"math/rand"
	"sort"
	"strings"
)

// Workload generator. A case is a program or a template assembled from
// snippets. Every snippet is a self-contained block of statements that uses
// host functionality in one particular way. "Legit" snippets use only what the
// configuration supplies; a case holds at most ONE forbidden construct (so that
// a successful build is attributable to it):
//
//	expect "build": no forbidden construct — the case must build; it is then run
//	                under the native-call monitor;
//	expect "fail" : one forbidden construct (unsupplied import, undeclared name,
//	                unexported member, go statement without AllowGoStmt, ...) —
//	                Build must return an error;
//	expect "any"  : a construct the property does not decide (e.g. an assertion to
//	                a literal interface type, which Scriggo may not support); if it
//	                builds it is run and monitored.

type config struct {
	Importer string   `json:"importer"` // nil | packages | combined | custom | customerr
	Pkgs     []string `json:"pkgs"`     // supplied native package paths
	GoStmt   bool     `json:"go_stmt"`
	Globals  []string `json:"globals,omitempty"` // template globals declared
	// Chain (Importer == "chain"): a native.CombinedImporter of these links, in order.
	Chain []link `json:"chain,omitempty"`
}

// link is one importer of a chain: native.Packages or a custom importer that
// returns a package for the paths of Pkgs (path -> variant, see variantPackage),
// (nil, error) for the paths of Err and (nil, nil) for everything else; or a
// nested CombinedImporter.
type link struct {
	Type   string            `json:"type"` // packages | custom
	Pkgs   map[string]string `json:"pkgs,omitempty"`
	Err    []string          `json:"err,omitempty"`
	Nested []link            `json:"nested,omitempty"`
	ID     string            `json:"id,omitempty"` // appears in the error message
}

func (l link) errMsg(path string) string { return "policy of importer " + l.ID + " denies " + path }

// answer is what an importer gives for a path.
type answer struct {
	Kind    string // pkg | err | nil
	Variant string // for pkg
	Msg     string // for err
}

// The documented contract of native.Importer / native.CombinedImporter as a
// small executable model: "Import calls the Import method of each importer and
// returns as soon as an importer returns a package" — or an error ("If an error
// occurs it returns the error, if the package does not exist it returns nil and
// nil"): the first importer of the chain that answers with a package or with an
// error decides.
func (l link) answer(path string) answer {
	if len(l.Nested) > 0 {
		return chainAnswer(l.Nested, path)
	}
	if v, ok := l.Pkgs[path]; ok {
		if _, ok := variantPackage(path, v); ok {
			return answer{Kind: "pkg", Variant: v}
		}
	}
	if l.Type != "packages" {
		for _, e := range l.Err {
			if e == path {
				return answer{Kind: "err", Msg: l.errMsg(path)}
			}
		}
	}
	return answer{Kind: "nil"}
}

func chainAnswer(chain []link, path string) answer {
	for _, l := range chain {
		if a := l.answer(path); a.Kind != "nil" {
			return a
		}
	}
	return answer{Kind: "nil"}
}

// resolve applies the model to the configured importer.
func (c config) resolve(path string) answer {
	switch c.Importer {
	case "nil":
		return answer{Kind: "nil"}
	case "chain":
		return chainAnswer(c.Chain, path)
	}
	for _, p := range c.Pkgs {
		if p == path {
			if _, ok := allPackages()[p]; ok {
				return answer{Kind: "pkg"}
			}
		}
	}
	if c.Importer == "customerr" {
		return answer{Kind: "err", Msg: fmt.Sprintf("importer: no package %q here", path)}
	}
	return answer{Kind: "nil"}
}

// candidatePaths lists every path the configuration may answer with a package.
func (c config) candidatePaths() []string {
	set := map[string]bool{}
	for _, p := range c.Pkgs {
		set[p] = true
	}
	var walk func(ls []link)
	walk = func(ls []link) {
		for _, l := range ls {
			for p := range l.Pkgs {
				set[p] = true
			}
			walk(l.Nested)
		}
	}
	walk(c.Chain)
	var out []string
	for p := range set {
		out = append(out, p)
	}
	sort.Strings(out)
	return out
}

type caseData struct {
	Kind     string            `json:"kind"` // program | template
	Files    map[string]string `json:"files"`
	Main     string            `json:"main,omitempty"`
	Config   config            `json:"config"`
	Expect   string            `json:"expect"`          // build | fail | any
	Probe    string            `json:"probe,omitempty"` // the forbidden / undecided construct
	Features []string          `json:"features"`        // legit snippet kinds, with placement
	// ExpectErr: text the build error must contain (the error of the importer
	// that, by the model, decides the import). ExpectCalls: supplied functions
	// that must appear in the call log of the run.
	ExpectErr   string   `json:"expect_err,omitempty"`
	ExpectCalls []string `json:"expect_calls,omitempty"`
	// Concurrent: the case combines go statements with host callbacks, so the
	// host-initiated tag of the call log is not reliable: the log cross-check
	// is then one-directional.
	Concurrent bool `json:"concurrent,omitempty"`
}

func (c config) has(path string) bool { return c.resolve(path).Kind == "pkg" }

func (c config) hasGlobal(name string) bool {
	for _, g := range c.Globals {
		if g == name {
			return true
		}
	}
	return false
}

// snippet is a block of statements. %Q is replaced by the qualifier of hostlib
// ("hostlib.", an alias, or "" for dot imports / unqualified template globals).
type snippet struct {
	kind   string
	code   string
	goStmt bool     // contains a go statement
	needs  []string // other native package paths it imports (e.g. "fmt")
	cb     bool     // a supplied function calls back a supplied function value
	tmplOK bool     // usable with unqualified template globals (lower-case names)
	// vars: refers to variables of the native package. On the pinned tree a
	// function literal or macro that refers to a native package variable through
	// a dot import / "import for" makes Build panic (nil dereference in
	// emitter.setFunctionVarRefs — C04/C05's business), so such snippets are
	// kept out of closures and macros for those import forms.
	vars bool
}

var legitSnippets = []snippet{
	{kind: "direct-call", code: `println(%QAdd(1, 2), %QDouble(4))`, tmplOK: true},
	{kind: "call-through-value", code: `f := %QAdd; g := f; println(g(3, 4))`, tmplOK: true},
	{kind: "call-in-closure", code: `func() { println(%QUpper("a")) }()`, tmplOK: true},
	{kind: "deferred-call", code: `func() { defer %QTouch(); println("d") }()`, tmplOK: true},
	{kind: "deferred-closure", code: `func() { defer func() { %QTouch() }(); println("dc") }()`, tmplOK: true},
	{kind: "go-call", code: `ch := make(chan int); go %QSend(ch, 7); println(<-ch)`, goStmt: true, tmplOK: true},
	{kind: "go-closure", code: `ch := make(chan int); go func() { ch <- %QAdd(1, 1) }(); println(<-ch)`, goStmt: true, tmplOK: true},
	{kind: "go-method", code: `ch := make(chan int); c := %QNewCounter(); go func() { c.Inc(); ch <- 1 }(); <-ch; println(c.N)`, goStmt: true, tmplOK: true},
	{kind: "method-call", code: `c := %QNewCounter(); c.Inc(); println(c.Add(2).N)`, tmplOK: true},
	{kind: "method-value", code: `c := %QNewCounter(); m := c.Inc; println(m(), m())`, tmplOK: true},
	{kind: "method-expression", code: `c := %QNewCounter(); println((*%QCounter).Inc(c))`, tmplOK: true},
	{kind: "method-value-deferred", code: `c := %QNewCounter(); func() { defer c.Inc() }(); println(c.N)`, tmplOK: true},
	{kind: "returned-function-value", code: `a := %QMakeAdder(5); println(a(1), %QMakeAdder(2)(2))`, tmplOK: true},
	{kind: "callback-host-function", code: `println(%QApply(%QDouble, 3))`, cb: true, tmplOK: true},
	{kind: "callback-returned-value", code: `println(%QApply(%QMakeAdder(1), 3))`, cb: true, tmplOK: true},
	{kind: "callback-scriggo-closure", code: `k := 1; println(%QApply(func(x int) int { return x + k }, 3))`, tmplOK: true},
	{kind: "callback-closure-calling-host", code: `println(%QApply(func(x int) int { return %QDouble(x) }, 3))`, cb: true, tmplOK: true},
	{kind: "identity-roundtrip", code: `g := %QIdentity(func(x int) int { return x * 2 }); println(g(4))`, tmplOK: true},
	{kind: "identity-host-value", code: `g := %QIdentity(%QDouble); println(g(4))`, tmplOK: true},
	{kind: "interface-method", code: `s := %QGetShape(); println(s.Area())`, tmplOK: true},
	{kind: "interface-method-value", code: `s := %QGetShape(); f := s.Area; println(f())`, tmplOK: true},
	{kind: "interface-method-expression", code: `println(%QShape.Area(%QGetShape()))`, tmplOK: true},
	{kind: "assert-to-supplied-bigger-interface", code: `s := %QGetShape(); if t, ok := s.(%QSecreter); ok { println(t.Secret()) }`, tmplOK: true},
	{kind: "assert-to-concrete", code: `s := %QGetShape(); println(s.(%QSquare).Side, s.(%QSquare).Secret())`, tmplOK: true},
	{kind: "assert-any", code: `var x interface{} = %QGetShape(); if q, ok := x.(%QSquare); ok { println(q.Area()) }`, tmplOK: true},
	{kind: "variadic", code: `xs := []int{1, 2}; println(%QSum(1, 2, 3), %QSum(), %QSum(xs...))`, tmplOK: true},
	{kind: "value-method-conversion", code: `t := %QCelsius(3); println(t.String(), int(t.Plus(2)))`, tmplOK: true},
	{kind: "promoted-method", code: `o := %QOuter{}; o.V = 2; println(o.Ping())`, tmplOK: true},
	{kind: "exported-func-field", code: `c := %QNewCounter(); c.Hidden(); h := c.Hidden; h()`, tmplOK: true},
	{kind: "complex-arithmetic", code: `c := complex(1, 2); d := c*c - c; d = -d / c; println(real(d) > 0)`, tmplOK: true},
	{kind: "print-hook", code: `print("x"); println(1, 2.5, true, "s")`, tmplOK: true},
	// program-only (exported package members)
	{kind: "variables", vars: true, code: `%QTotal = 5; %QTotal++; println(%QTotal, %QName, %QLimit, %QVersion)`},
	{kind: "func-variable", vars: true, code: `println(%QFuncVar(4)); %QFuncVar = %QMakeAdder(1); println(%QFuncVar(1))`},
	{kind: "variable-methods", vars: true, code: `println(%QTheCounter.Inc(), %QTheShape.Area(), %QTemp.String())`},
	{kind: "env-function", code: `println(%QEnvName("x"))`},
	{kind: "fast-path-natives", code: `println(%QLen("abc"), %QIndex("abc", "c"), %QRepeat("a", 2), %QHasPrefix("ab", "a"), %QUpper("q"))`},
	{kind: "go-then-fast-path", code: `ch := make(chan int); go %QSend(ch, %QLen("x")); println(<-ch)`, goStmt: true},
	{kind: "other-package-fmt", code: `println(fmt.Sprint(1, "a"))`, needs: []string{"fmt"}},
	{kind: "other-package-strings", code: `println(strings.ToUpper("a"), strings.Index("ab", "b"))`, needs: []string{"strings"}},
	{kind: "other-package-deep", code: `println(pkg.Double(2)); pkg.Touch()`, needs: []string{"example.com/deep/pkg"}},
	{kind: "other-package-os", code: `println(os.Getenv("HOME"))`, needs: []string{"os"}},
}

// forbidden constructs that are statements (they need hostlib imported unless
// noLib). Each must make Build fail.
type forbiddenStmt struct {
	kind  string
	code  string
	noLib bool // does not need hostlib
}

var forbiddenStmts = []forbiddenStmt{
	{kind: "undeclared-package:fmt", code: `fmt.Println("x")`, noLib: true},
	{kind: "undeclared-package:os", code: `os.Exit(1)`, noLib: true},
	{kind: "undeclared-package:unsafe", code: `var x int; println(unsafe.Sizeof(x))`, noLib: true},
	{kind: "undeclared-package:syscall", code: `syscall.Exit(1)`, noLib: true},
	{kind: "undeclared-package:hostlib-alias", code: `println(hostlib2.Add(1, 2))`, noLib: true},
	{kind: "undeclared-name:go-name-of-supplied-func", code: `println(hostAdd(1, 2))`, noLib: true},
	{kind: "undeclared-name:sentinel", code: `forbiddenSentinel()`, noLib: true},
	{kind: "undeclared-name:unqualified-member", code: `println(Add2(1, 2))`, noLib: true},
	{kind: "undeclared-name:scriggo-builtin-sprintf", code: `println(sprintf("%d", 1))`, noLib: true},
	{kind: "undeclared-name:scriggo-builtin-htmlEscape", code: `println(htmlEscape("<"))`, noLib: true},
	{kind: "undeclared-name:scriggo-builtin-abs", code: `println(abs(-1))`, noLib: true},
	{kind: "undeclared-name:scriggo-builtin-now", code: `println(now())`, noLib: true},
	{kind: "undeclared-name:scriggo-builtin-toUpper", code: `println(toUpper("a"))`, noLib: true},
	{kind: "undeclared-name:scriggo-builtin-base64", code: `println(base64("a"))`, noLib: true},
	{kind: "undeclared-name:unixtime", code: `println(Time{})`, noLib: true},
	{kind: "missing-member", code: `%QMissing()`},
	{kind: "missing-member:lowercase", code: `println(%Qadd(1, 2))`},
	{kind: "missing-member:go-name", code: `println(%QhostAdd(1, 2))`},
	{kind: "missing-member:go-type-name", code: `var c %QHostCounter; println(c.N)`},
	{kind: "missing-member:sentinel", code: `%QforbiddenSentinel()`},
	{kind: "missing-member:ForbiddenSentinel", code: `%QForbiddenSentinel()`},
	{kind: "unexported-method", code: `c := %QNewCounter(); println(c.secret())`},
	{kind: "unexported-method-value", code: `c := %QNewCounter(); f := c.secret; println(f())`},
	{kind: "unexported-method-expression", code: `c := %QNewCounter(); println((*%QCounter).secret(c))`},
	{kind: "unexported-field", code: `c := %QNewCounter(); println(c.n)`},
	{kind: "unexported-func-field", code: `c := %QNewCounter(); c.hidden()`},
	{kind: "unexported-field-in-literal", code: `c := %QCounter{n: 1}; println(c.N)`},
	{kind: "method-not-in-interface", code: `s := %QGetShape(); println(s.Secret())`},
	{kind: "method-not-in-interface-value", code: `s := %QGetShape(); f := s.Secret; println(f())`},
	{kind: "method-not-in-type", code: `t := %QCelsius(3); println(t.Secret())`},
}

// forbidden go statements (need !GoStmt).
var forbiddenGo = []forbiddenStmt{
	{kind: "go:plain", code: `go %QTouch()`},
	{kind: "go:closure-literal", code: `go func() {}()`, noLib: true},
	{kind: "go:inside-closure", code: `func() { go %QTouch() }()`},
	{kind: "go:inside-deferred-closure", code: `func() { defer func() { go %QTouch() }() }()`},
	{kind: "go:inside-nested-closure", code: `f := func() func() { return func() { go %QTouch() } }; f()()`},
	{kind: "go:builtin", code: `go println("x")`, noLib: true},
	{kind: "go:method", code: `c := %QNewCounter(); go c.Inc()`},
	{kind: "go:in-if-in-for", code: `for i := 0; i < 1; i++ { if i == 0 { go %QTouch() } }`},
	{kind: "go:in-switch", code: `switch { default: go %QTouch() }`},
	{kind: "go:unreachable", code: `if false { go %QTouch() }`},
	{kind: "go:labeled", code: `L: for { go %QTouch(); break L }`},
}

// import paths that are never supplied.
var unsuppliedPaths = []string{
	"os/exec", "unsafe", "syscall", "net/http", "C", "runtime", "reflect", "io/ioutil", "plugin", "net", "io", "time",
	"github.com/open2b/scriggo", "github.com/open2b/scriggo/builtin", "github.com/open2b/scriggo/native", "scriggo", "builtin", "main",
	"hostlib/internal", "hostli", "hostlib/", "hostlib2", "/hostlib", "./hostlib", "../hostlib", "HOSTLIB", "Hostlib", "hostlib.go",
	"hostlib/v2", "example.com/deep", "example.com/deep/pkg/sub", "example.com/deep/pk", "deep/pkg", "pkg",
	"fictitious/package", "a", "x/y/z", "fmt/", "fm", "fmt2", "strings/", "os.", "vendor/hostlib", "internal/hostlib",
}

// realUse gives, for standard-looking paths, a harmless use of a member that the
// real package has.
var realUse = map[string]string{
	"os": "Args", "os/exec": "ErrNotFound", "unsafe": "Sizeof(0)", "syscall": "Getpid", "net/http": "StatusOK", "runtime": "GOOS",
	"reflect": "TypeOf(1)", "io/ioutil": "Discard", "net": "IPv4len", "io": "EOF", "time": "Second", "fmt": "Sprint(1)",
	"strings": "ToUpper(\"a\")", "github.com/open2b/scriggo/builtin": "Abs(1)", "github.com/open2b/scriggo": "FormatHTML",
	"github.com/open2b/scriggo/native": "StopLookup", "hostlib": "Add(1, 2)", "hostlib/v2": "Add(1, 2)", "hostlib/internal": "Add(1, 2)",
	"example.com/deep/pkg": "Double(1)", "example.com/deep/pkg/sub": "Double(1)", "vendor/hostlib": "Add(1, 2)", "internal/hostlib": "Add(1, 2)",
	"hostlib/": "Add(1, 2)", "./hostlib": "Add(1, 2)", "../hostlib": "Add(1, 2)", "/hostlib": "Add(1, 2)",
}

// maybe-supplied standard-looking paths (in allPackages): forbidden when the
// configuration does not hold them.
var maybePaths = []string{"fmt", "os", "strings", "hostlib", "example.com/deep/pkg"}

type gen struct {
	r *rand.Rand
}

func (g *gen) config(tmpl bool) config {
	r := g.r
	c := config{GoStmt: r.Intn(2) == 0}
	c.Importer = pick(r, []string{"packages", "packages", "combined", "custom", "custom", "customerr", "nil"})
	for _, p := range maybePaths {
		prob := 2 // of 3
		if p == "os" {
			prob = 1
		}
		if p == "hostlib" && r.Intn(6) > 0 || p != "hostlib" && r.Intn(3) < prob {
			c.Pkgs = append(c.Pkgs, p)
		}
	}
	if tmpl {
		all := allGlobals()
		var names []string
		for n := range all {
			names = append(names, n)
		}
		sort.Strings(names)
		drop := r.Intn(4) // 0: all globals; else drop about a quarter
		for _, n := range names {
			if drop == 0 || r.Intn(4) > 0 {
				c.Globals = append(c.Globals, n)
			}
		}
		if r.Intn(10) == 0 {
			c.Globals = nil
		}
	}
	return c
}

func pick[T any](r *rand.Rand, s []T) T { return s[r.Intn(len(s))] }

// importLine renders an import declaration of a program.
func importLine(form, alias, path string) string {
	switch form {
	case "dot":
		return fmt.Sprintf("import . %q", path)
	case "blank":
		return fmt.Sprintf("import _ %q", path)
	case "alias":
		return fmt.Sprintf("import %s %q", alias, path)
	}
	return fmt.Sprintf("import %q", path)
}

// program generates a program case.
func (g *gen) program() caseData {
	r := g.r
	cfg := g.config(false)
	cd := caseData{Kind: "program", Config: cfg, Expect: "build", Files: map[string]string{}}
	// how hostlib is imported
	form := pick(r, []string{"plain", "plain", "alias", "dot"})
	q := "hostlib."
	switch form {
	case "alias":
		q = "hl."
	case "dot":
		q = ""
	}
	imports := map[string]string{} // import line -> ""
	mainUsesLib, libUsesLib := false, false
	var body []string
	useLibPkg := r.Intn(4) == 0 // snippets of a Scriggo package of the module
	var libBody []string
	libImports := map[string]string{}
	noClosure := false
	place := func(raw string, kind string) {
		usesLib := strings.Contains(raw, "%Q")
		code := strings.ReplaceAll(raw, "%Q", q)
		pl := "main"
		k := r.Intn(5)
		if k == 0 && noClosure {
			k = 2
		}
		switch k {
		case 0:
			code = "func() {\n\t\t" + code + "\n\t}()"
			pl = "closure"
		case 1:
			if useLibPkg {
				pl = "module-package"
			}
		}
		if pl == "module-package" {
			libBody = append(libBody, "{\n\t\t"+code+"\n\t}")
			libUsesLib = libUsesLib || usesLib
		} else {
			body = append(body, "{\n\t\t"+code+"\n\t}")
			mainUsesLib = mainUsesLib || usesLib
		}
		if kind != "" {
			cd.Features = append(cd.Features, kind+"@"+pl)
		}
	}
	sub := func(code string) string { return code }
	nLegit := 1 + r.Intn(5)
	hasGo, hasCB := false, false
	for i := 0; i < nLegit; i++ {
		s := pick(r, legitSnippets)
		if s.goStmt && !cfg.GoStmt {
			continue
		}
		if s.goStmt && hasCB || s.cb && hasGo {
			continue // keep the host-initiated tag of the call log reliable
		}
		hasGo = hasGo || s.goStmt
		hasCB = hasCB || s.cb
		before := len(libBody)
		noClosure = s.vars && form == "dot"
		place(sub(s.code), s.kind)
		noClosure = false
		inLib := len(libBody) > before
		for _, p := range s.needs {
			if inLib {
				libImports[importLine("plain", "", p)] = p
			} else {
				imports[importLine("plain", "", p)] = p
			}
			if !cfg.has(p) && cd.Expect == "build" {
				cd.Expect, cd.Probe = "fail", "import-unsupplied:"+p
			}
		}
	}
	// one forbidden construct
	if cd.Expect == "build" && r.Intn(2) == 0 {
		switch k := r.Intn(10); {
		case k < 3: // unsupplied import
			p := pick(r, unsuppliedPaths)
			if r.Intn(4) == 0 {
				p = pick(r, maybePaths)
				if cfg.has(p) {
					p = pick(r, unsuppliedPaths)
				}
			}
			f := pick(r, []string{"plain", "alias", "dot", "blank", "blank"})
			line := importLine(f, "zz", p)
			if useLibPkg && r.Intn(2) == 0 {
				libImports[line] = p
				libBody = append(libBody, "{ println(0) }")
			} else {
				imports[line] = p
			}
			if f == "plain" || f == "alias" || f == "dot" {
				// also use it, as a program written for the real package would:
				// an unused import is an error by itself, which would hide an
				// import that wrongly resolved
				name := p[strings.LastIndex(p, "/")+1:]
				if f == "alias" {
					name = "zz"
				}
				use, known := realUse[p]
				switch {
				case known && f == "dot":
					body = append(body, "{\n\t\t_ = "+use+"\n\t}")
				case known:
					body = append(body, "{\n\t\t_ = "+name+"."+use+"\n\t}")
				case isIdent(name) && f != "dot" && r.Intn(2) == 0:
					body = append(body, "{\n\t\t"+name+".Foo()\n\t}")
				}
			}
			cd.Expect, cd.Probe = "fail", "import-unsupplied:"+f+":"+p
		case k < 7:
			s := pick(r, forbiddenStmts)
			place(sub(s.code), "")
			cd.Expect, cd.Probe = "fail", s.kind
		default:
			if !cfg.GoStmt {
				s := pick(r, forbiddenGo)
				place(sub(s.code), "")
				cd.Expect, cd.Probe = "fail", s.kind
			}
		}
	} else if cd.Expect == "build" && r.Intn(12) == 0 {
		place(sub(`s := %QGetShape(); if t, ok := s.(interface{ Secret() int }); ok { println(t.Secret()) }`), "")
		cd.Expect, cd.Probe = "any", "assert-to-literal-interface"
	}
	if len(body) == 0 && len(libBody) == 0 {
		body = append(body, "{ println(1) }")
	}
	if mainUsesLib {
		imports[importLine(form, "hl", "hostlib")] = "hostlib"
	}
	if libUsesLib {
		libImports[importLine(form, "hl", "hostlib")] = "hostlib"
	}
	if (mainUsesLib || libUsesLib) && !cfg.has("hostlib") && cd.Expect != "fail" {
		cd.Expect, cd.Probe = "fail", "import-unsupplied:hostlib"
	}
	useLibPkg = useLibPkg && len(libBody) > 0
	if useLibPkg {
		imports[`import "example.test/m/lib"`] = ""
		body = append(body, "lib.Run()")
		var lb strings.Builder
		lb.WriteString("package lib\n\n")
		for _, l := range sortedKeys(libImports) {
			lb.WriteString(l + "\n")
		}
		lb.WriteString("\nfunc Run() {\n")
		for _, b := range libBody {
			lb.WriteString("\t" + b + "\n")
		}
		lb.WriteString("}\n")
		cd.Files["lib/lib.go"] = lb.String()
		cd.Files["go.mod"] = "module example.test/m\n"
	}
	var mb strings.Builder
	mb.WriteString("package main\n\n")
	for _, l := range sortedKeys(imports) {
		mb.WriteString(l + "\n")
	}
	mb.WriteString("\nfunc main() {\n")
	for _, b := range body {
		mb.WriteString("\t" + b + "\n")
	}
	mb.WriteString("}\n")
	cd.Files["main.go"] = mb.String()
	cd.Concurrent = hasGo && hasCB
	return cd
}

func isIdent(s string) bool {
	if s == "" || s == "_" {
		return false
	}
	for i, c := range s {
		if !(c == '_' || c >= 'a' && c <= 'z' || c >= 'A' && c <= 'Z' || i > 0 && c >= '0' && c <= '9') {
			return false
		}
	}
	return true
}

func sortedKeys(m map[string]string) []string {
	var ks []string
	for k := range m {
		ks = append(ks, k)
	}
	sort.Strings(ks)
	return ks
}

// ---- templates ----

// lowerFirst maps a hostlib member name to the template global name.
var globalOf = map[string]string{
	"Add": "add", "Double": "double", "Upper": "upper", "Len": "strlen", "Touch": "touch", "Send": "send", "Sum": "sum", "Apply": "apply",
	"MakeAdder": "makeAdder", "NewCounter": "newCounter", "GetShape": "getShape", "Identity": "identity",
	"Counter": "Counter", "Shape": "Shape", "Secreter": "Secreter", "Square": "Square", "Celsius": "Celsius", "Outer": "Outer",
}

// subGlobals rewrites %QName into the unqualified global name and returns the
// globals used.
func subGlobals(code string) (string, []string) {
	var used []string
	for {
		i := strings.Index(code, "%Q")
		if i < 0 {
			break
		}
		j := i + 2
		for j < len(code) && (code[j] >= 'a' && code[j] <= 'z' || code[j] >= 'A' && code[j] <= 'Z' || code[j] >= '0' && code[j] <= '9') {
			j++
		}
		name := code[i+2 : j]
		gname, ok := globalOf[name]
		if !ok {
			gname = name // forbidden snippets: names that do not exist anyway
		} else {
			used = append(used, gname)
		}
		code = code[:i] + gname + code[j:]
	}
	return code, used
}

var forbiddenTmplNames = []string{"sprintf", "htmlEscape", "abs", "now", "toUpper", "base64", "capitalize", "hasPrefix", "join", "md5", "sha1", "sort",
	"unsafeconv", "regexp", "date", "hostAdd", "forbiddenSentinel", "Add2", "os", "exec", "syscall", "unsafe", "runtime", "env", "vm"}

// template generates a template case.
func (g *gen) template() caseData {
	r := g.r
	cfg := g.config(true)
	cd := caseData{Kind: "template", Config: cfg, Expect: "build", Files: map[string]string{}}
	ext := pick(r, []string{".html", ".txt", ".html"})
	cd.Main = "index" + ext
	// how host functionality is reached: unqualified globals, the global
	// package "hostlib", or an imported native package
	mode := pick(r, []string{"globals", "globals", "global-package", "import", "import-alias", "import-for"})
	var head []string
	q := ""
	switch mode {
	case "global-package":
		q = "hostlib."
	case "import":
		q = "hostlib."
		head = append(head, `{% import "hostlib" %}`)
	case "import-alias":
		q = "hl."
		head = append(head, `{% import hl "hostlib" %}`)
	}
	var forNames []string
	fail := func(probe string) {
		if cd.Expect != "fail" {
			cd.Expect, cd.Probe = "fail", probe
		}
	}
	if (mode == "import" || mode == "import-alias") && !cfg.has("hostlib") {
		fail("import-unsupplied:hostlib")
	}
	sub := func(s snippet) (string, bool) {
		code := s.code
		switch mode {
		case "globals":
			if !s.tmplOK {
				return "", false
			}
			c, used := subGlobals(code)
			for _, u := range used {
				if !cfg.hasGlobal(u) {
					fail("undeclared-global:" + u)
				}
			}
			return c, true
		case "import-for":
			// {% import "hostlib" for A, B %}: names used unqualified
			for _, m := range memberNames(code) {
				forNames = append(forNames, m)
			}
			return strings.ReplaceAll(code, "%Q", ""), true
		case "global-package":
			if strings.Contains(code, "%Q") && !cfg.hasGlobal("hostlib") {
				fail("undeclared-global:hostlib")
			}
		default:
			if strings.Contains(code, "%Q") && !cfg.has("hostlib") {
				fail("import-unsupplied:hostlib")
			}
		}
		return strings.ReplaceAll(code, "%Q", q), true
	}
	// blocks of statements in different places of a multi-file template
	type blk struct{ code, placement string }
	var blocks []blk
	nLegit := 1 + r.Intn(4)
	hasGo, hasCB := false, false
	for i := 0; i < nLegit; i++ {
		s := pick(r, legitSnippets)
		if len(s.needs) > 0 {
			continue
		}
		if s.goStmt && !cfg.GoStmt || s.goStmt && hasCB || s.cb && hasGo {
			continue
		}
		code, ok := sub(s)
		if !ok {
			continue
		}
		hasGo = hasGo || s.goStmt
		hasCB = hasCB || s.cb
		pl := pick(r, []string{"body", "body", "macro", "closure", "partial", "imported-macro", "layout"})
		if s.vars && mode == "import-for" {
			pl = "body"
		}
		if mode == "import" || mode == "import-alias" || mode == "import-for" {
			// an imported native package is visible only in the file that imports it
			if pl == "partial" || pl == "imported-macro" || pl == "layout" {
				pl = "macro"
			}
		}
		blocks = append(blocks, blk{code, pl})
		cd.Features = append(cd.Features, s.kind+"@"+pl+"/"+mode)
	}
	// show of supplied values: their String methods are called by the renderer
	showStringer := r.Intn(3) == 0 && mode == "globals" && cfg.hasGlobal("Celsius") && cfg.hasGlobal("getShape") && cfg.hasGlobal("Square")
	// one forbidden construct
	if cd.Expect == "build" && r.Intn(2) == 0 {
		switch k := r.Intn(10); {
		case k < 3:
			p := pick(r, unsuppliedPaths)
			if r.Intn(4) == 0 {
				p = pick(r, maybePaths)
				if cfg.has(p) {
					p = pick(r, unsuppliedPaths)
				}
			}
			f := pick(r, []string{`{%% import %q %%}`, `{%% import zz %q %%}`, `{%% import . %q %%}`, `{%% import _ %q %%}`, `{%% import %q for Foo %%}`})
			head = append(head, fmt.Sprintf(f, p))
			fail("import-unsupplied:" + p)
		case k < 5:
			n := pick(r, forbiddenTmplNames)
			if !cfg.hasGlobal(n) {
				code := n + `("x")`
				if r.Intn(3) == 0 {
					code = "_ = " + n
				}
				blocks = append(blocks, blk{code, pick(r, []string{"body", "macro", "partial", "imported-macro"})})
				fail("undeclared-name:" + n)
			}
		case k < 7:
			s := pick(r, forbiddenStmts)
			if mode == "import-for" && !s.noLib {
				break
			}
			var code string
			if mode == "globals" {
				code, _ = subGlobals(s.code)
			} else {
				code = strings.ReplaceAll(s.code, "%Q", q)
			}
			if strings.HasPrefix(s.kind, "undeclared-package:") {
				name := strings.TrimPrefix(s.kind, "undeclared-package:")
				if cfg.hasGlobal(name) {
					break // a global package of that name is declared
				}
			}
			if s.kind == "undeclared-name:unixtime" || mode == "globals" && s.kind == "missing-member:lowercase" {
				break // "add" is the name of a declared global
			}
			blocks = append(blocks, blk{code, pick(r, []string{"body", "macro", "closure"})})
			fail(s.kind)
		default:
			if !cfg.GoStmt {
				s := pick(r, forbiddenGo)
				if mode == "import-for" && !s.noLib {
					break
				}
				var code string
				if mode == "globals" {
					var used []string
					code, used = subGlobals(s.code)
					for _, u := range used {
						if !cfg.hasGlobal(u) {
							fail("undeclared-global:" + u)
						}
					}
				} else {
					code = strings.ReplaceAll(s.code, "%Q", q)
				}
				blocks = append(blocks, blk{code, pick(r, []string{"body", "macro", "macro", "closure", "partial", "imported-macro", "layout"})})
				fail(s.kind + "@tmpl")
			}
		}
	}
	if mode == "import-for" {
		if len(forNames) > 0 {
			sort.Strings(forNames)
			forNames = uniqStrings(forNames)
			head = append(head, fmt.Sprintf(`{%% import "hostlib" for %s %%}`, strings.Join(forNames, ", ")))
			if !cfg.has("hostlib") {
				fail("import-unsupplied:hostlib")
			}
		}
	}
	// placement of blocks that need an imported native package is the main file
	wrap := func(code string) string { return "{%%\n\tif true {\n\t\t" + code + "\n\t}\n%%}\n" }
	var body, macros, partial, imported, layout strings.Builder
	nm := 0
	for _, b := range blocks {
		pl := b.placement
		if (mode == "import" || mode == "import-alias" || mode == "import-for") && (pl == "partial" || pl == "imported-macro" || pl == "layout") {
			pl = "macro"
		}
		switch pl {
		case "body":
			body.WriteString(wrap(b.code))
		case "closure":
			body.WriteString(wrap("func() {\n\t\t" + b.code + "\n\t}()"))
		case "macro":
			nm++
			fmt.Fprintf(&macros, "{%% macro Local%d %%}%s{%% end macro %%}\n", nm, wrap(b.code))
			fmt.Fprintf(&body, "{{ Local%d() }}\n", nm)
		case "partial":
			partial.WriteString(wrap(b.code))
		case "imported-macro":
			nm++
			fmt.Fprintf(&imported, "{%% macro Imp%d %%}%s{%% end macro %%}\n", nm, wrap(b.code))
			fmt.Fprintf(&body, "{{ Imp%d() }}\n", nm)
		case "layout":
			layout.WriteString(wrap(b.code))
		}
	}
	if showStringer {
		body.WriteString("{{ Celsius(4) }} {{ getShape().(Square) }}\n")
		cd.Features = append(cd.Features, "show-stringer@body/"+mode)
	}
	if imported.Len() > 0 {
		cd.Files["imp"+ext] = imported.String()
		head = append(head, fmt.Sprintf(`{%% import "imp%s" %%}`, ext))
	}
	if partial.Len() > 0 {
		cd.Files["part"+ext] = partial.String()
		body.WriteString(fmt.Sprintf("{{ render \"part%s\" }}\n", ext))
	}
	var idx strings.Builder
	if layout.Len() > 0 {
		cd.Files["layout"+ext] = "<html>" + layout.String() + "{{ Body() }}</html>\n"
		idx.WriteString(fmt.Sprintf("{%% extends \"layout%s\" %%}\n", ext))
		idx.WriteString(strings.Join(head, "\n") + "\n")
		idx.WriteString(macros.String())
		idx.WriteString("{% macro Body %}" + body.String() + "{% end macro %}\n")
	} else {
		idx.WriteString(strings.Join(head, "\n") + "\n")
		idx.WriteString(macros.String())
		idx.WriteString(body.String())
	}
	cd.Files[cd.Main] = idx.String()
	cd.Concurrent = hasGo && hasCB
	return cd
}

// memberNames lists the hostlib members a snippet uses (%QName).
func memberNames(code string) []string {
	var out []string
	for {
		i := strings.Index(code, "%Q")
		if i < 0 {
			return out
		}
		j := i + 2
		for j < len(code) && (code[j] >= 'a' && code[j] <= 'z' || code[j] >= 'A' && code[j] <= 'Z' || code[j] >= '0' && code[j] <= '9') {
			j++
		}
		out = append(out, code[i+2:j])
		code = code[j:]
	}
}

func uniqStrings(s []string) []string {
	var out []string
	for i, x := range s {
		if i == 0 || x != s[i-1] {
			out = append(out, x)
		}
	}
	return out
}
