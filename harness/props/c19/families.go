package c19

import (
	"fmt"
	"math/rand"
	"sort"
	"strings"
)

// Systematic families (enumerated in every tier, not drawn at random).
//
// Family "name/path": a supplied native package whose NAME is not the last
// element of its PATH (math/rand -> rand, host.test/api/v2 -> api, ...) is
// imported legitimately, and a second import names a path the importer does not
// supply but that is derived from the supplied one: the package name, a path
// element, a prefix, a suffix, a case variant, with slashes added. Every import
// form (plain, alias, dot, blank, "for") and every file role (same file before /
// after the real import, other package of the module in both directions,
// imported / extended / rendered template file in both directions). Build must
// fail: the importer was never able to return that path.
//
// Family "chain": CombinedImporter chains of 2-4 importers (native.Packages,
// custom importers answering with a package, (nil, nil) or (nil, err), nested
// CombinedImporters) for one target path; every combination of answers is
// enumerated. The executable model of the importer contract (config.resolve)
// says which importer decides: Build must fail with that importer's error, fail
// when nobody has the package, or succeed and reach exactly the package variant
// of the deciding importer (its functions run, members that only a later
// importer's variant has do not exist).

var nameNotLastElement = []string{"math/rand", "host.test/api/v2", "gopkg.test/yaml.v3", "example.com/deep/pkg", "Mixed/Case"}

// pathVariants derives fictitious import paths from a supplied package.
func pathVariants(path, name string) []string {
	els := strings.Split(path, "/")
	last := els[len(els)-1]
	cands := []string{
		name, last, els[0], strings.Join(els[1:], "/"), strings.Join(els[:len(els)-1], "/"),
		strings.ToUpper(path), strings.ToLower(path), strings.ToUpper(name[:1]) + name[1:], strings.ToUpper(name),
		path + "/", "/" + path, "./" + name, "../" + name, name + "/" + name, path + "/" + name, name + "/" + last,
		strings.ReplaceAll(path, "/", "_"), strings.ReplaceAll(path, "/", "."), " " + name, name + " ", path + ".go", name + ".go",
		"vendor/" + path, "internal/" + name,
	}
	seen := map[string]bool{path: true, "": true}
	var out []string
	for _, c := range cands {
		if !seen[c] {
			seen[c] = true
			out = append(out, c)
		}
	}
	return out
}

func (g *gen) familyNamePath() []caseData {
	r := g.r
	table := allPackages()
	var out []caseData
	for _, path := range nameNotLastElement {
		name := table[path].Name
		for _, v := range pathVariants(path, name) {
			cfg := config{Importer: pick(r, []string{"packages", "custom", "combined", "customerr"}), Pkgs: []string{path, "hostlib"}, GoStmt: false}
			if cfg.has(v) {
				continue
			}
			for _, form := range []string{"plain", "alias", "dot", "blank"} {
				for _, role := range []string{"same-file-after", "same-file-before", "module-package-real", "module-package-fictitious"} {
					out = append(out, namePathProgram(cfg, path, name, v, form, role))
				}
			}
			tcfg := cfg
			for n := range allGlobals() {
				tcfg.Globals = append(tcfg.Globals, n)
			}
			sort.Strings(tcfg.Globals)
			for _, form := range []string{"plain", "alias", "dot", "blank", "for"} {
				for _, role := range []string{"same-file-after", "same-file-before", "imported-file-fictitious", "imported-file-real", "layout-fictitious", "partial-fictitious"} {
					out = append(out, namePathTemplate(tcfg, path, name, v, form, role, pick(r, []string{".html", ".txt"})))
				}
			}
		}
	}
	return out
}

// fictitiousImport returns the import declaration of the fictitious path and a
// statement that uses the package the way code written for the real one would.
func fictitiousImport(v, name, form string) (imp, use string) {
	switch form {
	case "alias":
		return fmt.Sprintf("import zz %q", v), "println(zz.Double(2))"
	case "dot":
		return fmt.Sprintf("import . %q", v), "println(Double(3))"
	case "blank":
		return fmt.Sprintf("import _ %q", v), "println(0)"
	}
	return fmt.Sprintf("import %q", v), fmt.Sprintf("println(%s.Double(4))", name)
}

func namePathProgram(cfg config, path, name, v, form, role string) caseData {
	cd := caseData{Kind: "program", Config: cfg, Expect: "fail", Files: map[string]string{},
		Probe: fmt.Sprintf("import-path-derived-from-supplied:%s->%q/%s/%s", path, v, form, role)}
	realImp := fmt.Sprintf("import real %q", path)
	realUse := "println(real.Double(1))"
	fImp, fUse := fictitiousImport(v, name, form)
	file := func(pkg string, imps []string, fn string, body ...string) string {
		return "package " + pkg + "\n\n" + strings.Join(imps, "\n") + "\n\nfunc " + fn + "() {\n\t" + strings.Join(body, "\n\t") + "\n}\n"
	}
	switch role {
	case "same-file-after":
		cd.Files["main.go"] = file("main", []string{realImp, fImp}, "main", realUse, fUse)
	case "same-file-before":
		cd.Files["main.go"] = file("main", []string{fImp, realImp}, "main", fUse, realUse)
	case "module-package-real":
		cd.Files["go.mod"] = "module example.test/m\n"
		cd.Files["lib/lib.go"] = file("lib", []string{realImp}, "Run", realUse)
		cd.Files["main.go"] = file("main", []string{`import "example.test/m/lib"`, fImp}, "main", "lib.Run()", fUse)
	case "module-package-fictitious":
		cd.Files["go.mod"] = "module example.test/m\n"
		cd.Files["lib/lib.go"] = file("lib", []string{fImp}, "Run", fUse)
		cd.Files["main.go"] = file("main", []string{realImp, `import "example.test/m/lib"`}, "main", realUse, "lib.Run()")
	}
	return cd
}

func namePathTemplate(cfg config, path, name, v, form, role, ext string) caseData {
	cd := caseData{Kind: "template", Main: "index" + ext, Config: cfg, Expect: "fail", Files: map[string]string{},
		Probe: fmt.Sprintf("import-path-derived-from-supplied:%s->%q/%s/%s@tmpl", path, v, form, role)}
	realBlk := fmt.Sprintf("{%% import real %q %%}\n{{ real.Double(1) }}\n", path)
	var fBlk string
	switch form {
	case "alias":
		fBlk = fmt.Sprintf("{%% import zz %q %%}\n{{ zz.Double(2) }}\n", v)
	case "dot":
		fBlk = fmt.Sprintf("{%% import . %q %%}\n{{ Double(3) }}\n", v)
	case "blank":
		fBlk = fmt.Sprintf("{%% import _ %q %%}\n", v)
	case "for":
		fBlk = fmt.Sprintf("{%% import %q for Double %%}\n{{ Double(5) }}\n", v)
	default:
		fBlk = fmt.Sprintf("{%% import %q %%}\n{{ %s.Double(4) }}\n", v, name)
	}
	split := func(blk string) (imp, use string) {
		i := strings.Index(blk, "\n")
		return blk[:i+1], blk[i+1:]
	}
	rImp, rUse := split(realBlk)
	fImp, fUse := split(fBlk)
	switch role {
	case "same-file-after":
		cd.Files[cd.Main] = rImp + fImp + rUse + fUse
	case "same-file-before":
		cd.Files[cd.Main] = fImp + rImp + fUse + rUse
	case "imported-file-fictitious":
		cd.Files["imp"+ext] = fImp + "{% macro Imp %}" + fUse + "{% end macro %}\n"
		cd.Files[cd.Main] = rImp + fmt.Sprintf("{%% import \"imp%s\" %%}\n", ext) + rUse + "{{ Imp() }}\n"
	case "imported-file-real":
		cd.Files["imp"+ext] = rImp + "{% macro Imp %}" + rUse + "{% end macro %}\n"
		cd.Files[cd.Main] = fmt.Sprintf("{%% import \"imp%s\" %%}\n", ext) + fImp + "{{ Imp() }}\n" + fUse
	case "layout-fictitious":
		cd.Files["layout"+ext] = fImp + "<html>" + fUse + "{{ Body() }}</html>\n"
		cd.Files[cd.Main] = fmt.Sprintf("{%% extends \"layout%s\" %%}\n", ext) + rImp + "{% macro Body %}" + rUse + "{% end macro %}\n"
	case "partial-fictitious":
		cd.Files["part"+ext] = fImp + fUse
		cd.Files[cd.Main] = rImp + rUse + fmt.Sprintf("{{ render \"part%s\" }}\n", ext)
	}
	return cd
}

// ---- chains ----

// chainFromBehaviours builds a chain whose i-th importer answers the target path
// with behaviour b[i] ('p' package variant i+1, 'n' nil, 'e' error).
func chainFromBehaviours(r *rand.Rand, target string, b string, fake bool) []link {
	var chain []link
	for i := 0; i < len(b); i++ {
		l := link{ID: fmt.Sprintf("L%d", i+1), Type: "custom", Pkgs: map[string]string{}}
		switch b[i] {
		case 'p':
			if fake {
				l.Pkgs[target] = "fake"
			} else {
				l.Pkgs[target] = fmt.Sprint(i + 1)
			}
			if r.Intn(2) == 0 {
				l.Type = "packages"
			}
		case 'e':
			l.Err = []string{target}
		case 'n':
			if r.Intn(2) == 0 {
				l.Type = "packages"
			}
		}
		// other content, so that the links are not trivially empty
		switch r.Intn(4) {
		case 0:
			l.Pkgs["strings"] = ""
		case 1:
			if l.Type == "custom" {
				l.Err = append(l.Err, "os/signal")
			}
		}
		chain = append(chain, l)
	}
	// hostlib is supplied by the last link only
	chain[len(chain)-1].Pkgs["hostlib"] = ""
	// sometimes the first two links are a nested CombinedImporter
	if len(chain) >= 3 && r.Intn(3) == 0 {
		chain = append([]link{{ID: "N", Nested: chain[:2]}}, chain[2:]...)
	}
	return chain
}

func behaviours(n int) []string {
	if n == 0 {
		return []string{""}
	}
	var out []string
	for _, rest := range behaviours(n - 1) {
		for _, c := range "pne" {
			out = append(out, string(c)+rest)
		}
	}
	return out
}

func (g *gen) familyChains() []caseData {
	r := g.r
	var out []caseData
	for n := 2; n <= 4; n++ {
		for _, b := range behaviours(n) {
			for _, role := range []string{"program", "module-package", "template", "template-imported-file"} {
				if n == 4 && r.Intn(3) > 0 {
					continue // length 4: a third of the combinations per role
				}
				fake := r.Intn(4) == 0
				target := "shadow"
				if fake {
					target = pick(r, []string{"os/exec", "net/http", "unsafe"})
				}
				chain := chainFromBehaviours(r, target, b, fake)
				cfg := config{Importer: "chain", Chain: chain, GoStmt: false}
				a := cfg.resolve(target)
				name := target[strings.LastIndex(target, "/")+1:]
				cd := caseData{Kind: "program", Config: cfg, Files: map[string]string{}}
				use := "println(" + name + ".Double(1))"
				switch a.Kind {
				case "pkg":
					cd.Expect = "build"
					if !fake {
						use = "println(shadow.Which(), shadow.Only" + a.Variant + "())"
						cd.ExpectCalls = []string{"hostWhich" + a.Variant, "hostOnly" + a.Variant}
						// a member that only a later importer's variant has must not exist
						if later := strings.LastIndex(b, "p"); later >= 0 && fmt.Sprint(later+1) != a.Variant && r.Intn(2) == 0 {
							use = fmt.Sprintf("println(shadow.Only%d())", later+1)
							cd.Expect, cd.ExpectCalls = "fail", nil
							cd.Probe = fmt.Sprintf("chain:%s/member-of-shadowed-variant-%d", b, later+1)
						}
					} else {
						cd.ExpectCalls = []string{"hostDouble"}
					}
				case "err":
					cd.Expect, cd.ExpectErr = "fail", a.Msg
					cd.Probe = "chain:" + b + "/error-decides"
					if !fake {
						use = "println(shadow.Which())"
					}
				default:
					cd.Expect = "fail"
					cd.Probe = "chain:" + b + "/nobody-has-it"
					if !fake {
						use = "println(shadow.Which())"
					}
				}
				cd.Features = []string{"chain:" + b + "@" + role}
				imp := fmt.Sprintf("import %q", target)
				switch role {
				case "program":
					cd.Files["main.go"] = "package main\n\n" + imp + "\nimport \"hostlib\"\n\nfunc main() {\n\t" + use + "\n\thostlib.Touch()\n}\n"
				case "module-package":
					cd.Files["go.mod"] = "module example.test/m\n"
					cd.Files["lib/lib.go"] = "package lib\n\n" + imp + "\n\nfunc Run() {\n\t" + use + "\n}\n"
					cd.Files["main.go"] = "package main\n\nimport \"example.test/m/lib\"\nimport \"hostlib\"\n\nfunc main() {\n\tlib.Run()\n\thostlib.Touch()\n}\n"
				case "template":
					cd.Kind, cd.Main = "template", "index.html"
					cd.Files["index.html"] = fmt.Sprintf("{%% import %q %%}{%% import \"hostlib\" %%}\n{%%%%\n\t%s\n\thostlib.Touch()\n%%%%}\n", target, use)
				case "template-imported-file":
					cd.Kind, cd.Main = "template", "index.txt"
					cd.Files["imp.txt"] = fmt.Sprintf("{%% import %q %%}{%% macro Imp %%}{%%%% %s %%%%}{%% end macro %%}\n", target, use)
					cd.Files["index.txt"] = "{% import \"imp.txt\" %}{% import \"hostlib\" %}\n{{ Imp() }}{%% hostlib.Touch() %%}\n"
				}
				out = append(out, cd)
			}
		}
	}
	return out
}
