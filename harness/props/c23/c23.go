// Package c23 checks that scriggo.Files is a well-behaved io/fs file system.
//
// Oracles: testing/fstest.TestFS (the standard library's conformance checker) and an
// explicit reference model of the tree (directories implied by the file names, sorted
// children, sizes, modes) against which Open, Stat, Read, ReadDir paging sequences,
// fs.WalkDir and the error results for names that do not exist are compared.
package c23

import (
	"errors"
	"fmt"
	"io"
	"io/fs"
	"math/rand"
	"path"
	"sort"
	"strings"
	"testing/fstest"
	"unicode/utf8"

	"github.com/open2b/scriggo"

	"verif/core"
)

type prop struct{}

func init() { core.Register(prop{}) }

func (prop) ID() string    { return "C23" }
func (prop) Level() string { return "exploration" }

type caseData struct {
	Files    map[string][]byte `json:"files"`     // name -> content (base64 in JSON)
	PlanSeed int64             `json:"plan_seed"` // seeds the mixed ReadDir paging sequences and read-buffer sizes
	NoTestFS bool              `json:"no_testfs,omitempty"`
}

// ---------------------------------------------------------------- driver

func (prop) Drive(d *core.Driver) error {
	d.T.Rule = "random file trees (depth <= 5, fan-out <= 8, segment names with dots, spaces, characters sorting before '/', Unicode, names that are string prefixes of siblings; empty and large files; the empty map and single-file maps) turned into a scriggo.Files map. Every tree is checked with testing/fstest.TestFS and with an explicit model: Open/Stat/Read (several buffer sizes) of every file, Stat and ReadDir of every implied directory with the paging sequences n=1,2,3,len,len+1,-1,0 and seeded mixed sequences, fs.WalkDir, and Open of names that must not exist. evaluations = fs operations judged by the model (+1 per TestFS run). distinct_nontrivial counts distinct (directory size class, paging plan class, has-subdirectory) triples for ReadDir plus (file size class, buffer class) pairs for reads"
	d.T.Assumptions = []string{
		"file names are valid (fs.ValidPath) and non-conflicting (no file name is a directory of another)",
		"ReadDir(n<=0) returns the entries not yet returned (the reading that fstest.TestFS enforces)",
	}
	r := d.Rand("trees")
	n := d.N(300, 20000)
	var cases []core.Case
	for i := 0; i < n; i++ {
		files := genTree(r, i)
		cd := caseData{Files: files, PlanSeed: r.Int63()}
		cases = append(cases, core.NewCase(fmt.Sprintf("tree-%d", i), cd))
		if i >= 3 && i < 6 {
			names := make([]string, 0, len(files))
			for k := range files {
				names = append(names, k)
			}
			sort.Strings(names)
			if len(names) > 12 {
				names = append(names[:12], "…")
			}
			d.T.Sample(map[string]any{"case": fmt.Sprintf("tree-%d", i), "names": names})
		}
	}
	d.Run(cases, core.RunOpts{})
	return nil
}

var segments = []string{
	"a", "b", "ab", "a.b", "a b", "a!", "a-b", "a0", "A", "_", "0", "x.txt", ".hidden", "...", "index.html",
	"é", "日本", "ü.md", "á", "zz", "c", "d", "e", "templates", "partials", "a~", "a,b", "a+b", "%41",
}

func genTree(r *rand.Rand, i int) map[string][]byte {
	files := map[string][]byte{}
	switch {
	case i == 0:
		return files // the empty file system
	case i == 1:
		files["a"] = nil
		return files
	case i == 2:
		files["a/b/c/d/e"] = []byte("x")
		return files
	}
	maxDepth := 1 + r.Intn(5)
	maxFan := 1 + r.Intn(8)
	var fill func(dir string, depth int)
	fill = func(dir string, depth int) {
		k := 1 + r.Intn(maxFan)
		perm := r.Perm(len(segments))
		for j := 0; j < k; j++ {
			name := segments[perm[j]]
			if dir != "" {
				name = dir + "/" + name
			}
			if depth < maxDepth && r.Intn(3) == 0 {
				fill(name, depth+1)
				continue
			}
			var content []byte
			switch r.Intn(6) {
			case 0, 1:
				// empty
			case 2:
				content = make([]byte, 3000+r.Intn(6000))
			default:
				content = make([]byte, 1+r.Intn(100))
			}
			for x := range content {
				content[x] = byte(r.Intn(256))
			}
			files[name] = content
		}
	}
	fill("", 1)
	return files
}

// ---------------------------------------------------------------- model

type node struct {
	name     string // full name ("." for the root)
	dir      bool
	data     []byte
	children []string // base names, sorted
}

func buildModel(files map[string][]byte) map[string]*node {
	m := map[string]*node{".": {name: ".", dir: true}}
	kids := map[string]map[string]bool{".": {}}
	for name, data := range files {
		m[name] = &node{name: name, data: data}
		child := name
		for {
			parent := path.Dir(child)
			if kids[parent] == nil {
				kids[parent] = map[string]bool{}
			}
			kids[parent][path.Base(child)] = true
			if parent == "." {
				break
			}
			if _, ok := m[parent]; !ok {
				m[parent] = &node{name: parent, dir: true}
			}
			child = parent
		}
	}
	for dir, set := range kids {
		n := m[dir]
		for k := range set {
			n.children = append(n.children, k)
		}
		sort.Strings(n.children)
	}
	return m
}

func join(dir, base string) string {
	if dir == "." {
		return base
	}
	return dir + "/" + base
}

// ---------------------------------------------------------------- worker

type state struct {
	evals  int64
	sigs   map[string]struct{}
	counts map[string]int64
	viol   string
}

func (st *state) fail(format string, a ...any) {
	if st.viol == "" {
		st.viol = fmt.Sprintf(format, a...)
	}
}

func (prop) Work(c core.Case) core.Result {
	var cd caseData
	c.Decode(&cd)
	st := &state{sigs: map[string]struct{}{}, counts: map[string]int64{}}
	v, panicked, stack := core.Guard(func() { st.check(cd) })
	res := core.Result{Status: core.OK, Evals: st.evals, Counts: st.counts}
	for s := range st.sigs {
		res.Sigs = append(res.Sigs, s)
	}
	sort.Strings(res.Sigs)
	if panicked {
		res.Status = core.Violation
		res.Detail = fmt.Sprintf("panic while using scriggo.Files: %v\n%s", v, stack)
	} else if st.viol != "" {
		res.Status = core.Violation
		res.Detail = st.viol
	}
	return res
}

func sizeClass(n int) string {
	switch {
	case n == 0:
		return "0"
	case n == 1:
		return "1"
	case n <= 3:
		return "2-3"
	case n <= 8:
		return "4-8"
	case n <= 512:
		return "9-512"
	}
	return ">512"
}

func (st *state) check(cd caseData) {
	fsys := scriggo.Files{}
	for k, v := range cd.Files {
		fsys[k] = v
	}
	st.checkFS(fsys, cd)
}

// checkFS judges fsys against the tree described by cd.Files (fsys is a scriggo.Files
// except in the oracle's own unit tests).
func (st *state) checkFS(fsys fs.FS, cd caseData) {
	var names []string
	for k := range cd.Files {
		names = append(names, k)
	}
	sort.Strings(names)
	m := buildModel(cd.Files)
	r := rand.New(rand.NewSource(cd.PlanSeed))

	var all []string // every path of the model
	for k := range m {
		all = append(all, k)
	}
	sort.Strings(all)

	// ---- explicit model first (its messages are more specific than TestFS's)
	for _, name := range all {
		nd := m[name]
		if nd.dir {
			st.checkDir(fsys, m, nd, r)
		} else {
			st.checkFile(fsys, nd, r)
		}
		if st.viol != "" {
			return
		}
	}
	st.checkWalk(fsys, all)
	if st.viol != "" {
		return
	}
	st.checkAbsent(fsys, m, all)
	if st.viol != "" {
		return
	}

	// ---- the standard library's conformance checker
	if !cd.NoTestFS {
		st.evals++
		st.counts["testfs_runs"]++
		if err := fstest.TestFS(fsys, names...); err != nil {
			st.fail("fstest.TestFS(Files%v) reports: %v", core.Truncate(fmt.Sprintf("%q", names), 600), core.Truncate(err.Error(), 3000))
		}
	}
}

func (st *state) checkInfo(where string, fi fs.FileInfo, nd *node) bool {
	wantName := path.Base(nd.name)
	if fi.Name() != wantName {
		st.fail("%s: Name() = %q, want %q", where, fi.Name(), wantName)
		return false
	}
	if fi.IsDir() != nd.dir || fi.Mode().IsDir() != nd.dir {
		st.fail("%s: IsDir() = %v, Mode() = %v, want directory = %v", where, fi.IsDir(), fi.Mode(), nd.dir)
		return false
	}
	if !nd.dir {
		if !fi.Mode().IsRegular() {
			st.fail("%s: Mode() = %v, want a regular file", where, fi.Mode())
			return false
		}
		if fi.Size() != int64(len(nd.data)) {
			st.fail("%s: Size() = %d, want %d", where, fi.Size(), len(nd.data))
			return false
		}
	}
	return true
}

func (st *state) checkFile(fsys fs.FS, nd *node, r *rand.Rand) {
	bufs := []int{1, 2, 7, len(nd.data), len(nd.data) + 1, 4096, -1}
	for _, bs := range bufs {
		if bs == 0 {
			bs = 1
		}
		st.evals++
		st.counts["file_reads"]++
		f, err := fsys.Open(nd.name)
		if err != nil {
			st.fail("Open(%q) of an existing file: %v", nd.name, err)
			return
		}
		if _, ok := f.(fs.ReadDirFile); ok {
			// a regular file that also offers ReadDir is allowed by io/fs only if it fails; not required here
		}
		fi, err := f.Stat()
		if err != nil {
			st.fail("Open(%q).Stat(): %v", nd.name, err)
			return
		}
		if !st.checkInfo(fmt.Sprintf("Open(%q).Stat()", nd.name), fi, nd) {
			return
		}
		var got []byte
		class := fmt.Sprint(bs)
		steps := 0
		for {
			n := bs
			if bs < 0 { // random sizes, including zero-length reads
				n = r.Intn(9)
				class = "mixed"
			}
			buf := make([]byte, n)
			k, err := f.Read(buf)
			steps++
			if k < 0 || k > n {
				st.fail("Open(%q).Read(buf of %d) returned n=%d", nd.name, n, k)
				return
			}
			got = append(got, buf[:k]...)
			if err == io.EOF {
				break
			}
			if err != nil {
				st.fail("Open(%q).Read: unexpected error %v after %d bytes", nd.name, err, len(got))
				return
			}
			if len(got) > len(nd.data) || steps > 4*len(nd.data)+64 {
				st.fail("Open(%q).Read does not terminate with io.EOF: %d bytes read in %d calls, content has %d", nd.name, len(got), steps, len(nd.data))
				return
			}
		}
		if string(got) != string(nd.data) {
			st.fail("Open(%q) read with buffer size %s gives %d bytes %q, want %d bytes %q", nd.name, class, len(got), core.Truncate(string(got), 80), len(nd.data), core.Truncate(string(nd.data), 80))
			return
		}
		// at EOF: (0, io.EOF) again
		if k, err := f.Read(make([]byte, 4)); k != 0 || err != io.EOF {
			st.fail("Open(%q).Read at EOF = (%d, %v), want (0, io.EOF)", nd.name, k, err)
			return
		}
		if err := f.Close(); err != nil {
			st.fail("Open(%q).Close() = %v", nd.name, err)
			return
		}
		f.Close() // closing twice must not crash
		if len(nd.data) > 0 {
			bc := class
			if bs == len(nd.data) {
				bc = "len"
			} else if bs == len(nd.data)+1 {
				bc = "len+1"
			}
			st.sigs["read/size"+sizeClass(len(nd.data))+"/buf"+bc] = struct{}{}
		}
	}
	// helpers of io/fs
	st.evals += 2
	b, err := fs.ReadFile(fsys, nd.name)
	if err != nil || string(b) != string(nd.data) {
		st.fail("fs.ReadFile(%q) = %d bytes, %v; want %d bytes", nd.name, len(b), err, len(nd.data))
		return
	}
	fi, err := fs.Stat(fsys, nd.name)
	if err != nil {
		st.fail("fs.Stat(%q): %v", nd.name, err)
		return
	}
	st.checkInfo(fmt.Sprintf("fs.Stat(%q)", nd.name), fi, nd)
}

// plans returns the ReadDir argument sequences tried on a directory with l children.
func plans(l int, r *rand.Rand) [][]int {
	rep := func(n int) []int {
		var p []int
		for i := 0; i <= l/n+1; i++ {
			p = append(p, n)
		}
		return p
	}
	ps := [][]int{rep(1), rep(2), rep(3), {l + 1, l + 1}, {-1, -1, 1}, {0, 0, 1}, {1, -1, -1, 1}, {2, 0, 1}, {1, 1, -1}}
	if l > 0 {
		ps = append(ps, []int{l, l, -1}, []int{l, 1})
	}
	for i := 0; i < 3; i++ {
		var p []int
		for j := 0; j < 2+r.Intn(l+3); j++ {
			switch r.Intn(8) {
			case 0:
				p = append(p, -1)
			case 1:
				p = append(p, 0)
			default:
				p = append(p, 1+r.Intn(4))
			}
		}
		ps = append(ps, p)
	}
	return ps
}

func planClass(p []int) string {
	neg, pos := false, map[int]bool{}
	for _, n := range p {
		if n <= 0 {
			neg = true
		} else {
			pos[n] = true
		}
	}
	switch {
	case neg && len(pos) > 0:
		return "mixed-all+paged"
	case neg:
		return "all"
	case len(pos) == 1:
		for n := range pos {
			if n <= 3 {
				return fmt.Sprintf("paged-%d", n)
			}
		}
		return "paged-big"
	}
	return "paged-mixed"
}

func (st *state) checkDir(fsys fs.FS, m map[string]*node, nd *node, r *rand.Rand) {
	hasSub := "flat"
	for _, c := range nd.children {
		if m[join(nd.name, c)].dir {
			hasSub = "subdirs"
		}
	}
	for _, plan := range plans(len(nd.children), r) {
		st.evals++
		f, err := fsys.Open(nd.name)
		if err != nil {
			st.fail("Open(%q) of an implied directory: %v", nd.name, err)
			return
		}
		fi, err := f.Stat()
		if err != nil {
			st.fail("Open(%q).Stat(): %v", nd.name, err)
			return
		}
		if !st.checkInfo(fmt.Sprintf("Open(%q).Stat()", nd.name), fi, nd) {
			return
		}
		rd, ok := f.(fs.ReadDirFile)
		if !ok {
			st.fail("Open(%q) is a directory but does not implement fs.ReadDirFile", nd.name)
			return
		}
		remaining := nd.children
		var did []string
		for _, n := range plan {
			st.evals++
			st.counts["readdir_calls"]++
			got, err := rd.ReadDir(n)
			did = append(did, fmt.Sprint(n))
			where := fmt.Sprintf("directory %q with children %q: ReadDir sequence [%s]: last call", nd.name, nd.children, strings.Join(did, " "))
			var want []string
			var wantErr error
			if n > 0 {
				if len(remaining) == 0 {
					wantErr = io.EOF
				} else if len(remaining) > n {
					want = remaining[:n]
				} else {
					want = remaining
				}
			} else {
				want = remaining
			}
			remaining = remaining[len(want):]
			var gotNames []string
			for _, e := range got {
				gotNames = append(gotNames, e.Name())
			}
			if err != wantErr {
				st.fail("%s returned error %v (with entries %q), want error %v and entries %q", where, err, gotNames, wantErr, want)
				return
			}
			if strings.Join(gotNames, "\x00") != strings.Join(want, "\x00") || len(gotNames) != len(want) {
				st.fail("%s returned entries %q, want %q (sorted children not yet returned)", where, gotNames, want)
				return
			}
			for _, e := range got {
				child := m[join(nd.name, e.Name())]
				ew := fmt.Sprintf("directory %q: ReadDir entry %q", nd.name, e.Name())
				if e.IsDir() != child.dir {
					st.fail("%s: IsDir() = %v, want %v", ew, e.IsDir(), child.dir)
					return
				}
				wantType := fs.FileMode(0)
				if child.dir {
					wantType = fs.ModeDir
				}
				if e.Type() != wantType {
					st.fail("%s: Type() = %v, want %v", ew, e.Type(), wantType)
					return
				}
				info, err := e.Info()
				if err != nil {
					st.fail("%s: Info(): %v", ew, err)
					return
				}
				if !st.checkInfo(ew+".Info()", info, child) {
					return
				}
				if info.Mode().Type() != e.Type() {
					st.fail("%s: Info().Mode().Type() = %v but Type() = %v", ew, info.Mode().Type(), e.Type())
					return
				}
			}
		}
		f.Close()
		st.sigs["readdir/children"+sizeClass(len(nd.children))+"/"+planClass(plan)+"/"+hasSub] = struct{}{}
	}
	// fs.ReadDir helper
	st.evals++
	list, err := fs.ReadDir(fsys, nd.name)
	if err != nil {
		st.fail("fs.ReadDir(%q): %v", nd.name, err)
		return
	}
	var gotNames []string
	for _, e := range list {
		gotNames = append(gotNames, e.Name())
	}
	if strings.Join(gotNames, "\x00") != strings.Join(nd.children, "\x00") {
		st.fail("fs.ReadDir(%q) = %q, want %q", nd.name, gotNames, nd.children)
	}
}

func (st *state) checkWalk(fsys fs.FS, all []string) {
	st.evals++
	st.counts["walks"]++
	var got []string
	err := fs.WalkDir(fsys, ".", func(p string, d fs.DirEntry, err error) error {
		if err != nil {
			return fmt.Errorf("at %q: %v", p, err)
		}
		got = append(got, p)
		return nil
	})
	if err != nil {
		st.fail("fs.WalkDir: %v", err)
		return
	}
	sort.Strings(got)
	if strings.Join(got, "\x00") != strings.Join(all, "\x00") {
		st.fail("fs.WalkDir visits %q, want %q", got, all)
	}
}

// checkAbsent opens names that must not exist.
func (st *state) checkAbsent(fsys fs.FS, m map[string]*node, all []string) {
	cands := map[string]bool{"": true, "/": true, "..": true, "./a": true, "a/": true, "/a": true, "a//b": true, "a/./b": true, "a/../a": true, "no-such": true, "a\xffb": true, "no/such/file": true}
	for _, name := range all {
		if name == "." {
			continue
		}
		nd := m[name]
		cands[name+"/"] = true
		cands["/"+name] = true
		cands["./"+name] = true
		cands[name+"/."] = true
		cands[name+"x"] = true // "ab" when only "a" exists ...
		cands[name+"/zzz-absent"] = true
		if _, size := utf8.DecodeLastRuneInString(name); size < len(name) {
			cands[name[:len(name)-size]] = true // a string prefix of an existing name
		}
		if !nd.dir {
			cands[name+"/"+path.Base(name)] = true // below a regular file
		}
	}
	var names []string
	for k := range cands {
		if _, ok := m[k]; !ok {
			names = append(names, k)
		}
	}
	sort.Strings(names)
	for _, name := range names {
		st.evals++
		st.counts["absent_opens"]++
		f, err := fsys.Open(name)
		if err == nil {
			f.Close()
			st.fail("Open(%q) succeeded, but the file system has only %q", name, all)
			return
		}
		var pe *fs.PathError
		if !errors.As(err, &pe) || pe.Op != "open" || pe.Path != name {
			st.fail("Open(%q) error is %#v, want a *fs.PathError with Op \"open\" and Path %q", name, err, name)
			return
		}
		if !errors.Is(err, fs.ErrNotExist) && !errors.Is(err, fs.ErrInvalid) {
			st.fail("Open(%q) error %v is neither fs.ErrNotExist nor fs.ErrInvalid", name, err)
			return
		}
		if fs.ValidPath(name) && !errors.Is(err, fs.ErrNotExist) {
			st.fail("Open(%q) (valid path, no such file) error %v is not fs.ErrNotExist", name, err)
			return
		}
	}
	st.sigs["absent-names"] = struct{}{}
}
