package c23

import (
	"io"
	"io/fs"
	"strings"
	"testing"
	"testing/fstest"
)

var tree = map[string][]byte{"a/b.txt": []byte("hello"), "a/c/d": nil, "a!": []byte("x"), "ab": []byte("yy"), "e": []byte("xy"), "f.g/h": []byte("z"), "é/日本": []byte("u")}

func mapFS(files map[string][]byte) fstest.MapFS {
	m := fstest.MapFS{}
	for k, v := range files {
		m[k] = &fstest.MapFile{Data: v}
	}
	return m
}

func run(fsys fs.FS) string {
	st := &state{sigs: map[string]struct{}{}, counts: map[string]int64{}}
	st.checkFS(fsys, caseData{Files: tree, PlanSeed: 7})
	return st.viol
}

func TestOracleAcceptsMapFS(t *testing.T) {
	if v := run(mapFS(tree)); v != "" {
		t.Fatalf("fstest.MapFS (a correct io/fs) flagged: %s", v)
	}
	for _, files := range []map[string][]byte{{}, {"a": nil}, {"a/b/c/d/e": []byte("x")}} {
		st := &state{sigs: map[string]struct{}{}, counts: map[string]int64{}}
		st.checkFS(mapFS(files), caseData{Files: files, PlanSeed: 1})
		if st.viol != "" {
			t.Errorf("MapFS %v flagged: %s", files, st.viol)
		}
	}
}

// wrapFS alters the directories of a correct file system in one selected way.
type wrapFS struct {
	fs.FS
	mode string
}

type wrapDir struct {
	fs.ReadDirFile
	mode string
	all  []fs.DirEntry
	pos  int
	init bool
}

type wrapEntry struct {
	fs.DirEntry
	mode string
}

func (e wrapEntry) IsDir() bool {
	if e.mode == "dirs-as-files" {
		return false
	}
	return e.DirEntry.IsDir()
}
func (e wrapEntry) Type() fs.FileMode {
	if e.mode == "dirs-as-files" {
		return 0
	}
	return e.DirEntry.Type()
}
func (e wrapEntry) Info() (fs.FileInfo, error) {
	fi, err := e.DirEntry.Info()
	if e.mode == "size-zero" && err == nil {
		return zeroSize{fi}, nil
	}
	return fi, err
}

type zeroSize struct{ fs.FileInfo }

func (zeroSize) Size() int64 { return 0 }

func (w wrapFS) Open(name string) (fs.File, error) {
	if w.mode == "prefix-without-slash" && name == "a" {
		name = "a" // handled in ReadDir below
	}
	f, err := w.FS.Open(name)
	if err != nil {
		return nil, err
	}
	if d, ok := f.(fs.ReadDirFile); ok {
		if fi, _ := f.Stat(); fi != nil && fi.IsDir() {
			return &wrapDir{ReadDirFile: d, mode: w.mode}, nil
		}
	}
	return f, nil
}

func (d *wrapDir) ReadDir(n int) ([]fs.DirEntry, error) {
	if !d.init {
		d.init = true
		d.all, _ = d.ReadDirFile.ReadDir(-1)
		for i := range d.all {
			d.all[i] = wrapEntry{d.all[i], d.mode}
		}
		switch d.mode {
		case "unsorted":
			for i, j := 0, len(d.all)-1; i < j; i, j = i+1, j-1 {
				d.all[i], d.all[j] = d.all[j], d.all[i]
			}
		case "duplicate":
			if len(d.all) > 0 {
				d.all = append(d.all, d.all[len(d.all)-1])
			}
		case "missing":
			if len(d.all) > 1 {
				d.all = d.all[1:]
			}
		}
	}
	if n <= 0 {
		if d.mode == "all-does-not-advance" {
			return d.all, nil
		}
		rest := d.all[d.pos:]
		d.pos = len(d.all)
		return rest, nil
	}
	if d.pos >= len(d.all) {
		if d.mode == "no-eof" {
			return nil, nil
		}
		return nil, io.EOF
	}
	end := d.pos + n
	if end > len(d.all) {
		end = len(d.all)
	}
	out := d.all[d.pos:end]
	d.pos = end
	if d.mode == "page-skips" && d.pos < len(d.all) {
		d.pos++
	}
	return out, nil
}

func TestOracleRejectsBrokenDirectories(t *testing.T) {
	for _, mode := range []string{"unsorted", "duplicate", "missing", "all-does-not-advance", "no-eof", "page-skips", "dirs-as-files", "size-zero"} {
		v := run(wrapFS{FS: mapFS(tree), mode: mode})
		if v == "" {
			t.Errorf("mode %s: not flagged", mode)
		} else if testing.Verbose() {
			t.Logf("mode %s: %s", mode, strings.SplitN(v, "\n", 2)[0])
		}
	}
}

func TestModel(t *testing.T) {
	m := buildModel(tree)
	if got := strings.Join(m["."].children, ","); got != "a,a!,ab,e,f.g,é" {
		t.Errorf("root children %q", got)
	}
	if !m["a/c"].dir || m["a/c/d"].dir || len(m["a"].children) != 2 {
		t.Errorf("bad model: %+v %+v", m["a/c"], m["a"])
	}
}
