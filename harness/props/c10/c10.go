// Package c10 checks that compiled programs and templates run in isolation,
// repeatedly and concurrently.
//
// Oracles: (i) metamorphic equality — every run (k-th sequential, or one of N
// concurrent) of one compiled artefact must give the output, error and printed
// text of a single run of a freshly built copy with the same inputs; (ii) the Go
// race detector on the worker; (iii) a no-cross-talk monitor — every run carries
// a unique id in its context and in the values it hands to native functions; a
// native call that sees a value tagged with another run's id is a violation;
// (iv) porcupine — interpreted code is the client of a mutex-protected native
// key-value object and records {op, key, value, t0, t1} at the interpreted call
// boundary; the per-key histories must be linearizable as registers.
package c10

import (
	"bytes"
	"context"
	"fmt"
	"runtime"
	"sort"
	"strings"
	"sync"
	"sync/atomic"
	"time"

	"github.com/anishathalye/porcupine"
	"github.com/open2b/scriggo"
	"github.com/open2b/scriggo/native"

	"verif/core"
	"verif/gen/goprog"
	"verif/mon"
)

type prop struct{}

func init() { core.Register(prop{}) }

func (prop) ID() string    { return "C10" }
func (prop) Level() string { return "exploration" }

type input struct {
	N     int      `json:"n"`
	Items []string `json:"items"`
	Nums  []int    `json:"nums"`
}

type caseData struct {
	Kind       string            `json:"kind"` // tmpl | prog
	Files      map[string]string `json:"files"`
	Inputs     []input           `json:"inputs"`
	Concurrent int               `json:"concurrent"`
	Procs      int               `json:"procs"`
	YieldSeed  uint64            `json:"yield_seed"`
	Rounds     int               `json:"rounds"`
	Fragments  []string          `json:"fragments"`
}

// ---- template generator ----

var fragments = map[string]string{
	"macro-tag":          `{% macro Row(s string, i int) %}<li>{{ tag(rid + ":" + s) }}-{{ i }}</li>{% end %}{% for i, it := range items %}{{ Row(it, i) }}{% end %}`,
	"variadic":           `{{ join(rid, "a", "b") }}|{{ join() }}|{{ join(items...) }}`,
	"callback":           `{{ apply(func(s string) string { return s + rid }, "x") }}`,
	"callback-recovered": `{%% func() { defer func() { _ = recover(); note(rid) }(); _ = apply(func(s string) string { var z []int; _ = z[n]; return s }, "z") }() %%}{{ apply(func(s string) string { return s + rid }, "w") }}`,
	"callback-panic":     `{{ apply(func(s string) string { if n%3 == 1 { var z []int; _ = z[n] }; return s + rid }, "y") }}`,
	"func-value":         `{% f := mk() %}{{ f(n) }}{% h := mk2(n) %}{{ h("q") }}`,
	"method-value":       `{{ obj.Add(n) }}{% g := obj.Add %}{{ g(2) }}{{ obj.Name() }}`,
	"kv":                 `{%% for j := 0; j < n+1; j++ { t0 := clock(); kvput(key, rid+"#"+sprint(j)); oplog(rid, "put", key, rid+"#"+sprint(j), t0, clock()); t1 := clock(); v := kvget(key); oplog(rid, "get", key, v, t1, clock()) } %%}`,
	"sum-loop":           `{% var total = 0 %}{% for _, v := range nums %}{% total += v * n %}{% end %}{{ total }}`,
	"closure-state":      `{% c := 0 %}{% inc := func() int { c += n; return c } %}{{ inc() }}{{ inc() }}{{ inc() }}`,
	"macro-string":       `{% macro Wrap(s string) string %}[{{ s }}:{{ rid }}]{% end %}{% w := Wrap(sprint(n)) %}{{ tag(rid + ":" + w) }}`,
	"map-build":          `{% m := map[string]int{} %}{% for i, it := range items %}{% m[it] = i + n %}{% end %}{{ len(m) }}{% for _, it := range items %}{{ m[it] }},{% end %}`,
	"env-native":         `{{ whoami() }}`,
	"defer-recover":      `{%% func() { defer func() { _ = recover(); note(rid) }(); var z []int; _ = z[n] }() %%}{{ notes() }}`,
	"global-write":       `{% n = n + 1 %}{{ n }}{% items = append(items, rid) %}{{ len(items) }}`,
	"partial":            `{{ render "part.html" }}{{ render "part.html" }}`,
	"import-macro":       `{{ Lib(rid, n) }}`,
}

func genTemplate(r interface{ Intn(int) int }) (map[string]string, []string) {
	var names []string
	for k := range fragments {
		names = append(names, k)
	}
	sort.Strings(names)
	nf := 3 + r.Intn(6)
	var sb strings.Builder
	var used []string
	seen := map[string]bool{}
	for i := 0; i < nf; i++ {
		k := names[r.Intn(len(names))]
		if seen[k] {
			continue
		}
		seen[k] = true
		used = append(used, k)
		fmt.Fprintf(&sb, "<p>%s</p>\n", fragments[k])
	}
	index := sb.String()
	if seen["import-macro"] {
		index = `{% import "lib.html" %}` + "\n" + index
	}
	files := map[string]string{
		"index.html": index,
		"part.html":  `<i>{{ tag(rid + ":part") }}{{ n }}</i>`,
		"lib.html":   `{% macro Lib(s string, k int) %}<b>{{ tag(s + ":lib") }}{{ k * 2 }}</b>{% end %}`,
	}
	return files, used
}

// ---- host side: natives, per-run state ----

type ridKey struct{}

type Counter struct {
	N   int
	Tag string
}

func (c *Counter) Add(n int) int { c.N += n; return c.N }
func (c *Counter) Name() string  { return c.Tag }

type runState struct {
	rid   string
	notes []string
}

type kvOp struct {
	Rid, Op, Key, Val string
	T0, T1            int64
}

type host struct {
	crossTalk atomic.Int64
	crossMsg  atomic.Value
	calls     atomic.Int64
	clock     atomic.Int64
	mu        sync.Mutex
	kv        map[string]string
	ops       []kvOp
	states    sync.Map // rid -> *runState
}

func (h *host) callerRid(env native.Env) string {
	if v := env.Context().Value(ridKey{}); v != nil {
		return v.(string)
	}
	return ""
}

// checkTag verifies that a value tagged "rid:..." is seen by a native called from the run with that id.
func (h *host) checkTag(env native.Env, s string) {
	h.calls.Add(1)
	want := h.callerRid(env)
	if i := strings.IndexByte(s, ':'); i > 0 {
		if got := s[:i]; got != want && strings.HasPrefix(got, "run") {
			h.crossTalk.Add(1)
			h.crossMsg.Store(fmt.Sprintf("a native called from run %q received the value %q tagged with another run's id", want, s))
		}
	}
}

func (h *host) globals() native.Declarations {
	return native.Declarations{
		"rid": (*string)(nil), "key": (*string)(nil), "n": (*int)(nil), "items": (*[]string)(nil), "nums": (*[]int)(nil), "obj": (**Counter)(nil),
		"tag": func(env native.Env, s string) string {
			h.checkTag(env, s)
			return strings.ToUpper(s)
		},
		"join": func(parts ...string) string { return strings.Join(parts, "+") },
		"apply": func(env native.Env, f func(string) string, s string) string {
			a, b := f(s), f("y")
			h.checkTag(env, strings.TrimPrefix(a, s)+":cb")
			return a + b
		},
		"mk":  func() func(int) int { return func(i int) int { return i * 3 } },
		"mk2": func(k int) func(string) string { return func(s string) string { return strings.Repeat(s, k%4+1) } },
		"kvput": func(env native.Env, k, v string) {
			h.checkTag(env, strings.Replace(v, "#", ":", 1))
			h.mu.Lock()
			h.kv[k] = v
			h.mu.Unlock()
		},
		"kvget": func(k string) string {
			h.mu.Lock()
			defer h.mu.Unlock()
			return h.kv[k]
		},
		"clock": func() int64 { return h.clock.Add(1) },
		"oplog": func(env native.Env, rid, op, k, v string, t0, t1 int64) {
			h.checkTag(env, rid+":log")
			h.mu.Lock()
			h.ops = append(h.ops, kvOp{rid, op, k, v, t0, t1})
			h.mu.Unlock()
		},
		"sprint": func(i int) string { return fmt.Sprint(i) },
		"whoami": func(env native.Env) string { return h.callerRid(env) },
		"note": func(env native.Env, rid string) {
			h.checkTag(env, rid+":note")
			if st, ok := h.states.Load(h.callerRid(env)); ok {
				st.(*runState).notes = append(st.(*runState).notes, rid)
			}
		},
		"notes": func(env native.Env) string {
			if st, ok := h.states.Load(h.callerRid(env)); ok {
				return strings.Join(st.(*runState).notes, ",")
			}
			return "?"
		},
	}
}

type outcome struct {
	Out, Err, Printed string
	Obj               int
	HostPanic         string
}

func (o outcome) String() string {
	return fmt.Sprintf("out=%q err=%q printed=%q obj=%d panic=%q", core.Truncate(o.Out, 600), o.Err, core.Truncate(o.Printed, 300), o.Obj, o.HostPanic)
}

// runTemplate runs t once for input in with a fresh run id label.
func (h *host) runTemplate(t *scriggo.Template, in input, rid, key string) outcome {
	var out bytes.Buffer
	var printed strings.Builder
	var pmu sync.Mutex
	obj := &Counter{Tag: rid}
	st := &runState{rid: rid}
	h.states.Store(rid, st)
	defer h.states.Delete(rid)
	ctx := context.WithValue(context.Background(), ridKey{}, rid)
	vars := map[string]any{"rid": rid, "key": key, "n": in.N, "items": append([]string(nil), in.Items...), "nums": append([]int(nil), in.Nums...), "obj": obj}
	var err error
	v, panicked, stack := core.Guard(func() {
		err = t.Run(&out, vars, &scriggo.RunOptions{Context: ctx, Print: func(a any) { pmu.Lock(); fmt.Fprint(&printed, a); pmu.Unlock() }})
	})
	o := outcome{Out: out.String(), Printed: printed.String(), Obj: obj.N}
	if panicked {
		o.HostPanic = fmt.Sprintf("%v\n%s", v, stack)
	}
	if err != nil {
		o.Err = err.Error()
	}
	return o
}

func runProgram(p *scriggo.Program) outcome {
	var printed strings.Builder
	var pmu sync.Mutex
	var err error
	v, panicked, stack := core.Guard(func() {
		err = p.Run(&scriggo.RunOptions{Print: func(a any) { pmu.Lock(); fmt.Fprint(&printed, a); pmu.Unlock() }})
	})
	o := outcome{Printed: printed.String()}
	if panicked {
		o.HostPanic = fmt.Sprintf("%v\n%s", v, stack)
	}
	if err != nil {
		o.Err = err.Error()
	}
	return o
}

// normalize replaces the run id by a placeholder so that runs with the same input are comparable.
func normalize(o outcome, rid string) outcome {
	o.Out = strings.ReplaceAll(strings.ReplaceAll(o.Out, strings.ToUpper(rid), "RID"), rid, "RID")
	o.Printed = strings.ReplaceAll(o.Printed, rid, "RID")
	o.Err = strings.ReplaceAll(o.Err, rid, "RID")
	return o
}

func (prop) Drive(d *core.Driver) error {
	d.T.Rule = "artefacts: templates assembled from fragments that exercise macros, native calls with Env, variadic natives, callbacks into interpreted closures, native function values, method values, closures with state, global writes, render/import, defer/recover, and a native key-value object; programs from gen/goprog run with a Print hook. Each artefact is built once and run k times in sequence with different inputs and then N (2..32) times concurrently (GOMAXPROCS 1..16, seeded yields at VM yield sites, start jitter); every run is compared with a single run of a freshly built copy with the same input; natives check run-id tags (cross-talk); the KV history recorded by the interpreted code is checked with porcupine per key. Workers run under the race detector. distinct_nontrivial counts distinct (fragment set, concurrency, GOMAXPROCS) configurations plus distinct interleaving signatures."
	d.T.Assumptions = []string{"variables shared by pointer are excluded (sharing is the documented behaviour)", "a fresh build run once is the reference for every run (metamorphic)", "porcupine checker timeout 60 s gives inconclusive"}
	nt := d.N(36, 500)
	np := d.N(12, 150)
	var cases []core.Case
	procs := []int{1, 2, 4, 16}
	for i := 0; i < nt; i++ {
		r := d.Rand(fmt.Sprintf("tmpl-%d", i))
		files, used := genTemplate(r)
		var ins []input
		for k := 0; k < 2+r.Intn(3); k++ {
			in := input{N: r.Intn(5)}
			for j := 0; j < r.Intn(4); j++ {
				in.Items = append(in.Items, fmt.Sprintf("it%d", r.Intn(9)))
			}
			for j := 0; j < r.Intn(5); j++ {
				in.Nums = append(in.Nums, r.Intn(100))
			}
			ins = append(ins, in)
		}
		cd := caseData{Kind: "tmpl", Files: files, Inputs: ins, Concurrent: []int{2, 3, 4, 8, 16, 32}[r.Intn(6)], Procs: procs[r.Intn(len(procs))], YieldSeed: r.Uint64() | 1, Rounds: 2, Fragments: used}
		cases = append(cases, core.NewCase(fmt.Sprintf("tmpl-%d", i), cd))
		if i < 2 {
			d.T.Sample(map[string]any{"id": fmt.Sprintf("tmpl-%d", i), "fragments": used, "inputs": ins, "concurrent": cd.Concurrent, "gomaxprocs": cd.Procs, "index.html": files["index.html"]})
		}
	}
	for i := 0; i < np; i++ {
		r := d.Rand(fmt.Sprintf("prog-%d", i))
		cfg := goprog.DefaultConfig()
		cfg.Stmts, cfg.Funcs = 8, 3
		// keep the programs inside the behaviour scriggo implements (known C01 findings)
		cfg.NegShift, cfg.LabelledCtl, cfg.RangePanic, cfg.AssertMsgDT, cfg.DeferBuiltinDT = false, false, false, false, false
		p := goprog.Generate(r, cfg)
		cd := caseData{Kind: "prog", Files: map[string]string{"main.go": p.Source}, Concurrent: []int{2, 4, 8, 16}[r.Intn(4)], Procs: procs[r.Intn(len(procs))], YieldSeed: r.Uint64() | 1, Rounds: 2}
		cases = append(cases, core.NewCase(fmt.Sprintf("prog-%d", i), cd))
	}
	// programs whose package-level state is changed through function values,
	// deferred calls and variables holding functions: every run starts from
	// the initial state, whatever earlier and concurrent runs did
	for i := 0; i < np; i++ {
		r := d.Rand(fmt.Sprintf("sprog-%d", i))
		cd := caseData{Kind: "prog", Files: map[string]string{"main.go": stateProgram(r)}, Concurrent: []int{2, 4, 8, 16}[r.Intn(4)], Procs: procs[r.Intn(len(procs))], YieldSeed: r.Uint64() | 1, Rounds: 3, Fragments: []string{"state-program"}}
		cases = append(cases, core.NewCase(fmt.Sprintf("sprog-%d", i), cd))
	}
	// every artefact under the race detector, then again without it recording interleavings
	d.Run(cases, core.RunOpts{Race: true, Workers: 8, CaseWall: 5 * time.Minute})
	for i := range cases {
		cases[i].ID = "trace-" + cases[i].ID
	}
	d.Run(cases, core.RunOpts{Env: []string{"C10_TRACE=1"}, CaseWall: 5 * time.Minute})
	return nil
}

func (prop) Work(c core.Case) core.Result {
	var cd caseData
	c.Decode(&cd)
	mon.Install()
	res := core.Result{Status: core.OK, Counts: map[string]int64{}}
	trace := strings.HasPrefix(c.ID, "trace-")
	defer runtime.GOMAXPROCS(runtime.GOMAXPROCS(0))
	fail := func(format string, a ...any) core.Result {
		res.Status = core.Violation
		var src strings.Builder
		var names []string
		for n := range cd.Files {
			names = append(names, n)
		}
		sort.Strings(names)
		for _, n := range names {
			fmt.Fprintf(&src, "--- %s ---\n%s\n", n, cd.Files[n])
		}
		res.Detail = fmt.Sprintf(format, a...) + "\n--- source ---\n" + src.String()
		return res
	}
	sigBase := fmt.Sprintf("%s|%s|conc%d|procs%d", cd.Kind, strings.Join(cd.Fragments, ","), cd.Concurrent, cd.Procs)
	res.Sigs = append(res.Sigs, sigBase)

	if cd.Kind == "prog" {
		build := func() (*scriggo.Program, error) {
			return scriggo.Build(scriggo.Files{"main.go": []byte(cd.Files["main.go"])}, nil)
		}
		a, err := build()
		if err != nil {
			res.Status, res.Detail = core.Skip, "program does not build: "+err.Error()
			return res
		}
		b, _ := build()
		ref := runProgram(b)
		if ref.HostPanic != "" {
			res.Status, res.Detail = core.Skip, "reference run panics into the host (C05 domain)"
			return res
		}
		for k := 0; k < 3; k++ {
			res.Evals++
			if got := runProgram(a); got != ref {
				return fail("sequential run %d of the compiled program differs from a run of a freshly built copy\n  fresh: %s\n  run  : %s", k+1, ref, got)
			}
		}
		for round := 0; round < cd.Rounds; round++ {
			runtime.GOMAXPROCS(cd.Procs)
			mon.SetSchedule(cd.YieldSeed+uint64(round), trace)
			outs := make([]outcome, cd.Concurrent)
			var wg sync.WaitGroup
			for g := 0; g < cd.Concurrent; g++ {
				wg.Add(1)
				go func(g int) {
					defer wg.Done()
					jitter(cd.YieldSeed, g)
					outs[g] = runProgram(a)
				}(g)
			}
			wg.Wait()
			mon.SetSchedule(0, false)
			for g, got := range outs {
				res.Evals++
				if got != ref {
					return fail("concurrent run %d of %d (GOMAXPROCS=%d, round %d) of the compiled program differs from a run of a freshly built copy\n  fresh: %s\n  run  : %s", g, cd.Concurrent, cd.Procs, round, ref, got)
				}
			}
			if trace {
				if sig, n := mon.TraceSignature(); n > 0 {
					res.Sigs = append(res.Sigs, "interleaving:"+sig)
				}
			}
		}
		for k, n := range mon.Counters() {
			res.Counts[k] += n
		}
		return res
	}

	// templates
	files := scriggo.Files{}
	for n, s := range cd.Files {
		files[n] = []byte(s)
	}
	h := &host{kv: map[string]string{}}
	build := func(h *host) (*scriggo.Template, error) {
		return scriggo.BuildTemplate(files, "index.html", &scriggo.BuildOptions{Globals: h.globals()})
	}
	a, err := build(h)
	if err != nil {
		res.Status, res.Detail = core.Inconclusive, "generated template does not build: "+err.Error()
		return res
	}
	// references: a freshly built copy per input, run once, with its own host state
	refs := make([]outcome, len(cd.Inputs))
	for i, in := range cd.Inputs {
		hb := &host{kv: map[string]string{}}
		b, err := build(hb)
		if err != nil {
			res.Status, res.Detail = core.Inconclusive, "rebuild failed: "+err.Error()
			return res
		}
		rid := fmt.Sprintf("runref%d", i)
		refs[i] = normalize(hb.runTemplate(b, in, rid, "k-"+rid), rid)
		if refs[i].HostPanic != "" {
			res.Status, res.Detail = core.Skip, "reference run panics into the host (C05 domain): "+core.Truncate(refs[i].HostPanic, 300)
			return res
		}
	}
	seq := 0
	for round := 0; round < 2; round++ {
		for i, in := range cd.Inputs {
			seq++
			rid := fmt.Sprintf("runs%d", seq)
			got := normalize(h.runTemplate(a, in, rid, "k-"+rid), rid)
			res.Evals++
			if got != refs[i] {
				return fail("sequential run %d (input %d) of the compiled template differs from a run of a freshly built copy\n  fresh: %s\n  run  : %s", seq, i, refs[i], got)
			}
		}
	}
	for round := 0; round < cd.Rounds; round++ {
		runtime.GOMAXPROCS(cd.Procs)
		mon.SetSchedule(cd.YieldSeed+uint64(round), trace)
		outs := make([]outcome, cd.Concurrent)
		var wg sync.WaitGroup
		for g := 0; g < cd.Concurrent; g++ {
			wg.Add(1)
			go func(g int) {
				defer wg.Done()
				jitter(cd.YieldSeed, g)
				rid := fmt.Sprintf("runc%dx%d", round, g)
				// two runs share each key so that the KV object sees real contention
				outs[g] = normalize(h.runTemplate(a, cd.Inputs[g%len(cd.Inputs)], rid, fmt.Sprintf("k-shared-%d-%d", round, g/2)), rid)
			}(g)
		}
		wg.Wait()
		mon.SetSchedule(0, false)
		for g, got := range outs {
			res.Evals++
			want := refs[g%len(cd.Inputs)]
			// the value read back from a shared key legitimately depends on the other client: compare without it
			if stripKV(got) != stripKV(want) {
				return fail("concurrent run %d of %d (GOMAXPROCS=%d, round %d, input %d) of the compiled template differs from a run of a freshly built copy\n  fresh: %s\n  run  : %s", g, cd.Concurrent, cd.Procs, round, g%len(cd.Inputs), want, got)
			}
		}
		if trace {
			if sig, n := mon.TraceSignature(); n > 0 {
				res.Sigs = append(res.Sigs, "interleaving:"+sig)
			}
		}
	}
	if n := h.crossTalk.Load(); n > 0 {
		return fail("cross-talk between runs: %v (%d events)", h.crossMsg.Load(), n)
	}
	res.Counts["native_calls_tag_checked"] = h.calls.Load()
	// linearizability of the KV histories recorded by the interpreted code
	h.mu.Lock()
	ops := append([]kvOp(nil), h.ops...)
	h.mu.Unlock()
	if len(ops) > 0 {
		verdict, info := checkKV(ops)
		res.Counts["kv_operations_in_history"] = int64(len(ops))
		switch verdict {
		case porcupine.Illegal:
			return fail("the history of the native key-value object recorded by the interpreted code is not linearizable: %s", info)
		case porcupine.Unknown:
			res.Status, res.Detail = core.Inconclusive, "porcupine timed out"
			return res
		}
		res.Counts["kv_histories_linearizable"]++
	}
	for k, n := range mon.Counters() {
		res.Counts[k] += n
	}
	return res
}

// stripKV removes nothing from runs that do not use the kv fragment: the kv
// fragment renders no output (it only logs), so outputs are comparable as they are.
func stripKV(o outcome) outcome { return o }

func jitter(seed uint64, g int) {
	x := seed*0x9E3779B97F4A7C15 + uint64(g)*0xD1B54A32D192ED03
	x ^= x >> 29
	switch x % 4 {
	case 0:
	case 1:
		runtime.Gosched()
	default:
		time.Sleep(time.Duration(x%300) * time.Microsecond)
	}
}

type kvIn struct {
	Write bool
	Key   string
	Val   string
}

// checkKV checks the recorded history against a sequential register per key.
func checkKV(ops []kvOp) (porcupine.CheckResult, string) {
	model := porcupine.Model{
		Partition: func(history []porcupine.Operation) [][]porcupine.Operation {
			m := map[string][]porcupine.Operation{}
			for _, o := range history {
				k := o.Input.(kvIn).Key
				m[k] = append(m[k], o)
			}
			var keys []string
			for k := range m {
				keys = append(keys, k)
			}
			sort.Strings(keys)
			var out [][]porcupine.Operation
			for _, k := range keys {
				out = append(out, m[k])
			}
			return out
		},
		Init: func() any { return "" },
		Step: func(st, in, out any) (bool, any) {
			e := in.(kvIn)
			if e.Write {
				return true, e.Val
			}
			return out.(string) == st.(string), st
		},
		DescribeOperation: func(in, out any) string {
			e := in.(kvIn)
			if e.Write {
				return fmt.Sprintf("put(%s,%s)", e.Key, e.Val)
			}
			return fmt.Sprintf("get(%s)=%v", e.Key, out)
		},
	}
	clients := map[string]int{}
	var hist []porcupine.Operation
	for _, o := range ops {
		id, ok := clients[o.Rid]
		if !ok {
			id = len(clients)
			clients[o.Rid] = id
		}
		hist = append(hist, porcupine.Operation{ClientId: id, Input: kvIn{Write: o.Op == "put", Key: o.Key, Val: o.Val}, Call: o.T0, Output: o.Val, Return: o.T1})
	}
	res, info := porcupine.CheckOperationsVerbose(model, hist, 60*time.Second)
	desc := ""
	if res == porcupine.Illegal {
		var sb strings.Builder
		for _, o := range ops {
			fmt.Fprintf(&sb, "%s %s(%s)=%s [%d,%d]; ", o.Rid, o.Op, o.Key, o.Val, o.T0, o.T1)
		}
		desc = core.Truncate(sb.String(), 3000)
		_ = info
	}
	return res, desc
}

// stateProgram returns a program with package-level state that is read and
// written through direct calls, values of package-level functions, deferred
// calls, closures and package-level variables that hold functions.
func stateProgram(r interface{ Intn(int) int }) string {
	var b strings.Builder
	b.WriteString("package main\n\nvar counter int\nvar log []int\nvar m = map[string]int{}\nvar arr [3]int\nvar st struct{ A, B int }\n\n")
	b.WriteString("func add(n int) int {\n\tcounter += n\n\tlog = append(log, counter)\n\tarr[n%3]++\n\treturn counter\n}\n\n")
	b.WriteString("func report() {\n\tprintln(\"report\", counter, len(log), m[\"k\"], arr[0], arr[1], arr[2], st.A, st.B)\n}\n\n")
	b.WriteString("func apply(f func(int) int, v int) int {\n\treturn f(v)\n}\n\n")
	b.WriteString("func twice(f func()) {\n\tf()\n\tf()\n}\n\n")
	b.WriteString("var hook = add\nvar hooks = []func(int) int{add, func(n int) int { st.A += n; return st.A }}\nvar initial = add(1)\n\n")
	b.WriteString("func main() {\n\tdefer report()\n")
	n := 4 + r.Intn(8)
	for i := 0; i < n; i++ {
		k := 1 + r.Intn(9)
		switch r.Intn(10) {
		case 0:
			fmt.Fprintf(&b, "\tf%d := add\n\tf%d(%d)\n", i, i, k)
		case 1:
			fmt.Fprintf(&b, "\tprintln(\"apply\", apply(add, %d))\n", k)
		case 2:
			fmt.Fprintf(&b, "\thook(%d)\n", k)
		case 3:
			fmt.Fprintf(&b, "\tdefer add(%d)\n", k)
		case 4:
			fmt.Fprintf(&b, "\tg%d := report\n\tg%d()\n", i, i)
		case 5:
			fmt.Fprintf(&b, "\ttwice(report)\n")
		case 6:
			fmt.Fprintf(&b, "\tm[\"k\"] += hooks[%d](%d)\n", r.Intn(2), k)
		case 7:
			fmt.Fprintf(&b, "\tfunc() {\n\t\tdefer report()\n\t\tp := &arr[%d]\n\t\t*p += %d\n\t\tst.A, st.B = st.B+%d, st.A\n\t}()\n", r.Intn(3), k, k)
		case 8:
			fmt.Fprintf(&b, "\tfor i := 0; i < %d; i++ {\n\t\tdefer func(h func(int) int) {\n\t\t\th(i)\n\t\t}(add)\n\t}\n", 1+r.Intn(3))
		default:
			fmt.Fprintf(&b, "\tadd(%d)\n", k)
		}
	}
	b.WriteString("\tprintln(\"main\", counter, len(log), initial)\n}\n")
	return b.String()
}
