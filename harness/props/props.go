// Package props links every property check into vcheck.
package props

import (
	_ "verif/props/c01"
	_ "verif/props/c05"
	_ "verif/props/c06"
	_ "verif/props/c07"
	_ "verif/props/c08"
	_ "verif/props/c09"
	_ "verif/props/c12"
	_ "verif/props/c13"
	_ "verif/props/c14"
	_ "verif/props/c15"
	_ "verif/props/c16"
	_ "verif/props/c17"
	_ "verif/props/c18"
	_ "verif/props/c19"
	_ "verif/props/c22"
	_ "verif/props/c23"
	_ "verif/props/c24"
	_ "verif/props/c25"
	_ "verif/props/c26"
	_ "verif/props/c27"
	_ "verif/props/c28"
	_ "verif/props/c29"
	_ "verif/props/c30"
)
