// Package props links every property check into vcheck.
package props

import (
	_ "verif/props/c01"
	_ "verif/props/c07"
	_ "verif/props/c08"
	_ "verif/props/c09"
	_ "verif/props/c19"
	_ "verif/props/c24"
	_ "verif/props/c26"
	_ "verif/props/c30"
)
