// Package props links every property check into vcheck.
package props

import (
	_ "verif/props/c01"
	_ "verif/props/c24"
)
