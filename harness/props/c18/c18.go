// Package c18 checks that template file loading stays inside the file system
// and terminates.
//
// Monitor: a recording fs.FS (also as scriggo.FormatFS) logs every Open and
// Format call made by BuildTemplate. Oracle: an independent path resolver
// (segment stack, not path.Join) over the generated reference graph gives the
// set of names that may be opened, says which references leave the root, and a
// graph search says whether an error (cycle, missing or escaping target, invalid
// path) is reachable from the root.
package c18

import (
	"fmt"
	"io/fs"
	"math/rand"
	"sort"
	"strings"

	"github.com/open2b/scriggo"
	"github.com/open2b/scriggo/ast"
	"github.com/open2b/scriggo/ast/astutil"

	"verif/core"
	"verif/gen/tmplfiles"
)

type prop struct{}

func init() { core.Register(prop{}) }

func (prop) ID() string    { return "C18" }
func (prop) Level() string { return "exploration" }

// refSpec is one extends/import/render reference of a file, in source order.
type refSpec struct {
	Kind    string `json:"kind"` // extends | import | render
	Path    string `json:"path"` // the path as written in the template
	Default bool   `json:"default,omitempty"`
	// Written, if not empty, is the path written in the template; an
	// UnexpandedTransformer then sets the path of the node to Path before
	// the file is loaded (such paths are not validated by the parser).
	Written string `json:"written,omitempty"`
}

type fileSpec struct {
	Name string    `json:"name"`
	Role string    `json:"role"` // page | layout | partial | lib
	Refs []refSpec `json:"refs"`
}

type caseData struct {
	Root     string            `json:"root"`
	RootName string            `json:"root_name,omitempty"` // name passed to BuildTemplate if not Root: a form that is not a valid rooted path
	FormatFS bool              `json:"format_fs"`
	Specs    []fileSpec        `json:"specs"` // the reference graph (what the oracle reads)
	Files    map[string]string `json:"files"` // the rendered template files (what scriggo reads)
}

func (prop) Drive(d *core.Driver) error {
	n := d.N(2500, 100000)
	d.T.Rule = "a random tree of 2-12 template files (page, layouts, partials, imported libraries) in directories incl. odd but valid names (..a, a.., leading dots, Unicode), with extends/import/render references written as relative, absolute and dot-dot paths, with escaping, missing and syntactically invalid targets, self references, longer cycles and diamonds, is built through a recording fs.FS (half of the cases as FormatFS); distinct_nontrivial counts distinct (fs kind, build result, error classes reachable in the model, kinds of path forms used, number of files opened bucket) signatures"
	d.T.Assumptions = []string{
		"cross-role references that the parser documents as errors (render of an imported file, import of a rendered/extended file) are not generated, except through cycles that reach the root",
		"termination is observed in logical units: the recording file system stops the build (panic caught by the sentinel) when one name is opened more than 25 times, which an unbounded recursion over a cycle reaches at once; otherwise a child crash (stack overflow) is attributed through the journal. No wall-clock verdict",
	}
	var cases []core.Case
	for i := 0; i < n; i++ {
		r := core.Rand(d.Seed, fmt.Sprintf("C18/%d", i))
		cd := genCase(r, d.InScope("dotdot-prefixed-name"))
		cases = append(cases, core.NewCase(fmt.Sprintf("tree-%d", i), cd))
		if i < 2 {
			d.T.Sample(cd)
		}
	}
	d.Run(cases, core.RunOpts{CaseWall: 60e9})
	return nil
}

// ---------------------------------------------------------------------------
// oracle: path rules and graph model

// validRef reports whether a reference is syntactically valid according to the
// documentation: a slash-separated path without empty, "." elements, where
// ".." elements may only lead a relative path, optionally starting with "/".
func validRef(p string) bool {
	if p == "" {
		return false
	}
	abs := strings.HasPrefix(p, "/")
	if abs {
		p = p[1:]
	}
	if p == "" {
		return false
	}
	elems := strings.Split(p, "/")
	leading := !abs
	for _, e := range elems {
		switch e {
		case "", ".":
			return false
		case "..":
			if !leading {
				return false
			}
		default:
			leading = false
		}
		if strings.ContainsAny(e, "\\") {
			return false
		}
	}
	return elems[len(elems)-1] != ".."
}

// resolve resolves a valid reference written in file parent. ok is false when
// the reference leaves the root.
func resolve(parent, ref string) (name string, ok bool) {
	var stack []string
	if strings.HasPrefix(ref, "/") {
		ref = ref[1:]
	} else if i := strings.LastIndexByte(parent, '/'); i >= 0 {
		stack = strings.Split(parent[:i], "/")
	}
	for _, e := range strings.Split(ref, "/") {
		if e == ".." {
			if len(stack) == 0 {
				return "", false
			}
			stack = stack[:len(stack)-1]
			continue
		}
		stack = append(stack, e)
	}
	return strings.Join(stack, "/"), true
}

type verdict struct {
	allowed    map[string]bool // names that may be passed to Open
	reachable  map[string]bool // existing files reachable from the root
	errs       map[string]bool // error classes reachable: cycle, missing, escape, invalid
	escapeRefs []string
}

func analyse(cd *caseData) verdict {
	specs := map[string]*fileSpec{}
	for i := range cd.Specs {
		specs[cd.Specs[i].Name] = &cd.Specs[i]
	}
	v := verdict{allowed: map[string]bool{cd.Root: true}, reachable: map[string]bool{}, errs: map[string]bool{}}
	// reachability over existing files
	var visit func(name string, stack []string)
	done := map[string]bool{}
	visit = func(name string, stack []string) {
		for _, s := range stack {
			if s == name {
				v.errs["cycle"] = true
				return
			}
		}
		if done[name] {
			return
		}
		done[name] = true
		v.reachable[name] = true
		stack = append(stack, name)
		for _, ref := range specs[name].Refs {
			if !validRef(ref.Path) {
				if ref.Written != "" {
					// set by a transformer, so not a syntax error: it names no
					// file of the file system
					if !(ref.Kind == "render" && ref.Default) {
						v.errs["rewritten-invalid"] = true
					}
					continue
				}
				v.errs["invalid"] = true
				continue
			}
			target, ok := resolve(name, ref.Path)
			if !ok {
				v.escapeRefs = append(v.escapeRefs, name+" -> "+ref.Path)
				if !(ref.Kind == "render" && ref.Default) {
					v.errs["escape"] = true
				}
				continue
			}
			v.allowed[target] = true
			if _, exists := specs[target]; !exists {
				if !(ref.Kind == "render" && ref.Default) {
					v.errs["missing"] = true
				}
				continue
			}
			visit(target, stack)
		}
		// note: done[] is kept, a diamond is not a cycle; a cycle through an
		// already finished node cannot exist (it would have been found inside it)
	}
	visit(cd.Root, nil)
	return v
}

// ---------------------------------------------------------------------------
// worker

func (prop) Work(c core.Case) core.Result {
	var cd caseData
	c.Decode(&cd)
	res := core.Result{Status: core.OK, Evals: 1, Counts: map[string]int64{}}
	files := tmplfiles.FromStrings(cd.Files)
	rec := tmplfiles.NewRecFS(files)
	rec.Limit = 25
	var fsys fs.FS = rec
	if cd.FormatFS {
		table := map[string]scriggo.Format{}
		for name := range cd.Files {
			table[name] = scriggo.FormatHTML
		}
		fsys = tmplfiles.RecFormatFS{RecFS: rec, Table: table}
	}
	fail := func(format string, a ...any) core.Result {
		res.Status = core.Violation
		res.Detail = fmt.Sprintf(format, a...) + fmt.Sprintf("\nroot %s formatFS=%v\nfs calls: %v\nfiles:\n%s", cd.Root, cd.FormatFS, rec.Events, files.String())
		return res
	}
	v := analyse(&cd)
	opts := &scriggo.BuildOptions{MarkdownConverter: tmplfiles.MarkdownConverter}
	rewrite := map[string]string{}
	for _, sp := range cd.Specs {
		for _, ref := range sp.Refs {
			if ref.Written != "" {
				rewrite[ref.Written] = ref.Path
			}
		}
	}
	if len(rewrite) > 0 {
		opts.UnexpandedTransformer = func(tree *ast.Tree) error {
			astutil.Walk(rewriter(rewrite), tree)
			return nil
		}
	}
	rootName := cd.Root
	if cd.RootName != "" {
		// the name is not a valid rooted path: the build must fail and the name must not reach the file system
		rootName = cd.RootName
		v.errs = map[string]bool{"invalid-root": true}
		v.allowed = map[string]bool{}
	}
	_, o := tmplfiles.Build(fsys, rootName, opts)
	if strings.Contains(o.Panic, "recfs:") {
		return fail("the loader does not terminate: one file was opened more than %d times in one build (model: %v)", rec.Limit, keys(v.errs))
	}
	if o.Panic != "" {
		return fail("%s", core.Truncate(o.Panic, 2500))
	}
	opens := rec.Opens()
	res.Counts["opens"] = int64(len(opens))
	res.Counts["format_calls"] = int64(len(rec.Formats()))
	// (1) every name passed to the file system is a valid rooted path computed by the resolver
	seen := map[string]int{}
	for _, name := range append(append([]string{}, opens...), rec.Formats()...) {
		if !fs.ValidPath(name) {
			return fail("the file system was asked for %q, which is not a valid rooted path (fs.ValidPath)", name)
		}
		if !v.allowed[name] {
			return fail("the file system was asked for %q, which no reference reachable from the root resolves to (resolver says: %v)", name, keys(v.allowed))
		}
	}
	// (2) each existing file is read at most once per build
	for _, name := range opens {
		if _, exists := cd.Files[name]; exists {
			seen[name]++
			if seen[name] > 1 {
				return fail("file %q was opened %d times in one build", name, seen[name])
			}
		}
	}
	// (3) outcome
	var classes []string
	for e := range v.errs {
		classes = append(classes, e)
	}
	sort.Strings(classes)
	shouldFail := len(classes) > 0
	switch {
	case shouldFail && o.BuildErr == "":
		return fail("the model reaches %v from the root (escaping references: %v) but BuildTemplate succeeded", classes, v.escapeRefs)
	case !shouldFail && o.BuildErr != "":
		return fail("every reference reachable from the root resolves to an existing file inside the root and there is no cycle, but BuildTemplate failed: %s", o.BuildErr)
	case o.BuildErr != "" && !o.BuildIsBE && cd.RootName == "":
		return fail("BuildTemplate failed with a %T that is not a *scriggo.BuildError: %s (model: %v)", o.BuildError, o.BuildErr, classes)
	}
	if !shouldFail {
		// success: every reachable file was opened exactly once
		for name := range v.reachable {
			if seen[name] != 1 {
				return fail("build succeeded but reachable file %q was opened %d times", name, seen[name])
			}
		}
	}
	forms := map[string]bool{}
	for _, s := range cd.Specs {
		if !v.reachable[s.Name] {
			continue
		}
		for _, r := range s.Refs {
			if r.Written != "" {
				forms["rewritten"] = true
			}
			switch {
			case !validRef(r.Path):
				forms["invalid"] = true
			case strings.HasPrefix(r.Path, "/"):
				forms["abs"] = true
			case strings.HasPrefix(r.Path, "../"):
				forms["dotdot"] = true
			default:
				forms["rel"] = true
			}
			if strings.Contains(r.Path, "..") && !strings.HasPrefix(r.Path, "../") && validRef(r.Path) || strings.Contains(strings.TrimLeft(r.Path, "./"), "..") && validRef(r.Path) {
				forms["oddname"] = true
			}
			forms[r.Kind] = true
		}
	}
	result := "ok"
	if o.BuildErr != "" {
		result = "error"
	}
	b := len(opens)
	if b > 6 {
		b = 6 + (b-6)/3
	}
	if cd.RootName != "" {
		forms["invalid-root"] = true
	}
	res.Sigs = []string{core.SigJoin(fmt.Sprintf("formatfs=%v", cd.FormatFS), result, strings.Join(classes, "+"), strings.Join(keys(forms), ","), fmt.Sprintf("opens%d", b))}
	res.Counts["builds_"+result]++
	for _, cl := range classes {
		res.Counts["model_"+cl]++
	}
	res.Counts["escaping_refs_reached"] += int64(len(v.escapeRefs))
	return res
}

func keys(m map[string]bool) []string {
	var k []string
	for s := range m {
		k = append(k, s)
	}
	sort.Strings(k)
	return k
}

// ---------------------------------------------------------------------------
// generator

var dirs = []string{"", "", "a", "a/b", "a/b/c", "c", "..d", "e..", ".h", "ü", "a/..x"}
var bases = []string{"p", "q", "r", "s", "t", "u", "..v", "w..", ".x", "ñ", "a..b", "index"}

type tgen struct {
	r     *rand.Rand
	specs []*fileSpec
	byRol map[string][]*fileSpec
	noOdd bool
	nrw   int
}

func (g *tgen) newFile(role, ext string) *fileSpec {
	for {
		dir := dirs[g.r.Intn(len(dirs))]
		base := bases[g.r.Intn(len(bases))]
		if g.noOdd && (strings.HasPrefix(dir, "..") || strings.Contains(dir, "/..") || strings.HasPrefix(base, "..")) {
			continue
		}
		name := base + fmt.Sprintf("%d", len(g.specs)) + ext
		if dir != "" {
			name = dir + "/" + name
		}
		f := &fileSpec{Name: name, Role: role}
		g.specs = append(g.specs, f)
		g.byRol[role] = append(g.byRol[role], f)
		return f
	}
}

// pathTo writes a valid reference from file `from` to file `to`.
func (g *tgen) pathTo(from, to string) string {
	if g.r.Intn(3) == 0 {
		return "/" + to
	}
	var fd []string
	if i := strings.LastIndexByte(from, '/'); i >= 0 {
		fd = strings.Split(from[:i], "/")
	}
	te := strings.Split(to, "/")
	k := 0
	for k < len(fd) && k < len(te)-1 && fd[k] == te[k] {
		k++
	}
	return strings.Repeat("../", len(fd)-k) + strings.Join(te[k:], "/")
}

func depth(name string) int { return strings.Count(name, "/") }

func genCase(r *rand.Rand, noOdd bool) caseData {
	g := &tgen{r: r, byRol: map[string][]*fileSpec{}, noOdd: noOdd}
	clean := r.Intn(2) == 0 // only valid, existing, acyclic references
	page := g.newFile("page", ".html")
	nl, np, nb := r.Intn(3), 1+r.Intn(5), r.Intn(4)
	for i := 0; i < nl; i++ {
		g.newFile("layout", ".html")
	}
	exts := []string{".html", ".html", ".html", ".txt", ".md", ".css", ".js", ".json", ""}
	for i := 0; i < np; i++ {
		g.newFile("partial", exts[r.Intn(len(exts))])
	}
	for i := 0; i < nb; i++ {
		g.newFile("lib", exts[r.Intn(4)])
	}
	index := map[*fileSpec]int{}
	for i, f := range g.specs {
		index[f] = i
	}
	// target picks a file of the role; in clean mode only files with a larger
	// index (a DAG), otherwise any file of the role (cycles, self references)
	target := func(from *fileSpec, role string) *fileSpec {
		var cand []*fileSpec
		for _, f := range g.byRol[role] {
			if !clean || index[f] > index[from] {
				cand = append(cand, f)
			}
		}
		if len(cand) == 0 {
			return nil
		}
		return cand[r.Intn(len(cand))]
	}
	addRef := func(from *fileSpec, kind, role string) {
		t := target(from, role)
		ref := refSpec{Kind: kind}
		if kind == "render" && r.Intn(6) == 0 {
			ref.Default = true
		}
		bad := 100
		if !clean {
			bad = r.Intn(100)
		}
		switch {
		case bad < 7: // missing target
			ref.Path = g.pathTo(from.Name, "a/missing"+fmt.Sprint(r.Intn(3))+".html")
		case bad < 14: // leaves the root; the remainder often names an existing file
			rest := "x.html"
			if t != nil && r.Intn(2) == 0 {
				rest = t.Name
			} else if r.Intn(2) == 0 {
				rest = page.Name
			}
			ref.Path = strings.Repeat("../", depth(from.Name)+1+r.Intn(2)) + rest
		case bad < 19: // syntactically invalid
			base := "x.html"
			if t != nil {
				base = t.Name
			}
			ref.Path = []string{"./" + base, "a/../" + base, "a//" + base, "/../" + base, base + "/", "..", "a/./" + base, "/", "../", "."}[r.Intn(10)]
		case bad < 24 && kind != "extends": // back to the root or to the file itself: a cycle
			if r.Intn(2) == 0 {
				ref.Path = g.pathTo(from.Name, page.Name)
			} else {
				ref.Path = g.pathTo(from.Name, from.Name)
			}
		default:
			if t == nil {
				return
			}
			ref.Path = g.pathTo(from.Name, t.Name)
		}
		if !clean && r.Intn(8) == 0 && validRef(ref.Path) {
			// the template names a harmless unique path; a transformer sets the
			// real one, in 1 of 3 cases an absolute path that is not valid and
			// that the parser would have rejected
			g.nrw++
			ref.Written = fmt.Sprintf("rewritten%d.html", g.nrw)
			if r.Intn(3) == 0 {
				base := "secret.html"
				if t != nil && r.Intn(2) == 0 {
					base = t.Name
				}
				ref.Path = []string{"/../" + base, "/../../" + base, "/a/../../" + base, "/./" + base, "//" + base, "/" + base + "/", "/.."}[r.Intn(7)]
			}
		}
		from.Refs = append(from.Refs, ref)
	}
	for _, f := range g.specs {
		switch f.Role {
		case "page":
			if len(g.byRol["layout"]) > 0 && r.Intn(2) == 0 {
				addRef(f, "extends", "layout")
			}
		case "layout":
			if r.Intn(4) == 0 {
				addRef(f, "extends", "layout")
			}
		}
		if len(f.Refs) > 0 && f.Refs[0].Kind == "extends" && f.Refs[0].Path == "" {
			f.Refs = nil
		}
		k := r.Intn(4)
		if f.Role == "page" {
			k++
		}
		for i := 0; i < k; i++ {
			if r.Intn(3) == 0 {
				addRef(f, "import", "lib")
			} else {
				addRef(f, "render", "partial")
			}
		}
	}
	cd := caseData{Root: page.Name, FormatFS: r.Intn(2) == 0, Files: map[string]string{}}
	if r.Intn(14) == 0 {
		// a root name that is not a valid rooted path, mostly one that a lenient
		// file system would resolve to the page
		n := page.Name
		cd.RootName = []string{"../" + n, "/" + n, "./" + n, "x/../" + n, strings.Replace("x/"+n, "/", "//", 1), n + "/", "", ".", "..", "a/./" + n, n + "/."}[r.Intn(11)]
	}
	for _, f := range g.specs {
		cd.Specs = append(cd.Specs, *f)
		cd.Files[f.Name] = renderFile(f, len(cd.Specs))
	}
	return cd
}

// renderFile writes the template source of a file from its references.
func renderFile(f *fileSpec, n int) string {
	var b strings.Builder
	extends := len(f.Refs) > 0 && f.Refs[0].Kind == "extends"
	decl := extends || f.Role == "lib" // only declarations allowed at top level
	var renders []refSpec
	for _, ref := range f.Refs {
		switch ref.Kind {
		case "extends":
			fmt.Fprintf(&b, "{%% extends %q %%}\n", ref.written())
		case "import":
			fmt.Fprintf(&b, "{%% import %q %%}\n", ref.written())
		}
	}
	for _, ref := range f.Refs {
		if ref.Kind == "render" {
			renders = append(renders, ref)
		}
	}
	if decl {
		fmt.Fprintf(&b, "{%% macro F%d %%}", n)
	}
	fmt.Fprintf(&b, "text of %s ", f.Role)
	for _, ref := range renders {
		if ref.Default {
			fmt.Fprintf(&b, "[{{ render %q default \"\" }}]", ref.written())
		} else {
			fmt.Fprintf(&b, "[{{ render %q }}]", ref.written())
		}
	}
	if decl {
		b.WriteString("{% end macro %}\n")
	}
	return b.String()
}

func (r refSpec) written() string {
	if r.Written != "" {
		return r.Written
	}
	return r.Path
}

// rewriter is the visitor of the UnexpandedTransformer: it sets the paths of
// the extends/import/render nodes listed in the map.
type rewriter map[string]string

func (rw rewriter) Visit(node ast.Node) astutil.Visitor {
	switch n := node.(type) {
	case *ast.Extends:
		if p, ok := rw[n.Path]; ok {
			n.Path = p
		}
	case *ast.Import:
		if p, ok := rw[n.Path]; ok {
			n.Path = p
		}
	case *ast.Render:
		if p, ok := rw[n.Path]; ok {
			n.Path = p
		}
	}
	return rw
}
