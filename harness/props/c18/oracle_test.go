package c18

import (
	"io/fs"
	"testing"
)

func TestValidRef(t *testing.T) {
	good := []string{"x.html", "d/x.html", "/d/x.html", "../x.html", "../../d/x.html", "..a/x.html", "a../x.html", "a..b.html", ".hidden", "ü/ñ.html", "d/..x.html", "/..a/x"}
	bad := []string{"", "/", ".", "..", "../", "./x", "d/../x", "d//x", "d/./x", "x/", "/../x", "a/..", "../a/../b"}
	for _, p := range good {
		if !validRef(p) {
			t.Errorf("%q should be valid", p)
		}
	}
	for _, p := range bad {
		if validRef(p) {
			t.Errorf("%q should be invalid", p)
		}
	}
}

func TestResolve(t *testing.T) {
	cases := []struct {
		parent, ref, want string
		ok                bool
	}{
		{"a/b/c", "/d/e", "d/e", true},
		{"a/b/c", "d/e", "a/b/d/e", true},
		{"a/b/c", "../d/e", "a/d/e", true},
		{"a/b/c", "../../d/e", "d/e", true},
		{"a/b/c", "../../../d/e", "", false},
		{"index.html", "../index.html", "", false},
		{"index.html", "..a/p.html", "..a/p.html", true},
		{"d/index.html", "../..v.html", "..v.html", true},
		{"index.html", "x", "x", true},
	}
	for _, c := range cases {
		got, ok := resolve(c.parent, c.ref)
		if got != c.want || ok != c.ok {
			t.Errorf("resolve(%q,%q) = %q,%v want %q,%v", c.parent, c.ref, got, ok, c.want, c.ok)
		}
		if ok && !fs.ValidPath(got) {
			t.Errorf("resolve(%q,%q) = %q is not a valid path", c.parent, c.ref, got)
		}
	}
}

func TestAnalyse(t *testing.T) {
	cd := caseData{Root: "a/i.html", Specs: []fileSpec{
		{Name: "a/i.html", Refs: []refSpec{{Kind: "render", Path: "p.html"}, {Kind: "render", Path: "/q.html"}, {Kind: "render", Path: "../../x", Default: true}}},
		{Name: "a/p.html", Refs: []refSpec{{Kind: "render", Path: "../q.html"}}},
		{Name: "q.html"},
		{Name: "unreached.html", Refs: []refSpec{{Kind: "render", Path: "unreached.html"}}},
	}}
	v := analyse(&cd)
	if len(v.errs) != 0 || !v.reachable["q.html"] || v.reachable["unreached.html"] || len(v.escapeRefs) != 1 {
		t.Fatalf("diamond: %+v", v)
	}
	cd.Specs[2].Refs = []refSpec{{Kind: "render", Path: "a/p.html"}}
	if v := analyse(&cd); !v.errs["cycle"] {
		t.Fatalf("cycle not found: %+v", v)
	}
	cd.Specs[2].Refs = []refSpec{{Kind: "import", Path: "../lib"}}
	if v := analyse(&cd); !v.errs["escape"] || v.errs["cycle"] {
		t.Fatalf("escape: %+v", v)
	}
	cd.Specs[2].Refs = []refSpec{{Kind: "render", Path: "nope"}, {Kind: "render", Path: "./q.html"}}
	if v := analyse(&cd); !v.errs["missing"] || !v.errs["invalid"] || !v.allowed["nope"] {
		t.Fatalf("missing/invalid: %+v", v)
	}
}
