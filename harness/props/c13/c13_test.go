package c13

import (
	"errors"
	"reflect"
	"testing"
)

func ch(s ...string) [][]byte {
	var out [][]byte
	for _, x := range s {
		out = append(out, []byte(x))
	}
	return out
}

func TestPositions(t *testing.T) {
	if got := positions(5, 0); !reflect.DeepEqual(got, []int{1, 2, 3, 4, 5}) {
		t.Fatal(got)
	}
	got := positions(1000, 400)
	if got[0] != 1 || got[len(got)-1] != 1000 || len(got) > 400 || len(got) < 300 {
		t.Fatal(len(got), got[0], got[len(got)-1])
	}
}

func TestJudgePlain(t *testing.T) {
	ok := ch("a", "b", "c")
	E := errors.New("e")
	w := &faultWriter{k: 2, err: E, calls: 2, chunks: ch("a", "b")}
	if m := judge("plain", ok, w, 2, E, nil, false, "", E); m != "" {
		t.Fatal(m)
	}
	if m := judge("plain", ok, w, 2, E, nil, false, "", errors.New("e")); m == "" {
		t.Fatal("an equal but different error must be rejected")
	}
	if m := judge("plain", ok, w, 2, E, nil, false, "", nil); m == "" {
		t.Fatal("nil must be rejected")
	}
	w2 := &faultWriter{k: 2, err: E, calls: 3, chunks: ch("a", "b", "c")}
	if m := judge("plain", ok, w2, 2, E, nil, false, "", E); m == "" {
		t.Fatal("a write after the failure must be rejected")
	}
	if m := judge("plain", ok, w, 2, E, E, true, "", nil); m == "" {
		t.Fatal("a host panic must be rejected")
	}
	w3 := &faultWriter{k: 2, err: E, calls: 2, chunks: ch("x", "b")}
	if m := judge("plain", ok, w3, 2, E, nil, false, "", E); m == "" {
		t.Fatal("a different prefix must be rejected")
	}
}

func TestJudgeRecoverAndDeferred(t *testing.T) {
	E := errors.New("e")
	ok := ch("a", "r~1;", "r~arg", "r~2;", "<p>after;</p>", "r~1;", "end")
	// failure on the marked chunk 3: recovered, the output goes on after the macro
	w := &faultWriter{k: 3, err: E, calls: 6, chunks: ch("a", "r~1;", "r~arg", "<p>after;</p>", "r~1;", "end")}
	if m := judge("recover", ok, w, 3, E, nil, false, "", nil); m != "" {
		t.Fatal(m)
	}
	if m := judge("recover", ok, w, 3, E, nil, false, "", E); m == "" {
		t.Fatal("a recovered failure must not be returned")
	}
	// failure outside the macro: plain behaviour
	w = &faultWriter{k: 1, err: E, calls: 1, chunks: ch("a")}
	if m := judge("recover", ok, w, 1, E, nil, false, "", E); m != "" {
		t.Fatal(m)
	}
	okd := ch("x", "<p>body1;</p>", "y", "d~1;d~2;")
	w = &faultWriter{k: 3, err: E, calls: 4, chunks: ch("x", "<p>body1;</p>", "y", "d~1;d~2;")}
	if m := judge("deferred", okd, w, 3, E, nil, false, "", E); m != "" {
		t.Fatal(m)
	}
	// before the defer statement nothing may follow
	w = &faultWriter{k: 1, err: E, calls: 2, chunks: ch("x", "d~1;d~2;")}
	if m := judge("deferred", okd, w, 1, E, nil, false, "", E); m == "" {
		t.Fatal("deferred output before the defer statement must be rejected")
	}
}
