// Package c13 checks that a failing output writer aborts rendering with the writer's
// error.
//
// Fault enumeration: a template is rendered once with a recording writer to count its
// W Write calls, then once per k in 1..W with a writer whose k-th Write fails with an
// error E_k and whose later Writes succeed (so that a later write would be visible).
//
// Refute (templates without recover and without deferred output): Run returns anything
// but E_k itself (==), a Write call is recorded after the failing one, or the host
// panics. For the two structured classes that contain such code the expectation comes
// from a small model keyed by marked bytes: a failure inside a macro that recovers is
// recovered (Run returns nil and exactly the writes that follow the macro in the
// successful run are made); a deferred macro call still writes its marked bytes after a
// failed write and Run returns E_k.
package c13

import (
	"bytes"
	"fmt"
	"io"
	"os"
	"sort"
	"strings"

	"github.com/open2b/scriggo"
	"github.com/yuin/goldmark"

	"verif/core"
	fp "verif/gen/faultprog"
)

type prop struct{}

func init() { core.Register(prop{}) }

func (prop) ID() string    { return "C13" }
func (prop) Level() string { return "fault_enumeration" }

type caseData struct {
	Label    string            `json:"label"`
	Files    map[string]string `json:"files"`
	Main     string            `json:"main"`
	Class    string            `json:"class"` // plain | recover | deferred
	Features []string          `json:"features,omitempty"`
	// MaxK bounds the enumeration (0 = every k); when W > MaxK, MaxK positions spread
	// over 1..W are taken (first, last and evenly spaced ones).
	MaxK int `json:"max_k,omitempty"`
	// OnlyK, if not empty, restricts the run to these k (witnesses of findings).
	OnlyK []int `json:"only_k,omitempty"`
}

const scopeMarkdownFlush = "write failing while the converted Markdown of a macro or rendered file is flushed"

func (prop) Drive(d *core.Driver) error {
	d.T.Rule = "templates = seeded random compositions of text, shows in HTML/attribute/URL/srcset/JS/CSS/JSON-LD contexts, if/for/switch, macros (plain, string result, Markdown result shown in HTML), render of HTML and Markdown partials, native.Markdown values, using, extends+import, raw, block code, and Markdown/JS/CSS/JSON/text main files; each template is rendered once to count its writes W and then once for every k in 1..W with a writer that fails on the k-th Write only (quick: at most 400 positions per template, all of them when W <= 400). distinct_nontrivial counts distinct (class, feature, outcome) triples over the fault runs"
	d.T.Assumptions = []string{
		"the Markdown converter given to BuildTemplate returns the error of the writer it was given (goldmark output is written to out in chunks of 24 bytes so that a failure can fall inside a conversion)",
		"for templates with recover or deferred output only the two structured shapes of the generator are judged, by a model keyed by marked bytes",
		"deferred calls run while a write failure unwinds, as in Go: output of a deferred macro after the failed write is by design, and when the writer keeps failing Run may return the error of that later write (any of the writer's errors is accepted there); for templates without deferred output the first error and no further Write are required also with a writer that keeps failing",
	}
	nPlain := d.N(110, 4400)
	nRec := d.N(20, 300)
	nDef := d.N(20, 300)
	maxK := d.N(400, 0)
	noFlush := d.InScope(scopeMarkdownFlush)
	var cases []core.Case
	r := d.Rand("templates")
	feats := map[string]int{}
	add := func(class string, i int) {
		var t fp.WTemplate
		for try := 0; ; try++ {
			t = fp.GenWTemplate(r, class, i)
			if !noFlush || !(has(t.Features, "macro_markdown_in_html") || has(t.Features, "render_md_in_html")) || try > 50 {
				break
			}
		}
		for _, f := range t.Features {
			feats[f]++
		}
		cases = append(cases, core.NewCase(fmt.Sprintf("%s-%d", class, i), caseData{Label: fmt.Sprintf("%s %d", class, i), Files: t.Files, Main: t.Main, Class: class, Features: t.Features, MaxK: maxK}))
	}
	for i := 0; i < nPlain; i++ {
		add("plain", i)
	}
	for i := 0; i < nRec; i++ {
		add("recover", i)
	}
	for i := 0; i < nDef; i++ {
		add("deferred", i)
	}
	d.T.Set("templates", len(cases))
	d.T.Set("feature_counts", feats)
	for _, i := range []int{0, nPlain, nPlain + nRec} {
		if i < len(cases) {
			var cd caseData
			cases[i].Decode(&cd)
			d.T.Sample(map[string]any{"id": cases[i].ID, "class": cd.Class, "files": cd.Files})
		}
	}
	results := d.Run(cases, core.RunOpts{})
	if path := os.Getenv("VERIF_TRIAGE"); path != "" { // development aid
		var b strings.Builder
		for i, r := range results {
			if r.Status != core.OK {
				fmt.Fprintf(&b, "%s %s: %s\n", r.Status, cases[i].ID, core.Truncate(r.Detail, 1500))
			}
		}
		os.WriteFile(path, []byte(b.String()), 0o644)
	}
	return nil
}

func has(a []string, s string) bool {
	for _, x := range a {
		if x == s {
			return true
		}
	}
	return false
}

// ---------------------------------------------------------------------------
// worker side

// writeErr is the error of the k-th write; every run has its own value.
type writeErr struct{ k int }

func (e *writeErr) Error() string { return fmt.Sprintf("write %d failed", e.k) }

// faultWriter records every Write call and fails on the k-th one (k == 0: never).
// If persistent is set it also fails on every later call, each time with a new error
// value (recorded in errs).
type faultWriter struct {
	k          int
	err        error
	persistent bool
	errs       []error
	calls      int
	chunks     [][]byte
	after      int // Write calls made after the failing one
}

func (w *faultWriter) Write(b []byte) (int, error) {
	w.calls++
	w.chunks = append(w.chunks, append([]byte(nil), b...))
	if w.k != 0 && w.calls == w.k {
		w.errs = append(w.errs, w.err)
		return 0, w.err
	}
	if w.persistent && w.k != 0 && w.calls > w.k {
		w.after++
		e := &writeErr{w.calls}
		w.errs = append(w.errs, e)
		return 0, e
	}
	if w.k != 0 && w.calls > w.k {
		w.after++
	}
	return len(b), nil
}

// mdConverter converts with goldmark and writes the result in small chunks, returning
// the writer's error unchanged.
func mdConverter(src []byte, out io.Writer) error {
	var buf bytes.Buffer
	if err := goldmark.Convert(src, &buf); err != nil {
		return err
	}
	b := buf.Bytes()
	for len(b) > 0 {
		n := min(24, len(b))
		if _, err := out.Write(b[:n]); err != nil {
			return err
		}
		b = b[n:]
	}
	return nil
}

func (prop) Work(c core.Case) core.Result {
	var cd caseData
	c.Decode(&cd)
	fsys := scriggo.Files{}
	for k, v := range cd.Files {
		fsys[k] = []byte(v)
	}
	var tmpl *scriggo.Template
	var berr error
	pv, panicked, stack := core.Guard(func() {
		tmpl, berr = scriggo.BuildTemplate(fsys, cd.Main, &scriggo.BuildOptions{Globals: fp.WGlobals(), MarkdownConverter: mdConverter})
	})
	if panicked {
		return core.Result{Status: core.Skip, Detail: fmt.Sprintf("BuildTemplate panicked (C04 domain): %v\n%s\n%s", pv, stack, filesText(cd.Files)), Counts: map[string]int64{"build_panics": 1}}
	}
	if berr != nil {
		return core.Result{Status: core.Skip, Detail: "build error: " + berr.Error() + "\n" + filesText(cd.Files), Counts: map[string]int64{"build_errors": 1}}
	}
	res := core.Result{Status: core.OK, Counts: map[string]int64{}}
	// successful render: count the writes
	ok := &faultWriter{}
	var err error
	pv, panicked, stack = core.Guard(func() { err = tmpl.Run(ok, nil, nil) })
	if panicked || err != nil {
		return core.Result{Status: core.Skip, Detail: fmt.Sprintf("the template does not render without faults: panicked=%v (%v) err=%v\n%s", panicked, pv, err, filesText(cd.Files)), Counts: map[string]int64{"not_renderable": 1}}
	}
	W := ok.calls
	res.Counts["templates"] = 1
	res.Counts["writes_of_successful_renders"] = int64(W)
	ks := positions(W, cd.MaxK)
	if len(cd.OnlyK) > 0 {
		ks = cd.OnlyK
	}
	if len(ks) < W && len(cd.OnlyK) == 0 {
		res.Counts["templates_sampled"] = 1
	}
	var bad []string
	sigs := map[string]bool{}
	for _, k := range ks {
		if k < 1 || k > W {
			continue
		}
		E := &writeErr{k}
		w := &faultWriter{k: k, err: E}
		var rerr error
		pv, panicked, stack := core.Guard(func() { rerr = tmpl.Run(w, nil, nil) })
		res.Evals++
		res.Counts["fault_runs"]++
		res.Counts["writes_logged"] += int64(w.calls)
		msg := judge(cd.Class, ok.chunks, w, k, E, pv, panicked, stack, rerr)
		outcome := "E"
		if rerr == nil {
			outcome = "nil"
		}
		if msg != "" {
			outcome = "BAD"
			if len(bad) < 4 {
				bad = append(bad, fmt.Sprintf("k=%d of %d (failing write %q): %s", k, W, core.Truncate(string(ok.chunks[k-1]), 60), msg))
			}
			res.Counts["bad_runs"]++
		}
		for _, f := range cd.Features {
			sigs[core.SigJoin(cd.Class, f, outcome)] = true
		}
		if cd.Class == "recover" {
			continue
		}
		// the same position with a writer that keeps failing, with a new error value
		// every time: the first failure is the one to report, unless deferred output
		// fails again while unwinding (then one of the writer's errors)
		pw := &faultWriter{k: k, err: E, persistent: true}
		var perr error
		pv, panicked, stack = core.Guard(func() { perr = tmpl.Run(pw, nil, nil) })
		res.Evals++
		res.Counts["persistent_fault_runs"]++
		if msg := judgePersistent(cd.Class, ok.chunks, pw, k, E, pv, panicked, stack, perr); msg != "" {
			if len(bad) < 4 {
				bad = append(bad, fmt.Sprintf("k=%d of %d, writer failing from this write on: %s", k, W, msg))
			}
			res.Counts["bad_runs"]++
			sigs[core.SigJoin(cd.Class, "persistent", "BAD")] = true
		} else {
			sigs[core.SigJoin(cd.Class, "persistent", "E")] = true
		}
	}
	for s := range sigs {
		res.Sigs = append(res.Sigs, s)
	}
	sort.Strings(res.Sigs)
	if len(bad) > 0 {
		res.Status = core.Violation
		res.Detail = fmt.Sprintf("%s (%s): %d of %d fault positions fail\n%s\n%s", cd.Label, cd.Class, res.Counts["bad_runs"], len(ks), strings.Join(bad, "\n"), filesText(cd.Files))
	}
	return res
}

// positions returns the fault positions to try: all of 1..W, or max of them spread
// evenly (always including 1 and W).
func positions(W, max int) []int {
	var ks []int
	if max <= 0 || W <= max {
		for k := 1; k <= W; k++ {
			ks = append(ks, k)
		}
		return ks
	}
	seen := map[int]bool{}
	for i := 0; i < max; i++ {
		k := 1 + i*(W-1)/(max-1)
		if !seen[k] {
			seen[k] = true
			ks = append(ks, k)
		}
	}
	return ks
}

// judge returns "" if the fault run behaved as required.
func judge(class string, okChunks [][]byte, w *faultWriter, k int, E error, pv any, panicked bool, stack string, rerr error) string {
	if panicked {
		if pv == any(E) {
			return fmt.Sprintf("Run panicked into the host with the writer's error instead of returning it\n%s", scriggoFrames(stack))
		}
		return fmt.Sprintf("Run panicked into the host with %T: %v\n%s", pv, pv, scriggoFrames(stack))
	}
	// the writes up to the failing one are those of the successful render
	for i := 0; i < k && i < len(w.chunks); i++ {
		if !bytes.Equal(w.chunks[i], okChunks[i]) {
			return fmt.Sprintf("write %d is %q, the successful render wrote %q", i+1, w.chunks[i], okChunks[i])
		}
	}
	if w.calls < k {
		return fmt.Sprintf("only %d writes were made, the failing write was never reached (Run returned %v)", w.calls, rerr)
	}
	failing := okChunks[k-1]
	later := w.chunks[k:]
	switch {
	case class == "recover" && bytes.HasPrefix(failing, []byte(fp.RecoverMark)):
		// recovered inside the macro: the output goes on after the macro call
		end := k // index (0-based) of the first chunk after the marked run
		for end < len(okChunks) && bytes.HasPrefix(okChunks[end], []byte(fp.RecoverMark)) {
			end++
		}
		if rerr != nil {
			return fmt.Sprintf("the macro recovers the failed write, Run returned %T: %v", rerr, rerr)
		}
		return sameChunks(later, okChunks[end:], "after the recovering macro")
	case class == "deferred" && !bytes.HasPrefix(failing, []byte(fp.DeferMark)) && deferredBefore(okChunks, k):
		// the defer statement was executed before the failing write: the deferred
		// macro still runs and writes its bytes; Run returns E
		var want [][]byte
		for _, c := range okChunks {
			if bytes.HasPrefix(c, []byte(fp.DeferMark)) {
				want = append(want, c)
			}
		}
		if rerr != E {
			return fmt.Sprintf("Run returned %T: %v, want the writer's error itself", rerr, rerr)
		}
		return sameChunks(later, want, "of the deferred macro call")
	}
	if rerr != E {
		return fmt.Sprintf("Run returned %T: %v, want the writer's error itself (%v)", rerr, rerr, E)
	}
	if len(later) > 0 {
		return fmt.Sprintf("%d Write call(s) after the failing one, first %q", len(later), core.Truncate(string(later[0]), 60))
	}
	return ""
}

// deferredBefore reports whether the defer statement of a "deferred" template is
// executed before the k-th write: the text that follows the statement starts with
// DeferredFrom.
func deferredBefore(okChunks [][]byte, k int) bool {
	for i := 0; i < k && i < len(okChunks); i++ {
		if bytes.Contains(okChunks[i], []byte(fp.DeferredFrom)) {
			return true
		}
	}
	return false
}

// judgePersistent judges a run whose writer fails on the k-th and on every later
// Write. Without deferred output nothing may be written after the first failure and
// Run returns the first error. Deferred output (class "deferred", defer statement
// already executed) is attempted, as in Go a deferred call runs while the panic
// unwinds; it fails too, and Run returns one of the errors the writer returned.
func judgePersistent(class string, okChunks [][]byte, w *faultWriter, k int, E error, pv any, panicked bool, stack string, rerr error) string {
	if panicked {
		return fmt.Sprintf("Run panicked into the host with %T: %v\n%s", pv, pv, scriggoFrames(stack))
	}
	if w.calls < k {
		return fmt.Sprintf("only %d writes were made, the failing write was never reached (Run returned %v)", w.calls, rerr)
	}
	later := w.chunks[k:]
	if class == "deferred" && !bytes.HasPrefix(okChunks[k-1], []byte(fp.DeferMark)) && deferredBefore(okChunks, k) {
		for _, e := range w.errs {
			if rerr == e {
				if len(later) > 1 {
					return fmt.Sprintf("%d Write calls after the first failure, want at most the first write of the deferred macro", len(later))
				}
				return ""
			}
		}
		return fmt.Sprintf("Run returned %T: %v, want one of the writer's errors", rerr, rerr)
	}
	if rerr != E {
		return fmt.Sprintf("Run returned %T: %v, want the error of the first failed write (%v)", rerr, rerr, E)
	}
	if len(later) > 0 {
		return fmt.Sprintf("%d Write call(s) after the first failure, first %q", len(later), core.Truncate(string(later[0]), 60))
	}
	return ""
}

func sameChunks(got, want [][]byte, what string) string {
	if len(got) != len(want) {
		return fmt.Sprintf("%d writes %s, want %d: got %q", len(got), what, len(want), joinChunks(got))
	}
	for i := range got {
		if !bytes.Equal(got[i], want[i]) {
			return fmt.Sprintf("write %d %s is %q, want %q", i+1, what, got[i], want[i])
		}
	}
	return ""
}

func joinChunks(c [][]byte) string {
	var parts []string
	for _, x := range c {
		parts = append(parts, string(x))
	}
	return core.Truncate(strings.Join(parts, "|"), 200)
}

func scriggoFrames(s string) string {
	var keep []string
	lines := strings.Split(s, "\n")
	for i := 0; i+1 < len(lines); i++ {
		if strings.Contains(lines[i], "open2b/scriggo") {
			keep = append(keep, lines[i], lines[i+1])
			i++
		}
		if len(keep) > 16 {
			break
		}
	}
	return strings.Join(keep, "\n")
}

func filesText(files map[string]string) string {
	var names []string
	for k := range files {
		names = append(names, k)
	}
	sort.Strings(names)
	var b strings.Builder
	for _, n := range names {
		fmt.Fprintf(&b, "--- %s\n%s\n", n, files[n])
	}
	return b.String()
}
