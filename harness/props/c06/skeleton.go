package c06

import (
	"bytes"
	"encoding/json"
	"fmt"
	"io"
	"strings"

	"github.com/yuin/goldmark"
	"github.com/yuin/goldmark/ast"
	"github.com/yuin/goldmark/renderer/html"
	"github.com/yuin/goldmark/text"
	nethtml "golang.org/x/net/html"

	"verif/oracle/csstok"
	"verif/oracle/jslex"
)

// A node is one element of a syntactic skeleton. Structural nodes are compared
// by Sig only. Leaf nodes (text, attribute values, comments, string / number /
// template / regular-expression literals, ...) are compared by Sig for the
// skeleton and by Content for the "only the marked leaf differs" rule.
type node struct {
	Sig     string
	Leaf    bool
	Content string
}

type skeleton struct {
	nodes []node
	errs  int // lexical errors met by the sub-tokenizers (a benign render must have none)
}

func (s *skeleton) structural(sig string) { s.nodes = append(s.nodes, node{Sig: sig}) }
func (s *skeleton) leaf(sig, content string) {
	s.nodes = append(s.nodes, node{Sig: sig, Leaf: true, Content: content})
}

// hints records, from the benign render, which tag names and attribute names are
// themselves slots (they contain a marker), so that the hostile render is
// abstracted at the same positions.
type hints struct {
	tagName  map[int]bool    // ordinal of tag token (start, end and self-closing tags counted together)
	attrName map[[2]int]bool // (tag ordinal, attribute index)
}

func containsMarker(s string, markers []string) bool {
	ls := strings.ToLower(s)
	for _, m := range markers {
		if strings.Contains(ls, strings.ToLower(m)) {
			return true
		}
	}
	return false
}

// JavaScript MIME type essence strings (HTML Standard / MIME Sniffing).
var jsMIME = map[string]bool{
	"application/ecmascript": true, "application/javascript": true, "application/x-ecmascript": true,
	"application/x-javascript": true, "text/ecmascript": true, "text/javascript": true, "text/javascript1.0": true,
	"text/javascript1.1": true, "text/javascript1.2": true, "text/javascript1.3": true, "text/javascript1.4": true,
	"text/javascript1.5": true, "text/jscript": true, "text/livescript": true, "text/x-ecmascript": true, "text/x-javascript": true,
}

func trimASCIISpace(s string) string { return strings.Trim(s, " \t\n\f\r") }

// scriptKind implements "prepare the script element", steps determining the
// script's type: "js", "module", "json" (JSON-LD data block) or "data".
func scriptKind(attrs []nethtml.Attribute) string {
	typ, hasType := "", false
	lang, hasLang := "", false
	for _, a := range attrs {
		switch a.Key {
		case "type":
			if !hasType {
				typ, hasType = a.Val, true
			}
		case "language":
			if !hasLang {
				lang, hasLang = a.Val, true
			}
		}
	}
	var t string
	switch {
	case hasType && typ == "", !hasType && hasLang && lang == "", !hasType && !hasLang:
		t = "text/javascript"
	case hasType:
		t = trimASCIISpace(typ)
	default:
		t = "text/" + lang
	}
	t = strings.ToLower(t)
	switch {
	case jsMIME[t]:
		return "js"
	case t == "module":
		return "module"
	case t == "application/ld+json", t == "importmap", t == "speculationrules":
		// JSON-LD is the JSON data block scriggo knows; import maps and speculation
		// rules are parsed as JSON by the browser itself
		return "json"
	}
	return "data"
}

// styleIsCSS reports whether a style element's content is a CSS style sheet.
func styleIsCSS(attrs []nethtml.Attribute) bool {
	for _, a := range attrs {
		if a.Key == "type" {
			t := strings.ToLower(trimASCIISpace(a.Val))
			return t == "" || t == "text/css"
		}
	}
	return true
}

type htmlTok struct {
	typ   nethtml.TokenType
	data  string
	attrs []nethtml.Attribute
}

func tokenizeHTML(src string) []htmlTok {
	z := nethtml.NewTokenizer(strings.NewReader(src))
	z.SetMaxBuf(0)
	var toks []htmlTok
	for {
		tt := z.Next()
		if tt == nethtml.ErrorToken {
			return toks
		}
		t := z.Token()
		if tt == nethtml.TextToken && len(toks) > 0 && toks[len(toks)-1].typ == nethtml.TextToken {
			toks[len(toks)-1].data += t.Data
			continue
		}
		toks = append(toks, htmlTok{typ: tt, data: t.Data, attrs: t.Attr})
	}
}

// htmlSkeleton abstracts an HTML document. If h is nil the marker positions of
// tag and attribute names are detected (benign render) and returned; otherwise
// they are taken from h (hostile render).
func htmlSkeleton(src string, markers []string, h *hints) (*skeleton, *hints) {
	s := &skeleton{}
	detect := h == nil
	if detect {
		h = &hints{tagName: map[int]bool{}, attrName: map[[2]int]bool{}}
	}
	toks := tokenizeHTML(src)
	ord := 0
	pendingText := ""
	flushText := func() {
		s.leaf("html:text", pendingText)
		pendingText = ""
	}
	for i := 0; i < len(toks); i++ {
		t := toks[i]
		switch t.typ {
		case nethtml.TextToken:
			pendingText += t.data
		case nethtml.CommentToken:
			flushText()
			s.leaf("html:comment", t.data)
		case nethtml.DoctypeToken:
			flushText()
			s.leaf("html:doctype", t.data)
		case nethtml.EndTagToken:
			flushText()
			name := t.data
			if detect && containsMarker(name, markers) {
				h.tagName[ord] = true
			}
			if h.tagName[ord] {
				s.structural("html:end:@")
				s.leaf("html:tagname", name)
			} else {
				s.structural("html:end:" + name)
			}
			ord++
		case nethtml.StartTagToken, nethtml.SelfClosingTagToken:
			flushText()
			name := t.data
			if detect && containsMarker(name, markers) {
				h.tagName[ord] = true
			}
			var sig strings.Builder
			sig.WriteString("html:start:")
			if h.tagName[ord] {
				sig.WriteString("@")
			} else {
				sig.WriteString(name)
			}
			sig.WriteString("[")
			for ai, a := range t.attrs {
				if detect && containsMarker(a.Key, markers) {
					h.attrName[[2]int{ord, ai}] = true
				}
				if ai > 0 {
					sig.WriteString(",")
				}
				if h.attrName[[2]int{ord, ai}] {
					sig.WriteString("@")
				} else {
					sig.WriteString(a.Key)
				}
			}
			sig.WriteString("]")
			s.structural(sig.String())
			if h.tagName[ord] {
				s.leaf("html:tagname", name)
			}
			for ai, a := range t.attrs {
				if h.attrName[[2]int{ord, ai}] {
					// the name itself is the slot: nothing is derived from it
					s.leaf("html:attrname", a.Key)
					s.leaf("html:attr:@", a.Val)
					continue
				}
				s.leaf("html:attr:"+attrClass(name, a.Key)+":"+a.Key, a.Val)
				// Event-handler and style attributes carry code.
				switch {
				case strings.HasPrefix(a.Key, "on") && len(a.Key) > 2:
					s.structural("html:attr-js{")
					jsSkeleton(s, a.Val, false)
					s.structural("}")
				case a.Key == "style":
					s.structural("html:attr-css{")
					cssSkeleton(s, a.Val)
					s.structural("}")
				}
			}
			ord++
			// raw text content of script and style elements
			if t.typ == nethtml.StartTagToken || name == "script" || name == "style" {
				if name == "script" || name == "style" {
					content := ""
					if i+1 < len(toks) && toks[i+1].typ == nethtml.TextToken {
						content = toks[i+1].data
						i++
					}
					if name == "style" {
						if styleIsCSS(t.attrs) {
							s.structural("html:css{")
							cssSkeleton(s, content)
							s.structural("}")
						} else {
							s.leaf("html:style-data", content)
						}
						continue
					}
					switch k := scriptKind(t.attrs); k {
					case "js", "module":
						s.structural("html:" + k + "{")
						jsSkeleton(s, content, k == "module")
						s.structural("}")
					case "json":
						s.structural("html:json{")
						jsonSkeleton(s, content)
						s.structural("}")
					default:
						s.leaf("html:script-data", content)
					}
				}
			}
		}
	}
	flushText()
	return s, h
}

// attrClass names the class of an attribute for signatures only.
func attrClass(tag, attr string) string {
	switch {
	case strings.HasPrefix(attr, "on"):
		return "event"
	case attr == "style":
		return "style"
	case attr == "srcset":
		return "srcset"
	case attr == "href" || attr == "src" || attr == "action" || attr == "cite" || attr == "poster" || attr == "data" || attr == "formaction" ||
		strings.HasPrefix(attr, "xmlns") || strings.HasSuffix(attr, ":href") || attr == "data-src" || attr == "data-url":
		return "url"
	}
	return "plain"
}

var jsExprEnd = map[string]bool{")": true, "]": true, "}": true, "++": true, "--": true}

// jsSkeleton appends the skeleton of JavaScript source.
func jsSkeleton(s *skeleton, src string, module bool) {
	toks := jslex.Tokenize(src, jslex.Options{Module: module})
	prev := jslex.Token{Kind: jslex.EOF}
	for i := 0; i < len(toks); i++ {
		t := toks[i]
		switch t.Kind {
		case jslex.EOF:
		case jslex.Error:
			s.structural("js:ERROR")
			s.errs++
		case jslex.LineComment, jslex.BlockComment:
			s.leaf("js:"+t.Kind.String(), t.Text)
			continue // comments do not change the previous significant token
		case jslex.String, jslex.Numeric, jslex.Template, jslex.TemplateHead, jslex.TemplateMiddle, jslex.TemplateTail, jslex.Regex:
			s.leaf("js:"+t.Kind.String(), t.Text)
		case jslex.Keyword:
			if t.Text == "true" || t.Text == "false" {
				s.leaf("js:Boolean", t.Text)
			} else {
				s.structural("js:Keyword:" + t.Text)
			}
		case jslex.Punct:
			// A sign directly attached to a numeric literal in operand position is
			// part of the number ("single value expression"): x = -5.
			if (t.Text == "-" || t.Text == "+") && i+1 < len(toks) && toks[i+1].Kind == jslex.Numeric && toks[i+1].Start == t.Start+1 && operandPosition(prev) {
				s.leaf("js:Numeric", t.Text+toks[i+1].Text)
				i++
				prev = toks[i]
				continue
			}
			s.structural("js:Punct:" + t.Text)
		default:
			s.structural("js:" + t.Kind.String() + ":" + t.Text)
		}
		prev = t
	}
}

// operandPosition reports whether an operand (not a binary operator) is
// expected after the token prev.
func operandPosition(prev jslex.Token) bool {
	switch prev.Kind {
	case jslex.EOF, jslex.TemplateHead, jslex.TemplateMiddle:
		return true
	case jslex.Punct:
		return !jsExprEnd[prev.Text]
	case jslex.Keyword:
		switch prev.Text {
		case "this", "super", "null", "true", "false":
			return false
		}
		return true
	}
	return false
}

// cssSkeleton appends the skeleton of CSS source.
func cssSkeleton(s *skeleton, src string) {
	for _, t := range csstok.Tokenize(src) {
		un := ""
		if t.Unterminated {
			un = "!unterminated"
			s.errs++
		}
		switch t.Kind {
		case csstok.EOF, csstok.Whitespace:
		case csstok.Comment:
			s.leaf("css:Comment"+un, t.Value)
		case csstok.String:
			s.leaf("css:String"+un, t.Value)
		case csstok.URL:
			s.leaf("css:URL"+un, t.Value)
		case csstok.BadString, csstok.BadURL:
			s.structural("css:" + t.Kind.String())
			s.errs++
		case csstok.Number:
			s.leaf("css:Number", t.Repr)
		case csstok.Percentage:
			s.leaf("css:Percentage", t.Repr)
		case csstok.Dimension:
			s.leaf("css:Dimension:"+strings.ToLower(t.Unit), t.Repr)
		case csstok.Ident, csstok.Function, csstok.AtKeyword, csstok.Delim:
			s.structural("css:" + t.Kind.String() + ":" + t.Value)
		case csstok.Hash:
			s.structural(fmt.Sprintf("css:Hash:%v:%s", t.ID, t.Value))
		default:
			s.structural("css:" + t.Kind.String())
		}
	}
}

// jsonSkeleton appends the skeleton of a JSON text.
func jsonSkeleton(s *skeleton, src string) {
	if !json.Valid([]byte(src)) {
		s.structural("json:INVALID")
		s.errs++
	}
	dec := json.NewDecoder(strings.NewReader(src))
	dec.UseNumber()
	for {
		tok, err := dec.Token()
		if err == io.EOF {
			return
		}
		if err != nil {
			s.structural("json:ERROR")
			return
		}
		switch v := tok.(type) {
		case json.Delim:
			s.structural("json:" + v.String())
		case string:
			s.leaf("json:String", v)
		case json.Number:
			s.leaf("json:Number", v.String())
		case bool:
			s.leaf("json:Boolean", fmt.Sprint(v))
		case nil:
			s.structural("json:null")
		}
	}
}

var md = goldmark.New(goldmark.WithRendererOptions(html.WithUnsafe()))

// ConvertMarkdown is the Markdown converter given to scriggo (CommonMark, raw HTML allowed).
func ConvertMarkdown(src []byte, out io.Writer) error { return md.Convert(src, out) }

// markdownSkeleton abstracts a Markdown document: the kinds of the nodes of its
// CommonMark syntax tree (text nodes left out: their content is judged on the
// rendering), followed by the HTML skeleton of its rendering.
func markdownSkeleton(src string, markers []string, h *hints) (*skeleton, *hints) {
	s := &skeleton{}
	source := []byte(src)
	doc := md.Parser().Parse(text.NewReader(source))
	ast.Walk(doc, func(n ast.Node, entering bool) (ast.WalkStatus, error) {
		switch n.Kind() {
		case ast.KindText, ast.KindString:
			return ast.WalkContinue, nil
		}
		if entering {
			sig := "md:+" + n.Kind().String()
			switch v := n.(type) {
			case *ast.Heading:
				sig += fmt.Sprint(v.Level)
			case *ast.List:
				sig += fmt.Sprint(v.IsOrdered())
			case *ast.Emphasis:
				sig += fmt.Sprint(v.Level)
			}
			s.structural(sig)
		} else {
			s.structural("md:-" + n.Kind().String())
		}
		return ast.WalkContinue, nil
	})
	var buf bytes.Buffer
	if err := md.Renderer().Render(&buf, source, doc); err != nil {
		s.structural("md:RENDER-ERROR")
		s.errs++
		return s, h
	}
	hs, h2 := htmlSkeleton(buf.String(), markers, h)
	s.nodes = append(s.nodes, hs.nodes...)
	s.errs += hs.errs
	return s, h2
}

// skeletonOf abstracts a rendered document of the given format.
func skeletonOf(format, out string, markers []string, h *hints) (*skeleton, *hints) {
	switch format {
	case "html":
		return htmlSkeleton(out, markers, h)
	case "md":
		return markdownSkeleton(out, markers, h)
	}
	s := &skeleton{}
	switch format {
	case "js":
		jsSkeleton(s, out, false)
	case "css":
		cssSkeleton(s, out)
	case "json":
		jsonSkeleton(s, out)
	default:
		s.leaf("text", out)
	}
	return s, h
}

// diff compares a hostile skeleton with the benign one. changed lists the texts
// by which the benign values of the holes that were made hostile are recognised.
// It returns "" if the skeletons are equal and only marked leaves differ.
func diff(benign, hostile *skeleton, changed []string) string {
	n := len(benign.nodes)
	if len(hostile.nodes) < n {
		n = len(hostile.nodes)
	}
	for i := 0; i < n; i++ {
		if benign.nodes[i].Sig != hostile.nodes[i].Sig {
			return fmt.Sprintf("skeleton differs at node %d: benign %q, hostile %q (context: %s)", i, benign.nodes[i].Sig, hostile.nodes[i].Sig, around(benign, i))
		}
	}
	if len(benign.nodes) != len(hostile.nodes) {
		var extra string
		if len(hostile.nodes) > n {
			extra = "hostile has extra node " + hostile.nodes[n].Sig
		} else {
			extra = "hostile lacks node " + benign.nodes[n].Sig
		}
		return fmt.Sprintf("skeleton length differs: benign %d nodes, hostile %d nodes; %s (context: %s)", len(benign.nodes), len(hostile.nodes), extra, around(benign, n))
	}
	for i := range benign.nodes {
		b, x := benign.nodes[i], hostile.nodes[i]
		if b.Leaf && b.Content != x.Content && !containsMarker(b.Content, changed) {
			return fmt.Sprintf("leaf %d (%s) changed although it holds no changed value: benign %q, hostile %q", i, b.Sig, trunc(b.Content), trunc(x.Content))
		}
	}
	return ""
}

func trunc(s string) string {
	if len(s) > 160 {
		return s[:160] + "…"
	}
	return s
}

func around(s *skeleton, i int) string {
	lo, hi := i-3, i+2
	if lo < 0 {
		lo = 0
	}
	if hi > len(s.nodes) {
		hi = len(s.nodes)
	}
	var parts []string
	for _, n := range s.nodes[lo:hi] {
		parts = append(parts, n.Sig)
	}
	return strings.Join(parts, " ")
}

// leafContexts returns, for each marker, the signatures of the leaves that
// contain it (the true context of the hole according to the reference tokenizers).
func leafContexts(s *skeleton, marker string) []string {
	var out []string
	enclosing := ""
	for _, n := range s.nodes {
		if !n.Leaf {
			if strings.HasPrefix(n.Sig, "html:") && strings.HasSuffix(n.Sig, "{") {
				enclosing = n.Sig
			} else if n.Sig == "}" {
				enclosing = ""
			}
			continue
		}
		if containsMarker(n.Content, []string{marker}) {
			sig := n.Sig
			// attribute leaves: keep the class, drop the concrete name
			if strings.HasPrefix(sig, "html:attr:") {
				parts := strings.SplitN(sig, ":", 4)
				sig = strings.Join(parts[:3], ":")
			}
			out = append(out, enclosing+sig)
		}
	}
	return out
}
