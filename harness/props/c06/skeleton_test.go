package c06

import (
	"strings"
	"testing"
)

func sigs(s *skeleton) string {
	var parts []string
	for _, n := range s.nodes {
		if n.Leaf {
			parts = append(parts, n.Sig+"="+n.Content)
		} else {
			parts = append(parts, n.Sig)
		}
	}
	return strings.Join(parts, " | ")
}

// judge renders nothing: it compares two outputs the way Work does.
func judge(format, benign, hostile string, markers ...string) string {
	if len(markers) == 0 {
		markers = []string{"Zq00x"}
	}
	b, h := skeletonOf(format, benign, markers, nil)
	x, _ := skeletonOf(format, hostile, markers, h)
	return diff(b, x, markers)
}

func TestHTMLSkeleton(t *testing.T) {
	s, _ := htmlSkeleton(`<p class="a" id=b>x<!-- c --><br/></p>`, nil, nil)
	want := `html:text= | html:start:p[class,id] | html:attr:plain:class=a | html:attr:plain:id=b | html:text=x | html:comment= c  | html:text= | html:start:br[] | html:text= | html:end:p | html:text=`
	if got := sigs(s); got != want {
		t.Fatalf("got  %s\nwant %s", got, want)
	}
}

func TestConfined(t *testing.T) {
	// pairs that must be judged "same structure"
	same := []struct{ format, benign, hostile string }{
		{"html", `<p>a Zq00x b</p>`, `<p>a &lt;script&gt;alert(1)&lt;/script&gt; b</p>`},
		{"html", `<p>Zq00x</p>`, `<p></p>`},
		{"html", `<p title="Zq00x">x</p>`, `<p title="&#34; onclick=&#34;alert(1)">x</p>`},
		{"html", `<p title=Zq00x>x</p>`, `<p title=a&#32;b&gt;>x</p>`},
		{"html", `<a href="/p/Zq00x?x=1">x</a>`, `<a href="/p/javascript:alert%281%29?x=1">x</a>`},
		{"html", `<input Zq00x value=1>`, `<input onclick� value=1>`},
		{"html", `<hZq00x class=c>t</h1>`, `<h2�x class=c>t</h1>`},
		{"html", `<title>Zq00x</title>`, `<title>&lt;/title&gt;&lt;script&gt;</title>`},
		{"html", `<!-- Zq00x -->`, `<!-- --&gt;&lt;script&gt; -->`},
		{"html", `<script>var x = "Zq00x";</script>`, `<script>var x = "\u003c/script\u003e\"\\";</script>`},
		{"html", `<script>var x = 73100;</script>`, `<script>var x = -1;</script>`},
		{"html", `<script>f(73100.5, true)</script>`, `<script>f(-0.0000001, false)</script>`},
		{"html", `<script>var x = {"a":"Zq00xa","b":["Zq00xb"]};</script>`, `<script>var x = {"a":"\u0027","b":["*/"]};</script>`},
		{"html", `<script>// Zq00x` + "\n" + `x()</script>`, `<script>// "a\nb"` + "\n" + `x()</script>`},
		{"html", `<style>p { color: "Zq00x"; width: 73100px }</style>`, `<style>p { color: "\3c\2fstyle\3e  x"; width: -1.5px }</style>`},
		{"html", `<style>a { background: url("Zq00x") }</style>`, `<style>a { background: url("javascript\3a x") }</style>`},
		{"html", `<script type="application/ld+json">{"a": "Zq00x", "b": 73100}</script>`, `<script type="application/ld+json">{"a": "\"\\", "b": -5}</script>`},
		{"html", `<script type="text/template"><b>Zq00x</b></script>`, `<script type="text/template"><b>&lt;i&gt;</b></script>`},
		{"html", `<p onclick="f('Zq00x')">x</p>`, `<p onclick="f('a\x27;alert(1)//')">x</p>`},
		{"js", `var x = "Zq00x"; var y = /a"/;`, `var x = "\""; var y = /a"/;`},
		{"js", "var t = `a ${b} c`; var x = \"Zq00x\";", "var t = `a ${b} c`; var x = \"`${\";"},
		{"css", `p { color: "Zq00x" }`, `p { color: "a\22 b" }`},
		{"css", `p { width: 73100px; height: 73100.5% }`, `p { width: -1px; height: 0.0000001% }`},
		{"json", `{"Zq00xk": ["Zq00xv", 73100, true]}`, `{"\"": ["\\", -1, false]}`},
		{"md", "text Zq00x more\n", "text \\*em\\* \\<b\\> more\n"},
		{"md", "\tZq00x\n", "\ta\n\tb\n"},
		{"md", "# h Zq00x\n", "# h \\# x\n"},
	}
	for _, tc := range same {
		if msg := judge(tc.format, tc.benign, tc.hostile, "Zq00x", "73100", "true"); msg != "" {
			t.Errorf("%s: %q vs %q judged different: %s", tc.format, tc.benign, tc.hostile, msg)
		}
	}
}

func TestBreakouts(t *testing.T) {
	// pairs that must be judged "structure changed"
	differ := []struct{ format, benign, hostile string }{
		{"html", `<p>a Zq00x b</p>`, `<p>a <b>x</b> b</p>`},
		{"html", `<p>a Zq00x b</p>`, `<p>a <!-- b</p>`},
		{"html", `<p title="Zq00x">x</p>`, `<p title="" onclick="alert(1)">x</p>`},
		{"html", `<p title=Zq00x class=c>x</p>`, `<p title= class=c>x</p>`},
		{"html", `<p title=Zq00x>x</p>`, `<p title=a b>x</p>`},
		{"html", `<input Zq00x>`, `<input a b>`},
		{"html", `<hZq00x>t</h1>`, `<h1 onclick>t</h1>`},
		{"html", `<title>Zq00x</title>`, `<title></title><script>x</script></title>`},
		{"html", `<textarea>Zq00x</textarea><p>`, `<textarea></textarea><b></textarea><p>`},
		{"html", `<!-- Zq00x -->x`, `<!-- --><script>alert(1)</script> -->x`},
		{"html", `<script>var x = "Zq00x";</script>`, `<script>var x = "</script><img src=x>";</script>`},
		{"html", `<script>var x = "Zq00x";</script>`, `<script>var x = "";alert(1);//";</script>`},
		{"html", `<script>var x = "Zq00x";</script>`, `<script>var x = "a` + "\n" + `b";</script>`},
		{"html", `<script>var x = Zq00x;</script>`, `<script>var x = alert(1);</script>`},
		{"html", `<script>var x = y - 73100;</script>`, `<script>var x = y --1;</script>`},
		{"html", `<script>var x = y -73100;</script>`, `<script>var x = y --1;</script>`},
		{"html", `<script>/* Zq00x */ a()</script>`, `<script>/* */alert(1)/* */ a()</script>`},
		{"html", "<script>var t = `Zq00x`;</script>", "<script>var t = ``+alert(1)+``;</script>"},
		{"html", "<script>var t = `Zq00x`;</script>", "<script>var t = `${alert(1)}`;</script>"},
		{"html", `<script>var r = /"/; var x = Zq00x;</script>`, `<script>var r = /"/; var x = 1;alert(1);</script>`},
		{"html", "<script>\n<!-- <script> </script>\nvar d = Zq00x;\n--></script>", "<script>\n<!-- <script> </script>\nvar d = alert(1);\n--></script>"},
		{"html", `<script type="application/javascript">var x = Zq00x;</script>`, `<script type="application/javascript">var x = f(1);</script>`},
		{"html", `<script type=" Module ">var x = Zq00x;</script>`, `<script type=" Module ">var x = f(1);</script>`},
		{"html", `<style>p { color: "Zq00x" }</style>`, `<style>p { color: "" } body { x: "" }</style>`},
		{"html", `<style>p { color: "Zq00x" }</style>`, `<style>p { color: "a` + "\n" + `b" }</style>`},
		{"html", `<style>p { color: Zq00x }</style>`, `<style>p { color: red blue }</style>`},
		{"html", `<style>p { color: "Zq00x" }</style>`, `<style>p { color: "</style><script>x</script>" }</style>`},
		{"html", `<p style="color: Zq00x">x</p>`, `<p style="color: red; background: url(x)">x</p>`},
		{"html", `<p onclick="f(Zq00x)">x</p>`, `<p onclick="f(1);alert(1)">x</p>`},
		{"html", `<p onclick="f('Zq00x')">x</p>`, `<p onclick="f('&#39;);alert(1);//')">x</p>`},
		{"html", `<script type="application/ld+json">{"a": "Zq00x"}</script>`, `<script type="application/ld+json">{"a": "", "b": ""}</script>`},
		{"html", `<p>Zq00x</p><p>other</p>`, `<p>x</p><p>changed</p>`},
		{"js", `var x = "Zq00x";`, `var x = "" + f() + "";`},
		{"js", `var x = 73100;`, `var x = 1;f()`},
		{"css", `p { color: "Zq00x" }`, `p { color: "" ; left: "" }`},
		{"css", `p { background: url(Zq00x) }`, `p { background: url(a b) }`},
		{"json", `{"a": "Zq00x"}`, `{"a": "", "b": ""}`},
		{"json", `{"a": "Zq00x"}`, `{"a": "\"}`},
		{"json", `["Zq00x"]`, `[[1,2]]`},
		{"md", "text Zq00x more\n", "text *em* more\n"},
		{"md", "text Zq00x more\n", "text <b>x</b> more\n"},
		{"md", "text Zq00x more\n", "text [l](http://x.example/) more\n"},
		{"md", "text Zq00x more\n", "text\n\n# h\n\nmore\n"},
		{"md", "\tZq00x\n", "\ta\nb\n"},
	}
	for _, tc := range differ {
		if msg := judge(tc.format, tc.benign, tc.hostile, "Zq00x", "73100"); msg == "" {
			t.Errorf("%s: %q vs %q judged same", tc.format, tc.benign, tc.hostile)
		}
	}
}

func TestScriptKind(t *testing.T) {
	tests := map[string]string{
		`<script>`:                                  "js",
		`<script type="">`:                          "js",
		`<script type="text/javascript">`:           "js",
		`<script type=" TEXT/JavaScript ">`:         "js",
		`<script type="application/javascript">`:    "js",
		`<script type="text/ecmascript">`:           "js",
		`<script type="module">`:                    "module",
		`<script type=" MODULE">`:                   "module",
		`<script type="application/ld+json">`:       "json",
		`<script type="application/json">`:          "data",
		`<script type="importmap">`:                 "json",
		`<script type="text/template">`:             "data",
		`<script type="text/javascript;charset=x">`: "data",
		`<script language="javascript">`:            "js",
		`<script language="vbscript">`:              "data",
		`<script type="text/plain" type="module">`:  "data",
	}
	for src, want := range tests {
		toks := tokenizeHTML(src)
		if got := scriptKind(toks[0].attrs); got != want {
			t.Errorf("%s: got %s, want %s", src, got, want)
		}
	}
}

func TestLeafContexts(t *testing.T) {
	s, _ := htmlSkeleton(`<a href="/Zq00x" title="Zq01x">Zq02x</a><script>var a = "Zq03x"; // Zq04x`+"\n"+`</script><style>p{x:"Zq05x"}</style>`, []string{"Zq00x"}, nil)
	want := map[string]string{"Zq00x": "html:attr:url", "Zq01x": "html:attr:plain", "Zq02x": "html:text", "Zq03x": "html:js{js:String", "Zq04x": "html:js{js:LineComment", "Zq05x": "html:css{css:String"}
	for m, w := range want {
		got := leafContexts(s, m)
		if len(got) != 1 || got[0] != w {
			t.Errorf("%s: got %v, want %s", m, got, w)
		}
	}
}
