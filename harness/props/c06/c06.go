// Package c06 checks that autoescaping confines every shown untrusted value to
// its syntactic slot.
//
// Oracle: syntactic-skeleton comparison with tokenizers that are independent of
// scriggo's lexer (x/net/html, verif/oracle/jslex, verif/oracle/csstok,
// encoding/json, goldmark). Every generated document is rendered once with
// benign marker values and once per hostile assignment of the same Go types;
// the skeletons must be equal and only leaves holding a changed value may
// differ. Trusted types are the negative control: they must change the skeleton.
package c06

import (
	"bytes"
	"fmt"
	"os"
	"sort"
	"strconv"
	"strings"

	"github.com/open2b/scriggo"
	"github.com/open2b/scriggo/native"

	"verif/core"
	"verif/gen/tmplgen"
)

type prop struct{}

func init() { core.Register(prop{}) }

func (prop) ID() string    { return "C06" }
func (prop) Level() string { return "exploration" }

// assignment makes some holes hostile; the others keep their benign value.
type assignment struct {
	Name   string                   `json:"name"`
	Values map[string]tmplgen.Value `json:"values"`
}

type caseData struct {
	Kind        string       `json:"kind"` // "doc": hostile values must not change the skeleton; "control": trusted values must change it
	Doc         tmplgen.Doc  `json:"doc"`
	Assignments []assignment `json:"assignments"`
	// Benign overrides the benign value of some holes (trusted types need a
	// benign value that is valid code, e.g. a quoted marker in JSON).
	Benign map[string]tmplgen.Value `json:"benign,omitempty"`
}

var allScopes = []string{
	tmplgen.ScopeRenderOtherFormat, tmplgen.ScopeRegexQuote, tmplgen.ScopeTemplateQuote, tmplgen.ScopeTemplateHole,
	tmplgen.ScopeCSSCommentQuote, tmplgen.ScopeEventAttr, tmplgen.ScopeStyleAttr, tmplgen.ScopeTagSpace, tmplgen.ScopeDoubleEscaped,
	tmplgen.ScopeEscapedBackslash, tmplgen.ScopeUnquotedEmpty, tmplgen.ScopeJSCommentHole, tmplgen.ScopeMinusAdjacent,
	tmplgen.ScopeScriptTypeJS, tmplgen.ScopeMDBareURL, tmplgen.ScopeMDAutolink, tmplgen.ScopeMDURLMacro, tmplgen.ScopeMDEmphasisAdj, tmplgen.ScopeCommentQuote, tmplgen.ScopeImportMap, tmplgen.ScopeTypedMacroTag, tmplgen.ScopeRawTextTagQuote,
	tmplgen.ScopeRawLabelled, tmplgen.ScopeTagNameWhole, tmplgen.ScopeDupType, tmplgen.ScopeRegexHole, tmplgen.ScopeMDCodeSpan, tmplgen.ScopeBytesHTML,
}

func (prop) Drive(d *core.Driver) error {
	nDocs := d.N(1500, 60000)
	nAssign := d.N(12, 25)
	var avoided []string
	for _, s := range allScopes {
		if d.InScope(s) {
			avoided = append(avoided, s)
		}
	}
	d.T.Rule = fmt.Sprintf("%d grammar-generated documents (HTML/JS/CSS/JSON/Markdown, multi-file with macros, import, extends, render), each rendered with benign marker values and with %d hostile assignments (one hole at a time, then all holes) drawn from a context-breaking dictionary (%d entries, optionally wrapped or followed by a successor character) plus random Unicode and hostile numbers/booleans/slices/maps/structs; outputs are abstracted to syntactic skeletons by x/net/html, an ES lexer, a CSS Syntax 3 tokenizer, encoding/json and goldmark; distinct_nontrivial counts distinct (context of the leaf that holds the hole according to the reference tokenizers, show form, value class) triples actually rendered", nDocs, nAssign, len(tmplgen.Dictionary))
	d.T.Assumptions = []string{
		"x/net/html tokenizes like a browser outside foreign content; verif/oracle/jslex and csstok follow ECMA-262 §12 and CSS Syntax 3 §4 (unit tests in their packages)",
		"regex-vs-division is decided by the previous token; generated JavaScript avoids the positions where that rule is wrong",
		"URL and srcset attributes are judged at attribute-value level only; script types other than JavaScript MIME types, module and application/ld+json are opaque data blocks",
		"NaN/Inf (C08), []byte, time.Time and nil composites are not drawn; Markdown values contain no line terminators outside code blocks and Markdown documents contain no raw HTML (C26)",
		"constructs of recorded open findings are avoided by the generator: " + strings.Join(avoided, ", "),
	}
	d.T.Set("scopes_avoided", avoided)

	// Negative control first: trusted types must be able to change the skeleton.
	ctrl := controlCases()
	res := d.Run(ctrl, core.RunOpts{NoTally: true})
	blind := 0
	for i, r := range res {
		d.T.Eval(r.Evals)
		if r.Status != core.OK {
			blind++
			fmt.Printf("BROKEN property=C06 negative control %s: %s\n", ctrl[i].ID, core.Truncate(r.Detail, 400))
		} else {
			d.T.Count("negative_controls_detected", 1)
		}
	}
	if blind > 0 {
		return fmt.Errorf("oracle is blind: %d of %d negative controls (trusted types) did not change the skeleton", blind, len(ctrl))
	}

	cases := make([]core.Case, 0, nDocs)
	for i := 0; i < nDocs; i++ {
		r := core.Rand(d.Seed, fmt.Sprintf("C06/doc/%d", i))
		g := &tmplgen.Gen{R: r, Avoid: d.InScope}
		doc := g.Document("")
		if len(doc.Holes) == 0 {
			doc = g.Document("html")
		}
		cd := caseData{Kind: "doc", Doc: *doc}
		nh := len(doc.Holes)
		for a := 0; a < nAssign && nh > 0; a++ {
			as := assignment{Values: map[string]tmplgen.Value{}}
			if a >= nAssign-2 || nh == 1 && a%3 == 2 {
				as.Name = "all"
				for _, h := range doc.Holes {
					as.Values[h.Var] = tmplgen.Hostile(r, h.Type, h.Restrict)
				}
			} else {
				h := doc.Holes[a%nh]
				as.Name = h.Var
				as.Values[h.Var] = tmplgen.Hostile(r, h.Type, h.Restrict)
			}
			cd.Assignments = append(cd.Assignments, as)
		}
		c := core.NewCase(fmt.Sprintf("doc-%d", i), cd)
		cases = append(cases, c)
		if i < 3 {
			d.T.Sample(map[string]any{"case": c.ID, "main": doc.Main, "source": core.Truncate(doc.Files[doc.Main], 500), "holes": len(doc.Holes), "features": doc.Features})
		}
	}
	// The map-key family: hostile text in the KEYS of maps with every kind of key type,
	// nested and boxed in interface values, in JavaScript and JSON contexts.
	nKey := d.N(250, 8000)
	for i := 0; i < nKey; i++ {
		r := core.Rand(d.Seed, fmt.Sprintf("C06/keys/%d", i))
		doc := keyDocument(r)
		cd := caseData{Kind: "doc", Doc: doc}
		nh := len(doc.Holes)
		for a := 0; a < nAssign; a++ {
			as := assignment{Values: map[string]tmplgen.Value{}}
			if a >= nAssign-2 {
				as.Name = "all"
				for _, h := range doc.Holes {
					as.Values[h.Var] = hostileKey(r, h.Type)
				}
			} else {
				h := doc.Holes[a%nh]
				as.Name = h.Var
				as.Values[h.Var] = hostileKey(r, h.Type)
			}
			cd.Assignments = append(cd.Assignments, as)
		}
		cases = append(cases, core.NewCase(fmt.Sprintf("keys-%d", i), cd))
	}
	results := d.Run(cases, core.RunOpts{})
	if path := os.Getenv("C06_DUMP"); path != "" { // development aid: all non-OK details
		var b strings.Builder
		for i, r := range results {
			if r.Status != core.OK || r.Detail != "" {
				fmt.Fprintf(&b, "=== %s %s\n%s\n", cases[i].ID, r.Status, r.Detail)
			}
		}
		os.WriteFile(path, []byte(b.String()), 0o644)
	}
	return nil
}

func controlCases() []core.Case {
	mk := func(id, main, src, typ, hostile string) core.Case {
		doc := tmplgen.Doc{Main: main, Files: map[string]string{main: src}, Holes: []tmplgen.Hole{{Var: "v0", Type: typ, Class: "control", Via: "direct"}}}
		cd := caseData{Kind: "control", Doc: doc, Assignments: []assignment{{Name: "v0", Values: map[string]tmplgen.Value{"v0": tmplgen.StrVal(typ, hostile, "trusted")}}}}
		if typ == tmplgen.TJSON || typ == tmplgen.TJS || typ == tmplgen.TJSStr {
			cd.Benign = map[string]tmplgen.Value{"v0": tmplgen.StrVal(typ, `"`+tmplgen.Marker(0)+`"`, "benign")}
		}
		return core.NewCase("control-"+id, cd)
	}
	return []core.Case{
		mk("html-text", "index.html", "<p>a {{ v0 }} b</p>", tmplgen.THTML, "<b>x</b>"),
		mk("html-stringer", "index.html", "<p>a {{ v0 }} b</p>", tmplgen.THTMLStr, "</p><script>alert(1)</script>"),
		mk("js-script", "index.html", "<script>var x = {{ v0 }};</script>", tmplgen.TJS, "1;alert(1)"),
		mk("js-file", "index.js", "var x = {{ v0 }};", tmplgen.TJSStr, "f(1)+2"),
		mk("css-style", "index.html", "<style>p { color: {{ v0 }} }</style>", tmplgen.TCSS, "red } body { top: 0"),
		mk("css-file", "index.css", "p { color: {{ v0 }} }", tmplgen.TCSSStr, "red; left: 1px"),
		mk("json-file", "index.json", "{\"a\": {{ v0 }}}", tmplgen.TJSON, "[1, {\"b\": 2}]"),
		mk("json-ld", "index.html", "<script type=\"application/ld+json\">{\"a\": {{ v0 }}}</script>", tmplgen.TJSON, "[1,2]"),
		mk("md-file", "index.md", "text {{ v0 }} more\n", tmplgen.TMarkdown, "*em* and [l](http://x.example/)"),
		mk("md-html", "index.md", "text {{ v0 }} more\n", tmplgen.THTML, "<b>x</b>"),
	}
}

// formatOf maps a file name to the skeleton format.
func formatOf(name string) string {
	i := strings.LastIndexByte(name, '.')
	switch name[i+1:] {
	case "html":
		return "html"
	case "js":
		return "js"
	case "css":
		return "css"
	case "json":
		return "json"
	case "md":
		return "md"
	}
	return "text"
}

func (prop) Work(c core.Case) core.Result {
	var cd caseData
	c.Decode(&cd)
	res := core.Result{Status: core.OK, Counts: map[string]int64{}}
	doc := cd.Doc
	format := formatOf(doc.Main)

	globals := native.Declarations{}
	for k, v := range tmplgen.TypeDecls() {
		globals[k] = v
	}
	benign := map[string]tmplgen.Value{}
	marks := map[string][]string{}
	var allMarks []string
	for i, h := range doc.Holes {
		globals[h.Var] = declOf(h.Type)
		benign[h.Var], marks[h.Var] = benignOf(i, h.Type)
		if v, ok := cd.Benign[h.Var]; ok {
			benign[h.Var] = v
		}
		allMarks = append(allMarks, marks[h.Var]...)
	}
	files := scriggo.Files{}
	for name, src := range doc.Files {
		files[name] = []byte(src)
	}
	var tmpl *scriggo.Template
	var err error
	if v, panicked, stack := core.Guard(func() {
		tmpl, err = scriggo.BuildTemplate(files, doc.Main, &scriggo.BuildOptions{Globals: globals, MarkdownConverter: ConvertMarkdown})
	}); panicked {
		res.Status = core.Violation
		res.Detail = fmt.Sprintf("BuildTemplate panicked: %v\n%s\nsource: %s", v, stack, describeDoc(doc))
		return res
	}
	if err != nil {
		res.Status = core.Skip
		res.Counts["build_errors"]++
		res.Detail = "build error: " + err.Error() + "\n" + describeDoc(doc)
		return res
	}
	run := func(vals map[string]tmplgen.Value) (string, error, string) {
		vars := map[string]any{}
		for k, v := range benign {
			vars[k] = goOf(v)
		}
		for k, v := range vals {
			vars[k] = goOf(v)
		}
		var buf bytes.Buffer
		var rerr error
		if v, panicked, stack := core.Guard(func() { rerr = tmpl.Run(&buf, vars, nil) }); panicked {
			return buf.String(), nil, fmt.Sprintf("Run panicked: %v\n%s", v, stack)
		}
		res.Evals++
		return buf.String(), rerr, ""
	}
	out0, err, pan := run(nil)
	if pan != "" {
		res.Status = core.Violation
		res.Detail = pan + "\n" + describeDoc(doc)
		return res
	}
	if err != nil {
		res.Status = core.Skip
		res.Counts["benign_run_errors"]++
		res.Detail = "benign run error: " + err.Error() + "\n" + describeDoc(doc)
		return res
	}
	sk0, hints := skeletonOf(format, out0, allMarks, nil)
	benignBroken := ""
	openEnded := false
	for _, f := range doc.Features {
		openEnded = openEnded || f == tmplgen.FeatureOpenEnded
	}
	if sk0.errs > 0 && !openEnded { // (an element that deliberately ends inside a comment or literal does not tokenize)
		// Either the generator wrote invalid code or the benign value itself was shown in
		// the wrong context. The comparison still goes on (a hostile value that repairs or
		// changes the broken structure is a violation); if nothing is found the case is
		// reported as inconclusive, never silently dropped.
		res.Counts["benign_lex_errors"]++
		benignBroken = "the benign render does not tokenize cleanly (generator defect or value shown in the wrong context)\n" + describeDoc(doc) + "\nbenign output: " + core.Truncate(out0, 1500)
	}
	res.Counts["documents"]++
	res.Counts["format_"+format]++
	for _, f := range doc.Features {
		res.Counts["feature_"+f]++
	}
	ctxOf := map[string][]string{}
	for _, h := range doc.Holes {
		ctx := leafContexts(sk0, marks[h.Var][0])
		if len(ctx) == 0 {
			res.Counts["marker_not_in_a_leaf"]++
			if os.Getenv("C06_DUMP") != "" {
				res.Detail += fmt.Sprintf("NOTE marker of %s (%s via %s, %s) is in no leaf\n%s\nbenign output: %s\n", h.Var, h.Type, h.Via, h.Note, describeDoc(doc), out0)
			}
		}
		ctxOf[h.Var] = ctx
		res.Counts["holes"]++
		res.Counts["via_"+strings.SplitN(h.Via, ":", 2)[0]]++
	}
	sigs := map[string]struct{}{}
	for _, as := range cd.Assignments {
		out, err, pan := run(as.Values)
		if pan != "" {
			// a panic of Run into the host is the subject of C05, not a structure change
			res.Counts["host_panics_in_run_C05"]++
			continue
		}
		if err != nil {
			// a refused value (e.g. "not closed HTML comment") is not a structure change
			res.Counts["hostile_run_errors"]++
			continue
		}
		res.Counts["hostile_renders"]++
		sk, _ := skeletonOf(format, out, allMarks, hints)
		var changed []string
		for v := range as.Values {
			changed = append(changed, marks[v]...)
		}
		msg := diff(sk0, sk, changed)
		if cd.Kind == "control" {
			if msg == "" {
				res.Status = core.Inconclusive
				res.Detail = "trusted value did not change the skeleton: " + describeAssignment(as) + "\noutput: " + out
				return res
			}
			continue
		}
		if msg != "" {
			res.Status = core.Violation
			res.Detail = msg + "\n" + describeAssignment(as) + "\n" + describeDoc(doc) + "\nbenign output:  " + core.Truncate(out0, 1500) + "\nhostile output: " + core.Truncate(out, 1500)
			return res
		}
		if len(as.Values) == 1 {
			for v, val := range as.Values {
				var h tmplgen.Hole
				for _, x := range doc.Holes {
					if x.Var == v {
						h = x
					}
				}
				for _, ctx := range ctxOf[v] {
					sigs[core.SigJoin(ctx, strings.SplitN(h.Via, ":", 2)[0], h.Type, firstClass(val.Class))] = struct{}{}
				}
			}
		}
	}
	if benignBroken != "" {
		res.Status = core.Inconclusive
		res.Detail = benignBroken
	}
	for s := range sigs {
		res.Sigs = append(res.Sigs, s)
	}
	sort.Strings(res.Sigs)
	if cd.Kind == "control" {
		res.Sigs = nil
	}
	return res
}

func describeDoc(doc tmplgen.Doc) string {
	var b strings.Builder
	names := make([]string, 0, len(doc.Files))
	for n := range doc.Files {
		names = append(names, n)
	}
	sort.Strings(names)
	for _, n := range names {
		tag := ""
		if n == doc.Main {
			tag = " (main)"
		}
		fmt.Fprintf(&b, "file %s%s: %s\n", n, tag, strconv.Quote(core.Truncate(doc.Files[n], 1200)))
	}
	for _, h := range doc.Holes {
		fmt.Fprintf(&b, "hole %s %s class=%s via=%s note=%s\n", h.Var, h.Type, h.Class, h.Via, h.Note)
	}
	return b.String()
}

func describeAssignment(as assignment) string {
	var parts []string
	for v, val := range as.Values {
		s := val.Q
		if s == "" {
			s = fmt.Sprintf("i=%d f=%v b=%v", val.I, val.F, val.B)
		}
		parts = append(parts, fmt.Sprintf("%s(%s)=%s", v, val.T, s))
	}
	sort.Strings(parts)
	return "hostile assignment " + as.Name + ": " + strings.Join(parts, " ")
}

// firstClass reduces a compound value class ("dquote+newline", "key:amp,val:lt") to its first component.
func firstClass(c string) string {
	if i := strings.IndexAny(c, "+,"); i > 0 {
		c = c[:i]
	}
	return c
}
