package main

import (
	"bytes"
	"fmt"
	"io"
	"os"
	"strings"

	"github.com/open2b/scriggo"
	"github.com/open2b/scriggo/native"
	"github.com/yuin/goldmark"
)

func main() {
	files := scriggo.Files{}
	var vals []string
	main := ""
	for _, a := range os.Args[1:] {
		if strings.HasPrefix(a, "x=") {
			vals = append(vals, a[2:])
			continue
		}
		i := strings.IndexByte(a, '=')
		files[a[:i]] = []byte(a[i+1:])
		if main == "" {
			main = a[:i]
		}
	}
	conv := func(src []byte, out io.Writer) error { return goldmark.Convert(src, out) }
	t, err := scriggo.BuildTemplate(files, main, &scriggo.BuildOptions{MarkdownConverter: conv, Globals: native.Declarations{"x": (*string)(nil), "n": (*int)(nil)}})
	if err != nil {
		fmt.Println("BUILD ERROR:", err)
		return
	}
	for _, v := range vals {
		var b bytes.Buffer
		err := t.Run(&b, map[string]any{"x": v, "n": -5}, nil)
		fmt.Printf("x=%q err=%v\n%s\n----\n", v, err, b.String())
	}
}
