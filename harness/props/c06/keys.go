package c06

import (
	"fmt"
	"math/rand"
	"strconv"
	"strings"

	"github.com/open2b/scriggo/native"

	"verif/gen/tmplgen"
)

// The "map key" family: values whose untrusted text sits in map KEYS (and
// values) of maps with string, defined-string, interface, Stringer, EnvStringer,
// TextMarshaler, pointer and numeric key types, alone and nested in slices,
// structs and maps. All of them are boxed in a global of type interface{} (a
// statically typed map[K]T with such K is rejected by the type checker) and shown
// in JavaScript and JSON contexts.

// Type keys of the family (local to this package; tmplgen knows the others).
const keyPrefix = "c06:"

var keyTypes = []string{
	"c06:mapstring", "c06:mapany", "c06:mapany-stringer", "c06:mapstringer", "c06:mapptr", "c06:mapdef", "c06:maptm",
	"c06:mapenv", "c06:mapikey", "c06:mapmixed", "c06:slice-of-maps", "c06:struct-of-maps", "c06:map-of-maps",
	"c06:mapint", "c06:mapfloat", "c06:mapbool",
}

// SKey is a defined string type.
type SKey string

// TMKey is a string type that implements encoding.TextMarshaler.
type TMKey string

func (k TMKey) MarshalText() ([]byte, error) { return []byte(k), nil }

// EnvKey implements native.EnvStringer.
type EnvKey struct{ S string }

func (k EnvKey) String(native.Env) string { return k.S }

// IKey is an integer type whose String method returns text from a table.
type IKey int

var ikeyText = map[IKey]string{}
var nextIKey IKey

func (k IKey) String() string { return ikeyText[k] }

// KRec is a struct with map fields.
type KRec struct {
	A string
	M map[any]string
	S []map[tmplgen.Str]string `json:"s"`
	P *map[any]any
}

func isKeyType(t string) bool { return strings.HasPrefix(t, keyPrefix) }

func declOf(t string) native.Declaration {
	if isKeyType(t) {
		return (*any)(nil)
	}
	return tmplgen.Decl(t)
}

func benignOf(i int, t string) (tmplgen.Value, []string) {
	if !isKeyType(t) {
		return tmplgen.Benign(i, t)
	}
	m := tmplgen.Marker(i)
	n := tmplgen.IntMarker(i)
	v := tmplgen.Value{T: t, I: n, F: float64(n) + 0.5, Class: "benign",
		L: [][]byte{[]byte(m + "k"), []byte(m + "v"), []byte(m + "l"), []byte(m + "w")}}
	return v, []string{m, strconv.FormatInt(n, 10)}
}

// hostileKey draws a hostile value of the family: hostile keys and values.
func hostileKey(r *rand.Rand, t string) tmplgen.Value {
	var l [][]byte
	var qs, classes []string
	for j := 0; j < 4; j++ {
		s, c := tmplgen.HostileString(r, nil)
		l = append(l, []byte(s))
		qs = append(qs, strconv.QuoteToASCII(s))
		if j%2 == 0 {
			classes = append(classes, c)
		}
	}
	ints := []int64{-1, 0, 7, -73100, 1 << 40}
	floats := []float64{-1.5, 0, 1e21, 1e-7, 0.1}
	return tmplgen.Value{T: t, L: l, I: ints[r.Intn(len(ints))], F: floats[r.Intn(len(floats))],
		Q: strings.Join(qs, ","), Class: "key:" + classes[0]}
}

// goOf returns the Go value given to Run.
func goOf(v tmplgen.Value) any {
	if !isKeyType(v.T) {
		return v.Go()
	}
	k1, v1, k2, v2 := string(v.L[0]), string(v.L[1]), string(v.L[2]), string(v.L[3])
	if k2 == k1 {
		k2 += "2" // keep two entries
	}
	str := func(s string) tmplgen.Str { return tmplgen.Str{S: s} }
	var a any
	switch v.T {
	case "c06:mapstring":
		a = map[string]string{k1: v1, k2: v2}
	case "c06:mapany":
		a = map[any]string{k1: v1, k2: v2}
	case "c06:mapany-stringer":
		a = map[any]int{str(k1): 1, str(k2): 1} // (entries are sorted by key text: both have the same shape)
	case "c06:mapstringer":
		a = map[tmplgen.Str]string{str(k1): v1, str(k2): v2}
	case "c06:mapptr":
		p1, p2 := str(k1), str(k2)
		a = map[*tmplgen.Str]string{&p1: v1, &p2: v2}
	case "c06:mapdef":
		a = map[SKey]string{SKey(k1): v1, SKey(k2): v2}
	case "c06:maptm":
		a = map[TMKey]string{TMKey(k1): v1, TMKey(k2): v2}
	case "c06:mapenv":
		a = map[EnvKey]string{{k1}: v1, {k2}: v2}
	case "c06:mapikey":
		// fresh key numbers for every value: several holes of a document must not share texts
		nextIKey += 2
		ikeyText[nextIKey], ikeyText[nextIKey+1] = k1, k2
		a = map[IKey]string{nextIKey: v1, nextIKey + 1: v2}
	case "c06:mapmixed":
		a = map[any]any{k1: map[any]any{EnvKey{k2}: []any{v1}}, str(k2): map[any]any{k1: []any{v2}}}
	case "c06:slice-of-maps":
		a = []any{map[any]string{k1: v1}, map[tmplgen.Str]int{str(k2): 2}, []map[any]any{{k2: v2}}}
	case "c06:struct-of-maps":
		inner := map[any]any{str(k1): v2}
		a = KRec{A: v1, M: map[any]string{k1: v1}, S: []map[tmplgen.Str]string{{str(k2): v2}}, P: &inner}
	case "c06:map-of-maps":
		a = map[string]any{k1: map[any]any{str(k2): v2}, k2: map[SKey]any{SKey(k1): v1}}
	case "c06:mapint":
		a = map[int]string{int(v.I): v1, int(v.I) * 10: v2}
		if v.I == 0 {
			a = map[int]string{0: v1, 10: v2}
		}
	case "c06:mapfloat":
		a = map[float64]string{v.F: v1, v.F * 10: v2}
		if v.F == 0 {
			a = map[float64]string{0: v1, 10: v2}
		}
	case "c06:mapbool":
		a = map[bool]string{true: v1, false: v2}
	default:
		panic("c06: unknown key type " + v.T)
	}
	return &a
}

// keyDocument generates one document of the family: one to three holes in
// JavaScript and JSON positions of an HTML, JS or JSON file, shown directly,
// through a local variable, typed macros, using and render.
func keyDocument(r *rand.Rand) tmplgen.Doc {
	doc := tmplgen.Doc{Files: map[string]string{}, Features: []string{"map-keys"}}
	prelude := ""
	macros := map[string]bool{}
	hole := func(format string) string {
		i := len(doc.Holes)
		h := tmplgen.Hole{Var: fmt.Sprintf("v%d", i), Type: keyTypes[r.Intn(len(keyTypes))], Class: tmplgen.CJSExpr, Via: "direct", Note: "mapkeys." + format}
		src := "{{ " + h.Var + " }}"
		switch r.Intn(8) {
		case 0:
			h.Via = "var"
			src = fmt.Sprintf("{%% var loc%d = %s %%}{{ loc%d }}", i, h.Var, i)
		case 1:
			h.Via = "macro:" + format
			name := "K" + format
			if !macros[name] {
				macros[name] = true
				prelude += "{% macro " + name + "(p interface{}) " + format + " %}{{ p }}{% end macro %}"
			}
			src = "{{ " + name + "(" + h.Var + ") }}"
		case 2:
			h.Via = "using"
			src = "{% var _ = " + h.Var + " %}{% show itea; using " + format + " %}{{ " + h.Var + " }}{% end using %}"
		case 3:
			h.Via = "render:" + format
			name := fmt.Sprintf("part%d.%s", i, format)
			doc.Files[name] = "{{ " + h.Var + " }}"
			src = `{{ render "` + name + `" }}`
		}
		doc.Holes = append(doc.Holes, h)
		return src
	}
	js := func() string {
		switch r.Intn(4) {
		case 0:
			return "var d" + fmt.Sprint(len(doc.Holes)) + " = " + hole("js") + ";"
		case 1:
			return "f(" + hole("js") + ", [" + hole("js") + "]);"
		case 2:
			return "var o = {k: " + hole("js") + "};"
		}
		return "export const d = " + hole("js") + ";"
	}
	json := func() string {
		switch r.Intn(3) {
		case 0:
			return "{\"a\": " + hole("json") + "}"
		case 1:
			return "[1, " + hole("json") + ", {\"b\": " + hole("json") + "}]"
		}
		return hole("json")
	}
	var body string
	switch r.Intn(6) {
	case 0:
		doc.Main = "index.js"
		body = js() + "\n" + js() + "\n"
	case 1:
		doc.Main = "index.json"
		body = json()
	case 2:
		doc.Main = "index.html"
		body = "<script type=\"application/ld+json\">" + json() + "</script>\n<p>after</p>"
	case 3:
		doc.Main = "index.html"
		body = "<script type=\"module\">" + js() + "</script><script type=\"application/ld+json\">" + json() + "</script>"
	default:
		doc.Main = "index.html"
		body = "<div><script>" + js() + "\n" + js() + "</script></div>\n<p>after</p>"
	}
	doc.Files[doc.Main] = prelude + body
	return doc
}
