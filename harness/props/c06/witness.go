package c06

import (
	"verif/core"
	"verif/gen/tmplgen"
)

// Witness builds a self-contained case: the files, the typed holes (variables
// v0, v1, ... in order) and one hostile assignment of all listed values.
func Witness(id, main string, files map[string]string, types []string, hostile []tmplgen.Value) core.Case {
	doc := tmplgen.Doc{Main: main, Files: files}
	as := assignment{Name: "witness", Values: map[string]tmplgen.Value{}}
	for i, t := range types {
		v := "v" + string(rune('0'+i))
		doc.Holes = append(doc.Holes, tmplgen.Hole{Var: v, Type: t, Class: "witness", Via: "direct"})
		if i < len(hostile) {
			as.Values[v] = hostile[i]
		}
	}
	return core.NewCase(id, caseData{Kind: "doc", Doc: doc, Assignments: []assignment{as}})
}
