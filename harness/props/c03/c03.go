// Package c03 checks that scriggo.Build accepts a program exactly when the Go
// type checker does, and that a rejection is always a *scriggo.BuildError.
//
// Oracle: go/parser + go/types (GoVersion go1.20, importer that knows exactly the
// native package "lib" the harness gives to scriggo). Workload: type-directed
// random programs (gen/typedprog), the import-free programs of scriggo's own
// comparison corpus, and single-point mutants of both (AST-guided edits and
// inserted near-miss snippets). Only accept/reject is compared, never messages.
package c03

import (
	"fmt"
	"go/parser"
	"go/token"
	"os"
	"path/filepath"
	"regexp"
	"sort"
	"strings"

	"github.com/open2b/scriggo"

	"verif/core"
	"verif/gen/typedprog"
	"verif/oracle/gotypes"
)

type prop struct{}

func init() { core.Register(prop{}) }

func (prop) ID() string    { return "C03" }
func (prop) Level() string { return "exploration" }

// Prog is one program to judge.
type Prog struct {
	ID     string `json:"id"`
	Origin string `json:"origin"` // gen | corpus
	Kind   string `json:"kind"`   // base | mutation kind
	Note   string `json:"note,omitempty"`
	Src    string `json:"src"`
}

type caseData struct {
	Progs  []Prog   `json:"progs"`
	Scopes []string `json:"scopes,omitempty"` // scopes of open findings: programs inside are not judged
}

// verdict of scriggo on one program.
type built struct {
	accepted   bool
	err        error
	isBuildErr bool
	panicked   bool
	panicVal   any
	stack      string
}

func build(src string) built {
	var b built
	val, panicked, stack := core.Guard(func() {
		_, b.err = scriggo.Build(scriggo.Files{"main.go": []byte(src)}, &scriggo.BuildOptions{AllowGoStmt: true, Packages: LibPackages})
	})
	if panicked {
		b.panicked, b.panicVal, b.stack = true, val, stack
		return b
	}
	if b.err != nil {
		_, b.isBuildErr = b.err.(*scriggo.BuildError)
		return b
	}
	b.accepted = true
	return b
}

var errWords = regexp.MustCompile(`[0-9]+|"[^"]*"|\b[a-zA-Z_]+[0-9]+\b`)

// errClass reduces a reference error message to a coarse class (signatures only).
func errClass(msg string) string {
	if i := strings.Index(msg, ": "); i >= 0 && strings.HasPrefix(msg, "main.go:") {
		msg = msg[i+2:]
	}
	for _, k := range []string{"declared and not used", "imported and not used", "undefined", "redeclared", "cannot use", "cannot convert", "mismatched types", "not defined on",
		"missing return", "not enough arguments", "too many arguments", "assignment mismatch", "cannot assign", "not used", "is not a type", "not an expression",
		"overflows", "truncated", "division by zero", "invalid operation", "invalid argument", "duplicate", "label", "break", "continue", "fallthrough", "goto",
		"no new variables", "invalid array length", "invalid recursive type", "cannot index", "cannot slice", "cannot range", "cannot call", "cannot take address",
		"invalid indirect", "missing", "unknown field", "impossible type", "not an interface", "use of untyped nil", "untyped nil", "non-name", "syntax", "expected", "initialization cycle",
		"invalid composite literal", "mixture", "too few values", "too many values", "index", "shift", "constant", "must be", "requires go"} {
		if strings.Contains(msg, k) {
			return strings.ReplaceAll(k, " ", "-")
		}
	}
	return "other"
}

func (prop) Work(c core.Case) core.Result {
	var cd caseData
	c.Decode(&cd)
	res := core.Result{Status: core.OK, Counts: map[string]int64{}}
	sigs := map[string]struct{}{}
	var viols, inconcl []string
	for _, p := range cd.Progs {
		res.Evals++
		g := gotypes.Check(p.Src, libImporter{})
		if why := gotypes.NotTrusted(g); why != "" {
			// the reference deviates from the language specification here
			res.Counts["reference_not_trusted"]++
			continue
		}
		if sc := inScope(g, cd.Scopes); sc != "" {
			res.Counts["excluded_by_scope:"+sc]++
			continue
		}
		s := build(p.Src)
		head := fmt.Sprintf("program %s (%s/%s %s)", p.ID, p.Origin, p.Kind, p.Note)
		switch {
		case s.panicked:
			res.Counts["host_panics"]++
			viols = append(viols, fmt.Sprintf("%s: Build panicked: %v\ngo/types: accepted=%v %s\nsource:\n%s\n%s", head, s.panicVal, g.Accepted(), g.FirstError(), p.Src, core.Truncate(s.stack, 2500)))
		case !s.accepted && !s.isBuildErr:
			res.Counts["non_build_errors"]++
			viols = append(viols, fmt.Sprintf("%s: Build failed with %T, not *scriggo.BuildError: %v\nsource:\n%s", head, s.err, s.err, p.Src))
		case !g.Accepted() && s.accepted:
			res.Counts["unsound_accepts"]++
			viols = append(viols, fmt.Sprintf("%s: go/types rejects (%s) but Build succeeds\nsource:\n%s", head, g.FirstError(), p.Src))
		case g.Accepted() && !s.accepted:
			if why := outsideSubset(g); why != "" {
				res.Counts["outside_subset"]++
				sigs[core.SigJoin(p.Origin, p.Kind, "outside-subset", why)] = struct{}{}
				break
			}
			res.Counts["spurious_rejects"]++
			viols = append(viols, fmt.Sprintf("%s: go/types accepts, no unsupported construct found, but Build fails: %v\nsource:\n%s", head, s.err, p.Src))
		case g.Accepted():
			res.Counts["both_accept"]++
			sigs[core.SigJoin(p.Origin, p.Kind, "accept")] = struct{}{}
		default:
			if g.ParseErr != nil {
				res.Counts["both_reject_syntax"]++
				sigs[core.SigJoin(p.Origin, p.Kind, "reject", "syntax")] = struct{}{}
			} else {
				res.Counts["both_reject_type"]++
				sigs[core.SigJoin(p.Origin, p.Kind, "reject", errClass(g.FirstError()))] = struct{}{}
			}
		}
	}
	for s := range sigs {
		res.Sigs = append(res.Sigs, s)
	}
	sort.Strings(res.Sigs)
	if len(viols) > 0 {
		res.Status = core.Violation
		if len(viols) > 10 {
			viols = append(viols[:10], fmt.Sprintf("… and %d more", len(viols)-10))
		}
		res.Detail = strings.Join(viols, "\n----\n")
	} else if len(inconcl) > 0 {
		res.Status = core.Inconclusive
		res.Detail = strings.Join(inconcl, "\n----\n")
	}
	return res
}

// corpusFiles returns the import-free programs of scriggo's comparison corpus.
func corpusFiles(root string) []Prog {
	var out []Prog
	dir := filepath.Join(root, "test", "compare", "testdata")
	filepath.Walk(dir, func(path string, info os.FileInfo, err error) error {
		if err != nil || info.IsDir() || !strings.HasSuffix(path, ".go") || info.Size() > 64<<10 {
			return nil
		}
		b, err := os.ReadFile(path)
		if err != nil {
			return nil
		}
		src := string(b)
		first := src
		if i := strings.IndexByte(src, '\n'); i >= 0 {
			first = src[:i]
		}
		mode := strings.TrimSpace(strings.TrimPrefix(first, "//"))
		switch {
		case strings.HasPrefix(mode, "run"), strings.HasPrefix(mode, "compile"), strings.HasPrefix(mode, "errorcheck"), strings.HasPrefix(mode, "paniccheck"), strings.HasPrefix(mode, "build"):
		default:
			return nil
		}
		f, err := parser.ParseFile(token.NewFileSet(), "main.go", src, parser.ImportsOnly)
		if err == nil && (len(f.Imports) > 0 || f.Name.Name != "main") {
			return nil
		}
		rel, _ := filepath.Rel(dir, path)
		out = append(out, Prog{ID: "corpus:" + rel, Origin: "corpus", Kind: "base:" + strings.Fields(mode)[0], Src: src})
		return nil
	})
	sort.Slice(out, func(i, j int) bool { return out[i].ID < out[j].ID })
	return out
}

func (prop) Drive(d *core.Driver) error {
	nBase := d.N(800, 3000)
	nMut := d.N(10, 24)
	nCorpusMut := d.N(4000, 30000)
	perCase := 40
	d.T.Rule = fmt.Sprintf("%d type-directed random programs (gen/typedprog: basic and named types, structs, slices, arrays, maps, pointers, closures, channels, multiple returns, variadics, defer, labelled loops, switches, type switches, select, optional import of the native package lib) each verified by go/types, each with %d single-point mutants (17 AST-guided edit classes incl. inserting one of %d near-miss snippets); every import-free run/compile/errorcheck program of /repo/test/compare/testdata plus %d mutants of them. Each program is judged by go/types (go1.20) and built by scriggo.Build; only accept/reject and the dynamic type of the error are compared. distinct_nontrivial counts distinct (origin, mutation class, verdict, reference error class) tuples", nBase, nMut, len(typedprog.Snippets), nCorpusMut)
	d.T.Assumptions = []string{
		"go/parser + go/types of the go1.25 standard library with GoVersion go1.20 are the reference (min/max/clear, range over int/func are rejected by both sides)",
		"programs touching a point where go/types deviates from the specification (constant shift counts above 1074 or of typed floating-point type, copy(nil, string), go/constant's complex-division limit) are not judged (reference_not_trusted)",
		"go/types is supplemented by three rules of the specification/gc it does not implement: the package must be main, it must declare func main, and a function declaration needs a body",
		"a program go/types accepts is required to build only if a scan finds no method declaration, non-empty interface type, generics, slice-to-array conversion or foreign import (scriggo's documented subset); such programs are counted as outside_subset",
	}
	var progs []Prog
	rg := d.Rand("gen")
	rm := d.Rand("mut")
	genRejected := 0
	for i := 0; i < nBase; i++ {
		opt := typedprog.Options{Lib: true, Funcs: 1 + rg.Intn(4), Stmts: 3 + rg.Intn(6), Depth: 2 + rg.Intn(2), NoLabelledContinue: d.InScope(ScopeLabelledBranchInRange)}
		src := typedprog.Generate(rg, opt)
		if r := gotypes.Check(src, libImporter{}); !r.Accepted() {
			genRejected++
			continue
		}
		id := fmt.Sprintf("gen%d", i)
		progs = append(progs, Prog{ID: id, Origin: "gen", Kind: "base", Src: src})
		if i < 2 {
			d.T.Sample(map[string]any{"id": id, "src": core.Truncate(src, 1500)})
		}
		for k := 0; k < nMut; k++ {
			mu, ok := typedprog.Mutate(rm, src)
			if !ok {
				continue
			}
			progs = append(progs, Prog{ID: fmt.Sprintf("%s.m%d", id, k), Origin: "gen", Kind: mu.Kind, Note: mu.Desc, Src: mu.Src})
			if i == 0 && k < 2 {
				d.T.Sample(map[string]any{"id": fmt.Sprintf("%s.m%d", id, k), "mutation": mu.Kind, "what": mu.Desc})
			}
		}
	}
	repo := os.Getenv("VERIF_REPO")
	if repo == "" {
		repo = "/repo"
	}
	corpus := corpusFiles(repo)
	d.T.Set("corpus_programs", len(corpus))
	d.T.Set("generated_programs_rejected_by_reference", genRejected)
	progs = append(progs, corpus...)
	var mutable []Prog
	for _, p := range corpus {
		if p.Kind == "base:run" || p.Kind == "base:compile" {
			mutable = append(mutable, p)
		}
	}
	rc := d.Rand("corpus-mut")
	for k := 0; k < nCorpusMut && len(mutable) > 0; k++ {
		p := mutable[rc.Intn(len(mutable))]
		mu, ok := typedprog.Mutate(rc, p.Src)
		if !ok {
			continue
		}
		progs = append(progs, Prog{ID: fmt.Sprintf("%s.m%d", p.ID, k), Origin: "corpus", Kind: mu.Kind, Note: mu.Desc, Src: mu.Src})
	}
	// Systematic part, the same at every seed: every member of the generated
	// snippet families alone in a minimal host program, and every program of
	// the dependency-analysis family.
	for i, sn := range typedprog.Snippets[typedprog.HandWritten:] {
		progs = append(progs, Prog{ID: fmt.Sprintf("family%d", i), Origin: "family", Kind: "snippet", Note: core.Truncate(sn, 80), Src: "package main\n\nfunc main() {\n\t" + sn + "\n}\n"})
	}
	for i, src := range typedprog.DependencyPrograms() {
		progs = append(progs, Prog{ID: fmt.Sprintf("deps%d", i), Origin: "family", Kind: "dependency-program", Src: src})
	}
	for i, src := range initOrderPrograms() {
		progs = append(progs, Prog{ID: fmt.Sprintf("initorder%d", i), Origin: "family", Kind: "init-order-program", Src: src})
	}
	crp := constantRangePrograms()
	if !d.Thorough() {
		// a deterministic third of them per seed in the quick tier
		var sub []string
		for i, src := range crp {
			if (i+int(d.Seed))%3 == 0 {
				sub = append(sub, src)
			}
		}
		crp = sub
	}
	for i, src := range crp {
		progs = append(progs, Prog{ID: fmt.Sprintf("constrange%d", i), Origin: "family", Kind: "constant-range-program", Src: src})
	}
	// The worker keeps the sweep away from the constructs of the open findings:
	// it evaluates the scope predicates (scope.go) on the reference's syntax
	// tree and type information and does not judge a program inside a scope.
	var scopes []string
	for _, sc := range AllScopes {
		if d.InScope(sc) {
			scopes = append(scopes, sc)
		}
	}
	d.T.Set("active_finding_scopes", scopes)
	d.T.Set("programs", len(progs))
	var cases []core.Case
	for i := 0; i < len(progs); i += perCase {
		j := i + perCase
		if j > len(progs) {
			j = len(progs)
		}
		cases = append(cases, core.NewCase(fmt.Sprintf("batch-%d", len(cases)), caseData{Progs: progs[i:j], Scopes: scopes}))
	}
	d.Run(cases, core.RunOpts{})
	return nil
}
