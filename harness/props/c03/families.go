package c03

import (
	"fmt"
	"strings"
)

// permutations returns every order of the given lines.
func permutations(lines []string) [][]string {
	if len(lines) <= 1 {
		return [][]string{append([]string{}, lines...)}
	}
	var out [][]string
	for i := range lines {
		rest := append(append([]string{}, lines[:i]...), lines[i+1:]...)
		for _, p := range permutations(rest) {
			out = append(out, append([]string{lines[i]}, p...))
		}
	}
	return out
}

// initOrderPrograms are whole programs made of a few package-level variables
// and functions, in every order of declaration: variables that are part of an
// initialization cycle, variables that only reach the cycle (through a
// function, through another variable, through a closure) and variables that are
// independent; and the same shapes with the cycle broken. An initialization
// cycle must be reported wherever its members are declared and whatever other
// declarations were analysed before them.
func initOrderPrograms() []string {
	shapes := [][]string{
		// b -> f -> b, a and c reach the cycle
		{"var a = f()", "var b = f()", "func f() int { return b }", "var c = a + 1"},
		// cycle between two variables through two functions, d reaches it
		{"var b = g()", "var c = f()", "func f() int { return b }", "func g() int { return c }", "var d = g()"},
		// self-referential closure value, x reaches it through a call
		{"var h = func() int { return k }", "var k = h()", "var x = h() + 1", "var y = 2"},
		// longer chain: a -> p -> q -> r -> a, with two outside users
		{"var a = p()", "func p() int { return q() }", "func q() int { return a }", "var u = q()", "var v = p() + u"},
		// the same shapes without cycle (f does not mention b any more)
		{"var a = f()", "var b = f()", "func f() int { return 1 }", "var c = a + b"},
		{"var b = g()", "var c = f()", "func f() int { return 1 }", "func g() int { return c }", "var d = g() + b"},
		{"var h = func() int { return 1 }", "var k = h()", "var x = h() + k", "var y = x"},
		// a reference that is only an assignment target / address is still a reference
		{"var a = f()", "var b = f()", "func f() int { b = 1; return 0 }", "var c = 3"},
		{"var a = f()", "var b = f()", "func f() int { p := &b; return *p }", "var c = a"},
	}
	var out []string
	for _, sh := range shapes {
		for _, p := range permutations(sh) {
			var names []string
			for _, l := range sh {
				if strings.HasPrefix(l, "var ") {
					names = append(names, strings.Fields(l)[1])
				}
			}
			blanks := strings.TrimSuffix(strings.Repeat("_, ", len(names)), ", ")
			out = append(out, "package main\n\n"+strings.Join(p, "\n")+"\n\nfunc main() { "+blanks+" = "+strings.Join(names, ", ")+" }\n")
		}
	}
	return out
}

// constantRangePrograms use products, sums and differences of named constants
// in the middle of the int64 range (around 2^31, 2^32, 2^33, 3e9, 5e9: operands
// whose product leaves int64 or even uint64 while each of them is an ordinary
// native integer) at every place where the value of a constant decides whether
// the program is valid: initialiser of a typed variable, conversion, array
// length, constant index, make size, shift count, typed constant declaration,
// argument, comparison with a typed variable.
func constantRangePrograms() []string {
	operands := []string{"2147483647", "2147483648", "3000000000", "3037000499", "3037000500", "4294967295", "4294967296", "4294967297", "5000000000", "8589934592", "65536", "-4294967296", "-3037000500", "(2147483647 + 1)", "(4294967295 + 1)", "1e9", "9223372036854775807", "int64(4294967296)", "uint32(4294967295)"}
	combos := []string{"p * q", "p * q * p", "p*q + 4", "p*q - q*p + 1", "(p + q) * (p + q)", "p * -q", "p*p*p*p", "p * q / q", "(p * q) >> 33", "p * q % 1000"}
	contexts := []string{
		"var t int64 = %s; _ = t",
		"var t uint64 = %s; _ = t",
		"var t int = %s; _ = t",
		"var t float64 = %s; _ = t",
		"_ = int64(%s)",
		"_ = uint32(%s)",
		"var a [%s]struct{}; _ = len(a)",
		"var a [8]int; _ = a[%s]",
		"s := make([]int, 8); _ = s[%s]",
		"_ = make([]int, %s)",
		"var x int64 = 1; _ = x << (%s)",
		"const c int64 = %s; _ = c",
		"const c = %s; var t int64 = c; _ = t",
		"f := func(v int64) {}; f(%s)",
		"var x int64; _ = x == %s",
		"_ = [...]struct{}{%s: {}}",
		"switch int64(1) { case %s: }",
	}
	var out []string
	n := 0
	for pi, p := range operands {
		for qi, q := range operands {
			if (pi*7+qi)%4 != 0 && p != q {
				continue // a quarter of the mixed pairs, every square
			}
			for ci, combo := range combos {
				for xi, ctx := range contexts {
					if (pi+qi+ci+xi)%3 != 0 {
						continue
					}
					n++
					expr := strings.NewReplacer("p", "kp", "q", "kq").Replace(combo)
					out = append(out, fmt.Sprintf("package main\n\nconst kp = %s\nconst kq = %s\n\nfunc main() {\n\t%s\n}\n", p, q, fmt.Sprintf(ctx, expr)))
				}
			}
		}
	}
	return out
}
