package c03

import (
	"go/types"
	"math/rand"
	"reflect"
	"sort"
	"strings"
	"testing"

	"github.com/open2b/scriggo/native"

	"verif/gen/typedprog"
	"verif/oracle/gotypes"
)

func sigString(s *types.Signature) string {
	var ps, rs []string
	for i := 0; i < s.Params().Len(); i++ {
		t := s.Params().At(i).Type().String()
		if s.Variadic() && i == s.Params().Len()-1 {
			t = "..." + strings.TrimPrefix(t, "[]")
		}
		ps = append(ps, t)
	}
	for i := 0; i < s.Results().Len(); i++ {
		rs = append(rs, s.Results().At(i).Type().String())
	}
	out := "func(" + strings.Join(ps, ", ") + ")"
	switch len(rs) {
	case 0:
	case 1:
		out += " " + rs[0]
	default:
		out += " (" + strings.Join(rs, ", ") + ")"
	}
	return out
}

// The native package given to scriggo and the package go/types sees must declare the same things.
func TestLibMirrorsSource(t *testing.T) {
	pkg, err := libImporter{}.Import("lib")
	if err != nil {
		t.Fatal(err)
	}
	decls := LibPackages["lib"].(native.Package).Declarations
	var exported []string
	for _, name := range pkg.Scope().Names() {
		if obj := pkg.Scope().Lookup(name); obj.Exported() {
			exported = append(exported, name)
		}
	}
	var native_ []string
	for name := range decls {
		native_ = append(native_, name)
	}
	sort.Strings(native_)
	if !reflect.DeepEqual(exported, native_) {
		t.Fatalf("exported names differ: go/types %v, native %v", exported, native_)
	}
	for _, name := range exported {
		obj := pkg.Scope().Lookup(name)
		d := decls[name]
		switch o := obj.(type) {
		case *types.Func:
			if got, want := reflect.TypeOf(d).String(), sigString(o.Type().(*types.Signature)); got != want {
				t.Errorf("%s: native %s, source %s", name, got, want)
			}
		case *types.Var:
			if got, want := reflect.TypeOf(d).Elem().String(), o.Type().String(); got != want {
				t.Errorf("%s: native %s, source %s", name, got, want)
			}
		case *types.Const:
			switch dv := d.(type) {
			case native.UntypedNumericConst:
				if o.Type().String() != "untyped int" || string(dv) != o.Val().ExactString() {
					t.Errorf("%s: native untyped %s, source %s %s", name, dv, o.Type(), o.Val())
				}
			case native.UntypedStringConst:
				if o.Type().String() != "untyped string" || `"`+string(dv)+`"` != o.Val().ExactString() {
					t.Errorf("%s: native untyped %q, source %s %s", name, dv, o.Type(), o.Val())
				}
			default:
				if got, want := reflect.TypeOf(d).String(), o.Type().String(); got != want {
					t.Errorf("%s: native %s, source %s", name, got, want)
				}
			}
		case *types.TypeName:
			rt := d.(reflect.Type)
			st := o.Type().Underlying().(*types.Struct)
			if rt.Kind() != reflect.Struct || rt.NumField() != st.NumFields() {
				t.Fatalf("%s: native %v, source %v", name, rt, st)
			}
			for i := 0; i < st.NumFields(); i++ {
				if rt.Field(i).Name != st.Field(i).Name() || rt.Field(i).Type.String() != st.Field(i).Type().String() {
					t.Errorf("%s field %d: native %s %s, source %s %s", name, i, rt.Field(i).Name, rt.Field(i).Type, st.Field(i).Name(), st.Field(i).Type())
				}
			}
			ms := types.NewMethodSet(o.Type())
			if ms.Len() != rt.NumMethod() {
				t.Errorf("%s: %d methods in source, %d native", name, ms.Len(), rt.NumMethod())
			}
			for i := 0; i < ms.Len(); i++ {
				if _, ok := rt.MethodByName(ms.At(i).Obj().Name()); !ok {
					t.Errorf("%s: method %s missing natively", name, ms.At(i).Obj().Name())
				}
			}
		}
	}
}

func check(src string) *gotypes.Result { return gotypes.Check(src, libImporter{}) }

func TestOracleSupplements(t *testing.T) {
	for src, want := range map[string]bool{
		"package main\nfunc main() {}\n":                           true,
		"package main\nfunc f() {}\n":                              false, // no main
		"package p\nfunc main() {}\n":                              false, // not package main
		"package main\nfunc f()\nfunc main() {}\n":                 false, // no body
		"package main\nfunc main() { x := 1 }\n":                   false,
		"package main\nimport \"lib\"\nfunc main() { _ = lib.K }":  true,
		"package main\nimport \"os\"\nfunc main() { _ = os.Args }": false,
		"package main\nfunc main() { _ = min(1, 2) }\n":            false, // go1.20
		"package main\nfunc main() { for i := range 3 { _ = i } }": false,
	} {
		if got := check(src).Accepted(); got != want {
			t.Errorf("Accepted(%q) = %v, want %v (%s)", src, got, want, check(src).FirstError())
		}
	}
}

func TestOutsideSubset(t *testing.T) {
	for src, want := range map[string]bool{
		"package main\ntype T int\nfunc (T) M() {}\nfunc main() {}\n":              true,
		"package main\ntype I interface{ M() }\nfunc main() {}\n":                  true,
		"package main\ntype I interface{}\nfunc main() {}\n":                       false,
		"package main\nfunc main() { s := []int{1, 2}; _ = [2]int(s) }\n":          true,
		"package main\nfunc main() { s := []int{1, 2}; _ = (*[2]int)(s) }\n":       false,
		"package main\nfunc main() { var x struct{ a int }; _ = x }\n":             false,
		"package main\nfunc main() { var e interface{ Error() string }; _ = e }\n": true,
	} {
		r := check(src)
		if !r.Accepted() {
			t.Fatalf("%q: %s", src, r.FirstError())
		}
		if got := outsideSubset(r) != ""; got != want {
			t.Errorf("outsideSubset(%q) = %q, want outside=%v", src, outsideSubset(r), want)
		}
	}
}

func TestScopesAndQuirks(t *testing.T) {
	body := func(s string) string { return "package main\nfunc main() {\n" + s + "\n}\n" }
	cases := []struct {
		src, scope string
	}{
		{body("L: for range []int{1} { break L }"), ScopeLabelledBranchInRange},
		{body("L: for { continue L }"), ScopeLabelledBranchInRange},
		{body("L: for { break L }"), ""},
		{body("L: for range []int{1} { for { break L } }"), ""},
		{body("for range []int{1} { break }"), ""},
		{"package main\ntype T struct{ n *T }\nfunc main() {}\n", ScopeRecursiveType},
		{"package main\ntype A struct{ b []B }\ntype B struct{ a *A }\nfunc main() {}\n", ScopeRecursiveType},
		{"package main\ntype A struct{ b B }\ntype B struct{ x int }\nfunc main() {}\n", ""},
		{body("var a [3]int; _ = a[3]"), ScopeIndexEqualLen},
		{body("var a [3]int; _ = a[1:4]"), ScopeIndexEqualLen},
		{body("var a [3]int; _ = a[5]"), ""},
		{body("var a [3]int; _ = a[2]"), ""},
		{body("var f float64; _ = f / 0"), ScopeFloatDivZero},
		{body("var c complex128; c /= 0i; _ = c"), ScopeFloatDivZero},
		{body("var i int; _ = i / 0"), ""},
		{body("var f float64; _ = f / 2"), ""},
		{body("_ = 1.0 / 0"), ""},
		{body("x := 1; switch x { case 0: goto l; l: fallthrough; case 1: }"), ScopeLabelledFallthrough},
	}
	for _, c := range cases {
		if got := inScope(check(c.src), AllScopes); got != c.scope {
			t.Errorf("inScope(%q) = %q, want %q", c.src, got, c.scope)
		}
	}
	for src, want := range map[string]bool{
		body("x := 1; _ = x >> 2000"):        true,
		body("x := 1; _ = x >> 1074"):        false,
		body("x := 1; _ = x << float64(2)"):  true,
		body("x := 1; _ = x << string(1)"):   true,
		body("x := 1; _ = x << uint8(2)"):    true == false,
		body("copy(nil, \"abc\")"):           true,
		body("var b []byte; copy(b, \"a\")"): false,
	} {
		if got := gotypes.NotTrusted(check(src)) != ""; got != want {
			t.Errorf("NotTrusted(%q) = %v, want %v", src, got, want)
		}
	}
}

// Every mutation class must be reachable and a healthy share of mutants must be rejected by the reference
// (and another share accepted: the sweep exercises both directions).
func TestMutatorMix(t *testing.T) {
	r := rand.New(rand.NewSource(7))
	kinds := map[string]int{}
	acc, rej := 0, 0
	for i := 0; i < 60; i++ {
		src := typedprog.Generate(r, typedprog.Options{Lib: true})
		for k := 0; k < 12; k++ {
			mu, ok := typedprog.Mutate(r, src)
			if !ok {
				continue
			}
			kinds[mu.Kind]++
			if check(mu.Src).Accepted() {
				acc++
			} else {
				rej++
			}
		}
	}
	for _, k := range typedprog.MutationKinds {
		if kinds[k] == 0 {
			t.Errorf("mutation class %s never produced", k)
		}
	}
	if acc < 30 || rej < 200 {
		t.Errorf("mutants accepted %d, rejected %d: mix is off", acc, rej)
	}
	t.Logf("mutants: %d accepted, %d rejected by the reference; per class %v", acc, rej, kinds)
}
