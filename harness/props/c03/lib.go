package c03

import (
	"go/ast"
	"go/parser"
	"go/token"
	"go/types"
	"reflect"
	"sync"

	"github.com/open2b/scriggo/native"

	"verif/gen/typedprog"
)

// The native package "lib" given to scriggo. It declares, with native Go
// values, exactly what typedprog.LibSource declares in Go source; the unit test
// TestLibMirrorsSource compares the two declaration by declaration.

var libV int

type libT struct {
	A int
	B string
}

func (t libT) M() int { return t.A }

type libErr string

func (e libErr) Error() string { return string(e) }

// LibPackages is the importer handed to scriggo.Build.
var LibPackages = native.Packages{
	"lib": native.Package{
		Name: "lib",
		Declarations: native.Declarations{
			"K":   native.UntypedNumericConst("42"),
			"KS":  native.UntypedStringConst("ks"),
			"KT":  int64(7),
			"V":   &libV,
			"F":   func(x int) int { return x + 1 },
			"S":   func(s string) string { return s + "!" },
			"P":   func(n int, s string) (int, error) { return n, nil },
			"Sum": func(xs ...int) int { return len(xs) },
			"Err": func(s string) error { return libErr(s) },
			"T":   reflect.TypeOf(libT{}),
		},
	},
}

var (
	libOnce sync.Once
	libPkg  *types.Package
	libErr_ error
)

// libImporter is the go/types importer that knows exactly the package "lib".
type libImporter struct{}

func (libImporter) Import(path string) (*types.Package, error) {
	if path != "lib" {
		return nil, errNoSuchPackage(path)
	}
	libOnce.Do(func() {
		fset := token.NewFileSet()
		f, err := parser.ParseFile(fset, "lib.go", typedprog.LibSource, 0)
		if err != nil {
			libErr_ = err
			return
		}
		libPkg, libErr_ = (&types.Config{}).Check("lib", fset, []*ast.File{f}, nil)
	})
	return libPkg, libErr_
}

type errNoSuchPackage string

func (e errNoSuchPackage) Error() string { return "cannot find package " + string(e) }
