package c03

import (
	"go/ast"
	"go/parser"
	"go/token"
)

// Scope predicates of the open findings of C03. They are evaluated in the
// driver on the source text (go/parser only) and keep the sweep away from
// exactly the recorded construct.

// ScopeLabelledBranchInRange: a labelled continue statement (any loop), or a
// labelled break whose innermost enclosing for/switch/select statement is a
// for-range statement (C03-F1: the emitter panics with "internal error: not
// implemented").
const ScopeLabelledBranchInRange = "labelled-continue-or-break-in-range"

// ScopeRecursiveType: a type declaration that refers to itself, directly or
// through other type declarations of the file (C03-F2: rejected as "invalid
// recursive type", upstream issue 440).
const ScopeRecursiveType = "recursive-type-declaration"

func parseFile(src string) *ast.File {
	f, err := parser.ParseFile(token.NewFileSet(), "main.go", src, parser.SkipObjectResolution)
	if err != nil {
		return nil
	}
	return f
}

func hasLabelledBranchInRange(f *ast.File) bool {
	found := false
	var walk func(n ast.Node, inRange bool)
	walk = func(n ast.Node, inRange bool) {
		ast.Inspect(n, func(m ast.Node) bool {
			if m == n || m == nil {
				return true
			}
			switch x := m.(type) {
			case *ast.RangeStmt:
				walk(x.Body, true)
				return false
			case *ast.ForStmt:
				walk(x.Body, false)
				return false
			case *ast.SwitchStmt:
				walk(x.Body, false)
				return false
			case *ast.TypeSwitchStmt:
				walk(x.Body, false)
				return false
			case *ast.SelectStmt:
				walk(x.Body, false)
				return false
			case *ast.FuncLit:
				walk(x.Body, false)
				return false
			case *ast.BranchStmt:
				if x.Label != nil && (x.Tok == token.CONTINUE || inRange && x.Tok == token.BREAK) {
					found = true
				}
			}
			return true
		})
	}
	walk(f, false)
	return found
}

// hasRecursiveType is name based (it ignores shadowing), which only makes the
// excluded set slightly larger than the recorded construct.
func hasRecursiveType(f *ast.File) bool {
	specs := map[string][]ast.Expr{}
	ast.Inspect(f, func(n ast.Node) bool {
		if ts, ok := n.(*ast.TypeSpec); ok {
			specs[ts.Name.Name] = append(specs[ts.Name.Name], ts.Type)
		}
		return true
	})
	mentions := func(e ast.Expr) []string {
		var out []string
		ast.Inspect(e, func(n ast.Node) bool {
			if id, ok := n.(*ast.Ident); ok {
				if _, ok := specs[id.Name]; ok {
					out = append(out, id.Name)
				}
			}
			return true
		})
		return out
	}
	for start := range specs {
		seen := map[string]bool{}
		stack := []string{start}
		first := true
		for len(stack) > 0 {
			name := stack[len(stack)-1]
			stack = stack[:len(stack)-1]
			if name == start && !first {
				return true
			}
			first = false
			if seen[name] {
				continue
			}
			seen[name] = true
			for _, e := range specs[name] {
				stack = append(stack, mentions(e)...)
			}
		}
	}
	return false
}
