package c03

import (
	"go/ast"
	"go/constant"
	"go/token"
	"go/types"
	"regexp"

	"verif/oracle/gotypes"
)

// Scope predicates of the open findings of C03. They are evaluated in the
// driver on the source text (go/parser only) and keep the sweep away from
// exactly the recorded construct.

// ScopeLabelledBranchInRange: a labelled continue statement (any loop), or a
// labelled break whose innermost enclosing for/switch/select statement is a
// for-range statement (C03-F1: the emitter panics with "internal error: not
// implemented").
const ScopeLabelledBranchInRange = "labelled-continue-or-break-in-range"

// ScopeRecursiveType: a type declaration that refers to itself, directly or
// through other type declarations of the file (C03-F2: rejected as "invalid
// recursive type", upstream issue 440).
const ScopeRecursiveType = "recursive-type-declaration"

// ScopeIndexEqualLen: a constant index equal to the length of the indexed array
// (a[3] for a [3]int, or a slice bound one above it), which scriggo accepts
// (C03-F3: off-by-one in checkIndex; the repair contradicts a test of the repository).
const ScopeIndexEqualLen = "constant-index-equal-to-array-length"

// ScopeFloatDivZero: a non-constant floating-point or complex operand divided
// by a constant zero, which Go accepts and scriggo rejects (C03-F4; the
// repository's tests expect the rejection).
const ScopeFloatDivZero = "float-division-by-constant-zero"

// ScopeLabelledFallthrough: a fallthrough statement that carries a label, whose
// position in the case clause is not verified (C03-F5).
const ScopeLabelledFallthrough = "labelled-fallthrough"

// ScopeStructKeyNamedLikeGlobal: a keyed struct literal whose field name is also
// the name of a package-level declaration: the dependency analysis, which runs
// before type checking, takes the key for a reference to that declaration and
// can report a false "typechecking loop" (C03-F6).
const ScopeStructKeyNamedLikeGlobal = "struct-literal-key-named-like-package-level-declaration"

// ScopeEllipsisArrayIndexMaxInt: an array literal of the form [...]T{i: v} whose
// constant index i is the largest int: the length i+1 is not representable and
// Build panics inside reflect.ArrayOf ("negative length") (C03-F7).
const ScopeEllipsisArrayIndexMaxInt = "ellipsis-array-literal-index-maxint"

// AllScopes lists the scope names the worker understands.
var AllScopes = []string{ScopeEllipsisArrayIndexMaxInt, ScopeLabelledBranchInRange, ScopeRecursiveType, ScopeIndexEqualLen, ScopeFloatDivZero, ScopeLabelledFallthrough, ScopeStructKeyNamedLikeGlobal}

// inScope returns the first active scope the program falls in, or "".
func inScope(r *gotypes.Result, active []string) string {
	if r.File == nil {
		return ""
	}
	for _, sc := range active {
		switch sc {
		case ScopeLabelledBranchInRange:
			if hasLabelledBranchInRange(r.File) {
				return sc
			}
		case ScopeRecursiveType:
			if hasRecursiveType(r.File) {
				return sc
			}
		case ScopeIndexEqualLen:
			if hasIndexEqualLen(r) {
				return sc
			}
		case ScopeFloatDivZero:
			if hasFloatDivZero(r) {
				return sc
			}
		case ScopeStructKeyNamedLikeGlobal:
			if hasStructKeyNamedLikeGlobal(r) {
				return sc
			}
		case ScopeEllipsisArrayIndexMaxInt:
			if hasEllipsisArrayIndexMaxInt(r) {
				return sc
			}
		case ScopeLabelledFallthrough:
			found := false
			ast.Inspect(r.File, func(n ast.Node) bool {
				if l, ok := n.(*ast.LabeledStmt); ok {
					if b, ok := l.Stmt.(*ast.BranchStmt); ok && b.Tok == token.FALLTHROUGH {
						found = true
					}
				}
				return true
			})
			if found {
				return sc
			}
		}
	}
	return ""
}

var outOfBounds = regexp.MustCompile(`index (\d+) out of bounds \[0:(\d+)\]`)

// hasIndexEqualLen: the reference reports "index N out of bounds [0:N]".
func hasIndexEqualLen(r *gotypes.Result) bool {
	for _, e := range r.Errs {
		if m := outOfBounds.FindStringSubmatch(e.Error()); m != nil && m[1] == m[2] {
			return true
		}
	}
	return false
}

// hasFloatDivZero: x / c or x /= c with x a non-constant float or complex
// operand and c a constant equal to zero.
func hasFloatDivZero(r *gotypes.Result) bool {
	if r.Info == nil {
		return false
	}
	isZeroConst := func(e ast.Expr) bool {
		tv, ok := r.Info.Types[e]
		if !ok || tv.Value == nil {
			return false
		}
		switch tv.Value.Kind() {
		case constant.Int, constant.Float:
			return constant.Sign(tv.Value) == 0
		case constant.Complex:
			return constant.Sign(constant.Real(tv.Value)) == 0 && constant.Sign(constant.Imag(tv.Value)) == 0
		}
		return false
	}
	isFloatVar := func(e ast.Expr) bool {
		tv, ok := r.Info.Types[e]
		if !ok || tv.Value != nil || tv.Type == nil {
			return false
		}
		b, ok := tv.Type.Underlying().(*types.Basic)
		return ok && b.Info()&(types.IsFloat|types.IsComplex) != 0
	}
	found := false
	ast.Inspect(r.File, func(n ast.Node) bool {
		switch x := n.(type) {
		case *ast.BinaryExpr:
			if x.Op == token.QUO && isZeroConst(x.Y) && isFloatVar(x.X) {
				found = true
			}
		case *ast.AssignStmt:
			if x.Tok == token.QUO_ASSIGN && len(x.Lhs) == 1 && len(x.Rhs) == 1 && isZeroConst(x.Rhs[0]) && isFloatVar(x.Lhs[0]) {
				found = true
			}
		}
		return true
	})
	return found
}

func hasLabelledBranchInRange(f *ast.File) bool {
	found := false
	var walk func(n ast.Node, inRange bool)
	walk = func(n ast.Node, inRange bool) {
		ast.Inspect(n, func(m ast.Node) bool {
			if m == n || m == nil {
				return true
			}
			switch x := m.(type) {
			case *ast.RangeStmt:
				walk(x.Body, true)
				return false
			case *ast.ForStmt:
				walk(x.Body, false)
				return false
			case *ast.SwitchStmt:
				walk(x.Body, false)
				return false
			case *ast.TypeSwitchStmt:
				walk(x.Body, false)
				return false
			case *ast.SelectStmt:
				walk(x.Body, false)
				return false
			case *ast.FuncLit:
				walk(x.Body, false)
				return false
			case *ast.BranchStmt:
				if x.Label != nil && (x.Tok == token.CONTINUE || inRange && x.Tok == token.BREAK) {
					found = true
				}
			}
			return true
		})
	}
	walk(f, false)
	return found
}

// hasRecursiveType is name based (it ignores shadowing), which only makes the
// excluded set slightly larger than the recorded construct.
func hasRecursiveType(f *ast.File) bool {
	specs := map[string][]ast.Expr{}
	ast.Inspect(f, func(n ast.Node) bool {
		if ts, ok := n.(*ast.TypeSpec); ok {
			specs[ts.Name.Name] = append(specs[ts.Name.Name], ts.Type)
		}
		return true
	})
	mentions := func(e ast.Expr) []string {
		var out []string
		ast.Inspect(e, func(n ast.Node) bool {
			if id, ok := n.(*ast.Ident); ok {
				if _, ok := specs[id.Name]; ok {
					out = append(out, id.Name)
				}
			}
			return true
		})
		return out
	}
	for start := range specs {
		seen := map[string]bool{}
		stack := []string{start}
		first := true
		for len(stack) > 0 {
			name := stack[len(stack)-1]
			stack = stack[:len(stack)-1]
			if name == start && !first {
				return true
			}
			first = false
			if seen[name] {
				continue
			}
			seen[name] = true
			for _, e := range specs[name] {
				stack = append(stack, mentions(e)...)
			}
		}
	}
	return false
}

// hasStructKeyNamedLikeGlobal: a key of a struct literal (by type information
// when available, else any identifier key of a composite literal) that is the
// name of a package-level declaration of the file.
func hasStructKeyNamedLikeGlobal(r *gotypes.Result) bool {
	globals := map[string]bool{}
	for _, d := range r.File.Decls {
		switch x := d.(type) {
		case *ast.FuncDecl:
			globals[x.Name.Name] = true
		case *ast.GenDecl:
			for _, sp := range x.Specs {
				switch y := sp.(type) {
				case *ast.ValueSpec:
					for _, n := range y.Names {
						globals[n.Name] = true
					}
				case *ast.TypeSpec:
					globals[y.Name.Name] = true
				}
			}
		}
	}
	found := false
	ast.Inspect(r.File, func(n ast.Node) bool {
		cl, ok := n.(*ast.CompositeLit)
		if !ok {
			return true
		}
		isStruct := true
		if r.Info != nil {
			if tv, ok := r.Info.Types[cl]; ok && tv.Type != nil {
				_, isStruct = tv.Type.Underlying().(*types.Struct)
			}
		}
		if !isStruct {
			return true
		}
		for _, e := range cl.Elts {
			if kv, ok := e.(*ast.KeyValueExpr); ok {
				if id, ok := kv.Key.(*ast.Ident); ok && globals[id.Name] {
					found = true
				}
			}
		}
		return true
	})
	return found
}

// hasEllipsisArrayIndexMaxInt: a composite literal whose type is written [...]T
// and one of whose keys is a constant equal to the largest int.
func hasEllipsisArrayIndexMaxInt(r *gotypes.Result) bool {
	if r.Info == nil {
		return false
	}
	maxInt := constant.MakeInt64(1<<63 - 1)
	found := false
	ast.Inspect(r.File, func(n ast.Node) bool {
		cl, ok := n.(*ast.CompositeLit)
		if !ok {
			return true
		}
		at, ok := cl.Type.(*ast.ArrayType)
		if !ok {
			return true
		}
		if _, ok := at.Len.(*ast.Ellipsis); !ok {
			return true
		}
		for _, e := range cl.Elts {
			if kv, ok := e.(*ast.KeyValueExpr); ok {
				if tv, ok := r.Info.Types[kv.Key]; ok && tv.Value != nil {
					if v := constant.ToInt(tv.Value); v.Kind() == constant.Int && constant.Compare(v, token.EQL, maxInt) {
						found = true
					}
				}
			}
		}
		return true
	})
	return found
}
