package c03

import (
	"go/ast"
	"go/token"
	"go/types"
	"strconv"

	"verif/oracle/gotypes"
)

// outsideSubset returns a non-empty reason if the (well-typed) program uses a
// construct that scriggo documents as not implemented: such a program is not
// required to build. The scan is syntactic, plus two type-based cases that
// cannot be seen in the syntax alone.
func outsideSubset(r *gotypes.Result) string {
	reason := ""
	set := func(s string) {
		if reason == "" {
			reason = s
		}
	}
	for _, imp := range r.File.Imports {
		if p, _ := strconv.Unquote(imp.Path.Value); p != "lib" {
			set("import of a package the harness does not supply: " + p)
		}
	}
	ast.Inspect(r.File, func(n ast.Node) bool {
		switch x := n.(type) {
		case *ast.FuncDecl:
			if x.Recv != nil {
				set("method declaration")
			}
			if x.Type.TypeParams != nil {
				set("generic function")
			}
		case *ast.TypeSpec:
			if x.TypeParams != nil {
				set("generic type")
			}
		case *ast.InterfaceType:
			if x.Methods != nil && len(x.Methods.List) > 0 {
				set("non-empty interface type")
			}
		case *ast.IndexListExpr:
			set("generic instantiation")
		case *ast.CallExpr:
			// conversion of a slice to an array (Go 1.20), by type
			if r.Info != nil {
				if tv, ok := r.Info.Types[x.Fun]; ok && tv.IsType() && len(x.Args) == 1 {
					if _, isArr := tv.Type.Underlying().(*types.Array); isArr {
						if at, ok := r.Info.Types[x.Args[0]]; ok {
							if _, isSlice := at.Type.Underlying().(*types.Slice); isSlice {
								set("conversion from slice to array (Go 1.20)")
							}
						}
					}
				}
			}
		case *ast.RangeStmt:
			if r.Info != nil {
				if tv, ok := r.Info.Types[x.X]; ok {
					switch u := tv.Type.Underlying().(type) {
					case *types.Basic:
						if u.Info()&types.IsInteger != 0 {
							set("range over integer (Go 1.22)")
						}
					case *types.Signature:
						set("range over function (Go 1.23)")
					}
				}
			}
		case *ast.BasicLit:
			_ = token.INT
		}
		return true
	})
	return reason
}
