package c15

import (
	"fmt"
	"math/rand"
	"regexp"
	"strings"
)

// gen generates one template source: random literal text interleaved with
// comments, raw blocks, statement-only lines, statements blocks, if/for/macro
// blocks and shows of unique numeric markers.
type gen struct {
	r       *rand.Rand
	ext     string
	marker  int
	macros  []string
	nmacro  int
	partial string // name of the partial that may be rendered
	budget  int
	// shifting: the text may hold unbalanced quotes and open tags, which move
	// the lexer into string/tag/attribute contexts; such templates have no
	// macro call and no render, whose output is escaped for the context of the
	// call (a behaviour of C06/C16, not of literal text).
	shifting bool
}

var exts = []string{".html", ".css", ".js", ".json", ".md", ".txt"}

func (g *gen) pick(s ...string) string { return s[g.r.Intn(len(s))] }

func (g *gen) nextMarker() string {
	g.marker++
	return fmt.Sprintf("%d", 7000000+g.marker*37+g.r.Intn(30))
}

// ws is white space that may surround a token on its line.
func (g *gen) ws() string {
	switch g.r.Intn(12) {
	case 0, 1, 2, 3:
		return ""
	case 4, 5:
		return " "
	case 6:
		return "  "
	case 7:
		return "\t"
	case 8:
		return " \t "
	case 9:
		return "    "
	case 10:
		return "\r"
	}
	return " \r"
}

func (g *gen) eol() string {
	switch g.r.Intn(10) {
	case 0, 1:
		return "\r\n"
	case 2:
		return "\n\n"
	case 3:
		return "\n\r"
	}
	return "\n"
}

var commonAtoms = []string{
	"a", "b", "lorem", "Ipsum", "x y", " ", " ", "  ", "\t", "\n", "\n", "\r\n", "\r", "{ ", "{a", "{\n", "}", "} ", "}}", "%", "%}", "% ", "# ", "#a", " #\n",
	".", ",", ";", ":", "!", "?", "(", ")", "[", "]", "=", "+", "-", "*", "/", "_", "|", "~", "^", "$", "@", "é", "日本", " ", "\ufeff", "1", "2a", "v9",
}

// shiftAtoms move the lexer into another context (only in "shifting" templates).
var shiftAtoms = map[string][]string{
	".html": {"\"", "'", "<span title=\"", "\">", "<i ", ">", "<a href=\"", "<script>", "</script>", "<style>", "</style>"},
	".css":  {"\"", "'"},
	".js":   {"\"", "'"},
	".json": {"\""},
}

var fmtAtoms = map[string][]string{
	".html": {"<b>", "</b>", "<p class=\"x\">", "</p>", "<br/>", "<!-- c -->", "&amp;", "&lt;", "< ", " > ", "<h1>", "</h1>", "<a title='t'>", "</a>",
		"<div\n id=x>", "</div>", "<ul>\n<li>", "</li>\n</ul>", "<a href=\"http://x.y/?a=1&amp;b=2\">"},
	".css":  {"a{color:red}", "b { margin: 0 }", "\"s\"", "'t'", "/* c */", "url(x.png)", "@media ", ".c > .d"},
	".js":   {"var a = 1;", "f(x);", "\"s\"", "'t'", "// c\n", "/* c */", "a / b", "`t`", "x => x", "if (a) { b }"},
	".json": {"{\"k\": ", "[1, 2]", "\"s\"", "null", "true", ", ", "{ }"},
	".md":   {"# H\n", "* item\n", "[l](http://x.y/z)", "```\ncode\n```\n", "\n\n    indented\n", "\n\n\tcode\n", "**b**", "> q\n", "<b>", "</b>", "`c`", "---\n", "1. one\n", "http://a.b/c "},
	".txt":  {"<", ">", "&", "\"", "'", "`", "<b>", "\\", "\\{", "http://x"},
}

// text returns random literal text that contains no template token and does
// not end with a byte that could fuse with a following token.
func (g *gen) text() string {
	n := 1 + g.r.Intn(6)
	var b strings.Builder
	for i := 0; i < n; i++ {
		if sa := shiftAtoms[g.ext]; g.shifting && len(sa) > 0 && g.r.Intn(8) == 0 {
			b.WriteString(sa[g.r.Intn(len(sa))])
		} else if g.r.Intn(3) == 0 {
			a := fmtAtoms[g.ext]
			b.WriteString(a[g.r.Intn(len(a))])
		} else {
			b.WriteString(commonAtoms[g.r.Intn(len(commonAtoms))])
		}
	}
	s := b.String()
	// the atoms are chosen so that "{{", "{%", "{#" and "#}" cannot arise inside
	// one atom; remove the ones that arise at the junction of two atoms
	for _, bad := range []string{"{{", "{%", "{#", "#}"} {
		for strings.Contains(s, bad) {
			s = strings.Replace(s, bad, bad[:1]+" "+bad[1:], 1)
		}
	}
	if strings.HasSuffix(s, "{") || strings.HasSuffix(s, "#") {
		s += " "
	}
	if g.ext == ".html" && !g.shifting && g.r.Intn(10) == 0 {
		// CDATA sections: their content is literal, also when it looks like
		// template syntax; several sections and literal "]]>" in one text run
		s += g.cdata()
	}
	return s
}

// cdata returns one or two CDATA sections, possibly preceded by a literal "]]>".
func (g *gen) cdata() string {
	section := func() string {
		var b strings.Builder
		b.WriteString("<![CDATA[")
		for i, n := 0, g.r.Intn(5); i < n; i++ {
			b.WriteString(g.pick("{{ 2 }}", "{{ x", "{# c #}", "{% if x %}", "{% end %}", "#}", "]]", "]>", " ", "\n", "a", "{%% _ = 1 %%}", "<b>", "{{ 7000001 }}"))
		}
		b.WriteString("]]>")
		return b.String()
	}
	switch g.r.Intn(4) {
	case 0:
		return section()
	case 1:
		return "]]>" + g.pick("", " ", "x\n") + section()
	case 2:
		return section() + g.pick("", " ", "lorem ", "\n") + section()
	}
	return section() + "]]> ]>" + section() + section()
}

func (g *gen) commentBody(depth int) string {
	var b strings.Builder
	n := g.r.Intn(4)
	for i := 0; i < n; i++ {
		switch g.r.Intn(9) {
		case 0:
			b.WriteString("{{ x }}")
		case 1:
			b.WriteString("{% if %}")
		case 2:
			b.WriteString("\n")
		case 3:
			if depth < 2 {
				b.WriteString("{#" + g.commentBody(depth+1) + "#}")
			}
		case 4:
			b.WriteString(" \" ' ` ")
		case 5:
			b.WriteString("# ")
		case 6:
			b.WriteString("{ # }")
		default:
			b.WriteString(g.pick(" note ", "a", " ", "é"))
		}
	}
	s := b.String()
	if strings.HasSuffix(s, "#") || strings.HasSuffix(s, "{") {
		s += " "
	}
	return s
}

func (g *gen) comment() string { return "{#" + g.commentBody(0) + "#}" }

func (g *gen) show() string {
	return "{{" + g.pick(" ", "", "  ", "\n") + g.nextMarker() + g.pick(" ", "", "\t") + "}}"
}

func (g *gen) plainStmt() string {
	switch g.r.Intn(3) {
	case 0:
		return fmt.Sprintf("{%% _ = %d %%}", g.r.Intn(9))
	case 1:
		return fmt.Sprintf("{%%var _ = %d%%}", g.r.Intn(9))
	}
	return fmt.Sprintf("{%%\n _ = %d\n%%}", g.r.Intn(9))
}

func (g *gen) block() string {
	switch g.r.Intn(3) {
	case 0:
		return fmt.Sprintf("{%%%% _ = %d %%%%}", g.r.Intn(9))
	case 1:
		return fmt.Sprintf("{%%%%\n  _ = %d\n  _ = %d\n%%%%}", g.r.Intn(9), g.r.Intn(9))
	}
	return fmt.Sprintf("{%%%% var _ = %d; _ = \"%%%%}\" %%%%}", g.r.Intn(9))
}

// nearMissEnd returns a statement that looks like the end of a raw block with
// the given marker but is not one: the keywords and the marker glued together
// or followed by other characters. It is content of the block.
func (g *gen) nearMissEnd(marker string) string {
	trueEnd := regexp.MustCompile(`^\{% *end(?: +raw)? *%\}$`)
	if marker != "" {
		// also "{% end marker %}", that the lexer documents as an end (and the parser rejects)
		trueEnd = regexp.MustCompile(`^\{% *end(?: +raw)? +` + regexp.QuoteMeta(marker) + ` *%\}$`)
	}
	for {
		m := g.pick(marker, marker+"x", "x"+marker, "", marker+marker)
		s := "{%" + g.pick("", " ") + "end" + g.pick("", " ", "  ") + g.pick("raw", "raw", "") + g.pick("", " ") + m + g.pick("", " ") + "%}"
		if !trueEnd.MatchString(s) && !strings.Contains(s, "end %}") && !strings.Contains(s, "end%}") {
			return s
		}
	}
}

func (g *gen) raw() string {
	marker := ""
	if g.r.Intn(2) == 0 {
		marker = g.pick("doc", "code", "x1")
	}
	var b strings.Builder
	n := g.r.Intn(5)
	for i := 0; i < n; i++ {
		switch g.r.Intn(10) {
		case 0:
			b.WriteString("{{ a }}")
		case 1:
			b.WriteString("{% if x %}")
		case 2:
			b.WriteString("{% end if %}")
		case 3:
			b.WriteString("{# c #}")
		case 4:
			if g.r.Intn(2) == 0 {
				b.WriteString(g.nearMissEnd(marker))
			} else if marker != "" {
				b.WriteString(g.pick("{% end %}", "{% end raw %}", "{%end%}", "{% end raw other %}"))
			} else {
				b.WriteString(g.pick("{% end for %}", "{% endraw %}", "{% end raw x %}", "{ % end % }"))
			}
		case 5:
			b.WriteString(g.eol())
		case 6:
			b.WriteString(g.ws())
		case 7:
			b.WriteString("{{ 1234567 ")
		default:
			b.WriteString(g.text())
		}
	}
	open := "{% raw %}"
	if marker != "" {
		open = "{% raw " + marker + " %}"
	}
	var cl string
	if marker == "" {
		cl = g.pick("{% end raw %}", "{% end %}", "{%end raw%}", "{%  end  raw  %}")
	} else {
		cl = g.pick("{% end raw "+marker+" %}", "{%end raw "+marker+"%}")
	}
	lead, trail := "", ""
	if g.r.Intn(2) == 0 { // block style: the statements on their own lines
		lead = g.ws() + g.eol()
		trail = g.ws()
		if g.r.Intn(3) > 0 {
			b.WriteString(g.eol())
		}
	}
	if trail == "" && g.r.Intn(3) == 0 {
		// the content ends with something that looks like the start of a
		// statement, directly before the real end
		b.WriteString(g.pick("{%", "{% ", "{%{%", "{% e", "{%  ", "{", "{%e", "{% en", "{%{", "{% {%", "{%\n"))
	}
	return open + lead + b.String() + trail + cl
}

// line returns a line built to exercise the cutting of statement-only lines.
func (g *gen) line(depth int) string {
	var b strings.Builder
	if g.r.Intn(4) > 0 {
		b.WriteString(g.eol())
	}
	b.WriteString(g.ws())
	k := 1
	switch g.r.Intn(6) {
	case 0:
		k = 2
	case 1:
		k = 3
	}
	for i := 0; i < k; i++ {
		if i > 0 {
			b.WriteString(g.ws())
		}
		switch g.r.Intn(12) {
		case 0, 1, 2:
			b.WriteString(g.plainStmt())
		case 3, 4, 5:
			b.WriteString(g.comment())
		case 6:
			b.WriteString(g.block())
		case 7, 8:
			b.WriteString(g.show())
		case 9:
			b.WriteString(g.raw())
		case 10:
			b.WriteString(fmt.Sprintf("{%% show %s %%}", g.nextMarker()))
		default:
			if g.partial != "" && !g.shifting {
				b.WriteString(fmt.Sprintf("{{ render %q }}", g.partial))
			} else {
				b.WriteString(g.comment())
			}
		}
	}
	b.WriteString(g.ws())
	if g.r.Intn(5) > 0 {
		b.WriteString(g.eol())
	}
	return b.String()
}

// sep is what separates a block statement from its body.
func (g *gen) sep() string {
	if g.r.Intn(2) == 0 {
		return g.ws() + g.eol() + g.ws()
	}
	return ""
}

func (g *gen) items(n, depth int, top bool) string {
	var b strings.Builder
	for i := 0; i < n && g.budget > 0; i++ {
		g.budget--
		switch w := g.r.Intn(100); {
		case w < 26:
			b.WriteString(g.text())
		case w < 50:
			b.WriteString(g.line(depth))
		case w < 60:
			b.WriteString(g.show())
		case w < 66:
			b.WriteString(g.comment())
		case w < 70:
			b.WriteString(g.plainStmt())
		case w < 73:
			b.WriteString(g.block())
		case w < 79:
			b.WriteString(g.raw())
		case w < 86 && depth < 3:
			cond := g.pick("true", "false")
			b.WriteString("{% if " + cond + " %}" + g.sep() + g.items(1+g.r.Intn(3), depth+1, false))
			if g.r.Intn(2) == 0 {
				b.WriteString(g.sep() + "{% else %}" + g.sep() + g.items(1+g.r.Intn(3), depth+1, false))
			}
			b.WriteString(g.sep() + g.pick("{% end %}", "{% end if %}") + g.sep())
		case w < 90 && depth < 3:
			b.WriteString(fmt.Sprintf("{%% for i := 0; i < %d; i++ %%}", g.r.Intn(3)) + g.sep() + g.items(1+g.r.Intn(3), depth+1, false) + g.sep() + g.pick("{% end %}", "{% end for %}") + g.sep())
		case w < 94 && top && !g.shifting:
			g.nmacro++
			name := fmt.Sprintf("M%d", g.nmacro)
			body := g.items(1+g.r.Intn(3), depth+1, false)
			b.WriteString("{% macro " + name + " %}" + g.sep() + body + g.sep() + g.pick("{% end %}", "{% end macro %}") + g.sep())
			g.macros = append(g.macros, name)
		case w < 98 && len(g.macros) > 0:
			b.WriteString("{{ " + g.macros[g.r.Intn(len(g.macros))] + "() }}")
		default:
			b.WriteString(g.text())
		}
	}
	return b.String()
}

// source generates a whole template.
func (g *gen) source() string {
	var b strings.Builder
	switch g.r.Intn(20) {
	case 0:
		b.WriteString("#!/usr/bin/env scriggo\n")
	case 1:
		b.WriteString("#! x {{ 1 }} {% if %}" + g.pick("\n", "\r\n"))
	case 2:
		b.WriteString("\ufeff")
	case 3:
		b.WriteString("\ufeff#!/bin/sh\n")
	}
	g.budget = 40
	b.WriteString(g.items(2+g.r.Intn(10), 0, true))
	return b.String()
}

// generate returns the i-th template of a case.
func generate(seed int64, i int) (ext string, src []byte, partials map[string][]byte) {
	r := rand.New(rand.NewSource(seed*1000003 + int64(i)*7919 + 17))
	g := &gen{r: r, ext: exts[r.Intn(len(exts))]}
	// Markdown: a tab or four spaces at a line start open a code block context, in
	// which a macro call or render is re-indented line by line; like the
	// context-shifting templates, Markdown templates have no macro call/render
	g.shifting = r.Intn(4) == 0 || g.ext == ".md"
	partials = map[string][]byte{}
	if r.Intn(3) == 0 {
		g.partial = "part" + g.ext
		partials[g.partial] = []byte("P" + g.nextMarker() + "Q")
	}
	return g.ext, []byte(g.source()), partials
}
