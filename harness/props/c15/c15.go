// Package c15 checks that template text is emitted verbatim except for the
// documented removals.
//
// Oracle: an independent reference tokenizer of the template syntax
// (verif/oracle/tmpltok, written from the documentation) splits the source
// into literal pieces and tokens; a small interpreter of the generated
// statement forms (if true/false, else, for i<N, macro/call, raw, show) gives
// the sequence of literal pieces and markers that must appear in the output.
// The output is accepted iff it is that sequence where a literal piece may
// only lose white space lying on a removable line (a physical line that holds
// a statement/comment token, no show of a value and otherwise only space, tab,
// CR and its terminator), and the shebang line. This is the upper bound stated
// by the property; the stricter "exactly these lines are cut" model is
// computed and its agreement rate reported, not judged.
package c15

import (
	"bytes"
	"encoding/json"
	"fmt"
	"sort"
	"strings"

	"verif/core"
	"verif/gen/tmplfiles"
	"verif/oracle/tmpltok"
)

type prop struct{}

func init() { core.Register(prop{}) }

func (prop) ID() string    { return "C15" }
func (prop) Level() string { return "exploration" }

// caseData is the self-contained description of a case.
type caseData struct {
	Kind     string            `json:"kind"`           // "gen": N templates generated from Seed; "one": the template in Src; "segments": N text segments separated by shows in one function
	Seed     int64             `json:"seed,omitempty"` // gen
	N        int               `json:"n,omitempty"`    // gen
	Ext      string            `json:"ext,omitempty"`  // one
	Src      []byte            `json:"src,omitempty"`  // one (base64 in JSON: sources hold CR, BOM and odd bytes)
	SrcText  string            `json:"src_text,omitempty"`
	InMacro  bool              `json:"in_macro,omitempty"` // segments: the segments are the body of a macro
	Partials map[string][]byte `json:"partials,omitempty"`
}

func (prop) Drive(d *core.Driver) error {
	total := d.N(6000, 300000)
	per := 50
	d.T.Rule = "templates are generated from a seed by interleaving random literal text (braces, #, %, CR, LF, CRLF, BOM, HTML/CSS/JS/JSON/Markdown fragments, lone '{') with comments (nested, multi-line), raw blocks (with/without marker, holding template-like text), statement-only lines, {%% %%} blocks, if/else/for/macro blocks, shows of unique 7-digit markers, {% show %} statements, renders of a literal partial and an optional shebang/BOM, in the six formats; each is built and run and the output matched against the reference model. distinct_nontrivial counts distinct (format, sorted set of syntax features present, whether a removable line occurred, whether the output lost white space) signatures among templates that built and ran"
	d.T.Assumptions = []string{
		"Markdown text without backslashes (they change where template syntax is recognised); CDATA sections only in HTML templates whose text stays in the HTML text context, where the lexer documents them as skipped",
		"macro calls and renders only occur in templates whose text keeps the lexer in the format's base context (no unbalanced quotes/open tags, not Markdown, where indented code blocks re-indent a shown macro line by line): their escaping for other contexts belongs to C06/C16",
		"a `{{ render \"f\" }}` alone on a line is treated like a statement (its line may be removed), as the parser documents",
		"templates that fail to build (e.g. a show or raw block placed by chance in an HTML tag or a string context that rejects it) are skipped and counted, not judged",
		"lines are delimited by LF only; a lone CR is white space",
	}
	var cases []core.Case
	for i := 0; i*per < total; i++ {
		cases = append(cases, core.NewCase(fmt.Sprintf("gen-%d", i), caseData{Kind: "gen", Seed: d.Seed*100000 + int64(i), N: per}))
	}
	// many literal segments in one function: around the 16-bit text index of the VM
	for _, n := range []int{65535, 65536, 65537, 65600} {
		cases = append(cases, core.NewCase(fmt.Sprintf("segments-%d", n), caseData{Kind: "segments", N: n}))
	}
	cases = append(cases, core.NewCase("segments-macro-65537", caseData{Kind: "segments", N: 65537, InMacro: true}))
	for _, s := range fixed {
		cases = append(cases, core.NewCase("fixed-"+s.name, caseData{Kind: "one", Ext: s.ext, Src: []byte(s.src), SrcText: s.src}))
	}
	ext, src, _ := generate(d.Seed*100000, 0)
	d.T.Sample(map[string]any{"ext": ext, "source": string(src)})
	ext, src, _ = generate(d.Seed*100000, 1)
	d.T.Sample(map[string]any{"ext": ext, "source": string(src)})
	results := d.Run(cases, core.RunOpts{NoTally: true})
	for i, r := range results {
		c := cases[i]
		if (r.Status == core.Violation) && len(r.Out) > 0 {
			// replace the batch by the single failing template in the replay file
			var one caseData
			if json.Unmarshal(r.Out, &one) == nil {
				c = core.NewCase(c.ID+"-one", one)
			}
		}
		r.Out = nil
		d.Judge(c, r)
	}
	return nil
}

// fixed cases: hand-written neighbourhoods.
var fixed = []struct{ name, ext, src string }{
	{"stmt-line", ".txt", "a\n  {% _ = 1 %}  \nb"},
	{"show-line", ".txt", "a\n  {{ 7000001 }}  \nb"},
	{"two-tokens", ".txt", "a\n {# c #} {{ 7000001 }} \nb"},
	{"crlf", ".txt", "a\r\n\t{# c #}\t\r\nb\r\n{{ 7000001 }}\r\n"},
	{"raw", ".html", "x\n{% raw %}\n {{ a }} {% end if %}\n{% end raw %}\ny"},
	{"raw-marker", ".txt", "{% raw doc %}{% end %}{% end raw %}{% end raw doc %}"},
	{"shebang", ".txt", "#!/usr/bin/scriggo\nline {{ 7000001 }}\n"},
	{"eof", ".txt", "a\n  {# c #}  "},
	{"multi", ".md", "a {# x\ny #}  \n{{ 7000001 }}{# x\ny #}\nb"},
}

type tallies struct {
	evals   int64
	sigs    map[string]struct{}
	counts  map[string]int64
	viol    string
	violOne *caseData
}

func (prop) Work(c core.Case) core.Result {
	var cd caseData
	c.Decode(&cd)
	t := &tallies{sigs: map[string]struct{}{}, counts: map[string]int64{}}
	switch cd.Kind {
	case "segments":
		var b bytes.Buffer
		if cd.InMacro {
			b.WriteString("{% macro M1 %}")
		}
		for i := 0; i < cd.N; i++ {
			fmt.Fprintf(&b, "t%d;{{ 7 }}", i)
		}
		if cd.InMacro {
			b.WriteString("{% end macro %}{{ M1() }}")
		}
		t.checkOne(".txt", b.Bytes(), nil)
		if t.viol != "" {
			t.viol = core.Truncate(t.viol, 3000)
			t.violOne = nil
		}
	case "one":
		src := cd.Src
		if len(src) == 0 {
			src = []byte(cd.SrcText)
		}
		t.checkOne(cd.Ext, src, cd.Partials)
	default:
		for i := 0; i < cd.N && t.viol == ""; i++ {
			ext, src, partials := generate(cd.Seed, i)
			t.checkOne(ext, src, partials)
		}
	}
	res := core.Result{Status: core.OK, Evals: t.evals, Counts: t.counts}
	for s := range t.sigs {
		res.Sigs = append(res.Sigs, s)
	}
	sort.Strings(res.Sigs)
	if t.viol != "" {
		res.Status = core.Violation
		res.Detail = t.viol
		if t.violOne != nil && cd.Kind != "one" {
			res.Out = core.MustJSON(t.violOne)
		}
	} else if t.counts["ran"] == 0 && cd.Kind != "gen" {
		res.Status = core.Skip
		res.Detail = "template did not build or is outside the model"
	}
	return res
}

func (t *tallies) checkOne(ext string, src []byte, partials map[string][]byte) {
	t.evals++
	fail := func(format string, a ...any) {
		t.viol = fmt.Sprintf(format, a...) + fmt.Sprintf("\nformat %s source %q", ext, src)
		t.violOne = &caseData{Kind: "one", Ext: ext, Src: src, Partials: partials}
		if isUTF8(src) {
			t.violOne.SrcText = string(src)
		}
	}
	m, err := newModel(src, partials, ext == ".html")
	if err != nil {
		t.counts["model_rejects_source"]++
		return
	}
	elems, err := m.expected()
	if err != nil {
		t.counts["model_unsupported"]++
		return
	}
	files := tmplfiles.Files{"index" + ext: src}
	for k, v := range partials {
		files[k] = v
	}
	o := tmplfiles.BuildRun(files, "index"+ext, nil, nil)
	if o.Panic != "" {
		fail("host panic (%s): %s", o.PanicIn, core.Truncate(o.Panic, 1500))
		return
	}
	if o.BuildErr != "" {
		if ext == ".txt" && !strings.Contains(o.BuildErr, "exceeded") {
			// the text format has no contexts that reject a show or a raw block:
			// every generated construct is documented, the template must build
			// (a limit of the implementation may be exceeded by the large cases)
			fail("a text template made of documented constructs only does not build: %s", o.BuildErr)
			return
		}
		t.counts["skipped_build_error"]++
		t.counts["skipped_build_error"+ext]++
		return
	}
	if o.RunErr != "" {
		t.counts["skipped_run_error"]++
		return
	}
	t.counts["ran"]++
	ok, mm := match(elems, o.Out)
	if !ok {
		var want string
		if mm.elem < len(elems) {
			e := mm.want
			if e.lit {
				want = fmt.Sprintf("literal piece %q (may lose at most %d leading and %d trailing bytes)", e.text, e.maxPre, e.maxSuf)
			} else {
				want = fmt.Sprintf("marker %s", e.text)
			}
		} else {
			want = "end of output"
		}
		lo := mm.outPos - 40
		if lo < 0 {
			lo = 0
		}
		hi := mm.outPos + 60
		if hi > len(o.Out) {
			hi = len(o.Out)
		}
		fail("output is not the literal text minus permitted removals: at output offset %d expected %s; output around there %q…%q\nfull output %q\npieces: %s",
			mm.outPos, want, o.Out[lo:mm.outPos], o.Out[mm.outPos:hi], o.Out, core.Truncate(tmpltok.Describe(src, m.ps), 1500))
		return
	}
	// coverage
	removable := false
	for i := range m.ps {
		if m.pre[i] > 0 || m.suf[i] > 0 {
			removable = true
		}
	}
	var plain bytes.Buffer
	for _, e := range elems {
		plain.Write(e.text)
	}
	cut := len(o.Out) < plain.Len()
	var fs []string
	for f := range m.features {
		fs = append(fs, f)
		t.counts["feature_"+f]++
	}
	sort.Strings(fs)
	t.sigs[fmt.Sprintf("%s|%s|removable=%v|cut=%v", ext, strings.Join(fs, ","), removable, cut)] = struct{}{}
	if removable {
		t.counts["templates_with_removable_line"]++
	}
	if cut {
		t.counts["templates_with_cut_output"]++
	}
	if bytes.Equal(exactOutput(elems), o.Out) {
		t.counts["exact_model_agrees"]++
	} else {
		t.counts["exact_model_differs"]++
	}
}

func isUTF8(b []byte) bool { return strings.ToValidUTF8(string(b), "�") == string(b) }
