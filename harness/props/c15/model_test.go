package c15

import (
	"testing"
)

func accepts(t *testing.T, src, out string) bool {
	t.Helper()
	m, err := newModel([]byte(src), map[string][]byte{"p.txt": []byte("PART")}, false)
	if err != nil {
		t.Fatalf("%q: %v", src, err)
	}
	el, err := m.expected()
	if err != nil {
		t.Fatalf("%q: %v", src, err)
	}
	ok, _ := match(el, []byte(out))
	return ok
}

func TestModel(t *testing.T) {
	cases := []struct {
		src  string
		good []string
		bad  []string
	}{
		{"a\n  {% _ = 1 %}  \nb",
			[]string{"a\nb", "a\n    \nb", "a\n  \nb", "a\n b"},
			[]string{"ab", "a\n  \n", "a  \nb", "a\n\n", "a\nb\n", "a\n    \n", "\nb"}},
		{"a\n  {{ 7000001 }}  \nb",
			[]string{"a\n  7000001  \nb"},
			[]string{"a\n7000001\nb", "a\n  7000001\nb", "a\n  7000001  b", "a\n  7000002  \nb"}},
		{"a\n {# c #} {{ 7000001 }} \nb",
			[]string{"a\n  7000001 \nb"},
			[]string{"a\n7000001 \nb", "a\n  7000001b"}},
		{"x{# a\n b #}  \ny", // the second physical line holds only the end of a comment
			[]string{"x  \ny", "xy"},
			[]string{"x  y", "x\ny\n"}},
		{"{{\n7000001 }} {# c #}\ny", // the line of the comment also holds the end of a show
			[]string{"7000001 \ny"},
			[]string{"7000001y", "7000001\ny"}},
		{"{% if true %}A{% else %}B{% end %}{% if false %}C{% else %}D{% end if %}", []string{"AD"}, []string{"ABCD", "BC", ""}},
		{"{% for i := 0; i < 2; i++ %}x{{ 7000001 }}{% end for %}", []string{"x7000001x7000001"}, []string{"x7000001"}},
		{"{% macro M1 %}[m]{% end macro %}a{{ M1() }}b{{ M1() }}", []string{"a[m]b[m]"}, []string{"[m]a[m]b[m]", "ab"}},
		{"{% raw %} {{ a }}{# c #}{% end if %} {% end raw %}z", []string{" {{ a }}{# c #}{% end if %} z"}, []string{"{{ a }}{# c #}{% end if %}z", " {{ a }} z"}},
		{"x\n{% raw doc %}\n a{% end %}\n{% end raw doc %}\ny",
			[]string{"x\n a{% end %}\ny", "x\n\n a{% end %}\n\ny"},
			[]string{"x\na{% end %}\ny", "x\n a\ny"}},
		{"#!/bin/x\nline\n", []string{"line\n", "#!/bin/x\nline\n"}, []string{"\nline\n", "ine\n"}},
		{"a\n  {# c #}  ", []string{"a\n", "a\n    ", "a\n  "}, []string{"a", "a\n     "}},
		{"a\r\n\t{# c #}\t\r\nb", []string{"a\r\nb", "a\r\n\t\t\r\nb"}, []string{"a\rb", "a\nb", "a\r\n\n\nb"}},
		{"a {{ render \"p.txt\" }} b\n  {{ render \"p.txt\" }}\nc", []string{"a PART b\n  PART\nc", "a PART b\nPARTc"}, []string{"aPART b\n  PART\nc"}},
		{"a\n  {% show 7000001 %}  \nb", []string{"a\n  7000001  \nb", "a\n7000001b"}, []string{"a\nb"}},
	}
	for _, c := range cases {
		for _, g := range c.good {
			if !accepts(t, c.src, g) {
				t.Errorf("source %q: output %q should be accepted", c.src, g)
			}
		}
		for _, b := range c.bad {
			if accepts(t, c.src, b) {
				t.Errorf("source %q: output %q should be rejected", c.src, b)
			}
		}
	}
}

func TestGeneratorWellFormed(t *testing.T) {
	unsupported := 0
	for i := 0; i < 3000; i++ {
		ext, src, partials := generate(99, i)
		m, err := newModel(src, partials, ext == ".html")
		if err != nil {
			t.Fatalf("generated source rejected by the reference tokenizer: %v\n%q", err, src)
		}
		if _, err := m.expected(); err != nil {
			unsupported++
		}
	}
	if unsupported > 60 {
		t.Errorf("%d of 3000 generated templates are outside the model", unsupported)
	}
}
