package c15

import (
	"bytes"
	"fmt"
	"regexp"
	"strconv"

	"verif/oracle/tmpltok"
)

// elem is one element of the expected output: a literal segment of the source
// (with the bounds of what may be removed from it) or a marker.
type elem struct {
	lit            bool
	text           []byte // literal bytes (lit) or the marker digits
	maxPre, maxSuf int    // upper bound of what may be removed at each end
	exPre, exSuf   int    // what the "exact" line-cut model removes (reported, not judged)
	piece          int    // index of the source piece, -1 for partial content
	whole          bool   // removable only as a whole (the shebang line)
}

var (
	reIfTrue  = regexp.MustCompile(`^\s*if\s+true\s*$`)
	reIfFalse = regexp.MustCompile(`^\s*if\s+false\s*$`)
	reElse    = regexp.MustCompile(`^\s*else\s*$`)
	reEnd     = regexp.MustCompile(`^\s*end(\s+[a-z]+)?(\s+[A-Za-z_0-9]+)?\s*$`)
	reFor     = regexp.MustCompile(`^\s*for\s+i\s*:=\s*0;\s*i\s*<\s*(\d);\s*i\+\+\s*$`)
	reMacro   = regexp.MustCompile(`^\s*macro\s+([A-Z][A-Za-z0-9]*)\s*$`)
	reShowSt  = regexp.MustCompile(`^\s*show\s+(\d+)\s*$`)
	rePlain   = regexp.MustCompile(`^\s*(var\s+)?_\s*=\s*\d+\s*$`)
	reMarker  = regexp.MustCompile(`^\s*(\d+)\s*$`)
	reCall    = regexp.MustCompile(`^\s*([A-Z][A-Za-z0-9]*)\(\)\s*$`)
	reRender  = regexp.MustCompile(`^\s*render\s+"([^"\\]+)"\s*$`)
)

// model is the reference model of one template source.
type model struct {
	src      []byte
	ps       []tmpltok.Piece
	partials map[string][]byte
	pre, suf []int // per piece: upper bound of removable bytes at each end
	xpre     []int // per piece: bytes removed by the exact model
	xsuf     []int
	macros   map[string][]elem
	features map[string]bool
}

type unsupported struct{ msg string }

func (u unsupported) Error() string { return u.msg }

// isValueShow reports whether the piece is a show of a value (not a render).
func isValueShow(p tmpltok.Piece) bool {
	return p.Kind == tmpltok.Show && !reRender.MatchString(p.Code)
}

func isLiteral(k tmpltok.Kind) bool { return k == tmpltok.Text || k == tmpltok.RawBody }

func isBlank(b []byte) bool {
	for _, c := range b {
		if c != ' ' && c != '\t' && c != '\r' && c != '\n' {
			return false
		}
	}
	return true
}

// newModel tokenizes src with the reference tokenizer and computes, for every
// literal piece, how much of it the property permits to be removed:
//
// A physical line (terminated by '\n') is removable when it holds at least one
// template token that is not a show of a value, no show of a value, and all its
// literal bytes are space, tab, CR or the line terminator. Of a literal piece,
// the part lying on the line where the preceding token ends and the part lying
// on the line where the following token starts may be removed if that line is
// removable. The shebang line is a token that covers its whole line.
func newModel(src []byte, partials map[string][]byte, html bool) (*model, error) {
	tokenize := tmpltok.Tokenize
	if html {
		tokenize = tmpltok.TokenizeHTML // CDATA sections are literal text
	}
	ps, err := tokenize(src)
	if err != nil {
		return nil, err
	}
	m := &model{src: src, ps: ps, partials: partials, macros: map[string][]elem{}, features: map[string]bool{}}
	n := len(ps)
	m.pre, m.suf, m.xpre, m.xsuf = make([]int, n), make([]int, n), make([]int, n), make([]int, n)

	// line index of every byte offset
	lineStart := []int{0}
	for i, c := range src {
		if c == '\n' && i+1 <= len(src) {
			lineStart = append(lineStart, i+1)
		}
	}
	lineOf := func(off int) int { // line containing byte off
		lo, hi := 0, len(lineStart)-1
		for lo < hi {
			mid := (lo + hi + 1) / 2
			if lineStart[mid] <= off {
				lo = mid
			} else {
				hi = mid - 1
			}
		}
		return lo
	}
	nl := len(lineStart)
	hasTok := make([]int, nl) // number of non-show tokens overlapping the line
	wholeTok := make([]int, nl)
	hasShow := make([]bool, nl)
	textOK := make([]bool, nl)
	for i := range textOK {
		textOK[i] = true
	}
	for _, p := range ps {
		l0, l1 := lineOf(p.Start), lineOf(p.End-1)
		switch {
		case isLiteral(p.Kind):
			for off := p.Start; off < p.End; off++ {
				if c := src[off]; c != ' ' && c != '\t' && c != '\r' && c != '\n' {
					textOK[lineOf(off)] = false
				}
			}
		case isValueShow(p):
			for l := l0; l <= l1; l++ {
				hasShow[l] = true
			}
		default:
			for l := l0; l <= l1; l++ {
				hasTok[l]++
				if l0 == l1 {
					wholeTok[l]++
				}
			}
		}
	}
	removable := func(l int) bool { return hasTok[l] > 0 && !hasShow[l] && textOK[l] }
	exact := func(l int) bool { return removable(l) && hasTok[l] == 1 && wholeTok[l] == 1 }
	lineEnd := func(l int) int {
		if l+1 < nl {
			return lineStart[l+1]
		}
		return len(src)
	}
	for i, p := range ps {
		if !isLiteral(p.Kind) {
			continue
		}
		if i > 0 { // a token precedes: the part up to the end of its line
			l := lineOf(p.Start)
			e := lineEnd(l)
			if e > p.End {
				e = p.End
			}
			if removable(l) {
				m.pre[i] = e - p.Start
			}
			if exact(l) {
				m.xpre[i] = e - p.Start
			}
		}
		if i+1 < n { // a token follows: the part on the line where it starts
			l := lineOf(p.End)
			s := lineStart[l]
			if s < p.Start {
				s = p.Start
			}
			if removable(l) {
				m.suf[i] = p.End - s
			}
			if exact(l) {
				m.xsuf[i] = p.End - s
			}
		}
	}
	return m, nil
}

// expected interprets the pieces and returns the elements of the expected output.
func (m *model) expected() ([]elem, error) {
	i := 0
	if len(m.ps) > 0 && m.ps[0].Kind == tmpltok.Shebang {
		m.features["shebang"] = true
		i = 1
	}
	out, next, term, err := m.seq(i, true, true)
	if err != nil {
		return nil, err
	}
	if i == 1 {
		p := m.ps[0]
		sb := elem{lit: true, whole: true, text: m.src[p.Start:p.End], maxPre: p.End - p.Start, exPre: p.End - p.Start, piece: 0}
		out = append([]elem{sb}, out...)
	}
	if term != "" || next != len(m.ps) {
		return nil, unsupported{"unbalanced " + term}
	}
	return out, nil
}

func (m *model) litElem(i int) elem {
	p := m.ps[i]
	return elem{lit: true, text: m.src[p.Start:p.End], maxPre: m.pre[i], maxSuf: m.suf[i], exPre: m.xpre[i], exSuf: m.xsuf[i], piece: i}
}

// seq interprets pieces from i until an else/end at this nesting level.
func (m *model) seq(i int, live, top bool) (out []elem, next int, term string, err error) {
	for i < len(m.ps) {
		p := m.ps[i]
		switch p.Kind {
		case tmpltok.Text:
			out = append(out, m.litElem(i))
			i++
		case tmpltok.Comment:
			m.features["comment"] = true
			if bytes.Contains(m.src[p.Start+2:p.End-2], []byte("{#")) {
				m.features["comment-nested"] = true
			}
			if bytes.IndexByte(m.src[p.Start:p.End], '\n') >= 0 {
				m.features["comment-multiline"] = true
			}
			i++
		case tmpltok.Block:
			m.features["block"] = true
			i++
		case tmpltok.Show:
			switch {
			case reMarker.MatchString(p.Code):
				out = append(out, elem{text: []byte(reMarker.FindStringSubmatch(p.Code)[1]), piece: i})
				m.features["show"] = true
			case reCall.MatchString(p.Code):
				name := reCall.FindStringSubmatch(p.Code)[1]
				body, ok := m.macros[name]
				if !ok {
					return nil, 0, "", unsupported{"call of undeclared macro " + name}
				}
				out = append(out, body...)
				m.features["macro-call"] = true
			case reRender.MatchString(p.Code):
				name := reRender.FindStringSubmatch(p.Code)[1]
				c, ok := m.partials[name]
				if !ok {
					return nil, 0, "", unsupported{"render of unknown partial " + name}
				}
				out = append(out, elem{lit: true, text: c, piece: -1})
				m.features["render"] = true
			default:
				return nil, 0, "", unsupported{fmt.Sprintf("show %q", p.Code)}
			}
			i++
		case tmpltok.Stmt:
			code := p.Code
			switch {
			case reElse.MatchString(code):
				return out, i, "else", nil
			case reEnd.MatchString(code):
				return out, i, "end", nil
			case rePlain.MatchString(code):
				m.features["stmt"] = true
				i++
			case reShowSt.MatchString(code):
				out = append(out, elem{text: []byte(reShowSt.FindStringSubmatch(code)[1]), piece: i})
				m.features["show-stmt"] = true
				i++
			case reIfTrue.MatchString(code), reIfFalse.MatchString(code):
				cond := reIfTrue.MatchString(code)
				m.features["if"] = true
				body, j, t, err := m.seq(i+1, live, false)
				if err != nil {
					return nil, 0, "", err
				}
				var alt []elem
				if t == "else" {
					m.features["else"] = true
					alt, j, t, err = m.seq(j+1, live, false)
					if err != nil {
						return nil, 0, "", err
					}
				}
				if t != "end" {
					return nil, 0, "", unsupported{"if without end"}
				}
				if cond {
					out = append(out, body...)
				} else {
					out = append(out, alt...)
				}
				i = j + 1
			case reFor.MatchString(code):
				n, _ := strconv.Atoi(reFor.FindStringSubmatch(code)[1])
				m.features["for"] = true
				body, j, t, err := m.seq(i+1, live, false)
				if err != nil {
					return nil, 0, "", err
				}
				if t != "end" {
					return nil, 0, "", unsupported{"for without end"}
				}
				for k := 0; k < n; k++ {
					out = append(out, body...)
				}
				i = j + 1
			case reMacro.MatchString(code):
				if !top {
					return nil, 0, "", unsupported{"nested macro declaration"}
				}
				name := reMacro.FindStringSubmatch(code)[1]
				m.features["macro"] = true
				body, j, t, err := m.seq(i+1, live, false)
				if err != nil {
					return nil, 0, "", err
				}
				if t != "end" {
					return nil, 0, "", unsupported{"macro without end"}
				}
				m.macros[name] = body
				i = j + 1
			default:
				if isRaw, marker := tmpltok.RawStatement(code); isRaw {
					m.features["raw"] = true
					if marker != "" {
						m.features["raw-marker"] = true
					}
					i++
					if i < len(m.ps) && m.ps[i].Kind == tmpltok.RawBody {
						out = append(out, m.litElem(i))
						i++
					}
					if i >= len(m.ps) || m.ps[i].Kind != tmpltok.Stmt {
						return nil, 0, "", unsupported{"raw without end"}
					}
					i++
					continue
				}
				return nil, 0, "", unsupported{fmt.Sprintf("statement %q", code)}
			}
		default:
			return nil, 0, "", unsupported{"piece " + p.Kind.String()}
		}
	}
	return out, i, "", nil
}

// mismatch describes where the output leaves the set of permitted outputs.
type mismatch struct {
	elem   int
	want   elem
	outPos int
}

// match reports whether out belongs to the set of outputs permitted by elems:
// the concatenation, in order, of every element, where a literal element may
// lose up to maxPre bytes at its start and up to maxSuf bytes at its end (these
// bytes are white space of removable lines by construction).
func match(elems []elem, out []byte) (bool, mismatch) {
	cur := map[int]struct{}{0: {}}
	far := 0
	for k, e := range elems {
		next := map[int]struct{}{}
		for pos := range cur {
			if pos > far {
				far = pos
			}
			if !e.lit {
				if bytes.HasPrefix(out[pos:], e.text) {
					next[pos+len(e.text)] = struct{}{}
				}
				continue
			}
			n := len(e.text)
			for a := 0; a <= e.maxPre && a <= n; a++ {
				if e.whole && a != 0 && a != n {
					continue
				}
				for b := 0; b <= e.maxSuf && a+b <= n; b++ {
					v := e.text[a : n-b]
					if bytes.HasPrefix(out[pos:], v) {
						next[pos+len(v)] = struct{}{}
					}
				}
			}
		}
		if len(next) == 0 {
			return false, mismatch{elem: k, want: e, outPos: far}
		}
		cur = next
	}
	if _, ok := cur[len(out)]; !ok {
		far = 0
		for pos := range cur {
			if pos > far {
				far = pos
			}
		}
		return false, mismatch{elem: len(elems), outPos: far}
	}
	return true, mismatch{}
}

// exactOutput is the output of the "exact" model: a line that holds exactly one
// single-line non-show token and otherwise only white space is removed entirely.
func exactOutput(elems []elem) []byte {
	var b bytes.Buffer
	for _, e := range elems {
		if !e.lit {
			b.Write(e.text)
			continue
		}
		a, z := e.exPre, e.exSuf
		if a+z > len(e.text) {
			z = len(e.text) - a
		}
		b.Write(e.text[a : len(e.text)-z])
	}
	return b.Bytes()
}
