package c07

// Multi-step URL attribute sequences.
//
// The renderer keeps state while it walks through one URL attribute (inURL, query,
// addAmpersand, removeQuestionMark): whether a hole is escaped as a path or as a query value
// depends on every show and every literal text before it. The single-hole query contexts
// reach only one state. Here whole families of templates with two or three holes in one
// attribute are generated:
//
//	ATTR = [pre] {{ b1 }} T1 [ {{ b2 }} T2 ] {{ s }} [suffix]
//
// b1/b2 are run-time values (with / without '?', ending in '?', '&' or neither, empty), T1/T2
// are literal texts of every relevant shape (starting with '?', '&', '&amp;', '=', '#', '/',
// plain), the text before the last hole ends with the marker key "zq9=", and s is the value
// under test. The oracle is model free (it does not predict what scriggo does with b1, b2 and
// the texts): the attribute value is extracted with x/net/html and html.UnescapeString, and
//
//   - the slot of s is the text after the last marker (minus the literal suffix);
//   - if a '?' (and no '#') precedes the marker, s is a query value: net/url must decode
//     "zq9="+slot to exactly {zq9: [s]}, RFC 3986 percent-decoding of the slot must give s, the
//     whole href must parse without fragment (unless the suffix has one), and when the marker is
//     visibly a key of the whole query (preceded by '?' or '&') url.ParseQuery of the whole
//     query must give zq9 = [s];
//   - if a '#' precedes the marker the hole is in the fragment, if neither precedes it the hole
//     is a path segment: not a query value, not judged (counted).
//
// Sequences whose last hole is not reached in query state are kept in the sweep on purpose:
// they cost little and keep the generator free of any model of the renderer's state machine.

import (
	"bytes"
	"fmt"
	"math/rand"
	"net/url"
	"strings"

	"github.com/open2b/scriggo"
	"github.com/open2b/scriggo/native"

	"verif/core"
	"verif/oracle/decode"
)

const marker = "zq9="

type urlAttr struct {
	Tag   string `json:"tag"`
	Attr  string `json:"attr"`
	Quote byte   `json:"quote"`
	Pre   string `json:"pre,omitempty"` // literal text of the attribute around the URL under test (srcset)
	Post  string `json:"post,omitempty"`
}

var urlAttrs = []urlAttr{
	{"a", "href", '"', "", ""},
	{"a", "href", '\'', "", ""},
	{"a", "href", 0, "", ""},
	{"img", "src", '"', "", ""},
	{"form", "action", '"', "", ""},
	{"img", "srcset", '"', "/first.png?x=1 2x, ", " 1x"},
	{"source", "srcset", '\'', "", " 3x, /last.png?zq9=no 1x"},
	// the URL under test is the second candidate and its query starts in the same literal text
	// that ends the first candidate
	{"img", "srcset", '"', "/first.png 2x, /second.png?w=", " 1x"},
}

// texts before the last hole (all end with the marker)
var lastTexts = []string{"?zq9=", "&zq9=", "&amp;zq9=", "zq9=", "#zq9=", "/r?zq9=", "?a=1&amp;zq9=", "?a=1&zq9=", ";zq9=", "/zq9="}

// texts between the first and the second hole of three-hole sequences
var midTexts = []string{"?k=", "&k=", "&amp;k=", "=", "k=", "/", "#", "?", "&", "&amp;", "?k=1&amp;j=", "-"}

// literal text after the last hole
var suffixes = []string{"", "&amp;z=1", "#f"}

// run-time values of the first hole
var firstValues = []string{"/s?q=x", "/s?", "/s?q=x&", "/s?q", "?", "/s?a=b&c", "/p", "p/q", "", "/s?q=x?", "/p#f", "/s?q=x&amp;", "//h/p?"}

// run-time values of the middle hole
var midValues = []string{"v", "a&b", "x?y", "", "k=v&", "w?", "a+b#c"}

// hostile query values (the random and dictionary families of the check are added to them)
var queryValues = []string{"a", "a&b=c", "a+b", "%41", "100%", "a#b", "a;b", "a=b", "a b", "\u00e8/?", "\"'<>", "?", "&", "a&", "?a", "&amp;", "%", "%4", "+", " ", "\x00", "\xff",
	",", "a,b 2x", "#", "a/../b", "=", "zq9=1", "&zq9=1", "%26", "%2B", "a%20b", "a\nb", "\\", "://", "~", "!*'()", "[]", "{}|^`", "\U0001F600", "%zz", "a\tb", "<script>", "&#38;", "&amp;amp;"}

// urlTemplate is self-contained (it is also the payload of a replayable "urlone" case).
type urlTemplate struct {
	A      urlAttr `json:"a"`
	HasMid bool    `json:"has_mid,omitempty"` // three holes
	Mid    string  `json:"mid,omitempty"`
	Last   string  `json:"last"`
	Suffix string  `json:"suffix,omitempty"`
}

var urlTemplates = func() []urlTemplate {
	var ts []urlTemplate
	for _, a := range urlAttrs {
		for _, l := range lastTexts {
			for _, sfx := range suffixes {
				ts = append(ts, urlTemplate{A: a, Last: l, Suffix: sfx})
				for _, m := range midTexts {
					ts = append(ts, urlTemplate{A: a, HasMid: true, Mid: m, Last: l, Suffix: sfx})
				}
			}
		}
	}
	return ts
}()

func (t urlTemplate) source() string {
	a := t.A
	var b strings.Builder
	b.WriteString("<" + a.Tag + " " + a.Attr + "=")
	if a.Quote != 0 {
		b.WriteByte(a.Quote)
	}
	b.WriteString(a.Pre)
	b.WriteString("{{ b1 }}")
	if t.HasMid {
		b.WriteString(t.Mid)
		b.WriteString("{{ b2 }}")
	}
	b.WriteString(t.Last)
	b.WriteString("{{ s }}")
	b.WriteString(t.Suffix)
	b.WriteString(a.Post)
	if a.Quote != 0 {
		b.WriteByte(a.Quote)
	}
	b.WriteString(">")
	return b.String()
}

// usable reports whether the literal texts can be written in the attribute (no spaces in an
// unquoted attribute).
func (t urlTemplate) usable() bool {
	a := t.A
	return a.Quote != 0 || !strings.ContainsAny(a.Pre+a.Post+t.Last+t.Suffix+t.Mid, " \t\n")
}

var urlBuilt = map[string]*scriggo.Template{}

func (st *state) urlTemplate(ut urlTemplate) (*scriggo.Template, error) {
	src := ut.source()
	if t, ok := urlBuilt[src]; ok {
		return t, nil
	}
	var t *scriggo.Template
	var err error
	v, p, stack := core.Guard(func() {
		t, err = scriggo.BuildTemplate(scriggo.Files{"index.html": []byte(src)}, "index.html",
			&scriggo.BuildOptions{Globals: native.Declarations{"s": (*string)(nil), "b1": (*string)(nil), "b2": (*string)(nil)}})
	})
	if p {
		return nil, fmt.Errorf("BuildTemplate panicked for %s: %v\n%s", src, v, stack)
	}
	if err != nil {
		return nil, fmt.Errorf("BuildTemplate failed for %s: %v", src, err)
	}
	urlBuilt[src] = t
	return t, nil
}

// judgeURL judges one rendered attribute. It returns the state class the last hole was
// reached in ("query", "fragment", "path") and the reason of a violation ("" = none).
func judgeURL(t urlTemplate, out, s string) (class, why string) {
	a := t.A
	raw, tok, err := decode.AttrValue(out, a.Tag, a.Attr, a.Quote)
	if err != nil {
		return "", "the attribute is not one decodable slot: " + err.Error()
	}
	val := decode.HTML(raw)
	if val != tok {
		return "", fmt.Sprintf("html.UnescapeString and x/net/html disagree on the attribute value: %q vs %q", val, tok)
	}
	// cut the URL under test out of a srcset-like attribute
	post := decode.HTML(a.Post)
	if !strings.HasSuffix(val, post) {
		return "", fmt.Sprintf("attribute value %q lost its literal end %q", val, post)
	}
	href := val[:len(val)-len(post)]
	if a.Pre != "" {
		pre := decode.HTML(a.Pre)
		if !strings.HasPrefix(href, pre) {
			return "", fmt.Sprintf("attribute value %q lost its literal start %q", val, pre)
		}
		// earlier candidates of a srcset end with ", "; what follows belongs to the URL under test
		href = href[strings.LastIndex(pre, ", ")+2:]
	}
	sfx := decode.HTML(t.Suffix)
	if !strings.HasSuffix(href, sfx) {
		return "", fmt.Sprintf("URL %q lost its literal suffix %q", href, sfx)
	}
	body := href[:len(href)-len(sfx)]
	idx := strings.LastIndex(body, marker)
	if idx < 0 {
		return "", fmt.Sprintf("URL %q lost the literal %q before the value", href, marker)
	}
	before, slot := body[:idx], body[idx+len(marker):]
	switch {
	case strings.Contains(before, "#"):
		class = "fragment"
	case strings.Contains(before, "?"):
		class = "query"
	default:
		return "path", ""
	}
	if class == "fragment" {
		// not a query value: outside the property (a hole reached in path state keeps %XX by design)
		return class, ""
	}
	rfc, err := decode.Percent(slot)
	if err != nil {
		return class, fmt.Sprintf("slot %q of URL %q: %v", slot, href, err)
	}
	if rfc != s {
		return class, fmt.Sprintf("slot %q of URL %q percent-decodes to %q", slot, href, rfc)
	}
	vals, err := url.ParseQuery(marker + slot)
	if err != nil {
		return class, fmt.Sprintf("slot %q of URL %q: url.ParseQuery: %v", slot, href, err)
	}
	if len(vals) != 1 || len(vals["zq9"]) != 1 || vals["zq9"][0] != s {
		return class, fmt.Sprintf("slot %q of URL %q decodes as query to %v", slot, href, vals)
	}
	pu, err := url.Parse(href)
	if err != nil {
		return class, fmt.Sprintf("URL %q does not parse: %v", href, err)
	}
	wantFrag := ""
	if strings.HasPrefix(sfx, "#") {
		wantFrag = sfx[1:]
	}
	if pu.Fragment != wantFrag {
		return class, fmt.Sprintf("URL %q has fragment %q, want %q (the value reaches into the fragment)", href, pu.Fragment, wantFrag)
	}
	// the marker is visibly a key of the whole query when it follows '&' or the '?' that opens the query
	if strings.HasSuffix(before, "&") || strings.HasSuffix(before, "?") && strings.Count(before, "?") == 1 {
		all, err := url.ParseQuery(pu.RawQuery)
		if err != nil {
			// other parts of the query (b1, b2, texts) are not under test; only a problem caused
			// by the slot itself is judged, and that was decided above
			return class, ""
		}
		if got := all["zq9"]; len(got) == 0 || got[len(got)-1] != s {
			return class, fmt.Sprintf("query %q of URL %q gives zq9 = %q", pu.RawQuery, href, got)
		}
	}
	return class, ""
}

// checkURLSeq runs templates [from,to) with every first/middle value and the value list.
// Unless full is set, three-hole templates use a rotating subset of the first and middle values.
func (st *state) checkURLSeq(from, to int, seed int64, nRandom int, full bool) {
	r := core.Rand(seed, "c07-urlseq")
	var buf bytes.Buffer
	for ti := from; ti < to && ti < len(urlTemplates); ti++ {
		t := urlTemplates[ti]
		if !t.usable() {
			continue
		}
		tmpl, err := st.urlTemplate(t)
		if err != nil {
			st.viols = append(st.viols, err.Error())
			return
		}
		values := valuesFor(r, t.HasMid, nRandom)
		mids := []string{""}
		firsts := firstValues
		if t.HasMid {
			mids = midValues
			if !full {
				firsts, mids = nil, nil
				for k := 0; k < 4; k++ {
					firsts = append(firsts, firstValues[(ti*5+k*3)%len(firstValues)])
				}
				for k := 0; k < 3; k++ {
					mids = append(mids, midValues[(ti*3+k*2)%len(midValues)])
				}
			}
		}
		for _, b1 := range firsts {
			for _, b2 := range mids {
				for _, s := range values {
					if len(st.viols) >= 8 {
						return
					}
					st.runURL(tmpl, t, b1, b2, s, &buf)
				}
			}
		}
	}
}

// runURL renders one (template, first value, middle value, value under test) and judges it.
func (st *state) runURL(tmpl *scriggo.Template, t urlTemplate, b1, b2, s string, buf *bytes.Buffer) {
	st.evals++
	buf.Reset()
	var rerr error
	v, p, stack := core.Guard(func() { rerr = tmpl.Run(buf, map[string]any{"s": s, "b1": b1, "b2": b2}, nil) })
	where := fmt.Sprintf("context=url-sequence template=%s b1=%q b2=%q value=%q", t.source(), b1, b2, s)
	if p {
		st.viols = append(st.viols, fmt.Sprintf("%s: Run panicked: %v\n%s", where, v, stack))
		return
	}
	if rerr != nil {
		st.viols = append(st.viols, fmt.Sprintf("%s: Run failed: %v", where, rerr))
		return
	}
	class, why := judgeURL(t, buf.String(), s)
	if why != "" {
		st.viols = append(st.viols, fmt.Sprintf("%s rendered=%q: %s", where, buf.String(), why))
		return
	}
	st.urlClass[class]++
	if class == "query" {
		st.escaped++
		st.sigs[fmt.Sprintf("urlseq|%s %s q%d|mid=%s|last=%s|b1=%s|%s", t.A.Tag, t.A.Attr, t.A.Quote, midName(t), t.Last, b1, class)] = struct{}{}
	}
}

func midName(t urlTemplate) string {
	if !t.HasMid {
		return "(two holes)"
	}
	return t.Mid
}

// valuesFor returns the values under test of one template: the hostile list (a rotating
// third of it for three-hole templates, which are many) plus random strings.
func valuesFor(r *rand.Rand, three bool, nRandom int) []string {
	var vs []string
	if three {
		off := r.Intn(3)
		for i := off; i < len(queryValues); i += 3 {
			vs = append(vs, queryValues[i])
		}
	} else {
		vs = append(vs, queryValues...)
		ls := leads()
		for i := 0; i < 24; i++ {
			vs = append(vs, ls[r.Intn(len(ls))]+ls[r.Intn(len(ls))])
		}
	}
	for i := 0; i < nRandom; i++ {
		vs = append(vs, randomString(r))
	}
	return vs
}
