// Package c07 checks that escaped values decode back to the exact original text.
//
// One template per string-bearing context is built once per worker process with a
// global variable s of type string; it is run once per value and the slot holding
// the value is cut out of the output by an independent tokenizer and decoded with
// the standard decoder of the context (package verif/oracle/decode):
//
//	HTML text / RCDATA / attribute values : x/net/html tokenizer + html.UnescapeString
//	JS string literals (.js and <script>)  : ECMA-262 StringLiteral decoder
//	JSON strings (.json and JSON-LD)       : encoding/json (+ the JS decoder, JSON ⊂ JS)
//	CSS strings (.css and <style>)         : CSS Syntax 3 §4.3.5/§4.3.7 decoder
//	URL query values in href               : HTML decoding, then net/url and RFC 3986 percent-decoding
//
// The decoded text must equal the original string. The only tolerated differences
// are the explicit exemptions of expect() below (code points the target language
// cannot carry).
package c07

import (
	"bytes"
	"encoding/json"
	"fmt"
	"sort"
	"strings"
	"sync"
	"unicode/utf8"

	"github.com/open2b/scriggo"
	"github.com/open2b/scriggo/native"

	"verif/core"
	"verif/oracle/decode"
)

type prop struct{}

func init() { core.Register(prop{}) }

func (prop) ID() string    { return "C07" }
func (prop) Level() string { return "exploration" }

// ---------------------------------------------------------------------------
// contexts

// A context is one template with one hole and the reference extraction/decoding of the hole.
type context struct {
	name string
	file string
	src  string
	// decode cuts the slot out of the rendered output and decodes it. It returns the raw
	// slot (for non-triviality accounting) and one decoding per reference decoder; all of
	// them must equal expect(s). A structural problem (the value left its slot) is an error.
	decode func(out string) (raw string, decoded []named, err error)
	// expect applies the explicit exemptions of the context to the original string.
	expect func(s string, which string) string
}

type named struct {
	decoder string
	value   string
}

func same(s, _ string) string { return s }

// Exemptions. They are the complete list of tolerated differences.
//
//   - css:  NUL cannot be written in CSS: both a raw NUL and the escape \0 mean U+FFFD
//     (CSS Syntax 3 §3.3 and §4.3.7). expected = s with NUL replaced by U+FFFD.
//   - js / json string contexts (every decoder): JavaScript and JSON text is a sequence of
//     Unicode code points; a byte that is not part of a valid UTF-8 sequence (this includes
//     encoded surrogates) is not a code point and cannot be carried. expected = s with each
//     such byte replaced by one U+FFFD (the rule of encoding/json); valid UTF-8 is byte-exact;
//     the rendered output must be valid UTF-8.
//   - html (tokenizer cross-check only; the deciding decoder is HTML entity decoding, which
//     has no exemption): the HTML input stream normalises CR LF and CR to LF before
//     tokenization, and NUL is dropped or replaced by the tree builder; the x/net/html
//     cross-check therefore compares modulo newline normalisation and is skipped for
//     values containing NUL.
//
// Invalid UTF-8 in the HTML, CSS and URL contexts is copied through (HTML, CSS) or
// percent-encoded byte by byte (URL) by scriggo and comes back byte for byte through the byte
// transparent decoders, so no exemption is needed there.
var exemptions = []string{
	"css: NUL -> U+FFFD (CSS cannot represent NUL: Syntax 3 §3.3/§4.3.7)",
	"js/json string contexts (.js, .json, <script>, JSON-LD), every decoder: each byte that is not part of a valid UTF-8 sequence (incl. encoded surrogates) -> one U+FFFD, the rule of encoding/json: JavaScript and JSON text consists of code points, a stray byte is not one; valid UTF-8 must be byte-exact and the rendered output must be valid UTF-8",
	"html/x-net-html cross-check: compared modulo CR LF|CR -> LF (input-stream preprocessing, not entity decoding) and skipped when the value contains NUL; html.UnescapeString check has no exemption",
}

func expectCSS(s, _ string) string { return strings.ReplaceAll(s, "\x00", "\ufffd") }

// expectJS is the expectation of the JavaScript and JSON string contexts: JavaScript and JSON
// source text is a sequence of Unicode code points, so a byte that is not part of a valid UTF-8
// sequence is not a code point the language can carry; it becomes one U+FFFD per byte
// (exactly the rule of encoding/json). Valid UTF-8 must come back byte for byte.
func expectJS(s, _ string) string {
	if !utf8.ValidString(s) {
		return string([]rune(s))
	}
	return s
}

// isJSContext reports whether the context is a JavaScript or JSON string context, whose
// rendered output must itself be valid UTF-8.
func isJSContext(name string) bool {
	return strings.HasPrefix(name, "js-") || strings.HasPrefix(name, "script-") || strings.HasPrefix(name, "json")
}

func expectHTML(s, which string) string {
	if which == "x/net/html" {
		return decode.NormalizeNewlines(s)
	}
	return s
}

func htmlText(tag string) func(string) (string, []named, error) {
	return func(out string) (string, []named, error) {
		raw, tok, err := decode.ElementText(out, tag, 0)
		if err != nil {
			return "", nil, err
		}
		return raw, []named{{"html.UnescapeString", decode.HTML(raw)}, {"x/net/html", decode.NormalizeNewlines(tok)}}, nil
	}
}

func htmlAttr(quote byte) func(string) (string, []named, error) {
	return func(out string) (string, []named, error) {
		raw, tok, err := decode.AttrValue(out, "a", "title", quote)
		if err != nil {
			return "", nil, err
		}
		return raw, []named{{"html.UnescapeString", decode.HTML(raw)}, {"x/net/html", decode.NormalizeNewlines(tok)}}, nil
	}
}

func urlQuery(quote byte) func(string) (string, []named, error) {
	return func(out string) (string, []named, error) {
		raw, tok, err := decode.AttrValue(out, "a", "href", quote)
		if err != nil {
			return "", nil, err
		}
		const prefix = "/p?q="
		u := decode.HTML(raw)
		if u != tok {
			return "", nil, fmt.Errorf("html.UnescapeString and x/net/html disagree on the href value: %q vs %q", u, tok)
		}
		if !strings.HasPrefix(u, prefix) {
			return "", nil, fmt.Errorf("href %q lost its prefix %s", u, prefix)
		}
		form, rfc, err := decode.QueryValue(u, "q")
		if err != nil {
			return "", nil, err
		}
		return strings.TrimPrefix(raw, prefix), []named{{"net/url", form}, {"RFC3986 percent-decoding", rfc}}, nil
	}
}

// lit cuts a literal out of code of the form prefix + literal + suffix.
func lit(out, prefix, suffix string, dec func(string) (string, int, error)) (string, string, error) {
	if !strings.HasPrefix(out, prefix) {
		return "", "", fmt.Errorf("output %q lost its prefix %q", out, prefix)
	}
	rest := out[len(prefix):]
	v, n, err := dec(rest)
	if err != nil {
		return "", "", fmt.Errorf("%v in %q", err, rest)
	}
	if rest[n:] != suffix {
		return "", "", fmt.Errorf("literal %q ends early: it is followed by %q, want %q", rest[:n], rest[n:], suffix)
	}
	return rest[:n], v, nil
}

func jsDec(s string) (string, int, error) {
	v, n, info, err := decode.JSString(s)
	if err == nil && info.LegacyOctal {
		err = fmt.Errorf("legacy octal escape (a SyntaxError in strict mode and in modules)")
	}
	return v, n, err
}

func jsLit(prefix, suffix string) func(string) (string, []named, error) {
	return func(out string) (string, []named, error) {
		raw, v, err := lit(out, prefix, suffix, jsDec)
		if err != nil {
			return "", nil, err
		}
		return raw, []named{{"ECMA-262 StringLiteral", v}}, nil
	}
}

func cssLit(prefix, suffix string) func(string) (string, []named, error) {
	return func(out string) (string, []named, error) {
		raw, v, err := lit(out, prefix, suffix, decode.CSSString)
		if err != nil {
			return "", nil, err
		}
		return raw, []named{{"CSS Syntax 3 string", v}}, nil
	}
}

func jsonDoc(out string) (string, []named, error) {
	var m map[string]string
	d := json.NewDecoder(strings.NewReader(out))
	if err := d.Decode(&m); err != nil {
		return "", nil, fmt.Errorf("encoding/json: %v in %q", err, out)
	}
	if d.More() {
		return "", nil, fmt.Errorf("trailing data after the JSON document %q", out)
	}
	v, ok := m["a"]
	if !ok || len(m) != 1 {
		return "", nil, fmt.Errorf("JSON document has keys %v, want exactly \"a\"", keys(m))
	}
	raw, v2, err := lit(out, `{"a": `, `}`, jsDec)
	if err != nil {
		return "", nil, err
	}
	return raw, []named{{"encoding/json", v}, {"ECMA-262 StringLiteral", v2}}, nil
}

func keys(m map[string]string) []string {
	var k []string
	for s := range m {
		k = append(k, s)
	}
	sort.Strings(k)
	return k
}

// inElement applies inner to the raw text content of the element tag.
func inElement(tag string, attrs int, inner func(string) (string, []named, error)) func(string) (string, []named, error) {
	return func(out string) (string, []named, error) {
		raw, _, err := decode.ElementText(out, tag, attrs)
		if err != nil {
			return "", nil, err
		}
		return inner(raw)
	}
}

// embedded wraps a decoder for a template that has literal text pre/post inside the same slot
// around the hole: every decoding must carry that text around the value, which is then cut off.
func embedded(pre, post string, inner func(string) (string, []named, error)) func(string) (string, []named, error) {
	return func(out string) (string, []named, error) {
		raw, decs, err := inner(out)
		if err != nil {
			return "", nil, err
		}
		for i, d := range decs {
			if len(d.value) < len(pre)+len(post) || !strings.HasPrefix(d.value, pre) || !strings.HasSuffix(d.value, post) {
				return "", nil, fmt.Errorf("decoder %s gives %q, which does not have the form %q + value + %q", d.decoder, d.value, pre, post)
			}
			decs[i].value = d.value[len(pre) : len(d.value)-len(post)]
		}
		return raw, decs, nil
	}
}

var contexts = []context{
	{"html-text", "index.html", `<div>{{ s }}</div>`, htmlText("div"), expectHTML},
	{"html-rcdata", "index.html", `<textarea>{{ s }}</textarea>`, htmlText("textarea"), expectHTML},
	{"attr-dq", "index.html", `<a title="{{ s }}">`, htmlAttr('"'), expectHTML},
	{"attr-sq", "index.html", `<a title='{{ s }}'>`, htmlAttr('\''), expectHTML},
	{"attr-unquoted", "index.html", `<a title={{ s }}>`, htmlAttr(0), expectHTML},
	{"url-query-dq", "index.html", `<a href="/p?q={{ s }}">`, urlQuery('"'), same},
	{"url-query-sq", "index.html", `<a href='/p?q={{ s }}'>`, urlQuery('\''), same},
	{"url-query-unquoted", "index.html", `<a href=/p?q={{ s }}>`, urlQuery(0), same},
	{"js-dq", "index.js", `var a = "{{ s }}";`, jsLit(`var a = `, `;`), expectJS},
	{"js-sq", "index.js", `var a = '{{ s }}';`, jsLit(`var a = `, `;`), expectJS},
	{"js-value", "index.js", `var a = {{ s }};`, jsLit(`var a = `, `;`), expectJS},
	{"script-dq", "index.html", `<script>var a = "{{ s }}";</script>`, inElement("script", 0, jsLit(`var a = `, `;`)), expectJS},
	{"script-sq", "index.html", `<script>var a = '{{ s }}';</script>`, inElement("script", 0, jsLit(`var a = `, `;`)), expectJS},
	{"script-value", "index.html", `<script>var a = {{ s }};</script>`, inElement("script", 0, jsLit(`var a = `, `;`)), expectJS},
	{"json-string", "index.json", `{"a": "{{ s }}"}`, jsonDoc, expectJS},
	{"json-value", "index.json", `{"a": {{ s }}}`, jsonDoc, expectJS},
	{"jsonld-string", "index.html", `<script type="application/ld+json">{"a": "{{ s }}"}</script>`, inElement("script", 1, jsonDoc), expectJS},
	{"css-dq", "index.css", `a { content: "{{ s }}"; }`, cssLit(`a { content: `, `; }`), expectCSS},
	{"css-sq", "index.css", `a { content: '{{ s }}'; }`, cssLit(`a { content: `, `; }`), expectCSS},
	{"css-value", "index.css", `a { content: {{ s }}; }`, cssLit(`a { content: `, `; }`), expectCSS},
	{"style-dq", "index.html", `<style>a { content: "{{ s }}"; }</style>`, inElement("style", 0, cssLit(`a { content: `, `; }`)), expectCSS},
	{"style-sq", "index.html", `<style>a { content: '{{ s }}'; }</style>`, inElement("style", 0, cssLit(`a { content: `, `; }`)), expectCSS},
	// the same slots with template text directly before and after the value (hex digits and
	// escape-like text, so that an escape of the value must not merge with its neighbours)
	{"html-text-embedded", "index.html", `<div>#x3c;{{ s }}amp;</div>`, embedded("#x3c;", "amp;", htmlText("div")), expectHTML},
	{"attr-dq-embedded", "index.html", `<a title="34;{{ s }}#34;">`, embedded("34;", "#34;", htmlAttr('"')), expectHTML},
	{"js-dq-embedded", "index.js", `var a = "u0041{{ s }}u0041";`, embedded("u0041", "u0041", jsLit(`var a = `, `;`)), expectJS},
	{"json-string-embedded", "index.json", `{"a": "u0041{{ s }}u0041"}`, embedded("u0041", "u0041", jsonDoc), expectJS},
	{"css-dq-embedded", "index.css", `a { content: "3c{{ s }}cafe"; }`, embedded("3c", "cafe", cssLit(`a { content: `, `; }`)), expectCSS},
	{"css-sq-embedded", "index.css", `a { content: '3c{{ s }} 0A'; }`, embedded("3c", " 0A", cssLit(`a { content: `, `; }`)), expectCSS},
	{"url-query-embedded", "index.html", `<a href="/p?q=41{{ s }}41">`, embedded("41", "41", urlQuery('"')), same},
}

// ---------------------------------------------------------------------------
// worker side

var (
	buildOnce sync.Once
	built     []*scriggo.Template
	buildErr  error
)

func buildAll() {
	built = make([]*scriggo.Template, len(contexts))
	for i, c := range contexts {
		var t *scriggo.Template
		var err error
		v, p, st := core.Guard(func() {
			t, err = scriggo.BuildTemplate(scriggo.Files{c.file: []byte(c.src)}, c.file,
				&scriggo.BuildOptions{Globals: native.Declarations{"s": (*string)(nil)}})
		})
		if p {
			buildErr = fmt.Errorf("BuildTemplate panicked for context %s: %v\n%s", c.name, v, st)
			return
		}
		if err != nil {
			buildErr = fmt.Errorf("BuildTemplate failed for context %s (%s): %v", c.name, c.src, err)
			return
		}
		built[i] = t
	}
}

type state struct {
	evals   int64
	sigs    map[string]struct{}
	viols   []string
	only    string // restrict to one context ("" = all)
	buf     bytes.Buffer
	escaped int64
	exempt  int64
	// multi-step URL sequences: state class in which the last hole was reached
	urlClass map[string]int64
}

// check renders s in every context and judges the decodings. class labels the value for the
// non-triviality signature.
func (st *state) check(s, class string) {
	for i := range contexts {
		c := &contexts[i]
		if st.only != "" && st.only != c.name {
			continue
		}
		if len(st.viols) >= 8 {
			return
		}
		st.evals++
		st.buf.Reset()
		var err error
		v, p, stack := core.Guard(func() { err = built[i].Run(&st.buf, map[string]any{"s": s}, nil) })
		if p {
			st.viols = append(st.viols, fmt.Sprintf("context=%s value=%q: Run panicked: %v\n%s", c.name, s, v, stack))
			continue
		}
		if err != nil {
			st.viols = append(st.viols, fmt.Sprintf("context=%s value=%q: Run failed: %v", c.name, s, err))
			continue
		}
		out := st.buf.String()
		if isJSContext(c.name) && !utf8.ValidString(out) {
			st.viols = append(st.viols, fmt.Sprintf("context=%s template=%s value=%q rendered=%q: the rendered JavaScript/JSON text is not valid UTF-8", c.name, c.src, s, out))
			continue
		}
		raw, decs, err := c.decode(out)
		if err != nil {
			st.viols = append(st.viols, fmt.Sprintf("context=%s template=%s value=%q rendered=%q: the value does not stay a decodable slot: %v", c.name, c.src, s, out, err))
			continue
		}
		bad := false
		for _, d := range decs {
			want := c.expect(s, d.decoder)
			if want != s {
				st.exempt++
			}
			if d.decoder == "x/net/html" && strings.IndexByte(s, 0) >= 0 {
				st.exempt++
				continue
			}
			if d.value != want {
				st.viols = append(st.viols, fmt.Sprintf("context=%s template=%s value=%q rendered=%q decoder=%s decoded=%q want=%q", c.name, c.src, s, out, d.decoder, d.value, want))
				bad = true
				break
			}
		}
		if !bad && !strings.Contains(raw, s) {
			// the escaper did something: this render is a non-trivial observation
			st.escaped++
			st.sigs[c.name+"|"+class] = struct{}{}
		}
	}
}

type caseData struct {
	Kind  string `json:"kind"`            // succ | tuples | random | one
	Lead  []byte `json:"lead,omitempty"`  // succ: the escape-relevant string whose successors are enumerated
	First int    `json:"first,omitempty"` // tuples: index of the first symbol
	Embed bool   `json:"embed,omitempty"` // succ: also a+lead+succ+z
	From  int    `json:"from,omitempty"`  // urlseq: template index range
	To    int    `json:"to,omitempty"`
	Full  bool   `json:"full,omitempty"` // urlseq: all first/middle values for three-hole templates
	Seed  int64  `json:"seed,omitempty"`
	N     int    `json:"n,omitempty"`
	Ctx   string `json:"ctx,omitempty"` // one: context name ("" = all contexts)
	Val   []byte `json:"val,omitempty"` // one, urlone: the value
	// urlone: one URL sequence (self-contained template description, first and middle value)
	URL *urlTemplate `json:"url,omitempty"`
	B1  []byte       `json:"b1,omitempty"`
	B2  []byte       `json:"b2,omitempty"`
}

func (prop) Work(c core.Case) core.Result {
	var cd caseData
	c.Decode(&cd)
	buildOnce.Do(buildAll)
	if buildErr != nil {
		// the fixed templates must build: a failure is a harness/environment problem or a build defect
		return core.Result{Status: core.Inconclusive, Detail: buildErr.Error()}
	}
	st := &state{sigs: map[string]struct{}{}, urlClass: map[string]int64{}}
	switch cd.Kind {
	case "one":
		st.only = cd.Ctx
		st.check(string(cd.Val), classOf(string(cd.Val)))
	case "succ":
		lead := string(cd.Lead)
		cl := "lead:" + printable(lead)
		st.check(lead, cl)
		for _, succ := range successors(cd.Seed) {
			st.check(lead+succ, cl)
			if cd.Embed {
				st.check("a"+lead+succ+"z", cl)
			}
			st.check(succ+lead, cl)
		}
	case "tuples":
		a := tupleAlphabet[cd.First]
		cl := "tuple:" + printable(a)
		for _, b := range tupleAlphabet {
			st.check(a+b, cl)
			third := tupleAlphabet
			if cd.N > 0 && cd.N < len(third) {
				third = third[:cd.N] // quick: the third symbol ranges over the first N symbols
			}
			for _, c3 := range third {
				st.check(a+b+c3, cl)
			}
		}
	case "urlseq":
		st.checkURLSeq(cd.From, cd.To, cd.Seed, cd.N, cd.Full)
	case "urlone":
		if cd.URL == nil {
			return core.Result{Status: core.Inconclusive, Detail: "urlone case without template"}
		}
		tmpl, err := st.urlTemplate(*cd.URL)
		if err != nil {
			return core.Result{Status: core.Inconclusive, Detail: err.Error()}
		}
		var buf bytes.Buffer
		st.runURL(tmpl, *cd.URL, string(cd.B1), string(cd.B2), string(cd.Val), &buf)
	case "random":
		r := core.Rand(cd.Seed, "c07-random")
		for i := 0; i < cd.N; i++ {
			s := randomString(r)
			st.check(s, classOf(s))
		}
	default:
		return core.Result{Status: core.Inconclusive, Detail: "unknown case kind " + cd.Kind}
	}
	res := core.Result{Status: core.OK, Evals: st.evals, Counts: map[string]int64{
		"renders":               st.evals,
		"renders_with_escaping": st.escaped,
		"exemptions_applied":    st.exempt,
	}}
	for k, n := range st.urlClass {
		res.Counts["url_sequence_last_hole_in_"+k] = n
	}
	for s := range st.sigs {
		res.Sigs = append(res.Sigs, s)
	}
	sort.Strings(res.Sigs)
	if len(st.viols) > 0 {
		res.Status = core.Violation
		res.Detail = strings.Join(st.viols, "\n")
	}
	return res
}

func printable(s string) string {
	q := fmt.Sprintf("%q", s)
	return q[1 : len(q)-1]
}

// classOf labels a free-form value by the set of escape-relevant character classes it contains.
func classOf(s string) string {
	var has [8]bool
	for i := 0; i < len(s); i++ {
		c := s[i]
		switch {
		case c == '<' || c == '>' || c == '&' || c == '"' || c == '\'':
			has[0] = true
		case c == '\\':
			has[1] = true
		case c < 0x20 || c == 0x7f:
			has[2] = true
		case c == '%' || c == '+' || c == '=' || c == '?' || c == '#' || c == ' ':
			has[3] = true
		case c >= 0x80:
			has[4] = true
		}
	}
	if !utf8.ValidString(s) {
		has[5] = true
	}
	names := []string{"html", "bs", "ctl", "url", "hi", "badutf8"}
	var parts []string
	for i, n := range names {
		if has[i] {
			parts = append(parts, n)
		}
	}
	if parts == nil {
		return "mix:plain"
	}
	return "mix:" + strings.Join(parts, "+")
}

// ---------------------------------------------------------------------------
// value dictionary (shared by driver and worker; depends only on the seed)

// leads is the dictionary of escape-relevant strings. Every one of them is followed by every
// ASCII byte and by sampled non-ASCII successors.
func leads() []string {
	var l []string
	for c := 0; c < 0x80; c++ {
		isAlnum := '0' <= c && c <= '9' || 'a' <= c && c <= 'z' || 'A' <= c && c <= 'Z'
		if !isAlnum {
			l = append(l, string([]byte{byte(c)}))
		}
	}
	l = append(l, "a", "f", "F", "g", "0", "9", "x", "u", "n")
	// non-ASCII code points with a special role somewhere
	l = append(l, "\u0080", "\u0085", "\u009f", "\u00a0", "\u00ad", "\u00e9", "\u03cc", "\u2028", "\u2029", "\u200b", "\ufeff", "\ufffd", "\ufffe", "\uffff", "\ud7ff", "\ue000", "\U0001F600", "\U0010FFFF")
	// invalid UTF-8: stray continuation, truncated lead, encoded surrogates, beyond U+10FFFF, overlong NUL, 0xFF
	l = append(l, "\x80", "\xc3", "\xe2\x80", "\xed\xa0\x80", "\xed\xb0\x80", "\xf4\x90\x80\x80", "\xc0\x80", "\xff", "\xfe")
	// strings that look like an escape of one of the target languages
	l = append(l, "&amp", "&amp;", "&lt", "&#34", "&#x3c", "&#0", "&#x80", "&#xD800", "&#", "&#x", "&a", "&AMP", "&notit",
		`<`, `\u`, `\u{`, `\x`, `\x4`, `\0`, `\1`, `\3c`, `\3c `, `\22`, `\a`, `\\`, `\"`, `\'`, "\\\n", "\\\r\n",
		"%41", "%4", "%%", "%2", "%2B", "%u0041", "+", "%20",
		"</script", "</SCRIPT", "<!--", "-->", "]]>", "*/", "/*", "//", "${", "</style", "</textarea", "</title",
		"\r\n", "\n\r", "  ", "javascript:", "?", "&q=", "#", ";")
	return l
}

var nonASCIIPool = func() []rune {
	var p []rune
	add := func(lo, hi rune) {
		for r := lo; r <= hi; r++ {
			p = append(p, r)
		}
	}
	add(0x80, 0xFF)
	add(0x100, 0x17F)
	add(0x370, 0x3FF) // Greek: U+03CC lives here
	add(0x2000, 0x206F)
	add(0xD7F0, 0xD7FF)
	add(0xE000, 0xE00F)
	add(0xFE00, 0xFE0F)
	add(0xFFF0, 0xFFFF)
	add(0x10000, 0x1000F)
	add(0x1F600, 0x1F64F)
	add(0x10FFF0, 0x10FFFF)
	return p
}()

// successors returns the successor strings: every ASCII byte, 64 sampled non-ASCII runes
// and a few invalid UTF-8 bytes.
func successors(seed int64) []string {
	var s []string
	for c := 0; c < 0x80; c++ {
		s = append(s, string([]byte{byte(c)}))
	}
	r := core.Rand(seed, "c07-succ")
	for i := 0; i < 64; i++ {
		s = append(s, string(nonASCIIPool[r.Intn(len(nonASCIIPool))]))
	}
	s = append(s, "\x80", "\xc3", "\xff", "\xed\xa0\x80")
	return s
}

// tupleAlphabet is the alphabet of the exhaustive pairs and triples.
var tupleAlphabet = []string{"<", ">", "&", "\"", "'", "\\", "/", ";", ":", "(", ")", "{", "}", "+", "%", "=", " ", "\n", "\r", "\t", "\f", "\x00", "#", "?",
	"c", "F", "0", "g", "-", "`", "\u00a0", "\xff"}

func randomString(r interface{ Intn(int) int }) string {
	n := r.Intn(65)
	var b []byte
	for len(b) < n {
		switch r.Intn(10) {
		case 0, 1, 2:
			b = append(b, tupleAlphabet[r.Intn(len(tupleAlphabet))]...)
		case 3, 4:
			b = append(b, byte(r.Intn(0x80)))
		case 5:
			b = append(b, byte(r.Intn(256))) // arbitrary byte: mostly invalid UTF-8
		case 6:
			b = utf8.AppendRune(b, nonASCIIPool[r.Intn(len(nonASCIIPool))])
		case 7:
			b = utf8.AppendRune(b, rune(r.Intn(0x110000))) // surrogates come out as U+FFFD
		case 8:
			b = append(b, "0123456789abcdefABCDEF"[r.Intn(22)])
		default:
			b = append(b, byte('a'+r.Intn(26)))
		}
	}
	return string(b)
}

// ---------------------------------------------------------------------------
// driver side

func (prop) Drive(d *core.Driver) error {
	var names []string
	for _, c := range contexts {
		names = append(names, c.name)
	}
	d.T.Rule = "each case renders a family of strings through one pre-built template per context (global s of type string) and decodes the slot with the context's standard decoder; " +
		"families: (succ) every dictionary string (all non-alphanumeric ASCII, special non-ASCII code points, invalid UTF-8 sequences, look-alike escapes of every target language) alone, followed by and preceded by every ASCII byte, 64 seed-sampled non-ASCII runes and 4 invalid sequences (thorough: also embedded in a…z, and six more successor samples); " +
		"(tuples) all pairs and triples over a 32-symbol escape-relevant alphabet (quick: third symbol from the first 20); (random) random valid/invalid UTF-8 up to 64 bytes; " +
		"(urlseq) generated URL attribute templates with two or three holes (href/src/action/srcset, double/single/unquoted; first value with/without '?', ending in '?', '&' or neither, empty; literal texts starting with ? & &amp; = # / or plain; literal suffix none, &amp;z=1 or #f): the last hole is the value under test and is judged model-free according to whether a '?' or '#' precedes it in the decoded attribute. " +
		"evaluations = (context, value) renders. distinct_nontrivial counts distinct (context, value family) pairs for which the escaper actually changed the value (raw slot differs from the value)"
	d.T.Assumptions = append([]string{
		"html.UnescapeString, x/net/html, encoding/json and net/url are correct; the JS, CSS and percent decoders of verif/oracle/decode follow ECMA-262 §12.9.4, CSS Syntax 3 §4.3.5/§4.3.7 and RFC 3986 §2.1 (own unit tests)",
		"the deciding HTML decoder is HTML entity decoding as the property names it; newline normalisation of the HTML input stream (raw CR -> LF in text and quoted attributes) is outside entity decoding",
		"URL path values are not checked: the property names the query value only and pathEscape deliberately keeps existing %XX sequences",
	}, exemptions...)
	d.T.Set("contexts", names)
	d.T.Set("exemptions", exemptions)

	var cases []core.Case
	ls := leads()
	for i, l := range ls {
		cases = append(cases, core.NewCase(fmt.Sprintf("succ-%03d-%s", i, printable(l)), caseData{Kind: "succ", Lead: []byte(l), Seed: d.Seed*7919 + int64(i), Embed: d.Thorough()}))
	}
	for i := range tupleAlphabet {
		cases = append(cases, core.NewCase(fmt.Sprintf("tuples-%02d", i), caseData{Kind: "tuples", First: i, N: d.N(20, 0)}))
	}
	nr := d.N(12, 600)
	per := d.N(1000, 3000)
	for i := 0; i < nr; i++ {
		cases = append(cases, core.NewCase(fmt.Sprintf("random-%d", i), caseData{Kind: "random", Seed: d.Seed*1000003 + int64(i), N: per}))
	}
	// multi-step URL attribute sequences (urlseq.go)
	const ustep = 20
	for from := 0; from < len(urlTemplates); from += ustep {
		cases = append(cases, core.NewCase(fmt.Sprintf("urlseq-%04d", from), caseData{Kind: "urlseq", From: from, To: from + ustep, Seed: d.Seed*31337 + int64(from), N: d.N(5, 40), Full: d.Thorough()}))
	}
	d.T.Set("url_sequence_templates", len(urlTemplates))
	d.T.Sample(map[string]any{"case": "urlseq-0000", "meaning": "templates 0..19 of the URL sequence family, e.g. " + urlTemplates[1].source() + " with every first value (/s?q=x, /s?, /s?q=x&, /p, empty, ...), middle value and hostile query value; the slot after zq9= must decode (html.UnescapeString, net/url, RFC 3986) to the value"})
	if d.Thorough() {
		// a second, differently seeded successor sweep widens the non-ASCII successor sample
		for k := 1; k <= 6; k++ {
			for i, l := range ls {
				cases = append(cases, core.NewCase(fmt.Sprintf("succ%d-%03d-%s", k, i, printable(l)), caseData{Kind: "succ", Lead: []byte(l), Seed: d.Seed*7919 + int64(i) + int64(k)*104729, Embed: true}))
			}
		}
	}
	d.T.Set("dictionary_strings", len(ls))
	d.T.Set("tuple_alphabet", len(tupleAlphabet))
	d.T.Sample(map[string]any{"case": "succ-…-<", "meaning": "'<' alone, and followed/preceded by each of the 196 successors, in every context", "example": map[string]string{"context": "css-dq", "value": "<c", "rendered": `a { content: "\3c c"; }`, "decoded": "<c"}})
	d.T.Sample(map[string]any{"case": "tuples-00", "meaning": "all pairs and triples starting with '<' over the 32-symbol alphabet, in every context"})
	d.T.Sample(map[string]any{"case": "random-0", "meaning": fmt.Sprintf("%d random strings (seeded) in every context", per)})
	d.Run(cases, core.RunOpts{GOMAXPROCS: 1})
	return nil
}
