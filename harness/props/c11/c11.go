// Package c11 checks that cancelling the run context stops any execution promptly.
//
// Monitors: VM hooks count executed instructions per VM (Step) and mark the
// moment the watcher stores the done flag (DoneSet). Oracles, all in logical
// units: (a) after the done event no VM executes more than B instructions
// before Run returns; (b) if Run has not returned although the done event
// fired and the step counter stands still over several samples, the run is
// parked forever (the generated programs block forever by construction);
// (c) Run returns ctx.Err(); (d) a program that finishes before the
// cancellation point returns its own outcome. Cancellation is triggered at a
// seeded VM step count (reproducible), while blocked, before the start, or by
// a deadline.
package c11

import (
	"context"
	"fmt"
	"io"
	"runtime"
	"strings"
	"sync"
	"sync/atomic"
	"time"

	"github.com/open2b/scriggo"
	"github.com/open2b/scriggo/native"

	"verif/core"
	"verif/mon"
)

type prop struct{}

func init() { core.Register(prop{}) }

func (prop) ID() string    { return "C11" }
func (prop) Level() string { return "exploration" }

const stepBound = 8 // instructions a VM may still execute after the done flag is set

// totalBound bounds the instructions all the VMs of a run may execute after
// the done flag is set: every VM may use its stepBound, and a run starts at
// most a few tens of VMs (goroutines, callbacks) before it is cancelled.
const totalBound = 20000

type caseData struct {
	Kind     string            `json:"kind"` // prog | tmpl
	Files    map[string]string `json:"files"`
	Shape    string            `json:"shape"`
	Prefix   string            `json:"prefix"`  // terminating fragment executed before the shape
	Native   bool              `json:"native"`  // uses the native functions Each / WaitUntil
	Trigger  string            `json:"trigger"` // step | blocked | before | deadline | never
	AtStep   int64             `json:"at_step"`
	Finishes bool              `json:"finishes"` // the code terminates by itself
}

// ---- generators ----

type shape struct {
	name     string
	body     string // statements of main (program) or of a {%% %%} block (template)
	blocks   bool   // ends up parked in a channel operation (never computing)
	native   bool   // calls the native functions Each / WaitUntil ("@host." is "host." in programs, "" in templates)
	finishes bool
}

func shapes(r interface{ Intn(int) int }) []shape {
	n := 2 + r.Intn(5)
	return []shape{
		{name: "tight-loop", body: "for {\n}"},
		{name: "counting-loop", body: "x := 0\nfor {\n\tx += 3\n\tx ^= x >> 2\n}"},
		{name: "nested-loops-calls", body: fmt.Sprintf("f := func(a int) int { return a*a + 1 }\nfor i := 0; ; i++ {\n\tfor j := 0; j < %d; j++ {\n\t\t_ = f(i + j)\n\t}\n}", n)},
		{name: "mutual-recursion-loop", body: "var even func(n int) bool\nodd := func(n int) bool {\n\tif n == 0 {\n\t\treturn false\n\t}\n\treturn even(n - 1)\n}\neven = func(n int) bool {\n\tif n == 0 {\n\t\treturn true\n\t}\n\treturn odd(n - 1)\n}\nfor {\n\t_ = even(20)\n}"},
		{name: "string-building-loop", body: "s := \"\"\nfor {\n\ts += \"x\"\n\tif len(s) > 100 {\n\t\ts = \"\"\n\t}\n}"},
		{name: "map-slice-loop", body: "m := map[int]int{}\nv := []int{1, 2, 3}\nfor i := 0; ; i++ {\n\tm[i%7] += v[i%3]\n}"},
		{name: "range-loop-inside-loop", body: "v := []int{1, 2, 3, 4}\nt := 0\nfor {\n\tfor _, e := range v {\n\t\tt += e\n\t}\n}"},
		{name: "switch-loop", body: "x := 0\nfor {\n\tswitch x % 3 {\n\tcase 0:\n\t\tx += 1\n\tcase 1:\n\t\tx += 2\n\tdefault:\n\t\tx += 3\n\t}\n}"},
		{name: "defer-loop", body: "for {\n\tfunc() {\n\t\tdefer func() {\n\t\t\t_ = recover()\n\t\t}()\n\t\tvar z []int\n\t\t_ = z[1]\n\t}()\n}"},
		{name: "send-unbuffered", body: "c := make(chan int)\nc <- 1", blocks: true},
		{name: "receive-unbuffered", body: "c := make(chan string)\n<-c", blocks: true},
		{name: "receive-assign", body: "c := make(chan int, 1)\nv, ok := <-c\n_, _ = v, ok", blocks: true},
		{name: "select-empty", body: "select {\n}", blocks: true},
		{name: "select-no-default", body: "a := make(chan int)\nb := make(chan int)\nselect {\ncase <-a:\ncase b <- 1:\n}", blocks: true},
		{name: "select-default-spin", body: "a := make(chan int)\nfor {\n\tselect {\n\tcase <-a:\n\tdefault:\n\t}\n}"},
		{name: "range-channel", body: "c := make(chan int)\nfor v := range c {\n\t_ = v\n}", blocks: true},
		{name: "full-buffered-send", body: fmt.Sprintf("c := make(chan int, %d)\nfor {\n\tc <- 1\n}", n), blocks: true},
		{name: "nil-channel-receive", body: "var c chan int\n<-c", blocks: true},
		{name: "goroutines-blocked-main-blocked", body: fmt.Sprintf("c := make(chan int)\nfor i := 0; i < %d; i++ {\n\tgo func() {\n\t\t<-c\n\t}()\n}\nd := make(chan bool)\n<-d", n), blocks: true},
		{name: "goroutines-looping-main-blocked", body: fmt.Sprintf("for i := 0; i < %d; i++ {\n\tgo func() {\n\t\tx := 0\n\t\tfor {\n\t\t\tx++\n\t\t}\n\t}()\n}\nd := make(chan bool)\n<-d", n), blocks: true},
		{name: "goroutine-pingpong-forever", body: "a, b := make(chan int), make(chan int)\ngo func() {\n\tfor v := range a {\n\t\tb <- v + 1\n\t}\n}()\nv := 0\nfor {\n\ta <- v\n\tv = <-b\n}"},
		{name: "goroutine-via-func-value", body: "var w func(c chan int)\nw = func(c chan int) {\n\tfor {\n\t\tc <- 1\n\t}\n}\nc := make(chan int)\ngo w(c)\nfor {\n\t<-c\n}"},
		{name: "native-each-callback", body: "t := 0\n@host.Each(1<<40, func(i int) {\n\tt += i\n})", native: true},
		{name: "native-waituntil-callback", body: "k := 0\n@host.WaitUntil(func() bool {\n\tk++\n\treturn k < 0\n})", native: true},
		{name: "native-each-callback-blocked", body: "c := make(chan int, 1)\n@host.Each(1<<40, func(i int) {\n\tc <- i\n})", native: true, blocks: true},
		{name: "native-callback-in-goroutine", body: "go @host.Each(1<<40, func(i int) {\n\t_ = i * 2\n})\nd := make(chan bool)\n<-d", native: true, blocks: true},
		{name: "native-each-finishes", body: fmt.Sprintf("t := 0\n@host.Each(%d, func(i int) {\n\tt += i\n})\n_ = t", 3+n), native: true, finishes: true},
		{name: "finishes-quickly", body: fmt.Sprintf("t := 0\nfor i := 0; i < %d; i++ {\n\tt += i\n}\n_ = t", 5+n*10), finishes: true},
		{name: "finishes-with-goroutines", body: fmt.Sprintf("c := make(chan int)\nfor i := 0; i < %d; i++ {\n\tgo func(i int) {\n\t\tc <- i\n\t}(i)\n}\nt := 0\nfor i := 0; i < %d; i++ {\n\tt += <-c\n}\n_ = t", n, n), finishes: true},
		{name: "finishes-with-panic", body: "var m map[string]int\nm[\"a\"] = 1", finishes: true},
	}
}

func indent(s, pre string) string {
	return pre + strings.ReplaceAll(s, "\n", "\n"+pre)
}

// prefixes are terminating fragments executed, in the same function frame,
// before the shape: what stops a run must not depend on what ran before.
var prefixes = []struct{ name, code string }{
	{"none", ""},
	{"poll", "{\n\tpc := make(chan int)\n\tselect {\n\tcase <-pc:\n\tdefault:\n\t}\n}\n"},
	{"poll-loop", "{\n\tpc := make(chan int, 1)\n\tfor i := 0; i < 3; i++ {\n\t\tselect {\n\t\tcase pc <- i:\n\t\tcase v := <-pc:\n\t\t\t_ = v\n\t\tdefault:\n\t\t}\n\t}\n}\n"},
	{"buffered-roundtrip", "{\n\tpc := make(chan string, 2)\n\tpc <- \"a\"\n\tpc <- \"b\"\n\t<-pc\n\tclose(pc)\n\tfor range pc {\n\t}\n}\n"},
	{"select-ready", "{\n\tpa, pb := make(chan int, 1), make(chan int, 1)\n\tpa <- 1\n\tselect {\n\tcase <-pa:\n\tcase pb <- 2:\n\t}\n}\n"},
	{"recovered-panic", "func() {\n\tdefer func() {\n\t\t_ = recover()\n\t}()\n\tvar pz []int\n\t_ = pz[3]\n}()\n"},
	{"goroutine-joined", "{\n\tpd := make(chan int)\n\tgo func() {\n\t\tpd <- 7\n\t}()\n\t<-pd\n}\n"},
}

func makeFiles(kind string, sh shape, r interface{ Intn(int) int }) map[string]string {
	if kind == "prog" {
		imp := ""
		if sh.native {
			imp = "import \"host\"\n\n"
		}
		body := strings.ReplaceAll(sh.body, "@host.", "host.")
		return map[string]string{"main.go": "package main\n\n" + imp + "func main() {\n" + indent(body, "\t") + "\n}\n"}
	}
	sh.body = strings.ReplaceAll(sh.body, "@host.", "")
	// templates: the code runs at top level, inside a macro, or inside a rendered file
	block := "{%%\n" + sh.body + "\n%%}"
	switch r.Intn(3) {
	case 0:
		return map[string]string{"index.html": "<p>start</p>\n" + block + "\n<p>end</p>\n"}
	case 1:
		return map[string]string{"index.html": "{% macro M %}<i>m</i>" + block + "{% end %}<p>start</p>{{ M() }}<p>end</p>\n"}
	default:
		return map[string]string{"index.html": "<p>start</p>{{ render \"part.html\" }}<p>end</p>\n", "part.html": "<b>part</b>" + block + "\n"}
	}
}

func (prop) Drive(d *core.Driver) error {
	d.T.Rule = "non-terminating and blocking programs and templates (tight and nested loops, recursion, unbuffered/nil/full channel operations, select with and without default, range over channels, the same inside started goroutines and through function values, at template top level / inside macros / inside rendered files) plus terminating ones; cancellation issued at a seeded VM step count, while blocked, before the start, by deadline, or never. Judged in logical units through the Step and DoneSet hooks. distinct_nontrivial counts distinct (kind, shape, trigger, placement) combinations."
	d.T.Assumptions = []string{"bounded delay is restated as: at most 8 VM instructions per VM after the done flag, and no run parked in a channel operation after the done flag (wall clock is used only to detect quiescence of the step counter)", "native code that blocks by itself is out of scope (no such natives are supplied)"}
	rounds := d.N(3, 40)
	var cases []core.Case
	for round := 0; round < rounds; round++ {
		r := d.Rand(fmt.Sprintf("round-%d", round))
		for si, sh := range shapes(r) {
			for _, kind := range []string{"prog", "tmpl"} {
				var triggers []string
				switch {
				case sh.finishes:
					triggers = []string{"never", "late-step", "step"}
				case sh.blocks:
					triggers = []string{"blocked", "before", "deadline", "step"}
				default:
					triggers = []string{"step", "step", "before", "deadline"}
				}
				for ti, tr := range triggers {
					psh := sh
					pre := prefixes[(round+si+ti)%len(prefixes)]
					psh.body = pre.code + sh.body
					cd := caseData{Kind: kind, Files: makeFiles(kind, psh, r), Shape: sh.name, Prefix: pre.name, Native: sh.native, Trigger: tr, Finishes: sh.finishes}
					switch tr {
					case "step":
						cd.AtStep = int64(1 + r.Intn(40)*(ti+1))
					case "late-step":
						cd.Trigger, cd.AtStep = "step", 1<<40
					}
					cases = append(cases, core.NewCase(fmt.Sprintf("r%d-%s-%s-%s-%s-%d", round, kind, pre.name, sh.name, tr, ti), cd))
				}
			}
		}
	}
	for i := 0; i < 3 && i < len(cases); i++ {
		var cd caseData
		cases[i*37%len(cases)].Decode(&cd)
		d.T.Sample(cd)
	}
	d.Run(cases, core.RunOpts{CaseWall: 2 * time.Minute, Workers: 12, Chunk: 1})
	return nil
}

// hostEach and hostWaitUntil are native functions that keep calling a function
// value of the interpreted code: they never block by themselves, and they
// return only when the callback lets them (or panics).
func hostEach(n int, f func(int)) {
	for i := 0; i < n; i++ {
		f(i)
	}
}

func hostWaitUntil(f func() bool) {
	for !f() {
	}
}

type monitor struct {
	steps     atomic.Int64
	doneAt    atomic.Int64 // value of steps when the done flag was stored (0 = not yet)
	total     atomic.Int64 // instructions executed by all VMs after the done flag was stored
	mu        sync.Mutex
	afterDone map[uintptr]int64
	vms       map[uintptr]bool
	trigger   int64
	cancel    context.CancelFunc
}

func (m *monitor) step(vm uintptr, n uint64) {
	s := m.steps.Add(1)
	if m.trigger > 0 && s == m.trigger && m.cancel != nil {
		m.cancel()
	}
	if m.doneAt.Load() != 0 {
		m.total.Add(1)
		m.mu.Lock()
		m.afterDone[vm]++
		m.mu.Unlock()
	}
}

func (m *monitor) maxAfterDone() (int64, int) {
	m.mu.Lock()
	defer m.mu.Unlock()
	var max int64
	for _, n := range m.afterDone {
		if n > max {
			max = n
		}
	}
	return max, len(m.afterDone)
}

func (prop) Work(c core.Case) core.Result {
	var cd caseData
	c.Decode(&cd)
	mon.Install()
	res := core.Result{Status: core.OK, Counts: map[string]int64{}}
	placement := "main"
	if cd.Kind == "tmpl" {
		switch {
		case strings.Contains(cd.Files["index.html"], "macro M"):
			placement = "macro"
		case len(cd.Files) > 1:
			placement = "rendered-file"
		default:
			placement = "top-level"
		}
	}
	res.Sigs = []string{fmt.Sprintf("%s|%s|%s|%s|%s", cd.Kind, cd.Prefix, cd.Shape, cd.Trigger, placement)}
	fail := func(format string, a ...any) core.Result {
		res.Status = core.Violation
		var src strings.Builder
		for n, s := range cd.Files {
			fmt.Fprintf(&src, "--- %s ---\n%s\n", n, s)
		}
		res.Detail = fmt.Sprintf("shape %s after prefix %s, trigger %s (step %d): ", cd.Shape, cd.Prefix, cd.Trigger, cd.AtStep) + fmt.Sprintf(format, a...) + "\n--- source ---\n" + src.String()
		return res
	}
	files := scriggo.Files{}
	for n, s := range cd.Files {
		files[n] = []byte(s)
	}
	opts := &scriggo.BuildOptions{AllowGoStmt: true}
	if cd.Native {
		decls := native.Declarations{"Each": hostEach, "WaitUntil": hostWaitUntil}
		if cd.Kind == "prog" {
			opts.Packages = native.Packages{"host": native.Package{Name: "host", Declarations: decls}}
		} else {
			opts.Globals = decls
		}
	}
	var run func(ro *scriggo.RunOptions) error
	if cd.Kind == "prog" {
		p, err := scriggo.Build(files, opts)
		if err != nil {
			res.Status, res.Detail = core.Inconclusive, "generated program does not build: "+err.Error()
			return res
		}
		run = func(ro *scriggo.RunOptions) error { return p.Run(ro) }
	} else {
		t, err := scriggo.BuildTemplate(files, "index.html", opts)
		if err != nil {
			res.Status, res.Detail = core.Inconclusive, "generated template does not build: "+err.Error()
			return res
		}
		run = func(ro *scriggo.RunOptions) error { return t.Run(io.Discard, nil, ro) }
	}

	// reference outcome of terminating code, without any context
	var refErr string
	if cd.Finishes {
		mon.SetStepHook(nil)
		mon.SetDoneHook(nil)
		var err error
		v, panicked, _ := core.Guard(func() { err = run(&scriggo.RunOptions{}) })
		if panicked {
			res.Status, res.Detail = core.Skip, fmt.Sprintf("reference run panics into the host (C05 domain): %v", v)
			return res
		}
		refErr = errString(err)
	}

	m := &monitor{afterDone: map[uintptr]int64{}}
	ctx, cancel := context.WithCancel(context.Background())
	defer cancel()
	m.cancel = cancel
	switch cd.Trigger {
	case "step":
		m.trigger = cd.AtStep
	case "before":
		cancel()
	case "deadline":
		var c2 context.CancelFunc
		ctx, c2 = context.WithTimeout(ctx, 3*time.Millisecond)
		defer c2()
	}
	mon.SetStepHook(m.step)
	mon.SetDoneHook(func() {
		if m.doneAt.Load() == 0 {
			s := m.steps.Load()
			if s == 0 {
				s = 1
			}
			m.doneAt.Store(s)
		}
	})
	defer mon.SetStepHook(nil)
	defer mon.SetDoneHook(nil)

	type ret struct {
		err      error
		panicVal any
		panicked bool
	}
	done := make(chan ret, 1)
	go func() {
		var err error
		v, panicked, _ := core.Guard(func() { err = run(&scriggo.RunOptions{Context: ctx}) })
		done <- ret{err, v, panicked}
	}()

	// watchdog: quiescence of the step counter, never a verdict by itself
	var out ret
	returned := false
	last := int64(-1)
	still := 0
	cancelledBlocked := false
	deadline := time.Now().Add(60 * time.Second)
loop:
	for {
		select {
		case out = <-done:
			returned = true
			break loop
		case <-time.After(15 * time.Millisecond):
		}
		select {
		case out = <-done:
			returned = true
			break loop
		default:
		}
		s := m.steps.Load()
		if s == last {
			still++
		} else {
			still = 0
			last = s
		}
		if !cd.Finishes && ctx.Err() == nil && !cancelledBlocked && still >= 3 {
			// the run is parked: now cancel
			cancelledBlocked = true
			cancel()
			still = 0
			continue
		}
		if m.doneAt.Load() != 0 {
			if max, _ := m.maxAfterDone(); max > 5000 || m.total.Load() > totalBound {
				break loop // (a) unbounded work after the done flag
			}
			if still >= 20 {
				break loop // (b) parked after the done flag
			}
		}
		if cd.Trigger == "blocked" && !cancelledBlocked && time.Now().After(deadline.Add(-58*time.Second)) {
			// goroutines keep computing, so the step counter never stands still: cancel now
			cancelledBlocked = true
			cancel()
		}
		if time.Now().After(deadline) {
			break loop
		}
	}
	if !returned {
		select {
		case out = <-done:
			returned = true
		default:
		}
	}
	max, nvms := m.maxAfterDone()
	res.Counts["vm_steps_observed"] = m.steps.Load()
	res.Counts["vms_stepping_after_done"] = int64(nvms)
	if m.doneAt.Load() != 0 {
		res.Counts["runs_with_done_event"] = 1
	}
	if !returned {
		if m.doneAt.Load() == 0 {
			if cd.Finishes || ctx.Err() == nil {
				res.Status, res.Detail = core.Inconclusive, "run neither returned nor was cancelled within the watchdog"
				return res
			}
			// the context is cancelled but the watcher never stored the flag
			return fail("the context is done but the run did not stop: the done flag was never stored (steps=%d)\n%s", m.steps.Load(), scriggoStacks())
		}
		if max > 5000 {
			return fail("a VM executed more than %d instructions after the done flag was set and Run has not returned", max)
		}
		if t := m.total.Load(); t > totalBound {
			return fail("the VMs of the run executed %d instructions after the done flag was set (at most %d each) and Run has not returned: the code goes on in ever new VMs", t, max)
		}
		return fail("Run has not returned although the done flag is set and no VM instruction has been executed for %d samples: the run is parked forever\n%s", still, scriggoStacks())
	}
	if out.panicked {
		return fail("Run panicked into the host: %v", out.panicVal)
	}
	// (d) code that finished by itself
	if cd.Finishes && ctx.Err() == nil {
		if got := errString(out.err); got != refErr {
			return fail("the code finished before any cancellation but Run returned %q instead of its own outcome %q", got, refErr)
		}
		res.Counts["finished_before_cancellation"] = 1
		return res
	}
	if m.doneAt.Load() == 0 && ctx.Err() == nil {
		// returned without cancellation: only terminating code may do that
		if !cd.Finishes {
			return fail("non-terminating code returned %v without any cancellation", out.err)
		}
		return res
	}
	// (a) bounded work after the done flag
	if max > stepBound {
		return fail("a VM executed %d instructions after the done flag was set (bound %d)", max, stepBound)
	}
	// (c) the context's error
	if cd.Finishes {
		// a race between finishing and cancelling: either outcome is right
		if got := errString(out.err); got != refErr && out.err != ctx.Err() {
			return fail("Run returned %q: neither the code's own outcome %q nor the context's error %v", got, refErr, ctx.Err())
		}
		return res
	}
	if out.err != ctx.Err() {
		return fail("Run returned %v (%T) instead of the context's error %v", out.err, out.err, ctx.Err())
	}
	res.Counts["cancelled_runs_returning_ctx_err"] = 1
	res.Counts["max_steps_after_done"] = max
	return res
}

func errString(err error) string {
	if err == nil {
		return "<nil>"
	}
	return fmt.Sprintf("%T: %v", err, err)
}

// scriggoStacks returns the stacks of the goroutines that are inside the VM.
func scriggoStacks() string {
	buf := make([]byte, 1<<20)
	n := runtime.Stack(buf, true)
	var out []string
	for _, g := range strings.Split(string(buf[:n]), "\n\n") {
		if strings.Contains(g, "internal/runtime.(*VM).run") {
			lines := strings.Split(g, "\n")
			if len(lines) > 7 {
				lines = lines[:7]
			}
			out = append(out, strings.Join(lines, "\n"))
		}
	}
	if len(out) > 4 {
		out = out[:4]
	}
	return strings.Join(out, "\n\n")
}
