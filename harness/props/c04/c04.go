// Package c04 checks that building never crashes, hangs or leaks, whatever the
// source bytes: scriggo.Build and scriggo.BuildTemplate for every format and
// multi-file sets, Program.Disassemble and Template.Disassemble(n), n in {-1,0,7}.
//
// Monitors (all runtime observations of the real code):
//   - journal-based crash attribution by the core (a lexer panic happens in the
//     lexer's own goroutine and kills the worker child): status "crash";
//   - host-panic sentinel (core.Guard) around every API call;
//   - goroutine census after every API call: a goroutine with a
//     compiler.(*lexer).scan frame that is still there after the call returned and
//     is parked in "chan send" is a leak (state-based; a still running one is
//     re-sampled after Gosched / short sleeps);
//   - CPU budget: an input of at most 8 KiB that uses more than 30 CPU-seconds on
//     a solo re-run is a hang; so is a state in which every goroutine with a scriggo
//     frame is parked while the API call is still on the stack. The wall-clock
//     watchdog firing alone is inconclusive;
//   - race detector on a portion of the inputs (lexer goroutine and parser share
//     state through a channel).
package c04

import (
	"encoding/json"
	"errors"
	"fmt"
	"os"
	"regexp"
	"runtime"
	"sort"
	"strings"
	"syscall"
	"time"

	"github.com/open2b/scriggo"

	"verif/core"
	"verif/gen/bytesgen"
)

type prop struct{}

func init() { core.Register(prop{}) }

func (prop) ID() string    { return "C04" }
func (prop) Level() string { return "exploration" }

// caseData is one worker case: a batch of inputs.
type caseData struct {
	Inputs []bytesgen.Input `json:"inputs"`
	// Solo runs the (single) input with the CPU-budget / parked-state monitor: the
	// API calls run in their own goroutine while the case goroutine samples.
	Solo bool `json:"solo,omitempty"`
	// Race asks for the race-detector build (used by replays).
	Race bool `json:"race,omitempty"`
	// BudgetMS overrides the CPU budget (tests of the monitor only).
	BudgetMS int64 `json:"budget_ms,omitempty"`
}

// flagged is one violating (or inconclusive) input of a batch, reported to the driver.
type flagged struct {
	Index  int    `json:"index"`
	Status string `json:"status"`
	Kind   string `json:"kind"`
	Sig    string `json:"sig"` // defect class: kind + panic site + message class
	Detail string `json:"detail"`
}

type workOut struct {
	Flagged []flagged `json:"flagged,omitempty"`
	MaxMS   int64     `json:"max_ms,omitempty"` // largest per-input CPU time seen (ms)
	MaxIdx  int       `json:"max_idx,omitempty"`
}

const (
	cpuBudgetMS   = 30000   // > 30 CPU-s for an input ≤ 8 KiB = hang
	budgetSize    = 8 << 10 // inputs up to this size are covered by the CPU budget
	suspectMS     = 3000    // a single input above this is re-measured solo
	batchSize     = 20
	raceBatchSize = 10
)

var (
	natives = bytesgen.Packages()
	globals = bytesgen.Globals()
)

// ---------------------------------------------------------------- worker side

type worker struct {
	leaked  map[int]bool // lexer goroutines already reported (they never go away)
	counts  map[string]int64
	sigs    map[string]struct{}
	flagged []flagged
}

func (prop) Work(c core.Case) core.Result {
	bytesgen.LimitAddressSpace()
	bytesgen.LimitStack()
	var cd caseData
	c.Decode(&cd)
	w := &worker{leaked: leakedIDs, counts: map[string]int64{}, sigs: map[string]struct{}{}}
	var out workOut
	for i := range cd.Inputs {
		in := &cd.Inputs[i]
		t0 := cpuMillis()
		// every input runs under the hang monitor; in a batch a hang verdict ends
		// the child (the driver re-queues the other inputs of the batch)
		w.runSolo(i, in, cd.BudgetMS, !cd.Solo && len(cd.Inputs) > 1)
		if ms := cpuMillis() - t0; ms > out.MaxMS {
			out.MaxMS, out.MaxIdx = ms, i
		}
	}
	res := core.Result{Status: core.OK, Evals: int64(len(cd.Inputs)), Counts: w.counts}
	for s := range w.sigs {
		res.Sigs = append(res.Sigs, s)
	}
	sort.Strings(res.Sigs)
	out.Flagged = w.flagged
	for _, f := range w.flagged {
		if f.Status == core.Violation {
			res.Status = core.Violation
			res.Detail = f.Detail
			break
		}
	}
	if res.Status == core.OK && len(w.flagged) > 0 {
		res.Status = core.Inconclusive
		res.Detail = w.flagged[0].Detail
	}
	res.Out = core.MustJSON(out)
	return res
}

// leakedIDs survives across the cases of one worker child: a leaked goroutine
// stays forever and must be attributed to the first input after which it is seen.
var leakedIDs = map[int]bool{}

func (w *worker) flag(i int, status, kind, sig, detail string) {
	w.flagged = append(w.flagged, flagged{Index: i, Status: status, Kind: kind, Sig: kind + ":" + sig, Detail: detail})
}

var msgDigits = regexp.MustCompile(`[0-9]+`)
var msgQuoted = regexp.MustCompile("\"[^\"]*\"|'[^']*'|`[^`]*`|U\\+[0-9A-F]+")

// msgClass reduces an error message to a class (quoted parts, numbers removed).
func msgClass(m string) string {
	m = msgQuoted.ReplaceAllString(m, "Q")
	m = msgDigits.ReplaceAllString(m, "N")
	if len(m) > 48 {
		m = m[:48]
	}
	return m
}

func famClass(f string) string {
	if i := strings.IndexByte(f, ':'); i >= 0 {
		return f[:i]
	}
	return f
}

// apiCalls runs every API call of one input under the sentinel and, after each
// call, the census hook. It returns a description of the outcome.
func (w *worker) apiCalls(i int, in *bytesgen.Input, afterCall func(api string) bool) {
	fsys := bytesgen.NewRecFS(in.Files)
	opts := &scriggo.BuildOptions{Packages: natives, AllowGoStmt: true}
	outcome := "ok"
	guard := func(api string, f func()) bool {
		w.counts["api_calls"]++
		v, panicked, stack := core.Guard(f)
		if panicked {
			w.flag(i, core.Violation, "panic", panicSig(fmt.Sprint(v), stack), fmt.Sprintf("%s panicked: %v\ninput: %s\n%s", api, v, in.Describe(600), core.Truncate(stack, 3000)))
			w.counts["host_panics"]++
			return false
		}
		return afterCall(api)
	}
	classify := func(err error) {
		var be *scriggo.BuildError
		if errors.As(err, &be) {
			outcome = "builderror:" + msgClass(be.Message())
			w.counts["build_errors"]++
		} else {
			outcome = "error:" + msgClass(err.Error())
			w.counts["other_errors"]++
		}
	}
	if in.Kind == "program" {
		var p *scriggo.Program
		var err error
		w.counts["builds_program"]++
		if !guard("scriggo.Build", func() { p, err = scriggo.Build(fsys, opts) }) {
			return
		}
		if err != nil {
			classify(err)
		} else if p != nil {
			w.counts["build_ok"]++
			var asm []byte
			if !guard("Program.Disassemble(main)", func() { asm, _ = p.Disassemble("main") }) {
				return
			}
			w.counts["disassembled"]++
			w.counts["disassembly_bytes"] += int64(len(asm))
			// other packages of a multi-package program
			for _, f := range in.Files {
				if strings.HasSuffix(f.Name, ".go") && strings.Contains(f.Name, "/") {
					dir := f.Name[:strings.LastIndexByte(f.Name, '/')]
					if !guard("Program.Disassemble(pkg)", func() { p.Disassemble("mod/" + dir); p.Disassemble(dir) }) {
						return
					}
				}
			}
		}
	} else {
		opts.Globals = globals
		opts.NoParseShortShowStmt = in.NoParseShow
		var t *scriggo.Template
		var err error
		w.counts["builds_template"]++
		if !guard("scriggo.BuildTemplate", func() { t, err = scriggo.BuildTemplate(fsys, in.Main, opts) }) {
			return
		}
		if err != nil {
			classify(err)
		} else if t != nil {
			w.counts["build_ok"]++
			for _, n := range []int{-1, 0, 7} {
				var asm []byte
				if !guard(fmt.Sprintf("Template.Disassemble(%d)", n), func() { asm = t.Disassemble(n) }) {
					return
				}
				w.counts["disassembled"]++
				w.counts["disassembly_bytes"] += int64(len(asm))
			}
		}
	}
	nf := "1file"
	if len(in.Files) > 1 {
		nf = "multi"
	}
	w.sigs[core.SigJoin(in.Ext(), nf, outcome)] = struct{}{}
	w.counts["fam_"+famClass(in.Fam)]++
	if in.Size() <= budgetSize {
		w.counts["inputs_le_8KiB"]++
	}
}

// census is the goroutine census after an API call returned.
// It returns false when a leak was flagged.
func (w *worker) census(i int, in *bytesgen.Input, api string) bool {
	w.counts["census_samples"]++
	sawChanSend := 0
	for attempt := 0; attempt < 400; attempt++ {
		gs := lexerGoroutines(w.leaked)
		if len(gs) == 0 {
			return true
		}
		w.counts["lexer_goroutines_seen_after_return"]++
		parkedSend := true
		for _, g := range gs {
			if !g.InChanSend() {
				parkedSend = false
			}
		}
		if parkedSend {
			sawChanSend++
			if sawChanSend >= 2 { // two consecutive samples: nobody can receive any more, the API has returned
				for _, g := range gs {
					w.leaked[g.ID] = true
				}
				w.counts["leaked_lexer_goroutines"] += int64(len(gs))
				w.flag(i, core.Violation, "leak", api, fmt.Sprintf("lexer goroutine still parked in chan send after %s returned (leak)\ninput: %s\n%s", api, in.Describe(600), core.Truncate(gs[0].Stack, 1500)))
				return false
			}
		} else {
			sawChanSend = 0
		}
		runtime.Gosched()
		if attempt > 20 {
			time.Sleep(time.Duration(attempt) * 20 * time.Microsecond)
		}
	}
	gs := lexerGoroutines(w.leaked)
	if len(gs) == 0 {
		return true
	}
	for _, g := range gs {
		w.leaked[g.ID] = true
	}
	// still there and not parked in chan send after ~1.6 s of re-sampling: a lexer
	// that keeps running. Not decided by time: reported as inconclusive; the CPU
	// budget decides hangs.
	w.flag(i, core.Inconclusive, "lexer-running", api, fmt.Sprintf("lexer goroutine still present (state %q) after %s returned and 400 re-samples\ninput: %s\n%s", gs[0].State, api, in.Describe(600), core.Truncate(gs[0].Stack, 1500)))
	return false
}

func (w *worker) runInput(i int, in *bytesgen.Input) {
	w.apiCalls(i, in, func(api string) bool { return w.census(i, in, api) })
}

// hangMarker introduces, on the child's stderr, the verdict of the hang monitor
// of a batch case: the child then exits (it still hosts the hanging call) and the
// driver reads the verdict from the crash report.
const hangMarker = "C04-HANG-VERDICT "

// giveUp ends the worker child after a hang verdict in a batch case.
func giveUp(f flagged) {
	f.Detail = core.Truncate(f.Detail, 1800)
	b, _ := json.Marshal(f)
	fmt.Fprintf(os.Stderr, "\n%s%s\n", hangMarker, b)
	os.Exit(4)
}

// runSolo runs the API calls of one input in their own goroutine and samples CPU
// time and goroutine states from the case goroutine. With exitOnHang (batch
// cases) a hang verdict ends the child, see giveUp.
func (w *worker) runSolo(i int, in *bytesgen.Input, budget int64, exitOnHang bool) {
	if budget <= 0 {
		budget = cpuBudgetMS
	}
	done := make(chan struct{})
	start := cpuMillis()
	// the API goroutine works on its own state; it is merged only if it finishes,
	// so an abandoned (hanging) call never shares memory with the monitor
	sub := &worker{leaked: map[int]bool{}, counts: map[string]int64{}, sigs: map[string]struct{}{}}
	for id := range w.leaked {
		sub.leaked[id] = true
	}
	go func() {
		defer close(done)
		sub.runInput(i, in)
	}()
	tick := time.NewTicker(25 * time.Millisecond)
	defer tick.Stop()
	parkedRun := 0
	for {
		select {
		case <-done:
			w.counts["solo_runs"]++
			for k, v := range sub.counts {
				w.counts[k] += v
			}
			for k := range sub.sigs {
				w.sigs[k] = struct{}{}
			}
			for id := range sub.leaked {
				w.leaked[id] = true
			}
			w.flagged = append(w.flagged, sub.flagged...)
			return
		case <-tick.C:
		}
		now := cpuMillis()
		if used := now - start; used > budget {
			w.counts["cpu_budget_exhausted"]++
			st, full := "", ""
			for _, g := range allGoroutines() {
				if strings.Contains(g.Stack, scriggoMark) {
					st += core.Truncate(g.Stack, 1200) + "\n\n"
					full += g.Stack + "\n\n"
				}
			}
			site := hangSite(full) // from the whole stacks: the innermost frames may be deep in math/big
			if in.Size() <= budgetSize {
				w.flag(i, core.Violation, "cpu", site, fmt.Sprintf("build still running after %d CPU-ms (budget %d ms) for an input of %d bytes\ninput: %s\n%s", used, budget, in.Size(), in.Describe(600), core.Truncate(st, 3000)))
			} else {
				w.flag(i, core.Inconclusive, "cpu", site, fmt.Sprintf("build still running after %d CPU-ms for an input of %d bytes (> 8 KiB: outside the budget claim)", used, in.Size()))
			}
			if exitOnHang {
				giveUp(w.flagged[len(w.flagged)-1])
			}
			return
		}
		// parked-forever: every goroutine with a scriggo frame is waiting (none is
		// running, runnable or in a system call). Building uses no timers and no
		// goroutines other than the lexer's, so nothing can wake them up.
		var sg []gor
		allParked := true
		for _, g := range allGoroutines() {
			if strings.Contains(g.Stack, scriggoMark) && !strings.Contains(g.Stack, "c04.(*worker).runSolo(") {
				sg = append(sg, g)
				if !g.Parked() {
					allParked = false
				}
			}
		}
		if len(sg) > 0 && allParked {
			parkedRun++
		} else {
			parkedRun = 0
		}
		if parkedRun >= 120 { // 120 consecutive samples (3 s)
			st := ""
			for _, g := range sg {
				st += core.Truncate(g.Stack, 1200) + "\n\n"
			}
			w.flag(i, core.Violation, "parked", hangSite(st), fmt.Sprintf("every goroutine with a scriggo frame is parked and the API call has not returned (120 consecutive samples 25 ms apart)\ninput: %s\n%s", in.Describe(600), core.Truncate(st, 3000)))
			if exitOnHang {
				giveUp(w.flagged[len(w.flagged)-1])
			}
			return
		}
	}
}

func cpuMillis() int64 {
	var ru syscall.Rusage
	if syscall.Getrusage(syscall.RUSAGE_SELF, &ru) != nil {
		return 0
	}
	return (ru.Utime.Sec+ru.Stime.Sec)*1000 + int64(ru.Utime.Usec+ru.Stime.Usec)/1000
}
