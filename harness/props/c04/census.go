package c04

import (
	"runtime"
	"strconv"
	"strings"
)

// gor is one goroutine of a runtime.Stack(all) dump.
type gor struct {
	ID    int
	State string // text between the brackets of the header, e.g. "chan send" or "chan send, 2 minutes"
	Stack string
}

// Parked reports whether the goroutine is in a waiting state (not running, not
// runnable, not in a system call).
func (g gor) Parked() bool {
	s := g.State
	if i := strings.IndexByte(s, ','); i >= 0 {
		s = s[:i]
	}
	switch s {
	case "running", "runnable", "syscall", "copystack", "preempted":
		return false
	}
	return true
}

// InChanSend reports whether the goroutine is parked in a channel send.
func (g gor) InChanSend() bool {
	return strings.HasPrefix(g.State, "chan send")
}

// parseStacks parses the output of runtime.Stack(buf, true).
func parseStacks(dump string) []gor {
	var out []gor
	for _, blk := range strings.Split(dump, "\n\n") {
		blk = strings.TrimLeft(blk, "\n")
		if !strings.HasPrefix(blk, "goroutine ") {
			continue
		}
		nl := strings.IndexByte(blk, '\n')
		hdr := blk
		if nl >= 0 {
			hdr = blk[:nl]
		}
		rest := hdr[len("goroutine "):]
		sp := strings.IndexByte(rest, ' ')
		if sp < 0 {
			continue
		}
		id, err := strconv.Atoi(rest[:sp])
		if err != nil {
			continue
		}
		state := ""
		if lb := strings.IndexByte(rest, '['); lb >= 0 {
			if rb := strings.LastIndexByte(rest, ']'); rb > lb {
				state = rest[lb+1 : rb]
			}
		}
		out = append(out, gor{ID: id, State: state, Stack: blk})
	}
	return out
}

// lexerMark is the frame prefix identifying scriggo's lexer goroutine.
const lexerMark = "compiler.(*lexer)"

// scriggoMark identifies any frame of the code under test.
const scriggoMark = "github.com/open2b/scriggo"

var stackBuf = make([]byte, 1<<20)

// allGoroutines dumps and parses all goroutines of the process.
func allGoroutines() []gor {
	for {
		n := runtime.Stack(stackBuf, true)
		if n < len(stackBuf) {
			return parseStacks(string(stackBuf[:n]))
		}
		stackBuf = make([]byte, 2*len(stackBuf))
	}
}

// lexerGoroutines returns the goroutines with a lexer frame, skipping ids in skip.
func lexerGoroutines(skip map[int]bool) []gor {
	var out []gor
	for _, g := range allGoroutines() {
		if skip[g.ID] {
			continue
		}
		if strings.Contains(g.Stack, lexerMark) {
			out = append(out, g)
		}
	}
	return out
}
