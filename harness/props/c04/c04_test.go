package c04

import (
	"runtime"
	"strings"
	"testing"
	"time"
	"verif/gen/bytesgen"
)

const dump = `goroutine 1 [running]:
main.main()
	/x/main.go:10 +0x20

goroutine 23 [chan send]:
github.com/open2b/scriggo/internal/compiler.(*lexer).emitAtLineColumn(0xc000402000, 0x1, 0x1, 0x2, 0x3)
	/repo/internal/compiler/lexer.go:145 +0x1b6
github.com/open2b/scriggo/internal/compiler.(*lexer).scan(0xc000402000)
	/repo/internal/compiler/lexer.go:442 +0x1b68
created by github.com/open2b/scriggo/internal/compiler.scanTemplate in goroutine 4
	/repo/internal/compiler/lexer.go:52 +0x138

goroutine 24 [chan receive, 2 minutes]:
github.com/open2b/scriggo/internal/compiler.(*parsing).next(...)
	/repo/internal/compiler/parser.go:166
created by x in goroutine 1

goroutine 30 gp=0xc0000036c0 m=0 mp=0xc7a240 [runnable]:
github.com/open2b/scriggo/internal/compiler.(*lexer).scan(0xc000402000)
	/repo/internal/compiler/lexer.go:300 +0x1
`

func TestParseStacks(t *testing.T) {
	gs := parseStacks(dump)
	if len(gs) != 4 {
		t.Fatalf("got %d goroutines, want 4", len(gs))
	}
	if gs[1].ID != 23 || !gs[1].InChanSend() || !gs[1].Parked() || !strings.Contains(gs[1].Stack, lexerMark) {
		t.Errorf("goroutine 23 misparsed: %+v", gs[1])
	}
	if gs[0].Parked() || gs[0].InChanSend() {
		t.Errorf("running goroutine reported as parked")
	}
	if !gs[2].Parked() || gs[2].InChanSend() || gs[2].State != "chan receive, 2 minutes" {
		t.Errorf("goroutine 24 misparsed: %+v", gs[2])
	}
	if gs[3].ID != 30 || gs[3].Parked() {
		t.Errorf("goroutine 30 (extended header) misparsed: %+v", gs[3])
	}
}

// TestCensusSeesParkedSender checks the census on a real goroutine of this
// process: a sender on a channel nobody reads must show up as "chan send".
func TestCensusSeesRealStates(t *testing.T) {
	ch := make(chan int)
	go func() { ch <- 1 }()
	deadline := time.Now().Add(5 * time.Second)
	for {
		found := false
		for _, g := range allGoroutines() {
			if strings.Contains(g.Stack, "TestCensusSeesRealStates.func1") && g.InChanSend() {
				found = true
			}
		}
		if found {
			break
		}
		if time.Now().After(deadline) {
			t.Fatal("parked sender not seen in chan send state")
		}
		runtime.Gosched()
	}
	<-ch
	if len(lexerGoroutines(nil)) != 0 {
		t.Error("lexer goroutines reported in a process that never built anything")
	}
}

func TestSigs(t *testing.T) {
	stack := `goroutine 1 [running]:
runtime/debug.Stack()
	/go/src/runtime/debug/stack.go:26 +0x5e
verif/core.Guard.func1()
	/verif/harness/core/worker.go:125 +0x4b
panic({0x8a0de0?, 0xc00002a780?})
	/go/src/runtime/panic.go:783 +0x132
github.com/open2b/scriggo/internal/compiler.ParseTemplateSource.func1()
	/repo/internal/compiler/parser.go:262 +0x11d
panic({0x800500?, 0xbb3f00?})
	/go/src/runtime/panic.go:783 +0x132
github.com/open2b/scriggo/internal/compiler.(*parsing).parseAssignment(0xc000574cf8, {0x0, 0x0, 0x0})
	/repo/internal/compiler/parser.go:1785 +0xa25
github.com/open2b/scriggo/internal/compiler.(*parsing).parseSwitch(0xc000574cf8)
	/repo/internal/compiler/parser_switch.go:106 +0x36f
`
	got := panicSig("runtime error: index out of range [0] with length 0", stack)
	want := "compiler.(*parsing).parseAssignment:runtime error: index out of range [N] with length N"
	if got != want {
		t.Errorf("panicSig = %q, want %q", got, want)
	}
	stderr := `worker child died (exit 2) while running this case
panic: runtime error: slice bounds out of range [14:3]

goroutine 23 [running]:
github.com/open2b/scriggo/internal/compiler.(*lexer).scan(0xc000402000)
	/repo/internal/compiler/lexer.go:442 +0x1b68
created by github.com/open2b/scriggo/internal/compiler.scanTemplate in goroutine 4
`
	got = crashSig(stderr)
	want = "compiler.(*lexer).scan:panic: runtime error: slice bounds out of range [N:N]"
	if got != want {
		t.Errorf("crashSig = %q, want %q", got, want)
	}
	oom := `runtime: out of memory: cannot allocate 34359738368-byte block (7995392 in use)
fatal error: out of memory

goroutine 1 gp=0xc000002380 m=0 mp=0xc7a240 [running]:
runtime.throw({0x8d0baa?, 0x7f54a2dc0c68?})
	/go/src/runtime/panic.go:1094 +0x48 fp=0xc00025c8a8 sp=0xc00025c878 pc=0x47cae8
reflect.Zero({0x983450?, 0xc00021c7d0})
	/go/src/reflect/value.go:3073 +0x69 fp=0xc00025c9d8 sp=0xc00025c9a8 pc=0x4bfc69
github.com/open2b/scriggo/internal/compiler/types.(*Types).Zero(0x47a7c5?, {0x983450?, 0xc00021c7d0?})
	/repo/internal/compiler/types/types.go:49 +0x5c fp=0xc00025ca00 sp=0xc00025c9d8 pc=0x5b0b1c
`
	got = crashSig(oom)
	want = "compiler/types.(*Types).Zero:runtime: out of memory: cannot allocate N-byte block (N in use)"
	if got != want {
		t.Errorf("crashSig(oom) = %q, want %q", got, want)
	}
}

func TestHugeArray(t *testing.T) {
	for src, want := range map[string]bool{
		"var b [LARGE]int":         true,
		"var b [1<<32]int":         true,
		"var b [1 << 40]byte":      true,
		"var b [10000000000]byte":  true,
		"var b [10]int":            false,
		"x := a[1<<3]":             false,
		"var b [1<<20]int":         false,
		"{{ a[i] }} [x](http://y)": false,
	} {
		in := bytesgen.Input{Files: []bytesgen.File{{Name: "main.go", Data: []byte(src)}}}
		if got := hugeArray(&in); got != want {
			t.Errorf("hugeArray(%q) = %v, want %v", src, got, want)
		}
	}
}

func TestRaceSig(t *testing.T) {
	rep := `WARNING: DATA RACE
Write at 0x00c0001a2058 by goroutine 7:
  github.com/open2b/scriggo/internal/compiler.(*lexer).Stop()
      /repo/internal/compiler/lexer.go:68 +0x3a
  github.com/open2b/scriggo/internal/compiler.parseSource.func1()
      /repo/internal/compiler/parser.go:191 +0x44

Previous read at 0x00c0001a2058 by goroutine 8:
  runtime.chansend1()
      /go/src/runtime/chan.go:161 +0x0
  github.com/open2b/scriggo/internal/compiler.(*lexer).emitAtLineColumn()
      /repo/internal/compiler/lexer.go:135 +0x12d

Goroutine 7 (running) created at:
  main.main()
`
	want := "compiler.(*lexer).Stop|compiler.(*lexer).emitAtLineColumn"
	if got := raceSig(rep); got != want {
		t.Errorf("raceSig = %q, want %q", got, want)
	}
}
