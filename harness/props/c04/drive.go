package c04

import (
	"encoding/json"
	"fmt"
	"os"
	"regexp"
	"sort"
	"strings"
	"time"

	"verif/core"
	"verif/gen/bytesgen"
)

// agg collects the violations of one defect class (kind + site + message class).
// One witness per class is reported: the smallest input.
type agg struct {
	sig     string
	n       int
	size    int
	witness core.Case
	detail  string
	status  string
}

type driver struct {
	p    prop
	d    *core.Driver
	aggs map[string]*agg
}

func (dr *driver) add(sig, status, detail string, witness core.Case, size int) {
	a := dr.aggs[sig]
	if a == nil {
		a = &agg{sig: sig, size: 1 << 30}
		dr.aggs[sig] = a
	}
	a.n++
	if size < a.size {
		a.size, a.witness, a.detail, a.status = size, witness, detail, status
	}
}

func mkCases(prefix string, inputs []bytesgen.Input, size int, race bool) []core.Case {
	var cases []core.Case
	for lo := 0; lo < len(inputs); lo += size {
		hi := min(lo+size, len(inputs))
		cases = append(cases, core.NewCase(fmt.Sprintf("%s-%d", prefix, lo/size), caseData{Inputs: inputs[lo:hi], Race: race}))
	}
	return cases
}

func soloCase(id string, in bytesgen.Input, monitor, race bool) core.Case {
	return core.NewCase(id, caseData{Inputs: []bytesgen.Input{in}, Solo: monitor, Race: race})
}

// collectFlagged files the flagged inputs of a worker result under their classes.
func (dr *driver) collectFlagged(c core.Case, cd *caseData, out *workOut, race bool) {
	for _, f := range out.Flagged {
		if f.Index >= len(cd.Inputs) {
			continue
		}
		in := cd.Inputs[f.Index]
		monitor := f.Kind == "cpu" || f.Kind == "parked"
		w := soloCase(fmt.Sprintf("%s-i%d", c.ID, f.Index), in, monitor, race)
		if f.Status == core.Violation {
			dr.add(f.Sig, core.Violation, f.Detail, w, in.Size())
		} else {
			dr.d.Judge(w, core.Result{ID: w.ID, Status: core.Inconclusive, Detail: f.Detail})
		}
	}
}

// judge turns the raw result of a case into tallies and class aggregates.
// Batches that died or timed out are split into single-input cases, each run in
// its own child under the CPU-budget / parked-state monitor.
func (dr *driver) judge(c core.Case, r core.Result, race bool) {
	d := dr.d
	var cd caseData
	c.Decode(&cd)
	var out workOut
	if len(r.Out) > 0 {
		json.Unmarshal(r.Out, &out)
	}
	r.Out = nil
	if r.Races > 0 {
		// races are filed under their own classes (two conflicting access sites);
		// the report is then removed so that the core does not report it again
		dr.judgeRaces(c, &r)
		d.T.Count("race_reports", int64(r.Races))
		r.Races, r.Race = 0, ""
	}
	switch r.Status {
	case core.OK, core.Violation, core.Inconclusive:
		dr.collectFlagged(c, &cd, &out, race)
		if out.MaxMS > suspectMS && !cd.Solo && len(cd.Inputs) > 0 {
			// re-measure the slowest input alone under the CPU-budget monitor
			d.T.Count("cpu_suspects_remeasured", 1)
			sc := soloCase(fmt.Sprintf("%s-i%d-cpu", c.ID, out.MaxIdx), cd.Inputs[out.MaxIdx], true, false)
			sr := d.Run([]core.Case{sc}, core.RunOpts{Workers: 1, Chunk: 1, NoTally: true, CaseWall: 200 * time.Second})[0]
			dr.judge(sc, sr, false)
		}
		r.Status, r.Detail = core.OK, ""
		d.Judge(c, r)
	case core.Crash, core.Timeout, "":
		if len(cd.Inputs) == 1 {
			in := cd.Inputs[0]
			switch {
			case r.Status == core.Crash:
				sig := "crash:" + crashSig(r.Detail)
				if strings.Contains(r.Detail, "goroutine stack exceeds") && inputNesting(&in) > safeNesting {
					// unbounded recursion on a deeply nested source: the class of open
					// finding C04-F36 is structural (nesting depth), not the frame that
					// happened to overflow; a stack overflow on a shallow source is not covered
					sig = stackScope
				}
				dr.add(sig, core.Crash, r.Detail+"\ninput: "+in.Describe(600), soloCase(c.ID, in, false, race), in.Size())
				d.T.Eval(1)
			case !cd.Solo:
				// decide the hang under the monitor, not by the watchdog
				sc := soloCase(c.ID+"-mon", in, true, race)
				sr := d.Run([]core.Case{sc}, core.RunOpts{Workers: 1, Chunk: 1, NoTally: true, Race: race, CaseWall: 200 * time.Second})[0]
				dr.judge(sc, sr, race)
			default:
				d.T.Count("watchdog_only", 1)
				d.Judge(c, r) // inconclusive
			}
			return
		}
		if i := strings.Index(r.Detail, hangMarker); r.Status == core.Crash && i >= 0 {
			// the hang monitor of the batch gave its verdict and ended the child:
			// file the verdict and run the other inputs of the batch again
			var f flagged
			line := r.Detail[i+len(hangMarker):]
			if nl := strings.IndexByte(line, '\n'); nl >= 0 {
				line = line[:nl]
			}
			if json.Unmarshal([]byte(line), &f) == nil && f.Index < len(cd.Inputs) {
				d.T.Count("hang_verdicts_in_batches", 1)
				dr.collectFlagged(c, &cd, &workOut{Flagged: []flagged{f}}, race)
				d.T.Eval(1)
				rest := append(append([]bytesgen.Input(nil), cd.Inputs[:f.Index]...), cd.Inputs[f.Index+1:]...)
				if len(rest) > 0 {
					rc := core.NewCase(c.ID+"+", caseData{Inputs: rest, Race: race})
					rr := d.Run([]core.Case{rc}, core.RunOpts{Workers: 1, NoTally: true, Race: race, CaseWall: 60 * time.Second})[0]
					dr.judge(rc, rr, race)
				}
				return
			}
		}
		d.T.Count("batches_split_after_crash_or_timeout", 1)
		var solos []core.Case
		for i := range cd.Inputs {
			solos = append(solos, soloCase(fmt.Sprintf("%s-i%d", c.ID, i), cd.Inputs[i], true, race))
		}
		srs := d.Run(solos, core.RunOpts{NoTally: true, Race: race, Chunk: 1, CaseWall: 200 * time.Second})
		found := false
		for i, sr := range srs {
			if sr.Status != core.OK {
				found = true
			}
			dr.judge(solos[i], sr, race)
		}
		if !found {
			// not reproduced alone: the batch result stands (a crash is still a process death)
			if r.Status == core.Crash {
				dr.add("crash-in-batch:"+crashSig(r.Detail), core.Crash, r.Detail, c, 1<<20)
			} else {
				d.T.Count("watchdog_only", 1)
				debugDump(c, r)
				d.Judge(c, r)
			}
		}
	default:
		d.Judge(c, r)
	}
}

// judgeRaces converts race reports with a scriggo frame into violation classes.
func (dr *driver) judgeRaces(c core.Case, r *core.Result) {
	for _, rep := range strings.Split(r.Race, "==================") {
		if !strings.Contains(rep, "WARNING: DATA RACE") {
			continue
		}
		dr.d.T.Count("race_reports_seen", 1)
		if !strings.Contains(rep, scriggoMark) {
			continue
		}
		dr.add("race:"+raceSig(rep), core.Violation, "data race reported in scriggo code during Build/BuildTemplate\n"+core.Truncate(rep, 5000), c, 1<<20)
	}
}

// runAll runs the cases and judges the results. Outside the race portion two
// thirds of the cases run with GOMAXPROCS=1 (lexer and parser goroutines hand
// over on one thread: 2.5 times the throughput) and one third with GOMAXPROCS=2
// (lexer and parser really in parallel); the race portion runs with 4.
func (dr *driver) runAll(cases []core.Case, race bool) {
	if race {
		rs := dr.d.Run(cases, core.RunOpts{NoTally: true, Race: true, CaseWall: 150 * time.Second, GOMAXPROCS: 4})
		for i := range rs {
			dr.judge(cases[i], rs[i], true)
		}
		return
	}
	cut := len(cases) * 2 / 3
	for part, procs := range []int{1, 2} {
		cs := cases[:cut]
		if part == 1 {
			cs = cases[cut:]
		}
		rs := dr.d.Run(cs, core.RunOpts{NoTally: true, CaseWall: 60 * time.Second, GOMAXPROCS: procs})
		for i := range rs {
			dr.judge(cs[i], rs[i], false)
		}
	}
}

// report emits one violation per defect class that is not covered by an open
// known finding (scope = the class signature).
func (dr *driver) report() {
	var sigs []string
	for s := range dr.aggs {
		sigs = append(sigs, s)
	}
	sort.Strings(sigs)
	classes := map[string]int{}
	for _, s := range sigs {
		a := dr.aggs[s]
		classes[s] = a.n
		if dr.d.InScope(s) {
			dr.d.T.Count("covered_by_open_finding", int64(a.n))
			continue
		}
		det := fmt.Sprintf("[class %s] %d inputs of this class in the sweep; smallest witness:\n%s", s, a.n, a.detail)
		dr.d.ReportViolation(a.witness, core.Result{ID: a.witness.ID, Status: a.status, Detail: det})
	}
	dr.d.T.Set("violation_classes", classes)
}

// ReplayCase implements core.Replayer: replays run with the same monitors.
func (p prop) ReplayCase(d *core.Driver, c core.Case) core.Result {
	var cd caseData
	c.Decode(&cd)
	o := core.RunOpts{Workers: 1, Chunk: 1, NoTally: true, Race: cd.Race, CaseWall: 200 * time.Second}
	r := d.Run([]core.Case{c}, o)[0]
	if r.Status == core.Timeout && !cd.Solo && len(cd.Inputs) == 1 {
		// decide a hang by CPU budget / parked state, not by the watchdog
		cd.Solo = true
		r = d.Run([]core.Case{core.NewCase(c.ID, cd)}, o)[0]
	}
	if cd.Race && r.Races > 0 && strings.Contains(r.Race, scriggoMark) && r.Status == core.OK {
		r.Status = core.Violation
		r.Detail = "data race reported in scriggo code\n" + core.Truncate(r.Race, 5000)
	}
	return r
}

func (p prop) Drive(d *core.Driver) error {
	corpus := bytesgen.LoadCorpus(bytesgen.RepoDir())
	g := bytesgen.NewGen(corpus)
	dr := &driver{p: p, d: d, aggs: map[string]*agg{}}
	d.T.Rule = "inputs are (a) arbitrary byte strings, (b) 1-3 grammar-aware mutations (token delete/duplicate/swap/replace/insert from a template+Go dictionary, delimiter flips, byte flips, crossover, repetition, BOM/CRLF/NUL/invalid UTF-8 insertion) of the repository corpus (test/compare/testdata/**, string literals of test/misc, internal/compiler/*_test.go, templates_test.go), (c) truncations of corpus sources at byte offsets (thorough: every offset), (d) type-error mutants, (e) multi-file template sets (extends/import/render, hostile file included by a valid one and vice versa, nested directories, cycles, cross-format) and go.mod program sets, (f) unmodified corpus sources; templates in all six formats. Every input is built with Build or BuildTemplate and, if it builds, disassembled (Program.Disassemble, Template.Disassemble(-1,0,7)); after every API call the goroutines are censused. distinct_nontrivial counts distinct (format, single/multi-file, outcome) triples where outcome is ok or the error-message class."
	d.T.Assumptions = []string{
		"bounded time is restated as: at most 30 CPU-seconds for an input of at most 8 KiB (solo re-run), and no state in which all scriggo goroutines are parked with the call on the stack; the wall-clock watchdog alone is inconclusive",
		"a leak is a goroutine with a compiler.(*lexer) frame parked in chan send after the API call returned (state read from runtime.Stack)",
		"violations are reported once per defect class (kind, panic site, message class) with the smallest witness; an open known finding covers exactly its class",
		"only the inputs generated are covered; the race detector only sees the interleavings that happened",
	}
	d.T.Set("corpus", map[string]int{"programs": len(corpus.Programs), "templates": len(corpus.Templates), "program_sets": len(corpus.ProgSets), "template_sets": len(corpus.TmplSets), "snippets": len(corpus.Snippets), "fragments": len(corpus.Fragments)})

	total := d.N(30000, 1000000)
	submitted := 0
	round := 60000
	done := 0
	sampled := 0
	truncs := g.TruncInputs(d.Rand("trunc"), 150, d.N(40, 0))
	if d.Thorough() && len(truncs) > 350000 {
		truncs = truncs[:350000]
	}
	d.T.Set("truncation_inputs", len(truncs))
	r := d.Rand("mix")
	ti := 0
	for rn := 0; done < total; rn++ {
		n := min(round, total-done)
		nt := min(len(truncs)-ti, n*len(truncs)/total+1)
		if nt < 0 {
			nt = 0
		}
		rest := n - nt
		mix := bytesgen.Mix{
			Random:     rest * 14 / 100,
			Mutant:     rest * 36 / 100,
			TypeErr:    rest * 7 / 100,
			MultiT:     rest * 17 / 100,
			MultiP:     rest * 6 / 100,
			Verbatim:   rest * 9 / 100,
			TmplSyntax: rest * 10 / 100,
			Deep:       n * d.N(40, 1500) / total,
			Amp:        n * d.N(70, 3000) / total,
			Wide:       n * d.N(40, 1500) / total,
			// while the unbounded-recursion finding is open the generator stays below
			// the depth at which the 64 MiB stacks of the workers overflow
			MaxDepth: d.N(1500, safeNesting),
		}
		inputs := g.Batch(r, mix)
		if rn == 0 && !d.InScope(stackScope) {
			// the finding is closed: nest every recursive construct far beyond the
			// depth that used to overflow the stack
			for k := 0; k < bytesgen.NestKinds(); k++ {
				inputs = append(inputs, bytesgen.DeepOf(k, d.N(40000, 400000)))
			}
		}
		inputs = append(inputs, truncs[ti:ti+nt]...)
		ti += nt
		if len(inputs) == 0 {
			break
		}
		for sampled < 5 {
			in := inputs[sampled*7%len(inputs)]
			d.T.Sample(map[string]any{"family": in.Fam, "source": in.Src, "input": core.Truncate(in.Describe(160), 500)})
			sampled++
		}
		dr.runAll(mkCases(fmt.Sprintf("r%d", rn), inputs, batchSize, false), false)
		done += len(inputs)
		submitted += len(inputs)
	}
	// a portion under the race detector
	if os.Getenv("VERIF_RACE_EXE") != "" {
		nr := d.N(2400, 60000)
		rr := d.Rand("race")
		mix := bytesgen.Mix{Random: nr * 15 / 100, Mutant: nr * 45 / 100, TypeErr: nr * 5 / 100, MultiT: nr * 20 / 100, MultiP: nr * 5 / 100, Verbatim: nr * 10 / 100}
		inputs := g.Batch(rr, mix)
		if d.InScope(oomScope) {
			// Open finding C04-F23 (huge array types make Build allocate their size): the
			// race build cannot run under the address-space limit, so such an input would
			// allocate tens of gigabytes there. Keep exactly that construct out of the
			// race portion; the main sweep still runs it (and attributes the death).
			kept := inputs[:0]
			for _, in := range inputs {
				if hugeArray(&in) {
					d.T.Count("race_inputs_skipped_huge_array_type", 1)
					continue
				}
				kept = append(kept, in)
			}
			inputs = kept
		}
		d.T.Set("race_detector_inputs", len(inputs))
		submitted += len(inputs)
		dr.runAll(mkCases("race", inputs, raceBatchSize, true), true)
	} else {
		d.T.Set("race_detector_inputs", 0)
		fmt.Println("NOTE property=C04 race-detector binary not available (VERIF_RACE_EXE unset): race portion skipped")
	}
	dr.report()
	// sanity gate: every generated input must have been evaluated (a lost batch is a
	// broken run, not silence)
	if ev := d.T.Evaluations; ev < int64(submitted)*98/100 {
		return fmt.Errorf("only %d of %d generated inputs were evaluated", ev, submitted)
	}
	return nil
}

// debugDump writes an undecided case and its raw result to $VERIF_DEBUG_DIR
// (development aid; nothing is written when the variable is unset).
func debugDump(c core.Case, r core.Result) {
	dir := os.Getenv("VERIF_DEBUG_DIR")
	if dir == "" {
		return
	}
	os.MkdirAll(dir, 0o755)
	b, _ := json.MarshalIndent(core.Replay{Property: "C04", Tier: "quick", Seed: core.Seed(), Case: c, Result: r}, "", " ")
	os.WriteFile(dir+"/"+c.ID+".json", b, 0o644)
}

// oomScope is the class of open finding C04-F23.
const oomScope = "crash:compiler/types.(*Types).Zero:runtime: out of memory: cannot allocate N-byte block (N in use)"

var reHugeArray = regexp.MustCompile(`\[[^\]\n]*(LARGE|<<\s*[3-6][0-9]|[0-9]{10,})[^\]\n]*\]`)

// hugeArray reports whether a source of the input declares an array type whose
// length is written with a shift of 30 or more, a literal of 10 or more digits or
// the constant LARGE of the corpus file issue4348.go.
func hugeArray(in *bytesgen.Input) bool {
	for _, f := range in.Files {
		if reHugeArray.Match(f.Data) {
			return true
		}
	}
	return false
}

// stackScope is the class of open finding C04-F42: the parser, the type checker
// and the emitter recurse without bound on nested sources and the goroutine stack
// overflows (fatal, not recoverable). safeNesting is the depth the generator stays
// below while the finding is open (with the 64 MiB stacks of the workers every
// construct overflows between 6 000 and 50 000 levels, see VALIDATION.md).
const (
	safeNesting = 4000
	stackScope  = "nesting-depth>4000"
)

// inputNesting is the structural nesting measure of an input (maximum over its files).
func inputNesting(in *bytesgen.Input) int {
	n := 0
	for _, f := range in.Files {
		if d := bytesgen.NestingDepth(f.Data); d > n {
			n = d
		}
	}
	return n
}
