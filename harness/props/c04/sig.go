package c04

import (
	"regexp"
	"strings"
)

var reNum = regexp.MustCompile(`[0-9]+`)
var reHex = regexp.MustCompile(`0x[0-9a-f]+`)

// normMsg reduces a panic message to its class.
func normMsg(m string) string {
	if i := strings.IndexByte(m, '\n'); i >= 0 {
		m = m[:i]
	}
	m = reHex.ReplaceAllString(m, "H")
	m = reNum.ReplaceAllString(m, "N")
	if len(m) > 70 {
		m = m[:70]
	}
	return m
}

// scriggoFrame returns the short name of the first frame of the code under test
// in lines[from:] ("compiler.(*lexer).lexComment").
func scriggoFrame(lines []string, from int) string {
	for _, l := range lines[from:] {
		if strings.HasPrefix(l, scriggoMark) {
			if i := strings.LastIndexByte(l, '('); i > 0 {
				l = l[:i]
			}
			l = strings.TrimPrefix(l, scriggoMark)
			l = strings.TrimPrefix(l, "/internal/")
			l = strings.TrimPrefix(l, "/")
			l = strings.TrimPrefix(l, ".")
			return l
		}
		if strings.HasPrefix(l, "created by ") {
			break
		}
	}
	return "?"
}

// panicSig classifies a recovered panic by the scriggo function that raised it
// (first scriggo frame below the innermost panic call) and the message class.
func panicSig(msg, stack string) string {
	lines := strings.Split(stack, "\n")
	from := 0
	for i, l := range lines {
		if strings.HasPrefix(l, "panic(") {
			from = i + 1
		}
	}
	return scriggoFrame(lines, from) + ":" + normMsg(msg)
}

// crashSig classifies a process death from the child's stderr.
func crashSig(stderr string) string {
	lines := strings.Split(stderr, "\n")
	msg := ""
	for i, l := range lines {
		if strings.HasPrefix(l, "panic: ") || strings.HasPrefix(l, "fatal error: ") || strings.HasPrefix(l, "runtime: ") {
			if msg == "" {
				msg = l
			}
		}
		if strings.HasPrefix(l, "goroutine ") && strings.Contains(l, "[running]") {
			return scriggoFrame(lines, i+1) + ":" + normMsg(msg)
		}
	}
	if msg == "" {
		msg = "no panic message in the child's stderr"
		for _, l := range lines {
			if strings.HasPrefix(l, "[child killed by signal") {
				msg = l
			}
		}
	}
	return "?:" + normMsg(msg)
}

// hangSite names the innermost scriggo frame of the running scriggo goroutine of
// a dump (of the first one if all are parked).
func hangSite(dump string) string {
	blocks := strings.Split(dump, "\n\n")
	// prefer a goroutine that is running: it is the one that does not terminate
	for _, b := range blocks {
		gs := parseStacks(b)
		if len(gs) == 1 && !gs[0].Parked() {
			if f := scriggoFrame(strings.Split(b, "\n"), 0); f != "?" {
				return f
			}
		}
	}
	return scriggoFrame(strings.Split(dump, "\n"), 0)
}

// raceSig classifies a race report by the two conflicting accesses: the first
// scriggo frame of each access stack (function names, sorted).
func raceSig(report string) string {
	lines := strings.Split(report, "\n")
	var sites []string
	for i, l := range lines {
		t := strings.TrimSpace(l)
		if (strings.HasPrefix(t, "Write at ") || strings.HasPrefix(t, "Read at ") ||
			strings.HasPrefix(t, "Previous write at ") || strings.HasPrefix(t, "Previous read at ") ||
			strings.HasPrefix(t, "Atomic ") || strings.HasPrefix(t, "Previous atomic ")) && len(sites) < 2 {
			site := "?"
			for _, f := range lines[i+1:] {
				f = strings.TrimSpace(f)
				if f == "" {
					break
				}
				if strings.HasPrefix(f, scriggoMark) {
					site = scriggoFrame([]string{f}, 0)
					break
				}
			}
			sites = append(sites, site)
		}
	}
	for len(sites) < 2 {
		sites = append(sites, "?")
	}
	if sites[1] < sites[0] {
		sites[0], sites[1] = sites[1], sites[0]
	}
	return sites[0] + "|" + sites[1]
}
