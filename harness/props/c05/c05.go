// Package c05 checks that running compiled code never panics into the host.
//
// Refute: a value recovered by the sentinel around Program.Run / Template.Run that is
// not the argument the harness's own native passed to Env.Fatal (nor, in the dedicated
// sub-case, the documented invalid-variable panic), a returned error that is not nil,
// a *scriggo.PanicError, the exact error given to Env.Stop or the context's error; or
// the death of the worker process.
//
// Workload: every fault kind of gen/faultprog (division by zero, nil dereference, bad
// index/slice bounds, failed assertions, channel misuse, nil-map writes, unhashable and
// uncomparable values, explicit panics of every value class, conversions, make, nil
// function values, natives that panic, method values of native types) in every
// placement (top level, function, closure, deferred call, deferred call while already
// panicking, recovered, recovered and re-panicked, closures called from natives with and
// without Env, deferred natives incl. variadic ones and method values, Stop/Fatal in
// deferred calls, package initialisers, loops, select, tail calls); the same faults inside
// templates (blocks, closures, macros, imported/rendered/extended files, using, Markdown
// macros); a dictionary of ~140 host values shown through an `any` global in ~35
// contexts; and URL-attribute state sequences (text and shown values incl. the empty
// string, `?`, `&`, `#`, `,` in every order up to length 3, sampled beyond).
package c05

import (
	"context"
	"errors"
	"fmt"
	"io"
	"os"
	"regexp"
	"sort"
	"strings"

	"github.com/open2b/scriggo"
	"github.com/open2b/scriggo/native"
	"github.com/yuin/goldmark"

	"verif/core"
	fp "verif/gen/faultprog"
)

type prop struct{}

func init() { core.Register(prop{}) }

func (prop) ID() string    { return "C05" }
func (prop) Level() string { return "exploration" }

// caseData is the self-contained description of one case.
type caseData struct {
	Kind  string            `json:"kind"`            // prog | tmpl | ctxval | urlseq | badvars
	Label string            `json:"label"`           // human-readable origin (fault × placement, context, …)
	Src   string            `json:"src,omitempty"`   // prog: main.go
	Files map[string]string `json:"files,omitempty"` // tmpl/ctxval/urlseq: template files
	Main  string            `json:"main,omitempty"`
	// ctxval: names of dictionary values shown through the global v
	Values []string `json:"values,omitempty"`
	// urlseq: number of holes h0..h(n-1); every tuple over URLValues is run when
	// Tuples is empty, else the listed tuples (indexes into URLValues)
	Holes  int     `json:"holes,omitempty"`
	Tuples [][]int `json:"tuples,omitempty"`
	// Panics: Go semantics says the fault under test panics (used for signatures only)
	Panics bool `json:"panics,omitempty"`
	// AllowGo: build with BuildOptions.AllowGoStmt
	AllowGo bool `json:"allow_go,omitempty"`
}

// Scope names of open findings (see findings.json).
const (
	scopeNativeClosure = "panic leaves an interpreted closure called from a native function"
)

func (prop) Drive(d *core.Driver) error {
	d.T.Rule = "cases = (fault kind × placement) programs and templates built from the tables in gen/faultprog, (context × value-batch) templates showing dictionary values through an `any` global, and URL-attribute part sequences run with every tuple of shown values (all sequences up to length 2 in quick / 3 in thorough, seeded samples of longer ones); every program is run four times: twice without context, with a context that is never cancelled and with an already-cancelled context. A case is judged by the host-panic sentinel and the class of Run's result. distinct_nontrivial counts distinct (kind, fault-or-context, placement-or-value, outcome class) signatures in which interpreted code actually failed or a value was actually rendered"
	d.T.Assumptions = []string{
		"natives supplied by the harness panic only with non-runtime-error values; a runtime.Error raised inside host code is the host's own fault and not generated",
		"unbounded recursion/allocation and cyclic host values are excluded by construction",
		"a build error or a Build panic of a generated source is not judged here (C03/C04); such cases are counted as skipped",
	}
	var cases []core.Case
	skipNativeClosure := d.InScope(scopeNativeClosure)

	// (1) programs: fault × placement
	nf := len(fp.Faults)
	progs := 0
	for pi, pl := range fp.Placements {
		if skipNativeClosure && isNativeClosureEscape(pl.Name) {
			continue
		}
		for fi, f := range fp.Faults {
			if !fp.ProgFaultOK(f) {
				continue
			}
			// second and third faults of the multi-fault placements rotate through the table
			g := fp.Faults[(fi*7+pi+3)%nf]
			h := fp.Faults[(fi*13+pi+5)%nf]
			for !g.Panics || g.TmplOnly || g.Go {
				g = fp.Faults[(indexOf(g.Name)+1)%nf]
			}
			for !h.Panics || h.TmplOnly || h.Go {
				h = fp.Faults[(indexOf(h.Name)+1)%nf]
			}
			p := pl.Build(f, g, h)
			cases = append(cases, core.NewCase("prog/"+pl.Name+"/"+f.Name, caseData{Kind: "prog", Label: pl.Name + "/" + f.Name, Src: p.Src, Panics: f.Panics, AllowGo: f.Go}))
			progs++
		}
	}
	// (2) templates: fault × template placement
	tmpls := 0
	for _, pl := range fp.TmplPlacements {
		if skipNativeClosure && (pl.Name == "t_native_closure" || pl.Name == "t_native_macro") {
			continue
		}
		for _, f := range fp.Faults {
			if !fp.TmplFaultOK(f) {
				continue
			}
			cases = append(cases, core.NewCase("tmpl/"+pl.Name+"/"+f.Name, caseData{Kind: "tmpl", Label: pl.Name + "/" + f.Name, Files: pl.Build(f), Main: pl.Main, Panics: f.Panics, AllowGo: f.Go}))
			tmpls++
		}
	}
	// (3) context × value batches
	const batch = 12
	ctxs := 0
	for _, ct := range fp.CtxTemplates {
		for lo := 0; lo < len(fp.ValueNames); lo += batch {
			hi := min(lo+batch, len(fp.ValueNames))
			cases = append(cases, core.NewCase(fmt.Sprintf("ctxval/%s/%d", ct.Name, lo), caseData{Kind: "ctxval", Label: ct.Name,
				Files: map[string]string{ct.File: ct.Src}, Main: ct.File, Values: fp.ValueNames[lo:hi]}))
			ctxs++
		}
	}
	// (4) URL state sequences: parts are literal texts or holes
	alphabet := append([]string{""}, fp.URLTexts...)
	maxFull := d.N(2, 3)
	seqs := 0
	var rec func(parts []string, n int)
	for _, at := range fp.URLAttrs {
		rec = func(parts []string, n int) {
			if len(parts) == n {
				src, holes := fp.URLSeqTemplate(at.Fmt, parts)
				if holes == 0 {
					return
				}
				cases = append(cases, core.NewCase(fmt.Sprintf("urlseq/%s/%s", at.Name, partsKey(parts)), caseData{Kind: "urlseq", Label: at.Name + ":" + partsKey(parts),
					Files: map[string]string{"index.html": src}, Main: "index.html", Holes: holes}))
				seqs++
				return
			}
			for _, a := range alphabet {
				rec(append(parts[:len(parts):len(parts)], a), n)
			}
		}
		for n := 1; n <= maxFull; n++ {
			rec(nil, n)
		}
	}
	// sampled longer sequences with sampled tuples
	r := d.Rand("urlseq")
	nLong := d.N(300, 6000)
	for i := 0; i < nLong; i++ {
		at := fp.URLAttrs[r.Intn(len(fp.URLAttrs))]
		n := maxFull + 1 + r.Intn(3)
		parts := make([]string, n)
		for j := range parts {
			if r.Intn(2) == 0 {
				parts[j] = ""
			} else {
				parts[j] = fp.URLTexts[r.Intn(len(fp.URLTexts))]
			}
		}
		src, holes := fp.URLSeqTemplate(at.Fmt, parts)
		if holes == 0 {
			continue
		}
		var tuples [][]int
		for t := 0; t < 40; t++ {
			tu := make([]int, holes)
			for k := range tu {
				tu[k] = r.Intn(len(fp.URLValues))
			}
			tuples = append(tuples, tu)
		}
		cases = append(cases, core.NewCase(fmt.Sprintf("urlseq-long/%d", i), caseData{Kind: "urlseq", Label: at.Name + ":" + partsKey(parts),
			Files: map[string]string{"index.html": src}, Main: "index.html", Holes: holes, Tuples: tuples}))
		seqs++
	}
	// (5) the documented panic for invalid template variables
	cases = append(cases, core.NewCase("badvars", caseData{Kind: "badvars"}))

	d.T.Set("program_cases", progs)
	d.T.Set("template_fault_cases", tmpls)
	d.T.Set("context_value_cases", ctxs)
	d.T.Set("url_sequence_cases", seqs)
	d.T.Set("fault_kinds", len(fp.Faults))
	d.T.Set("program_placements", len(fp.Placements))
	d.T.Set("template_placements", len(fp.TmplPlacements))
	d.T.Set("contexts", len(fp.CtxTemplates))
	d.T.Set("dictionary_values", len(fp.ValueNames))
	if len(cases) > 3 {
		for _, i := range []int{0, progs + 1, progs + tmpls + 1, progs + tmpls + ctxs + 30} {
			if i < len(cases) {
				var cd caseData
				cases[i].Decode(&cd)
				d.T.Sample(map[string]any{"id": cases[i].ID, "kind": cd.Kind, "src": core.Truncate(cd.Src, 400), "files": cd.Files, "values": cd.Values})
			}
		}
	}
	results := d.Run(cases, core.RunOpts{NoTally: true})
	for i := range results {
		d.Judge(cases[i], results[i])
	}
	if path := os.Getenv("VERIF_TRIAGE"); path != "" {
		writeTriage(path, cases, results)
	}
	return nil
}

var hexRe = regexp.MustCompile(`0x[0-9a-f]+|\+0x[0-9a-f]+`)

// writeTriage (development aid) clusters violations and skips by their first line.
func writeTriage(path string, cases []core.Case, results []core.Result) {
	type cl struct {
		n   int
		ids []string
		ex  string
	}
	m := map[string]*cl{}
	for i, r := range results {
		if r.Status == core.OK {
			continue
		}
		d := r.Detail
		key := d
		if j := strings.Index(d, "\n"); j >= 0 {
			key = d[:j]
		}
		if j := strings.Index(key, "): "); j >= 0 && r.Status != core.Skip {
			key = key[j+3:]
		} else if j := strings.Index(key, ": "); j >= 0 && r.Status == core.Violation {
			key = key[j+2:]
		}
		// second scriggo frame line helps to locate
		loc := ""
		for _, l := range strings.Split(d, "\n") {
			if strings.HasPrefix(l, "\t/") && !strings.Contains(l, "vm.go:162") && !strings.Contains(l, "programs.go") && !strings.Contains(l, "templates.go") {
				loc = strings.TrimSpace(hexRe.ReplaceAllString(l, ""))
				break
			}
		}
		key = r.Status + " | " + hexRe.ReplaceAllString(key, "0x") + " | " + loc
		if len(key) > 300 {
			key = key[:300]
		}
		c := m[key]
		if c == nil {
			c = &cl{ex: d}
			m[key] = c
		}
		c.n++
		if len(c.ids) < 12 {
			c.ids = append(c.ids, cases[i].ID)
		}
	}
	var keys []string
	for k := range m {
		keys = append(keys, k)
	}
	sort.Slice(keys, func(i, j int) bool { return m[keys[i]].n > m[keys[j]].n })
	var b strings.Builder
	for _, k := range keys {
		fmt.Fprintf(&b, "%5d  %s\n       %s\n", m[k].n, k, strings.Join(m[k].ids, " "))
	}
	os.WriteFile(path, []byte(b.String()), 0o644)
}

func isNativeClosureEscape(pl string) bool {
	switch pl {
	case "native_closure", "native_closure_env", "native_closure_args", "native_closure_recovered_outside",
		"native_closure_nested", "native_closure_deferred":
		return true
	}
	return false
}

func indexOf(name string) int {
	for i, f := range fp.Faults {
		if f.Name == name {
			return i
		}
	}
	return 0
}

func partsKey(parts []string) string {
	var b strings.Builder
	for i, p := range parts {
		if i > 0 {
			b.WriteByte('|')
		}
		if p == "" {
			b.WriteString("{}")
		} else {
			b.WriteString(p)
		}
	}
	return b.String()
}

// ---------------------------------------------------------------------------
// worker side

// outcome is the class of one Run.
type outcome struct {
	class  string // nil | panicerror | stop | ctx | fatal | BAD-…
	bad    bool
	detail string
}

// classify judges one execution: pv/panicked from the sentinel, err from Run.
func classify(log *fp.Log, ctx context.Context, pv any, panicked bool, stack string, err error) outcome {
	if panicked {
		if log != nil && log.FatalIdx >= 0 {
			want := fp.FatalVals[log.FatalIdx%len(fp.FatalVals)]
			if same(pv, want) {
				return outcome{class: "fatal"}
			}
			return outcome{class: "BAD-fatal-value", bad: true, detail: fmt.Sprintf("Env.Fatal(%#v) was called but Run panicked with %#v (%T)\n%s", want, pv, pv, stack)}
		}
		return outcome{class: "BAD-host-panic", bad: true, detail: fmt.Sprintf("Run panicked into the host with %T: %v\n%s", pv, pv, trimStack(stack))}
	}
	if log != nil && log.FatalIdx >= 0 {
		return outcome{class: "BAD-fatal-returned", bad: true, detail: fmt.Sprintf("Env.Fatal was called but Run returned %T: %v", err, err)}
	}
	switch e := err.(type) {
	case nil:
		return outcome{class: "nil"}
	case *scriggo.PanicError:
		return outcome{class: "panicerror"}
	default:
		if log != nil && log.StopIdx >= 0 && e == fp.StopErrs[log.StopIdx%len(fp.StopErrs)] {
			return outcome{class: "stop"}
		}
		if ctx != nil && ctx.Err() != nil && e == ctx.Err() {
			return outcome{class: "ctx"}
		}
		// Template.Run reports a value that cannot be shown like a failed write: it
		// returns the renderer's error itself ("reported as an error, never as a host
		// panic"); counted separately so that the evidence shows how often it happened.
		if log == nil && strings.HasPrefix(e.Error(), "cannot show value of type ") {
			return outcome{class: "show-error"}
		}
		return outcome{class: "BAD-error-class", bad: true, detail: fmt.Sprintf("Run returned an error that is neither *PanicError, the Stop error nor the context error: %T: %v", err, err)}
	}
}

func same(a, b any) (eq bool) {
	defer func() {
		if recover() != nil {
			eq = false
		}
	}()
	return a == b
}

func trimStack(s string) string {
	// keep the scriggo frames, they locate the defect
	var keep []string
	lines := strings.Split(s, "\n")
	for i := 0; i+1 < len(lines); i++ {
		if strings.Contains(lines[i], "open2b/scriggo") {
			keep = append(keep, lines[i], lines[i+1])
			i++
		}
		if len(keep) > 24 {
			break
		}
	}
	return strings.Join(keep, "\n")
}

func mdConverter(src []byte, out io.Writer) error { return goldmark.Convert(src, out) }

func (prop) Work(c core.Case) core.Result {
	var cd caseData
	c.Decode(&cd)
	switch cd.Kind {
	case "prog":
		return workProg(cd)
	case "tmpl":
		return workTmpl(cd)
	case "ctxval":
		return workCtxVal(cd)
	case "urlseq":
		return workURLSeq(cd)
	case "badvars":
		return workBadVars()
	}
	return core.Result{Status: core.Inconclusive, Detail: "unknown case kind " + cd.Kind}
}

func faultOf(label string) (placement, fault string) {
	if i := strings.IndexByte(label, '/'); i >= 0 {
		return label[:i], label[i+1:]
	}
	return label, ""
}

func workProg(cd caseData) core.Result {
	log := fp.NewLog()
	var prog *scriggo.Program
	var berr error
	pv, panicked, stack := core.Guard(func() {
		prog, berr = scriggo.Build(scriggo.Files{"main.go": []byte(cd.Src)}, &scriggo.BuildOptions{Packages: fp.Packages(log), AllowGoStmt: cd.AllowGo})
	})
	if panicked {
		return core.Result{Status: core.Skip, Detail: fmt.Sprintf("Build panicked (C04 domain): %v\n%s", pv, trimStack(stack)), Counts: map[string]int64{"build_panics": 1}}
	}
	if berr != nil {
		return core.Result{Status: core.Skip, Detail: "build error: " + berr.Error(), Counts: map[string]int64{"build_errors": 1}}
	}
	res := core.Result{Status: core.OK, Counts: map[string]int64{}}
	pl, ft := faultOf(cd.Label)
	// run 0: plain; run 1: same program again (Program.Run is reusable); run 2: context
	// that is never cancelled (channel operations then select on its done channel);
	// run 3: already cancelled context
	for run := 0; run < 4; run++ {
		*log = *fp.NewLog()
		var ctx context.Context
		opts := &scriggo.RunOptions{Print: func(v any) { log.Add("P") }}
		if run >= 2 {
			c, cancel := context.WithCancel(context.Background())
			if run == 3 {
				cancel()
			}
			defer cancel()
			ctx = c
			opts.Context = c
		}
		var err error
		pv, panicked, stack := core.Guard(func() { err = prog.Run(opts) })
		o := classify(log, ctx, pv, panicked, stack, err)
		res.Evals++
		res.Counts["runs"]++
		res.Counts["native_events"] += int64(len(log.Events))
		res.Counts["outcome_"+o.class]++
		if o.bad {
			res.Status = core.Violation
			res.Detail = fmt.Sprintf("program %s (run %d): %s\nevents: %s\n--- main.go\n%s", cd.Label, run, o.detail, core.Truncate(log.String(), 300), cd.Src)
			return res
		}
		if run == 0 && (o.class != "nil" || cd.Panics) {
			res.Sigs = append(res.Sigs, core.SigJoin("prog", ft, pl, o.class))
		}
	}
	return res
}

func tmplGlobals(extra native.Declarations) native.Declarations {
	g := native.Declarations{}
	for k, v := range extra {
		g[k] = v
	}
	return g
}

func workTmpl(cd caseData) core.Result {
	log := fp.NewLog()
	fsys := scriggo.Files{}
	for k, v := range cd.Files {
		fsys[k] = []byte(v)
	}
	var tmpl *scriggo.Template
	var berr error
	pv, panicked, stack := core.Guard(func() {
		tmpl, berr = scriggo.BuildTemplate(fsys, cd.Main, &scriggo.BuildOptions{
			Packages:          fp.Packages(log),
			AllowGoStmt:       cd.AllowGo,
			MarkdownConverter: mdConverter,
		})
	})
	if panicked {
		return core.Result{Status: core.Skip, Detail: fmt.Sprintf("BuildTemplate panicked (C04 domain): %v\n%s", pv, trimStack(stack)), Counts: map[string]int64{"build_panics": 1}}
	}
	if berr != nil {
		return core.Result{Status: core.Skip, Detail: "build error: " + berr.Error(), Counts: map[string]int64{"build_errors": 1}}
	}
	res := core.Result{Status: core.OK, Counts: map[string]int64{}}
	pl, ft := faultOf(cd.Label)
	for run := 0; run < 2; run++ {
		*log = *fp.NewLog()
		var out countWriter
		var err error
		pv, panicked, stack := core.Guard(func() {
			err = tmpl.Run(&out, nil, &scriggo.RunOptions{Print: func(v any) { log.Add("P") }})
		})
		o := classify(log, nil, pv, panicked, stack, err)
		res.Evals++
		res.Counts["runs"]++
		res.Counts["writes"] += int64(out.writes)
		res.Counts["outcome_"+o.class]++
		if o.bad {
			res.Status = core.Violation
			res.Detail = fmt.Sprintf("template %s: %s\nevents: %s\n%s", cd.Label, o.detail, core.Truncate(log.String(), 300), filesText(cd.Files))
			return res
		}
		if run == 0 && (o.class != "nil" || cd.Panics) {
			res.Sigs = append(res.Sigs, core.SigJoin("tmpl", ft, pl, o.class))
		}
	}
	return res
}

type countWriter struct {
	writes int
	bytes  int
}

func (w *countWriter) Write(b []byte) (int, error) {
	w.writes++
	w.bytes += len(b)
	return len(b), nil
}

func filesText(files map[string]string) string {
	var names []string
	for k := range files {
		names = append(names, k)
	}
	sort.Strings(names)
	var b strings.Builder
	for _, n := range names {
		fmt.Fprintf(&b, "--- %s\n%s\n", n, files[n])
	}
	return b.String()
}

func workCtxVal(cd caseData) core.Result {
	fsys := scriggo.Files{}
	for k, v := range cd.Files {
		fsys[k] = []byte(v)
	}
	var tmpl *scriggo.Template
	var berr error
	pv, panicked, stack := core.Guard(func() {
		tmpl, berr = scriggo.BuildTemplate(fsys, cd.Main, &scriggo.BuildOptions{
			Globals:           native.Declarations{"v": (*any)(nil)},
			MarkdownConverter: mdConverter,
		})
	})
	if panicked {
		return core.Result{Status: core.Skip, Detail: fmt.Sprintf("BuildTemplate panicked (C04 domain): %v\n%s", pv, trimStack(stack)), Counts: map[string]int64{"build_panics": 1}}
	}
	if berr != nil {
		return core.Result{Status: core.Skip, Detail: "build error: " + berr.Error(), Counts: map[string]int64{"build_errors": 1}}
	}
	res := core.Result{Status: core.OK, Counts: map[string]int64{}}
	var bad []string
	for _, name := range cd.Values {
		val, ok := fp.Value(name)
		if !ok {
			return core.Result{Status: core.Inconclusive, Detail: "unknown dictionary value " + name}
		}
		v := val
		var out countWriter
		var err error
		pv, panicked, stack := core.Guard(func() {
			err = tmpl.Run(&out, map[string]any{"v": &v}, nil)
		})
		o := classify(nil, nil, pv, panicked, stack, err)
		res.Evals++
		res.Counts["runs"]++
		res.Counts["writes"] += int64(out.writes)
		res.Counts["outcome_"+o.class]++
		if o.bad {
			bad = append(bad, fmt.Sprintf("context %s, value %s (%T): %s", cd.Label, name, val, o.detail))
			continue
		}
		res.Sigs = append(res.Sigs, core.SigJoin("ctxval", cd.Label, name, o.class))
	}
	if len(bad) > 0 {
		res.Status = core.Violation
		res.Detail = strings.Join(bad, "\n") + "\n" + filesText(cd.Files)
	}
	return res
}

func workURLSeq(cd caseData) core.Result {
	fsys := scriggo.Files{}
	for k, v := range cd.Files {
		fsys[k] = []byte(v)
	}
	globals := native.Declarations{}
	for i := 0; i < cd.Holes; i++ {
		globals[fmt.Sprintf("h%d", i)] = (*any)(nil)
	}
	var tmpl *scriggo.Template
	var berr error
	pv, panicked, stack := core.Guard(func() {
		tmpl, berr = scriggo.BuildTemplate(fsys, cd.Main, &scriggo.BuildOptions{Globals: globals})
	})
	if panicked {
		return core.Result{Status: core.Skip, Detail: fmt.Sprintf("BuildTemplate panicked (C04 domain): %v\n%s", pv, trimStack(stack)), Counts: map[string]int64{"build_panics": 1}}
	}
	if berr != nil {
		return core.Result{Status: core.Skip, Detail: "build error: " + berr.Error(), Counts: map[string]int64{"build_errors": 1}}
	}
	res := core.Result{Status: core.OK, Counts: map[string]int64{}}
	var bad []string
	runTuple := func(tu []int) {
		vars := map[string]any{}
		var shown []string
		for i, vi := range tu {
			var v any = fp.URLValues[vi%len(fp.URLValues)]
			vars[fmt.Sprintf("h%d", i)] = &v
			shown = append(shown, fmt.Sprintf("%q", v))
		}
		var out countWriter
		var err error
		pv, panicked, stack := core.Guard(func() { err = tmpl.Run(&out, vars, nil) })
		o := classify(nil, nil, pv, panicked, stack, err)
		res.Evals++
		res.Counts["runs"]++
		res.Counts["writes"] += int64(out.writes)
		res.Counts["outcome_"+o.class]++
		if o.class == "panicerror" {
			// not a violation (a renderer fault reported as an error), but rendering a
			// string in a URL attribute is not expected to fail: kept visible
			res.Counts["urlseq_runs_ending_in_panicerror"]++
		}
		if o.bad {
			if len(bad) < 5 {
				bad = append(bad, fmt.Sprintf("URL sequence %s with shown values (%s): %s", cd.Label, strings.Join(shown, ", "), o.detail))
			}
			return
		}
		if len(res.Sigs) < 64 {
			res.Sigs = append(res.Sigs, core.SigJoin("urlseq", cd.Label, strings.Join(shown, ",")))
		}
	}
	if len(cd.Tuples) > 0 {
		for _, tu := range cd.Tuples {
			runTuple(tu)
		}
	} else {
		tu := make([]int, cd.Holes)
		var rec func(i int)
		rec = func(i int) {
			if i == cd.Holes {
				runTuple(tu)
				return
			}
			for v := range fp.URLValues {
				tu[i] = v
				rec(i + 1)
			}
		}
		rec(0)
	}
	if len(bad) > 0 {
		res.Status = core.Violation
		res.Detail = strings.Join(bad, "\n") + "\n" + filesText(cd.Files)
	}
	return res
}

// workBadVars checks the one documented panic of Template.Run that does not come
// from Fatal: invalid values in vars.
func workBadVars() core.Result {
	res := core.Result{Status: core.OK, Counts: map[string]int64{}}
	fsys := scriggo.Files{"index.html": []byte("{{ v }}{{ n }}")}
	tmpl, err := scriggo.BuildTemplate(fsys, "index.html", &scriggo.BuildOptions{Globals: native.Declarations{"v": (*any)(nil), "n": (*int)(nil)}})
	if err != nil {
		return core.Result{Status: core.Inconclusive, Detail: "cannot build the badvars template: " + err.Error()}
	}
	n := 3
	var nilp *int
	tests := []struct {
		name string
		vars map[string]any
		want string // prefix of the documented panic message ("" = no panic)
	}{
		{"valid pointer", map[string]any{"n": &n}, ""},
		{"valid value", map[string]any{"n": 5}, ""},
		{"nil value", map[string]any{"n": nil}, "variable initializer \"n\" cannot be nil"},
		{"wrong type", map[string]any{"n": "s"}, "variable initializer \"n\" must have type int or *int, but have string"},
		{"nil pointer", map[string]any{"n": nilp}, "variable initializer \"n\" cannot be a nil pointer"},
		{"unknown name", map[string]any{"zzz": 1}, ""},
	}
	for _, t := range tests {
		var rerr error
		pv, panicked, _ := core.Guard(func() { rerr = tmpl.Run(io.Discard, t.vars, nil) })
		res.Evals++
		res.Counts["runs"]++
		if t.want == "" {
			if panicked || rerr != nil {
				res.Status = core.Violation
				res.Detail = fmt.Sprintf("badvars %s: valid vars but Run panicked=%v (%v) err=%v", t.name, panicked, pv, rerr)
				return res
			}
			continue
		}
		s, _ := pv.(string)
		if !panicked || s != t.want {
			res.Status = core.Violation
			res.Detail = fmt.Sprintf("badvars %s: want the documented panic %q, got panicked=%v value=%#v err=%v", t.name, t.want, panicked, pv, rerr)
			return res
		}
		res.Sigs = append(res.Sigs, core.SigJoin("badvars", t.name))
	}
	return res
}

var _ = errors.New
