package c05

import (
	"context"
	"errors"
	"testing"

	fp "verif/gen/faultprog"
)

func TestClassify(t *testing.T) {
	log := fp.NewLog()
	if o := classify(log, nil, nil, false, "", nil); o.bad || o.class != "nil" {
		t.Fatal(o)
	}
	if o := classify(log, nil, "boom", true, "", nil); !o.bad {
		t.Fatal("a host panic must be bad")
	}
	if o := classify(log, nil, nil, false, "", errors.New("x")); !o.bad {
		t.Fatal("a foreign error must be bad")
	}
	log.StopIdx = 1
	if o := classify(log, nil, nil, false, "", fp.StopErrs[1]); o.bad || o.class != "stop" {
		t.Fatal(o)
	}
	if o := classify(log, nil, nil, false, "", errors.New("stop one")); !o.bad {
		t.Fatal("an equal-looking but different Stop error must be bad")
	}
	log = fp.NewLog()
	log.FatalIdx = 2
	if o := classify(log, nil, fp.FatalVals[2], true, "", nil); o.bad || o.class != "fatal" {
		t.Fatal(o)
	}
	if o := classify(log, nil, "other", true, "", nil); !o.bad {
		t.Fatal("a different Fatal value must be bad")
	}
	if o := classify(log, nil, nil, false, "", nil); !o.bad {
		t.Fatal("Fatal without panic must be bad")
	}
	ctx, cancel := context.WithCancel(context.Background())
	cancel()
	if o := classify(fp.NewLog(), ctx, nil, false, "", ctx.Err()); o.bad || o.class != "ctx" {
		t.Fatal(o)
	}
}
