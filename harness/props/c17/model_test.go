package c17

import (
	"reflect"
	"testing"
)

func TestMachineAndLog(t *testing.T) {
	p := &prog{
		Globals: []glob{{"G0", "string"}, {"G1", "int"}, {"G2", "T"}},
		PkgVars: []glob{{"G0", "string"}},
		Macros:  []macro{{Name: "M0", File: "root", Ops: []op{{K: "read", V: "G0", ID: 1}, {K: "write", V: "G0", ID: 2}}}},
		Partials: map[string][]op{"part0.html": {{K: "read", V: "G1", ID: 3}, {K: "write", V: "G2", F: "A", ID: 4}}},
		Main: []op{
			{K: "decl", Name: "M0"},
			{K: "call", Name: "M0"},
			{K: "read", V: "G0", ID: 5},
			{K: "read", V: "p.G0", ID: 6},
			{K: "for", N: 2, Body: []op{{K: "render", Name: "part0.html"}, {K: "write", V: "G1", ID: 7}}},
			{K: "read", V: "G2", ID: 8},
			{K: "defc", Name: "c9", V: "G0", ID: 10, W: true},
			{K: "callc", Name: "c9", V: "G0", W: true},
			{K: "read", V: "G0", ID: 11},
		},
	}
	m := newMachine(p, map[string]value{"G0": {S: "init"}, "G1": {N: 5}})
	m.run(p.Main)
	want := []event{{1, "init"}, {5, "w2"}, {6, ""}, {3, "5"}, {3, "1007"}, {8, "1004"}, {11, "w10"}}
	if !reflect.DeepEqual(m.events, want) {
		t.Fatalf("events %v, want %v", m.events, want)
	}
	got, err := parseLog("r1:init;r5:w2;r6:;\nr3:5;r3:1007;r8:1004;r11:w10;")
	if err != nil || !reflect.DeepEqual(got, want) {
		t.Fatalf("parseLog: %v %v", got, err)
	}
	if _, err := parseLog("r1:a;x"); err == nil {
		t.Fatal("parseLog accepted stray text")
	}
	files := p.render()
	wantRoot := `{% macro M0 %}r1:{{ G0 }};{% G0 = "w2" %}{% end macro %}{{ M0() }}r5:{{ G0 }};r6:{{ p.G0 }};{% for i := 0; i < 2; i++ %}{{ render "/part0.html" }}{% G1 = 1007 %}{% end for %}r8:{{ G2.A }};{% c9 := func() { G0 = "w10" } %}{% c9() %}r11:{{ G0 }};`
	if files["index.html"] != wantRoot {
		t.Fatalf("render:\n%s\nwant\n%s", files["index.html"], wantRoot)
	}
	if files["part0.html"] != `r3:{{ G1 }};{% G2.A = 1004 %}` {
		t.Fatalf("partial: %s", files["part0.html"])
	}
}

func TestComponentsAndNewOps(t *testing.T) {
	p := &prog{
		Globals: []glob{{"G0", "A3"}, {"G1", "T"}, {"G2", "int"}},
		LibVar:  "K0", ImportAs: "lib",
		Macros: []macro{{Name: "L0", File: "lib", Ops: []op{{K: "read", V: "L:K0", ID: 1}, {K: "inc", V: "L:K0", ID: 2}}}},
		Main: []op{
			{K: "ptrw", V: "G0", F: "1", ID: 3},
			{K: "tuple", Body: []op{{K: "write", V: "G0", F: "0", ID: 4}, {K: "write", V: "G1", F: "B", ID: 5}}},
			{K: "inc", V: "G0", F: "2", ID: 6},
			{K: "read", V: "G0", F: "0", ID: 7}, {K: "read", V: "G0", F: "1", ID: 8}, {K: "read", V: "G0", F: "2", ID: 9},
			{K: "read", V: "G1", F: "A", ID: 10}, {K: "read", V: "G1", F: "B", ID: 11},
			{K: "write", V: "G1", ID: 12}, {K: "read", V: "G1", F: "B", ID: 13},
			{K: "call", Name: "L0"}, {K: "read", V: "L:K0", ID: 14},
		},
	}
	m := newMachine(p, map[string]value{"G0": {N: 10}, "G1": {N: 20}})
	m.run(p.Main)
	want := []event{{7, "1004"}, {8, "1003"}, {9, "13"}, {10, "20"}, {11, "1005"}, {13, "0"}, {1, "77"}, {14, "78"}}
	if !reflect.DeepEqual(m.events, want) {
		t.Fatalf("events %v, want %v", m.events, want)
	}
	files := p.render()
	wantRoot := `{% import lib "lib.html" %}{% q3 := &G0[1] %}{% *q3 = 1003 %}{% G0[0], G1.B = 1004, 1005 %}{% G0[2]++ %}r7:{{ G0[0] }};r8:{{ G0[1] }};r9:{{ G0[2] }};r10:{{ G1.A }};r11:{{ G1.B }};{% G1 = T{A: 1012} %}r13:{{ G1.B }};{{ lib.L0() }}r14:{{ lib.K0 }};`
	if files["index.html"] != wantRoot {
		t.Fatalf("render:\n%s\nwant\n%s", files["index.html"], wantRoot)
	}
	if files["lib.html"] != "{% var K0 = 77 %}\n{% macro L0 %}r1:{{ K0 }};{% K0++ %}{% end macro %}\n" {
		t.Fatalf("lib: %q", files["lib.html"])
	}
	if g := mentionedGlobals(p); !reflect.DeepEqual(keysOf(g), []string{"G0", "G1"}) {
		t.Fatalf("mentioned %v", keysOf(g))
	}
}
