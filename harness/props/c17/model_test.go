package c17

import (
	"reflect"
	"testing"
)

func TestMachineAndLog(t *testing.T) {
	p := &prog{
		Globals: []glob{{"G0", "string"}, {"G1", "int"}, {"G2", "T"}},
		PkgVars: []glob{{"G0", "string"}},
		Macros:  []macro{{Name: "M0", File: "root", Ops: []op{{K: "read", V: "G0", ID: 1}, {K: "write", V: "G0", ID: 2}}}},
		Partials: map[string][]op{"part0.html": {{K: "read", V: "G1", ID: 3}, {K: "write", V: "G2", F: "A", ID: 4}}},
		Main: []op{
			{K: "decl", Name: "M0"},
			{K: "call", Name: "M0"},
			{K: "read", V: "G0", ID: 5},
			{K: "read", V: "p.G0", ID: 6},
			{K: "for", N: 2, Body: []op{{K: "render", Name: "part0.html"}, {K: "write", V: "G1", ID: 7}}},
			{K: "read", V: "G2", ID: 8},
			{K: "defc", Name: "c9", V: "G0", ID: 10, W: true},
			{K: "callc", Name: "c9", V: "G0", W: true},
			{K: "read", V: "G0", ID: 11},
		},
	}
	m := newMachine(p, map[string]value{"G0": {S: "init"}, "G1": {N: 5}})
	m.run(p.Main)
	want := []event{{1, "init"}, {5, "w2"}, {6, ""}, {3, "5"}, {3, "1007"}, {8, "1004"}, {11, "w10"}}
	if !reflect.DeepEqual(m.events, want) {
		t.Fatalf("events %v, want %v", m.events, want)
	}
	got, err := parseLog("r1:init;r5:w2;r6:;\nr3:5;r3:1007;r8:1004;r11:w10;")
	if err != nil || !reflect.DeepEqual(got, want) {
		t.Fatalf("parseLog: %v %v", got, err)
	}
	if _, err := parseLog("r1:a;x"); err == nil {
		t.Fatal("parseLog accepted stray text")
	}
	files := p.render()
	wantRoot := `{% macro M0 %}r1:{{ G0 }};{% G0 = "w2" %}{% end macro %}{{ M0() }}r5:{{ G0 }};r6:{{ p.G0 }};{% for i := 0; i < 2; i++ %}{{ render "/part0.html" }}{% G1 = 1007 %}{% end for %}r8:{{ G2.A }};{% c9 := func() { G0 = "w10" } %}{% c9() %}r11:{{ G0 }};`
	if files["index.html"] != wantRoot {
		t.Fatalf("render:\n%s\nwant\n%s", files["index.html"], wantRoot)
	}
	if files["part0.html"] != `r3:{{ G1 }};{% G2.A = 1004 %}` {
		t.Fatalf("partial: %s", files["part0.html"])
	}
}
