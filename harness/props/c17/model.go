package c17

import (
	"fmt"
	"strings"
)

// value is the content of a register: S for string variables, N for int
// variables and for field A of struct variables.
type value struct {
	S string
	N int
}

// event is one observed or expected read: site id and the text shown.
type event struct {
	Site int
	Text string
}

// machine is the sequential register model: one register per variable, a
// read returns the last write in program order, initially the value supplied
// to Run or the zero value.
type machine struct {
	p      *prog
	reg    map[string]value
	events []event
	used   map[string]bool // variables referenced by executed code
	clos   map[string]op
	steps  int
}

// newMachine returns a machine; init holds, per global passed to Run, the
// value it was built from (see initVar); regs, if not nil, holds registers
// that override it (the state a pointer initialiser was left in by a
// previous run).
func newMachine(p *prog, init map[string]value, regs ...map[string]value) *machine {
	m := &machine{p: p, reg: map[string]value{}, used: map[string]bool{}, clos: map[string]op{}}
	for _, g := range p.Globals {
		if v, ok := init[g.Name]; ok {
			m.initVar(g.Name, g.Type, v)
		}
	}
	for _, r := range regs {
		for k, v := range r {
			m.reg[k] = v
		}
	}
	if p.LibVar != "" {
		m.reg["L:"+p.LibVar+"|"] = value{N: 77}
	}
	return m
}

// key is the register of a variable or of one of its components.
func key(v, f string) string { return v + "|" + f }

// initVar stores the initial value of a variable: a struct gets N, N+1 in its
// fields and an array N, N+1, N+2 in its elements.
func (m *machine) initVar(name, typ string, v value) {
	cs := components(typ)
	if cs == nil {
		m.reg[key(name, "")] = v
		return
	}
	for i, c := range cs {
		m.reg[key(name, c)] = value{N: v.N + i}
	}
}

func (m *machine) show(v, f string) string {
	if f == "" && components(m.p.typeOf(v)) != nil {
		f = components(m.p.typeOf(v))[0]
	}
	if m.p.typeOf(v) == "string" {
		return m.reg[key(v, f)].S
	}
	if _, set := m.reg[key(v, f)]; !set && m.p.typeOf(v) == "any" {
		return "" // a nil interface value shows nothing
	}
	return fmt.Sprintf("%d", m.reg[key(v, f)].N)
}

func (m *machine) store(o op) {
	typ := m.p.typeOf(o.V)
	switch {
	case typ == "string":
		m.reg[key(o.V, "")] = value{S: fmt.Sprintf("w%d", o.ID)}
	case o.F == "" && components(typ) != nil:
		// T{A: n} and [3]int{n}: the other components become zero
		for i, c := range components(typ) {
			if i == 0 {
				m.reg[key(o.V, c)] = value{N: 1000 + o.ID}
			} else {
				m.reg[key(o.V, c)] = value{}
			}
		}
	default:
		m.reg[key(o.V, o.F)] = value{N: 1000 + o.ID}
	}
}

func (m *machine) run(ops []op) {
	for _, o := range ops {
		m.steps++
		switch o.K {
		case "read":
			m.used[o.V] = true
			m.events = append(m.events, event{o.ID, m.show(o.V, o.F)})
		case "write", "ptrw":
			m.used[o.V] = true
			m.store(o)
		case "inc":
			m.used[o.V] = true
			m.reg[key(o.V, o.F)] = value{N: m.reg[key(o.V, o.F)].N + 1}
		case "tuple":
			for _, w := range o.Body {
				m.used[w.V] = true
				m.store(w)
			}
		case "call":
			m.run(m.p.macro(o.Name).Ops)
		case "decl":
		case "defc":
			m.used[o.V] = true
			m.clos[o.Name] = o
		case "callc":
			d := m.clos[o.Name]
			if d.W {
				m.store(d)
			} else {
				m.events = append(m.events, event{o.ID, m.show(d.V, d.F)})
			}
		case "render":
			m.run(m.p.Partials[o.Name])
		case "if":
			m.run(o.Body)
		case "for":
			for i := 0; i < o.N; i++ {
				m.run(o.Body)
			}
		}
	}
}

// parseLog parses the rendered output "r<site>:<text>;…" into events.
func parseLog(out string) ([]event, error) {
	var evs []event
	rest := out
	for len(rest) > 0 {
		rest = strings.TrimLeft(rest, "\n")
		if rest == "" {
			break
		}
		if rest[0] != 'r' {
			return evs, fmt.Errorf("unexpected text %q in the output", rest[:min(len(rest), 30)])
		}
		c := strings.IndexByte(rest, ':')
		s := strings.IndexByte(rest, ';')
		if c < 0 || s < c {
			return evs, fmt.Errorf("malformed event %q", rest[:min(len(rest), 30)])
		}
		var site int
		if _, err := fmt.Sscanf(rest[1:c], "%d", &site); err != nil {
			return evs, fmt.Errorf("malformed site %q", rest[:c])
		}
		evs = append(evs, event{site, rest[c+1 : s]})
		rest = rest[s+1:]
	}
	return evs, nil
}
