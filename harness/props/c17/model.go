package c17

import (
	"fmt"
	"strings"
)

// value is the content of a register: S for string variables, N for int
// variables and for field A of struct variables.
type value struct {
	S string
	N int
}

// event is one observed or expected read: site id and the text shown.
type event struct {
	Site int
	Text string
}

// machine is the sequential register model: one register per variable, a
// read returns the last write in program order, initially the value supplied
// to Run or the zero value.
type machine struct {
	p      *prog
	reg    map[string]value
	events []event
	used   map[string]bool // variables referenced by executed code
	clos   map[string]op
	steps  int
}

func newMachine(p *prog, init map[string]value) *machine {
	m := &machine{p: p, reg: map[string]value{}, used: map[string]bool{}, clos: map[string]op{}}
	for k, v := range init {
		m.reg[k] = v
	}
	return m
}

func (m *machine) show(v string) string {
	if m.p.typeOf(v) == "string" {
		return m.reg[v].S
	}
	return fmt.Sprintf("%d", m.reg[v].N)
}

func (m *machine) store(o op) {
	if m.p.typeOf(o.V) == "string" {
		m.reg[o.V] = value{S: fmt.Sprintf("w%d", o.ID)}
	} else {
		m.reg[o.V] = value{N: 1000 + o.ID}
	}
}

func (m *machine) run(ops []op) {
	for _, o := range ops {
		m.steps++
		switch o.K {
		case "read":
			m.used[o.V] = true
			m.events = append(m.events, event{o.ID, m.show(o.V)})
		case "write":
			m.used[o.V] = true
			m.store(o)
		case "call":
			m.run(m.p.macro(o.Name).Ops)
		case "decl":
		case "defc":
			m.used[o.V] = true
			m.clos[o.Name] = o
		case "callc":
			d := m.clos[o.Name]
			if d.W {
				m.store(d)
			} else {
				m.events = append(m.events, event{o.ID, m.show(d.V)})
			}
		case "render":
			m.run(m.p.Partials[o.Name])
		case "if":
			m.run(o.Body)
		case "for":
			for i := 0; i < o.N; i++ {
				m.run(o.Body)
			}
		}
	}
}

// parseLog parses the rendered output "r<site>:<text>;…" into events.
func parseLog(out string) ([]event, error) {
	var evs []event
	rest := out
	for len(rest) > 0 {
		rest = strings.TrimLeft(rest, "\n")
		if rest == "" {
			break
		}
		if rest[0] != 'r' {
			return evs, fmt.Errorf("unexpected text %q in the output", rest[:min(len(rest), 30)])
		}
		c := strings.IndexByte(rest, ':')
		s := strings.IndexByte(rest, ';')
		if c < 0 || s < c {
			return evs, fmt.Errorf("malformed event %q", rest[:min(len(rest), 30)])
		}
		var site int
		if _, err := fmt.Sscanf(rest[1:c], "%d", &site); err != nil {
			return evs, fmt.Errorf("malformed site %q", rest[:c])
		}
		evs = append(evs, event{site, rest[c+1 : s]})
		rest = rest[s+1:]
	}
	return evs, nil
}
