// Package c17 checks that the variables passed to Template.Run are the values
// every reference sees.
//
// Oracle: a sequential register model per variable over an event log with
// unique values. The workload is a generated straight-line program over 1–4
// globals declared without a value (string, int and struct typed) plus
// same-named variables of an auto-imported package; it is rendered to template
// files (top level, macros, function literals, imported file, extended layout,
// rendered partials, if/for bodies). Every read site prints "r<site>:<value>;"
// and every write stores a value unique in the case, so the output is an event
// log that is replayed against the model. Caller-side checks by reflection:
// UsedVars, pointer initialisers share the variable, value initialisers are
// copied, an absent initialiser gives the zero value in every run.
package c17

import (
	"fmt"
	"math/rand"
	"reflect"
	"sort"
	"strings"

	"github.com/open2b/scriggo"
	"github.com/open2b/scriggo/native"

	"verif/core"
	"verif/gen/tmplfiles"
)

type prop struct{}

func init() { core.Register(prop{}) }

func (prop) ID() string    { return "C17" }
func (prop) Level() string { return "exploration" }

// T is the struct type of struct-typed globals.
type T struct {
	A, B int
}

// initSpec says how one global is supplied to a run.
type initSpec struct {
	Mode string `json:"mode"` // value | pointer
	Val  value  `json:"val"`
}

type caseData struct {
	Prog  *prog                 `json:"prog"`
	Files map[string]string     `json:"files"`
	Runs  []map[string]initSpec `json:"runs"` // per run: global name -> initialiser (absent = not supplied)
}

func (prop) Drive(d *core.Driver) error {
	n := d.N(1500, 50000)
	d.T.Rule = "a random straight-line program over 1-4 globals declared without a value (string/int/struct) and same-named variables of an auto-imported package p is rendered to template files: reads and writes at top level, in macros declared before/after the first top-level use, in function literals, in an imported file, in an extended layout and in rendered partials, inside if/for; each template is built once and run 3 times (values, pointers, no variables; random subsets). distinct_nontrivial counts distinct (file layout, variable type, initialiser mode, kind of unit holding the first executed reference, kind of unit holding the first reference in source order) tuples over variables that were read at least once"
	d.T.Assumptions = []string{"values are alphanumeric, so no escaping interferes with the event log", "UsedVars is only required to contain the globals referenced by executed code (the documentation allows dead code to be missed)"}
	firstTop := d.InScope("first-ref-in-macro")
	noQual := d.InScope("qualified-package-var-in-closure")
	var cases []core.Case
	for i := 0; i < n; i++ {
		r := core.Rand(d.Seed, fmt.Sprintf("C17/%d", i))
		cd := genCase(r, firstTop, noQual)
		cases = append(cases, core.NewCase(fmt.Sprintf("prog-%d", i), cd))
		if i < 2 {
			d.T.Sample(map[string]any{"files": cd.Files, "runs": cd.Runs})
		}
	}
	d.Run(cases, core.RunOpts{})
	return nil
}

func genCase(r *rand.Rand, firstTop, noQual bool) caseData {
	p := generate(r, firstTop, noQual)
	// make sure an imported file is used
	for _, m := range p.Macros {
		if m.File == "lib" {
			p.Main = append(p.Main, op{K: "call", Name: m.Name})
			break
		}
	}
	cd := caseData{Prog: p, Files: p.render()}
	id := 5000
	for run := 0; run < 3; run++ {
		spec := map[string]initSpec{}
		for _, g := range p.Globals {
			mode := ""
			switch run {
			case 0:
				mode = []string{"value", "value", "pointer", ""}[r.Intn(4)]
			case 1:
				mode = []string{"pointer", "pointer", "value", ""}[r.Intn(4)]
			}
			if mode == "value" && g.Type == "any" {
				// an interface-typed global can only be supplied through a pointer
				// to a variable of the interface type (*any): a plain value has
				// its dynamic type, which the documentation rejects
				mode = "pointer"
			}
			if mode == "" {
				continue
			}
			id++
			v := value{N: 9000 + id}
			if g.Type == "string" {
				v = value{S: fmt.Sprintf("i%d", id)}
			}
			spec[g.Name] = initSpec{Mode: mode, Val: v}
		}
		cd.Runs = append(cd.Runs, spec)
	}
	return cd
}

func goValue(typ string, v value) any {
	switch typ {
	case "string":
		return v.S
	case "int", "any":
		return v.N
	case "A3":
		return [3]int{v.N, v.N + 1, v.N + 2}
	}
	return T{A: v.N, B: v.N + 1}
}

func ptrTo(x any) any {
	p := reflect.New(reflect.TypeOf(x))
	p.Elem().Set(reflect.ValueOf(x))
	return p.Interface()
}

func declarations(p *prog) native.Declarations {
	decl := native.Declarations{"T": reflect.TypeOf(T{})}
	nilPtr := func(typ string) any {
		switch typ {
		case "string":
			return (*string)(nil)
		case "int":
			return (*int)(nil)
		case "A3":
			return (*[3]int)(nil)
		case "any":
			return (*any)(nil)
		}
		return (*T)(nil)
	}
	for _, g := range p.Globals {
		decl[g.Name] = nilPtr(g.Type)
	}
	if len(p.PkgVars) > 0 {
		pd := native.Declarations{}
		for _, g := range p.PkgVars {
			pd[g.Name] = nilPtr(g.Type)
		}
		decl["p"] = native.Package{Name: "p", Declarations: pd}
	}
	return decl
}

// firstRefs returns, per variable, the kind of unit that holds its first
// reference in source order of the root file's expansion (approximation of
// the emission order) — only used for coverage signatures.
func firstTextual(p *prog) map[string]string {
	first := map[string]string{}
	var walk func(ops []op, kind string)
	walk = func(ops []op, kind string) {
		for _, o := range ops {
			switch o.K {
			case "read", "write", "ptrw", "inc":
				if _, ok := first[o.V]; !ok {
					first[o.V] = kind
				}
			case "tuple":
				walk(o.Body, kind)
			case "defc":
				if _, ok := first[o.V]; !ok {
					first[o.V] = "closure"
				}
			case "decl":
				walk(p.macro(o.Name).Ops, "macro")
			case "if", "for":
				walk(o.Body, kind)
			}
		}
	}
	for _, m := range p.Macros {
		if m.File == "lib" || (p.Extends && m.File == "root") {
			walk(m.Ops, "macro-other-file")
		}
	}
	walk(p.Main, "top")
	return first
}

func (prop) Work(c core.Case) core.Result {
	var cd caseData
	c.Decode(&cd)
	p := cd.Prog
	res := core.Result{Status: core.OK, Counts: map[string]int64{}}
	fail := func(format string, a ...any) core.Result {
		res.Status = core.Violation
		res.Detail = fmt.Sprintf(format, a...) + "\nfiles:\n" + tmplfiles.FromStrings(cd.Files).String()
		return res
	}
	files := tmplfiles.FromStrings(cd.Files)
	t, o := tmplfiles.Build(tmplfiles.ToScriggo(files), "index.html", &scriggo.BuildOptions{Globals: declarations(p)})
	if o.Panic != "" {
		return fail("%s", core.Truncate(o.Panic, 2000))
	}
	if t == nil {
		res.Status = core.Inconclusive
		res.Detail = "generated template does not build (harness generator): " + o.BuildErr + "\n" + files.String()
		return res
	}
	var used []string
	core.Guard(func() { used = t.UsedVars() })
	layout := "single"
	if p.Extends {
		layout = "extends"
	}
	if _, ok := cd.Files["lib.html"]; ok {
		layout += "+import"
	}
	if len(p.Partials) > 0 {
		layout += "+render"
	}
	firstText := firstTextual(p)
	sigs := map[string]struct{}{}
	for run, spec := range cd.Runs {
		// caller side
		vars := map[string]any{}
		ptrs := map[string]reflect.Value{}
		orig := map[string]any{}
		init := map[string]value{}
		for _, g := range p.Globals {
			s, ok := spec[g.Name]
			if !ok {
				continue
			}
			gv := goValue(g.Type, s.Val)
			init[g.Name] = s.Val
			if s.Mode == "pointer" {
				pv := ptrTo(gv)
				if g.Type == "any" {
					var x any = gv // a *any whose element holds an int
					pv = &x
				}
				vars[g.Name] = pv
				ptrs[g.Name] = reflect.ValueOf(pv)
			} else {
				vars[g.Name] = gv
				orig[g.Name] = gv
			}
		}
		var runVars map[string]any = vars
		if len(vars) == 0 && run == 2 {
			runVars = nil
		}
		ro := tmplfiles.Outcome{}
		tmplfiles.Run(t, runVars, &ro)
		res.Evals++
		if ro.Panic != "" {
			return fail("run %d: %s", run, core.Truncate(ro.Panic, 2000))
		}
		if ro.RunErr != "" {
			return fail("run %d with vars %v: Run returned error %s", run, spec, ro.RunErr)
		}
		// model
		m := newMachine(p, init)
		unitOf := map[string]string{}
		m.runTracked(p.Main, "top", unitOf)
		got, err := parseLog(string(ro.Out))
		if err != nil {
			return fail("run %d: cannot parse the event log: %v\noutput %q", run, err, ro.Out)
		}
		for i := 0; i < len(got) || i < len(m.events); i++ {
			if i >= len(got) || i >= len(m.events) || got[i] != m.events[i] {
				var g, w string
				if i < len(got) {
					g = fmt.Sprintf("r%d:%s", got[i].Site, got[i].Text)
				} else {
					g = "<end of log>"
				}
				if i < len(m.events) {
					w = fmt.Sprintf("r%d:%s", m.events[i].Site, m.events[i].Text)
				} else {
					w = "<end of log>"
				}
				return fail("run %d with vars %v: event %d: the template observed %s, the register model (last write in program order, initially the value passed to Run or zero) says %s\noutput %q", run, spec, i, g, w, ro.Out)
			}
		}
		res.Counts["reads_checked"] += int64(len(got))
		// pointer initialisers share the variable, value initialisers are copied
		for _, g := range p.Globals {
			touched := m.used[g.Name]
			if pv, ok := ptrs[g.Name]; ok {
				// every component of the caller's variable against the model
				got := map[string]value{}
				switch g.Type {
				case "string":
					got[""] = value{S: pv.Elem().String()}
				case "int":
					got[""] = value{N: int(pv.Elem().Int())}
				case "any":
					n, ok := pv.Elem().Interface().(int)
					if !ok {
						return fail("run %d: global %s (type any) was passed as *any holding an int; after Run the caller's variable holds %#v", run, g.Name, pv.Elem().Interface())
					}
					got[""] = value{N: n}
				case "A3":
					a := pv.Elem().Interface().([3]int)
					for i, c := range components("A3") {
						got[c] = value{N: a[i]}
					}
				default:
					t := pv.Elem().Interface().(T)
					got["A"], got["B"] = value{N: t.A}, value{N: t.B}
				}
				for c, gv := range got {
					if final := m.reg[key(g.Name, c)]; gv != final {
						return fail("run %d: global %s was passed as a pointer; after Run component %q of the caller's variable holds %+v, the template's last write was %+v (caller's value %v, touched=%v)", run, g.Name, c, gv, final, pv.Elem().Interface(), touched)
					}
				}
				res.Counts["pointer_vars_checked"]++
			}
			if ov, ok := orig[g.Name]; ok {
				if !reflect.DeepEqual(vars[g.Name], ov) {
					return fail("run %d: global %s was passed by value; the caller's value changed from %+v to %+v", run, g.Name, ov, vars[g.Name])
				}
				res.Counts["value_vars_checked"]++
			}
		}
		// the same map again: value initialisers must still give the original
		// value (they were copied), pointer initialisers the value left by the
		// previous run
		if run == 0 && len(vars) > 0 {
			init2, left := map[string]value{}, map[string]value{}
			for _, g := range p.Globals {
				if _, ok := ptrs[g.Name]; ok {
					for _, c := range append([]string{""}, components(g.Type)...) {
						if v, ok := m.reg[key(g.Name, c)]; ok {
							left[key(g.Name, c)] = v
						}
					}
				} else if s, ok := spec[g.Name]; ok {
					init2[g.Name] = s.Val
				}
			}
			m2 := newMachine(p, init2, left)
			m2.run(p.Main)
			ro2 := tmplfiles.Outcome{}
			tmplfiles.Run(t, vars, &ro2)
			res.Evals++
			got2, _ := parseLog(string(ro2.Out))
			if ro2.Failed() || !reflect.DeepEqual(got2, m2.events) {
				return fail("second run with the same variables map %v: observed log %q (error %q%s), the model says %v", spec, ro2.Out, ro2.RunErr, core.Truncate(ro2.Panic, 600), m2.events)
			}
			res.Counts["reruns_checked"]++
		}
		// UsedVars
		usedSet := map[string]bool{}
		for _, u := range used {
			usedSet[u] = true
		}
		for v := range m.used {
			if strings.HasPrefix(v, "p.") || strings.HasPrefix(v, "L:") {
				continue
			}
			if !usedSet[v] {
				return fail("global %s is referenced by executed code but UsedVars() = %v", v, used)
			}
		}
		// UsedVars names only globals (variables declared in BuildOptions.Globals)
		// that some file refers to, each once: not the variables of packages,
		// not the package variables of imported files
		mentioned := mentionedGlobals(p)
		seenUsed := map[string]bool{}
		for _, u := range used {
			if !mentioned[u] {
				return fail("UsedVars() = %v reports %s, which is not a global that a file refers to (globals referred to: %v; package p declares %v; lib.html declares %q)", used, u, keysOf(mentioned), p.PkgVars, p.LibVar)
			}
			if seenUsed[u] {
				return fail("UsedVars() = %v reports %s twice", used, u)
			}
			seenUsed[u] = true
		}
		for v := range m.used {
			mode := "absent"
			if s, ok := spec[strings.TrimPrefix(v, "p.")]; ok && !strings.HasPrefix(v, "p.") {
				mode = s.Mode
			}
			pk := "main"
			if strings.HasPrefix(v, "p.") {
				pk = "pkg"
			}
			sigs[core.SigJoin(layout, pk, p.typeOf(v), mode, "firstexec="+unitOf[v], "firsttext="+firstText[v])] = struct{}{}
		}
	}
	res.Counts["templates"]++
	for s := range sigs {
		res.Sigs = append(res.Sigs, s)
	}
	sort.Strings(res.Sigs)
	return res
}

func mapValues(m map[string]string) []string {
	var out []string
	for _, v := range m {
		out = append(out, v)
	}
	sort.Strings(out)
	return out
}

// runTracked is run() that also records the kind of unit holding the first
// executed reference of every variable.
func (m *machine) runTracked(ops []op, kind string, unitOf map[string]string) {
	for _, o := range ops {
		switch o.K {
		case "tuple":
			for _, w := range o.Body {
				if _, ok := unitOf[w.V]; !ok {
					unitOf[w.V] = kind
				}
			}
			m.run([]op{o})
		case "read", "write", "defc", "ptrw", "inc":
			if _, ok := unitOf[o.V]; !ok {
				k := kind
				if o.K == "defc" {
					k = "closure"
				}
				unitOf[o.V] = k
			}
			m.run([]op{o})
		case "call":
			mc := m.p.macro(o.Name)
			k := "macro"
			if mc.File == "lib" {
				k = "imported-macro"
			} else if m.p.Extends && mc.File == "root" {
				k = "extending-macro"
			}
			m.runTracked(mc.Ops, k, unitOf)
		case "render":
			m.runTracked(m.p.Partials[o.Name], "partial", unitOf)
		case "if":
			m.runTracked(o.Body, kind, unitOf)
		case "for":
			for i := 0; i < o.N; i++ {
				m.runTracked(o.Body, kind, unitOf)
			}
		default:
			m.run([]op{o})
		}
	}
}

// mentionedGlobals returns the globals (main package) that some unit of the
// program refers to, executed or not.
func mentionedGlobals(p *prog) map[string]bool {
	m := map[string]bool{}
	var walk func(ops []op)
	walk = func(ops []op) {
		for _, o := range ops {
			if o.V != "" && !strings.HasPrefix(o.V, "p.") && !strings.HasPrefix(o.V, "L:") {
				m[o.V] = true
			}
			walk(o.Body)
		}
	}
	walk(p.Main)
	for _, mc := range p.Macros {
		walk(mc.Ops)
	}
	for _, ops := range p.Partials {
		walk(ops)
	}
	return m
}

func keysOf(m map[string]bool) []string {
	var k []string
	for s := range m {
		k = append(k, s)
	}
	sort.Strings(k)
	return k
}
