package c17

import (
	"fmt"
	"math/rand"
	"sort"
	"strings"
)

// The workload is a small straight-line "program" over 1–4 declared globals
// (and same-named variables of an auto-imported package p). It is rendered to a
// set of template files by render(), executed by scriggo, and interpreted by
// the sequential register model in model.go. Every read site prints
// "r<site>:<value>;" and every write stores a value that is unique in the case.

// op is one operation of a unit.
type op struct {
	K    string `json:"k"`              // read | write | ptrw | inc | tuple | call | defc | callc | render | if | for
	V    string `json:"v,omitempty"`    // variable: "G0" or "p.G0"
	F    string `json:"f,omitempty"`    // component: field of a struct variable ("A", "B") or index of an array variable ("0".."2"), "" = the variable itself
	ID   int    `json:"id,omitempty"`   // site id (read/callc) or value id (write/defc)
	Name string `json:"name,omitempty"` // macro, closure or partial name
	W    bool   `json:"w,omitempty"`    // defc: the closure writes (else it reads)
	N    int    `json:"n,omitempty"`    // for: iterations
	Body []op   `json:"body,omitempty"` // if / for; tuple: the write ops of the tuple assignment, left to right
}

// glob is a declared global variable.
type glob struct {
	Name string `json:"name"`
	Type string `json:"type"` // string | int | T (struct{A, B int}) | A3 ([3]int) | any (interface-typed, holds ints)
}

// macro is a macro declaration.
type macro struct {
	Name string `json:"name"`
	File string `json:"file"` // root | lib | layout
	Ops  []op   `json:"ops"`
}

// prog is the whole program.
type prog struct {
	Globals  []glob          `json:"globals"`
	PkgVars  []glob          `json:"pkg_vars"` // variables of the auto-imported package p (same names as Globals)
	Extends  bool            `json:"extends"`  // root extends layout.html; Main lives in the layout
	ImportAs string          `json:"import_as"`
	LibVar   string          `json:"lib_var,omitempty"` // package variable (int, initial value 77) declared in lib.html; referred to as "L:<name>"
	Main     []op            `json:"main"`     // top-level flow; ops with K=="decl" declare a macro at that point
	Macros   []macro         `json:"macros"`
	Partials map[string][]op `json:"partials"`
}

func (p *prog) macro(name string) *macro {
	for i := range p.Macros {
		if p.Macros[i].Name == name {
			return &p.Macros[i]
		}
	}
	return nil
}

func (p *prog) typeOf(v string) string {
	if strings.HasPrefix(v, "L:") {
		return "int"
	}
	name := strings.TrimPrefix(v, "p.")
	for _, g := range p.Globals {
		if g.Name == name {
			return g.Type
		}
	}
	return ""
}

// ---------------------------------------------------------------------------
// rendering to template files

func lit(typ string, id int, field string) string {
	switch {
	case typ == "string":
		return fmt.Sprintf("%q", fmt.Sprintf("w%d", id))
	case typ == "T" && field == "":
		return fmt.Sprintf("T{A: %d}", 1000+id)
	case typ == "A3" && field == "":
		return fmt.Sprintf("[3]int{%d}", 1000+id)
	}
	return fmt.Sprintf("%d", 1000+id)
}

// components returns the components of a variable of type typ.
func components(typ string) []string {
	switch typ {
	case "T":
		return []string{"A", "B"}
	case "A3":
		return []string{"0", "1", "2"}
	}
	return nil
}

// ref writes the reference to the variable (or its component) of o in file.
func (p *prog) ref(o op, file string) string {
	v := o.V
	if strings.HasPrefix(v, "L:") {
		v = v[2:]
		if file != "lib" && p.ImportAs != "" {
			v = p.ImportAs + "." + v
		}
	}
	switch {
	case o.F == "":
		return v
	case p.typeOf(o.V) == "A3":
		return v + "[" + o.F + "]"
	}
	return v + "." + o.F
}

func (p *prog) retType(o op) string {
	t := p.typeOf(o.V)
	if o.F != "" {
		return "int"
	}
	return t
}

func (p *prog) renderOps(b *strings.Builder, ops []op, file string) {
	for _, o := range ops {
		switch o.K {
		case "read":
			if p.typeOf(o.V) == "T" && o.F == "" {
				fmt.Fprintf(b, "r%d:{{ %s.A }};", o.ID, o.V)
			} else {
				fmt.Fprintf(b, "r%d:{{ %s }};", o.ID, p.ref(o, file))
			}
		case "write":
			fmt.Fprintf(b, "{%% %s = %s %%}", p.ref(o, file), lit(p.typeOf(o.V), o.ID, o.F))
		case "ptrw":
			// a write through a pointer to the variable or to its component
			fmt.Fprintf(b, "{%% q%d := &%s %%}{%% *q%d = %s %%}", o.ID, p.ref(o, file), o.ID, lit(p.typeOf(o.V), o.ID, o.F))
		case "inc":
			if o.ID%2 == 0 {
				fmt.Fprintf(b, "{%% %s++ %%}", p.ref(o, file))
			} else {
				fmt.Fprintf(b, "{%% %s += 1 %%}", p.ref(o, file))
			}
		case "tuple":
			var lhs, rhs []string
			for _, w := range o.Body {
				lhs = append(lhs, p.ref(w, file))
				rhs = append(rhs, lit(p.typeOf(w.V), w.ID, w.F))
			}
			fmt.Fprintf(b, "{%% %s = %s %%}", strings.Join(lhs, ", "), strings.Join(rhs, ", "))
		case "call":
			m := p.macro(o.Name)
			name := o.Name
			if m.File == "lib" && file != "lib" && p.ImportAs != "" {
				name = p.ImportAs + "." + name
			}
			fmt.Fprintf(b, "{{ %s() }}", name)
		case "decl":
			m := p.macro(o.Name)
			fmt.Fprintf(b, "{%% macro %s %%}", m.Name)
			p.renderOps(b, m.Ops, file)
			b.WriteString("{% end macro %}")
		case "defc":
			if o.W {
				fmt.Fprintf(b, "{%% %s := func() { %s = %s } %%}", o.Name, p.ref(o, file), lit(p.typeOf(o.V), o.ID, o.F))
			} else {
				rt := p.retType(o)
				r := p.ref(o, file)
				if rt == "T" {
					rt, r = "int", o.V+".A"
				}
				fmt.Fprintf(b, "{%% %s := func() %s { return %s } %%}", o.Name, rt, r)
			}
		case "callc":
			if o.W {
				fmt.Fprintf(b, "{%% %s() %%}", o.Name)
			} else {
				fmt.Fprintf(b, "r%d:{{ %s() }};", o.ID, o.Name)
			}
		case "render":
			fmt.Fprintf(b, "{{ render %q }}", "/"+o.Name)
		case "if":
			b.WriteString("{% if true %}")
			p.renderOps(b, o.Body, file)
			b.WriteString("{% end if %}")
		case "for":
			fmt.Fprintf(b, "{%% for i := 0; i < %d; i++ %%}", o.N)
			p.renderOps(b, o.Body, file)
			b.WriteString("{% end for %}")
		}
	}
}

// render returns the file set of the program; the root is index.html.
func (p *prog) render() map[string]string {
	files := map[string]string{}
	var lib, root, layout strings.Builder
	hasLib := false
	if p.LibVar != "" {
		fmt.Fprintf(&lib, "{%% var %s = 77 %%}\n", p.LibVar)
	}
	for _, m := range p.Macros {
		if m.File == "lib" {
			hasLib = true
			fmt.Fprintf(&lib, "{%% macro %s %%}", m.Name)
			p.renderOps(&lib, m.Ops, "lib")
			lib.WriteString("{% end macro %}\n")
		}
	}
	imp := ""
	if hasLib {
		files["lib.html"] = lib.String()
		if p.ImportAs != "" {
			imp = fmt.Sprintf("{%% import %s \"lib.html\" %%}", p.ImportAs)
		} else {
			imp = "{% import \"lib.html\" %}"
		}
	}
	if p.Extends {
		root.WriteString("{% extends \"layout.html\" %}\n")
		for _, m := range p.Macros {
			if m.File == "root" {
				fmt.Fprintf(&root, "{%% macro %s %%}", m.Name)
				p.renderOps(&root, m.Ops, "root")
				root.WriteString("{% end macro %}\n")
			}
		}
		layout.WriteString(imp)
		p.renderOps(&layout, p.Main, "layout")
		files["layout.html"] = layout.String()
	} else {
		root.WriteString(imp)
		p.renderOps(&root, p.Main, "root")
	}
	files["index.html"] = root.String()
	names := make([]string, 0, len(p.Partials))
	for n := range p.Partials {
		names = append(names, n)
	}
	sort.Strings(names)
	for _, n := range names {
		var b strings.Builder
		p.renderOps(&b, p.Partials[n], "partial")
		files[n] = b.String()
	}
	return files
}

// ---------------------------------------------------------------------------
// generation

type pgen struct {
	r       *rand.Rand
	p       *prog
	id      int
	vars    []string // "G0", "p.G0", "L:K0", ...
	// noQualifiedInClosure: scope "qualified-package-var-in-closure": macros and
	// function literals of the importing file do not refer to the package
	// variable of a file imported with a name (lib.K0)
	noQualifiedInClosure bool
	inLib                bool // generating a unit of lib.html
	noMacro bool     // scope "first-ref-in-macro": keep the first reference of every global at top level
}

func (g *pgen) next() int { g.id++; return g.id }

// pickVar picks a variable and, for struct and array variables, mostly one of
// its components; whole is false when a component is required (reads).
func (g *pgen) pickVar(whole bool) (string, string) {
	v := g.vars[g.r.Intn(len(g.vars))]
	f := ""
	if c := components(g.p.typeOf(v)); c != nil && (!whole || g.r.Intn(4) > 0) {
		f = c[g.r.Intn(len(c))]
	}
	return v, f
}

// simple returns a read or one of the forms of write.
func (g *pgen) simple() op {
	switch w := g.r.Intn(100); {
	case w < 55:
		v, f := g.pickVar(false)
		return op{K: "read", V: v, F: f, ID: g.next()}
	case w < 75:
		v, f := g.pickVar(true)
		return op{K: "write", V: v, F: f, ID: g.next()}
	case w < 85:
		// through a pointer to the variable, to a field, to an element
		v, f := g.pickVar(true)
		return op{K: "ptrw", V: v, F: f, ID: g.next()}
	case w < 92:
		v, f := g.pickVar(false)
		if t := g.p.typeOf(v); t == "string" || t == "any" {
			return op{K: "write", V: v, F: f, ID: g.next()}
		}
		return op{K: "inc", V: v, F: f, ID: g.next()}
	}
	// a tuple assignment, mostly to several components of one variable
	var ws []op
	seen := map[string]bool{}
	v, _ := g.pickVar(true)
	n := 2 + g.r.Intn(2)
	for i := 0; i < n; i++ {
		if g.r.Intn(4) == 0 {
			v, _ = g.pickVar(true)
		}
		f := ""
		if c := components(g.p.typeOf(v)); c != nil {
			f = c[g.r.Intn(len(c))]
		}
		if seen[v+"|"+f] {
			continue
		}
		seen[v+"|"+f] = true
		ws = append(ws, op{K: "write", V: v, F: f, ID: g.next()})
	}
	if len(ws) < 2 {
		return ws[0]
	}
	return op{K: "tuple", Body: ws}
}

// body generates the ops of a unit. callable lists the macros that may be
// called and partials the partials that may be rendered from here.
func (g *pgen) body(n, depth int, callable []string, partials []string, closures bool) []op {
	var ops []op
	for i := 0; i < n; i++ {
		switch w := g.r.Intn(100); {
		case w < 50:
			ops = append(ops, g.simple())
		case w < 68 && len(callable) > 0:
			ops = append(ops, op{K: "call", Name: callable[g.r.Intn(len(callable))]})
		case w < 76 && closures:
			wr := g.r.Intn(2) == 0
			v, f := g.pickVar(wr)
			for g.noQualifiedInClosure && g.p.ImportAs != "" && strings.HasPrefix(v, "L:") && !g.inLib {
				v, f = g.pickVar(wr)
			}
			name := fmt.Sprintf("c%d", g.next())
			ops = append(ops, op{K: "defc", Name: name, V: v, F: f, ID: g.next(), W: wr})
			if g.r.Intn(2) == 0 {
				ops = append(ops, g.simple())
			}
			k := 1 + g.r.Intn(2)
			for j := 0; j < k; j++ {
				ops = append(ops, op{K: "callc", Name: name, V: v, F: f, ID: g.next(), W: wr})
				if g.r.Intn(2) == 0 {
					ops = append(ops, g.simple())
				}
			}
		case w < 84 && len(partials) > 0:
			ops = append(ops, op{K: "render", Name: partials[g.r.Intn(len(partials))]})
		case w < 92 && depth < 2:
			ops = append(ops, op{K: "if", Body: g.body(1+g.r.Intn(3), depth+1, callable, partials, false)})
		case w < 97 && depth < 2:
			ops = append(ops, op{K: "for", N: g.r.Intn(3), Body: g.body(1+g.r.Intn(2), depth+1, callable, partials, false)})
		default:
			ops = append(ops, g.simple())
		}
	}
	return ops
}

// generate builds a random program. If firstRefTopLevel is set, every global is
// read once at the very start of the top-level flow (keeps the sweep away from
// the construct of a recorded finding).
func generate(r *rand.Rand, firstRefTopLevel, noQualifiedInClosure bool) *prog {
	p := &prog{Partials: map[string][]op{}}
	g := &pgen{r: r, p: p, noQualifiedInClosure: noQualifiedInClosure}
	types := []string{"string", "int", "T", "A3", "T", "A3", "any"}
	ng := 1 + r.Intn(4)
	for i := 0; i < ng; i++ {
		gl := glob{Name: fmt.Sprintf("G%d", i), Type: types[r.Intn(len(types))]}
		p.Globals = append(p.Globals, gl)
		g.vars = append(g.vars, gl.Name)
		if r.Intn(3) == 0 {
			p.PkgVars = append(p.PkgVars, gl)
			g.vars = append(g.vars, "p."+gl.Name)
		}
	}
	p.Extends = r.Intn(3) == 0
	if r.Intn(2) == 0 {
		p.ImportAs = "lib"
	}
	// partials (may render deeper partials, never cyclic)
	np := r.Intn(3)
	var partials []string
	for i := np - 1; i >= 0; i-- {
		name := fmt.Sprintf("part%d.html", i)
		p.Partials[name] = g.body(1+r.Intn(4), 1, nil, partials, true)
		partials = append(partials, name)
	}
	// macros: lib macros first (they can only call earlier lib macros), then
	// root/layout macros (may call lib macros and earlier macros of their file)
	var libNames, rootNames, layoutNames []string
	nl := r.Intn(3)
	base := g.vars
	withLib := base
	if nl > 0 && r.Intn(2) == 0 {
		// a package variable of the imported file: visible in the imported file
		// and in the importing file, never a global of the template
		p.LibVar = "K0"
		withLib = append(append([]string{}, base...), "L:K0")
	}
	g.vars, g.inLib = withLib, true
	for i := 0; i < nl; i++ {
		name := fmt.Sprintf("L%d", i)
		p.Macros = append(p.Macros, macro{Name: name, File: "lib", Ops: g.body(1+r.Intn(4), 1, libNames, partials, true)})
		libNames = append(libNames, name)
	}
	g.inLib = false
	// macros of the importing file see the library's variable (not through a
	// qualified name under the scope)
	inMacros := withLib
	if noQualifiedInClosure && p.ImportAs != "" {
		inMacros = base
	}
	g.vars = base
	if !p.Extends {
		g.vars = inMacros // the root imports the library
	}
	nr := r.Intn(3)
	if p.Extends && nr == 0 {
		nr = 1
	}
	for i := 0; i < nr; i++ {
		name := fmt.Sprintf("M%d", i)
		callable := append([]string{}, rootNames...)
		if !p.Extends {
			// in the extending file the import lives in the layout; keep root macros self-contained
			callable = append(callable, libNames...)
		}
		p.Macros = append(p.Macros, macro{Name: name, File: "root", Ops: g.body(1+r.Intn(4), 1, callable, partials, true)})
		rootNames = append(rootNames, name)
	}
	g.vars = inMacros // the layout imports the library
	if p.Extends {
		ny := r.Intn(2)
		for i := 0; i < ny; i++ {
			name := fmt.Sprintf("Y%d", i)
			p.Macros = append(p.Macros, macro{Name: name, File: "layout", Ops: g.body(1+r.Intn(3), 1, append(append([]string{}, libNames...), layoutNames...), partials, true)})
			layoutNames = append(layoutNames, name)
		}
	}
	g.vars = withLib
	// main flow: declarations of the file's own macros interleaved with ops
	var declHere []string
	if p.Extends {
		declHere = layoutNames
	} else {
		declHere = rootNames
	}
	callable := append([]string{}, libNames...)
	if p.Extends {
		callable = append(callable, rootNames...) // the child's macros are visible in the layout
	}
	var main []op
	if firstRefTopLevel {
		for _, v := range base {
			f := ""
			if c := components(p.typeOf(v)); c != nil {
				f = c[0]
			}
			main = append(main, op{K: "read", V: v, F: f, ID: g.next()})
		}
	}
	for _, d := range declHere {
		main = append(main, g.body(r.Intn(3), 0, callable, partials, true)...)
		main = append(main, op{K: "decl", Name: d})
		callable = append(callable, d)
	}
	main = append(main, g.body(2+r.Intn(6), 0, callable, partials, true)...)
	p.Main = main
	return p
}
