package c17

import (
	"fmt"
	"math/rand"
	"sort"
	"strings"
)

// The workload is a small straight-line "program" over 1–4 declared globals
// (and same-named variables of an auto-imported package p). It is rendered to a
// set of template files by render(), executed by scriggo, and interpreted by
// the sequential register model in model.go. Every read site prints
// "r<site>:<value>;" and every write stores a value that is unique in the case.

// op is one operation of a unit.
type op struct {
	K    string `json:"k"`              // read | write | call | defc | callc | render | if | for
	V    string `json:"v,omitempty"`    // variable: "G0" or "p.G0"
	F    string `json:"f,omitempty"`    // field of a struct variable ("A"), "" = the variable itself
	ID   int    `json:"id,omitempty"`   // site id (read/callc) or value id (write/defc)
	Name string `json:"name,omitempty"` // macro, closure or partial name
	W    bool   `json:"w,omitempty"`    // defc: the closure writes (else it reads)
	N    int    `json:"n,omitempty"`    // for: iterations
	Body []op   `json:"body,omitempty"` // if / for
}

// glob is a declared global variable.
type glob struct {
	Name string `json:"name"`
	Type string `json:"type"` // string | int | T
}

// macro is a macro declaration.
type macro struct {
	Name string `json:"name"`
	File string `json:"file"` // root | lib | layout
	Ops  []op   `json:"ops"`
}

// prog is the whole program.
type prog struct {
	Globals  []glob          `json:"globals"`
	PkgVars  []glob          `json:"pkg_vars"` // variables of the auto-imported package p (same names as Globals)
	Extends  bool            `json:"extends"`  // root extends layout.html; Main lives in the layout
	ImportAs string          `json:"import_as"`
	Main     []op            `json:"main"`     // top-level flow; ops with K=="decl" declare a macro at that point
	Macros   []macro         `json:"macros"`
	Partials map[string][]op `json:"partials"`
}

func (p *prog) macro(name string) *macro {
	for i := range p.Macros {
		if p.Macros[i].Name == name {
			return &p.Macros[i]
		}
	}
	return nil
}

func (p *prog) typeOf(v string) string {
	name := strings.TrimPrefix(v, "p.")
	for _, g := range p.Globals {
		if g.Name == name {
			return g.Type
		}
	}
	return ""
}

// ---------------------------------------------------------------------------
// rendering to template files

func lit(typ string, id int, field string) string {
	switch {
	case typ == "string":
		return fmt.Sprintf("%q", fmt.Sprintf("w%d", id))
	case typ == "T" && field == "":
		return fmt.Sprintf("T{A: %d}", 1000+id)
	}
	return fmt.Sprintf("%d", 1000+id)
}

func ref(o op) string {
	if o.F != "" {
		return o.V + "." + o.F
	}
	return o.V
}

func (p *prog) retType(o op) string {
	t := p.typeOf(o.V)
	if t == "T" {
		if o.F != "" {
			return "int"
		}
		return "T"
	}
	return t
}

func (p *prog) renderOps(b *strings.Builder, ops []op, file string) {
	for _, o := range ops {
		switch o.K {
		case "read":
			if p.typeOf(o.V) == "T" && o.F == "" {
				fmt.Fprintf(b, "r%d:{{ %s.A }};", o.ID, o.V)
			} else {
				fmt.Fprintf(b, "r%d:{{ %s }};", o.ID, ref(o))
			}
		case "write":
			fmt.Fprintf(b, "{%% %s = %s %%}", ref(o), lit(p.typeOf(o.V), o.ID, o.F))
		case "call":
			m := p.macro(o.Name)
			name := o.Name
			if m.File == "lib" && file != "lib" && p.ImportAs != "" {
				name = p.ImportAs + "." + name
			}
			fmt.Fprintf(b, "{{ %s() }}", name)
		case "decl":
			m := p.macro(o.Name)
			fmt.Fprintf(b, "{%% macro %s %%}", m.Name)
			p.renderOps(b, m.Ops, file)
			b.WriteString("{% end macro %}")
		case "defc":
			if o.W {
				fmt.Fprintf(b, "{%% %s := func() { %s = %s } %%}", o.Name, ref(o), lit(p.typeOf(o.V), o.ID, o.F))
			} else {
				rt := p.retType(o)
				r := ref(o)
				if rt == "T" {
					rt, r = "int", o.V+".A"
				}
				fmt.Fprintf(b, "{%% %s := func() %s { return %s } %%}", o.Name, rt, r)
			}
		case "callc":
			if o.W {
				fmt.Fprintf(b, "{%% %s() %%}", o.Name)
			} else {
				fmt.Fprintf(b, "r%d:{{ %s() }};", o.ID, o.Name)
			}
		case "render":
			fmt.Fprintf(b, "{{ render %q }}", "/"+o.Name)
		case "if":
			b.WriteString("{% if true %}")
			p.renderOps(b, o.Body, file)
			b.WriteString("{% end if %}")
		case "for":
			fmt.Fprintf(b, "{%% for i := 0; i < %d; i++ %%}", o.N)
			p.renderOps(b, o.Body, file)
			b.WriteString("{% end for %}")
		}
	}
}

// render returns the file set of the program; the root is index.html.
func (p *prog) render() map[string]string {
	files := map[string]string{}
	var lib, root, layout strings.Builder
	hasLib := false
	for _, m := range p.Macros {
		if m.File == "lib" {
			hasLib = true
			fmt.Fprintf(&lib, "{%% macro %s %%}", m.Name)
			p.renderOps(&lib, m.Ops, "lib")
			lib.WriteString("{% end macro %}\n")
		}
	}
	imp := ""
	if hasLib {
		files["lib.html"] = lib.String()
		if p.ImportAs != "" {
			imp = fmt.Sprintf("{%% import %s \"lib.html\" %%}", p.ImportAs)
		} else {
			imp = "{% import \"lib.html\" %}"
		}
	}
	if p.Extends {
		root.WriteString("{% extends \"layout.html\" %}\n")
		for _, m := range p.Macros {
			if m.File == "root" {
				fmt.Fprintf(&root, "{%% macro %s %%}", m.Name)
				p.renderOps(&root, m.Ops, "root")
				root.WriteString("{% end macro %}\n")
			}
		}
		layout.WriteString(imp)
		p.renderOps(&layout, p.Main, "layout")
		files["layout.html"] = layout.String()
	} else {
		root.WriteString(imp)
		p.renderOps(&root, p.Main, "root")
	}
	files["index.html"] = root.String()
	names := make([]string, 0, len(p.Partials))
	for n := range p.Partials {
		names = append(names, n)
	}
	sort.Strings(names)
	for _, n := range names {
		var b strings.Builder
		p.renderOps(&b, p.Partials[n], "partial")
		files[n] = b.String()
	}
	return files
}

// ---------------------------------------------------------------------------
// generation

type pgen struct {
	r       *rand.Rand
	p       *prog
	id      int
	vars    []string // "G0", "p.G0", ...
	noMacro bool     // scope "first-ref-in-macro": keep the first reference of every global at top level
}

func (g *pgen) next() int { g.id++; return g.id }

func (g *pgen) pickVar() (string, string) {
	v := g.vars[g.r.Intn(len(g.vars))]
	f := ""
	if g.p.typeOf(v) == "T" && g.r.Intn(3) > 0 {
		f = "A"
	}
	return v, f
}

// simple returns a read or a write.
func (g *pgen) simple() op {
	v, f := g.pickVar()
	if g.r.Intn(5) < 3 {
		return op{K: "read", V: v, F: f, ID: g.next()}
	}
	return op{K: "write", V: v, F: f, ID: g.next()}
}

// body generates the ops of a unit. callable lists the macros that may be
// called and partials the partials that may be rendered from here.
func (g *pgen) body(n, depth int, callable []string, partials []string, closures bool) []op {
	var ops []op
	for i := 0; i < n; i++ {
		switch w := g.r.Intn(100); {
		case w < 50:
			ops = append(ops, g.simple())
		case w < 68 && len(callable) > 0:
			ops = append(ops, op{K: "call", Name: callable[g.r.Intn(len(callable))]})
		case w < 76 && closures:
			v, f := g.pickVar()
			name := fmt.Sprintf("c%d", g.next())
			wr := g.r.Intn(2) == 0
			ops = append(ops, op{K: "defc", Name: name, V: v, F: f, ID: g.next(), W: wr})
			if g.r.Intn(2) == 0 {
				ops = append(ops, g.simple())
			}
			k := 1 + g.r.Intn(2)
			for j := 0; j < k; j++ {
				ops = append(ops, op{K: "callc", Name: name, V: v, F: f, ID: g.next(), W: wr})
				if g.r.Intn(2) == 0 {
					ops = append(ops, g.simple())
				}
			}
		case w < 84 && len(partials) > 0:
			ops = append(ops, op{K: "render", Name: partials[g.r.Intn(len(partials))]})
		case w < 92 && depth < 2:
			ops = append(ops, op{K: "if", Body: g.body(1+g.r.Intn(3), depth+1, callable, partials, false)})
		case w < 97 && depth < 2:
			ops = append(ops, op{K: "for", N: g.r.Intn(3), Body: g.body(1+g.r.Intn(2), depth+1, callable, partials, false)})
		default:
			ops = append(ops, g.simple())
		}
	}
	return ops
}

// generate builds a random program. If firstRefTopLevel is set, every global is
// read once at the very start of the top-level flow (keeps the sweep away from
// the construct of a recorded finding).
func generate(r *rand.Rand, firstRefTopLevel bool) *prog {
	p := &prog{Partials: map[string][]op{}}
	g := &pgen{r: r, p: p}
	types := []string{"string", "int", "T"}
	ng := 1 + r.Intn(4)
	for i := 0; i < ng; i++ {
		gl := glob{Name: fmt.Sprintf("G%d", i), Type: types[r.Intn(len(types))]}
		p.Globals = append(p.Globals, gl)
		g.vars = append(g.vars, gl.Name)
		if r.Intn(3) == 0 {
			p.PkgVars = append(p.PkgVars, gl)
			g.vars = append(g.vars, "p."+gl.Name)
		}
	}
	p.Extends = r.Intn(3) == 0
	if r.Intn(2) == 0 {
		p.ImportAs = "lib"
	}
	// partials (may render deeper partials, never cyclic)
	np := r.Intn(3)
	var partials []string
	for i := np - 1; i >= 0; i-- {
		name := fmt.Sprintf("part%d.html", i)
		p.Partials[name] = g.body(1+r.Intn(4), 1, nil, partials, true)
		partials = append(partials, name)
	}
	// macros: lib macros first (they can only call earlier lib macros), then
	// root/layout macros (may call lib macros and earlier macros of their file)
	var libNames, rootNames, layoutNames []string
	nl := r.Intn(3)
	for i := 0; i < nl; i++ {
		name := fmt.Sprintf("L%d", i)
		p.Macros = append(p.Macros, macro{Name: name, File: "lib", Ops: g.body(1+r.Intn(4), 1, libNames, partials, true)})
		libNames = append(libNames, name)
	}
	nr := r.Intn(3)
	if p.Extends && nr == 0 {
		nr = 1
	}
	for i := 0; i < nr; i++ {
		name := fmt.Sprintf("M%d", i)
		callable := append([]string{}, rootNames...)
		if !p.Extends {
			// in the extending file the import lives in the layout; keep root macros self-contained
			callable = append(callable, libNames...)
		}
		p.Macros = append(p.Macros, macro{Name: name, File: "root", Ops: g.body(1+r.Intn(4), 1, callable, partials, true)})
		rootNames = append(rootNames, name)
	}
	if p.Extends {
		ny := r.Intn(2)
		for i := 0; i < ny; i++ {
			name := fmt.Sprintf("Y%d", i)
			p.Macros = append(p.Macros, macro{Name: name, File: "layout", Ops: g.body(1+r.Intn(3), 1, append(append([]string{}, libNames...), layoutNames...), partials, true)})
			layoutNames = append(layoutNames, name)
		}
	}
	// main flow: declarations of the file's own macros interleaved with ops
	var declHere []string
	if p.Extends {
		declHere = layoutNames
	} else {
		declHere = rootNames
	}
	callable := append([]string{}, libNames...)
	if p.Extends {
		callable = append(callable, rootNames...) // the child's macros are visible in the layout
	}
	var main []op
	if firstRefTopLevel {
		for _, v := range g.vars {
			main = append(main, op{K: "read", V: v, ID: g.next()})
		}
	}
	for _, d := range declHere {
		main = append(main, g.body(r.Intn(3), 0, callable, partials, true)...)
		main = append(main, op{K: "decl", Name: d})
		callable = append(callable, d)
	}
	main = append(main, g.body(2+r.Intn(6), 0, callable, partials, true)...)
	p.Main = main
	return p
}
