package c21

import "testing"

func TestLineCol(t *testing.T) {
	for _, tc := range []struct {
		file      string
		off       int
		line, col int
		ok        bool
	}{
		{"", 0, 1, 1, true},
		{"abc", 0, 1, 1, true},
		{"abc", 3, 1, 4, true},
		{"a\nbc", 1, 1, 2, true}, // the newline itself is the last character of line 1
		{"a\nbc", 2, 2, 1, true},
		{"a\r\nbc", 4, 2, 2, true},
		{"a\r\nbc", 2, 1, 3, true}, // \r counts as a character of line 1
		{"é日x", 5, 1, 3, true},     // é = 2 bytes, 日 = 3 bytes
		{"é日x", 2, 1, 2, true},
		{"\tx", 1, 1, 2, true}, // a tab is one character
		{"\xffx", 1, 1, 0, false},
		{"ok\n\xffx", 1, 1, 2, true},
		{"\xff\nxy", 3, 2, 2, true}, // invalid bytes on an earlier line do not matter
		{"é", 1, 1, 0, false},       // offset inside a character
		{"\n\n\n", 3, 4, 1, true},
	} {
		l, c, ok := LineCol([]byte(tc.file), tc.off)
		if l != tc.line || ok != tc.ok || (ok && c != tc.col) {
			t.Errorf("LineCol(%q, %d) = %d, %d, %v; want %d, %d, %v", tc.file, tc.off, l, c, ok, tc.line, tc.col, tc.ok)
		}
	}
}

func TestCheck(t *testing.T) {
	kinds := func(d []Disagreement) string {
		s := ""
		for _, x := range d {
			s += x.Kind + ";"
		}
		return s
	}
	for _, tc := range []struct {
		file string
		p    Pos
		want string
	}{
		{"abc", Pos{1, 1, 0, 0}, ""},
		{"abc", Pos{1, 4, 3, 3}, ""}, // at EOF
		{"", Pos{1, 1, 0, 0}, ""},    // empty file (go.mod errors)
		{"", Pos{1, 1, 0, -1}, ""},   // empty range at start
		{"abc", Pos{1, 1, 0, -2}, "range-end;end-before-start;"},
		{"abc", Pos{1, 5, 4, 4}, "range-start;range-end;"},
		{"abc", Pos{1, 3, 2, 3}, "range-end;"}, // End one past the last byte
		{"abc", Pos{1, 4, 3, 3}, ""},           // position at EOF
		{"abc", Pos{1, 1, -1, 0}, "range-start;"},
		{"abc", Pos{1, 3, 2, 0}, "end-before-start;"},
		{"abc", Pos{1, 3, 2, 1}, ""}, // End = Start-1: empty token
		{"a\nb", Pos{1, 1, 2, 2}, "line;"},
		{"a\nb", Pos{2, 2, 2, 2}, "column;"},
		{"é{{", Pos{1, 3, 2, 3}, "column;"}, // column counted in bytes
		{"é{{", Pos{1, 2, 2, 3}, ""},
		{"\xEF\xBB\xBFab", Pos{1, 2, 4, 4}, ""}, // BOM ignored
		{"\xEF\xBB\xBFab", Pos{1, 3, 4, 4}, ""}, // BOM counted
		{"\xEF\xBB\xBFab", Pos{1, 4, 4, 4}, "column;"},
		{"\xEF\xBB\xBF\nab", Pos{2, 1, 5, 5}, "column;"}, // BOM tolerance only on line 1
		{"a\n\rb", Pos{2, 1, 3, 3}, ""},                  // \n\r taken as line break
		{"a\n\rb", Pos{2, 2, 3, 3}, ""},                  // \r taken as first character
		{"a\n\rb", Pos{2, 3, 3, 3}, "column;"},
		{"\xffab", Pos{1, 9, 2, 2}, ""},        // column not judged: invalid UTF-8 before it on the line
		{"\xff\nab", Pos{1, 1, 3, 3}, "line;"}, // line always judged
	} {
		if got := kinds(Check([]byte(tc.file), tc.p)); got != tc.want {
			t.Errorf("Check(%q, %+v) = %q, want %q", tc.file, tc.p, got, tc.want)
		}
	}
}

func TestMsgClass(t *testing.T) {
	for in, want := range map[string]string{
		`unexpected "foo", expecting }`:          "unexpected Q, expecting }",
		"undefined: fooX":                        "undefined: X",
		"invalid character U+00E9 'é'":           "invalid character Q Q",
		"octal escape value 300 > 255":           "octal escape value N > N",
		"comment not terminated":                 "comment not terminated",
		"cannot use \"a\" (type untyped string)": "cannot use Q (type untyped string)",
	} {
		if got := MsgClass(in); got != want {
			t.Errorf("MsgClass(%q) = %q, want %q", in, got, want)
		}
	}
}

func TestOffsets(t *testing.T) {
	if off, ok := OffsetOf([]byte("ab\ncdé f"), 2, 5); !ok || off != 8 {
		t.Errorf("OffsetOf = %d, %v; want 8, true", off, ok)
	}
	if _, ok := OffsetOf([]byte("ab\nc"), 2, 3); ok {
		t.Error("OffsetOf beyond the end of the line must fail")
	}
	if _, ok := OffsetOf([]byte("a\xa9b"), 1, 3); ok {
		t.Error("OffsetOf across invalid UTF-8 must fail")
	}
	got := OffsetsOfLenient([]byte("a /*\xa9*/ + 2"), 1, 9)
	// convention 1 counts \xa9 as a character (column 9 = '/'), convention 2 does not (column 9 = ' ')
	if len(got) != 2 || got[0] != 8 || got[1] != 9 {
		t.Errorf("OffsetsOfLenient = %v, want [8 9]", got)
	}
	if Relation([]byte("{{ a == 3 }}"), Pos{1, 6, 3, 8}) != "inside" {
		t.Error("operator inside the node range must be classified as inside")
	}
	if Relation([]byte("{{ a == 3 }}"), Pos{1, 2, 3, 8}) != "before" || Relation([]byte("{{ a == 3 }}"), Pos{1, 11, 3, 8}) != "after" {
		t.Error("before/after misclassified")
	}
}

func TestIsUnaryPrefix(t *testing.T) {
	for in, want := range map[string]bool{
		"-": true, "*": true, "<-": true, "- ": true, "-!": true, "<- \n": true, "not ": true, "not": true, "!not ": true,
		"+/* a\n b */ ": true, "- // c\n\t": true, "- /**/": true,
		"": false, " -": false, "a": false, "-a": false, "<": false, "notx": false, "/": false, "/**/-": false, "- /*": false,
	} {
		if got := isUnaryPrefix([]byte(in)); got != want {
			t.Errorf("isUnaryPrefix(%q) = %v, want %v", in, got, want)
		}
	}
}
