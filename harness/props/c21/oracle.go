package c21

import (
	"bytes"
	"fmt"
	"regexp"
	"unicode/utf8"
)

// Pos mirrors scriggo.Position (kept separate so the oracle has no dependency
// on the code under test and can be unit-tested alone).
type Pos struct {
	Line, Column, Start, End int
}

// Disagreement is one way in which a reported position is inconsistent with the
// content of the reported file.
type Disagreement struct {
	Kind   string // range-start | range-end | end-before-start | line | column
	Detail string
}

// LineCol computes, independently of scriggo, the line (1-based, lines end at
// '\n') and the column (1-based, in characters = Unicode code points, as documented
// for scriggo.Position: "column in characters starting from 1") of byte offset
// off in file. colOK is false when the bytes of the line before off are not valid
// UTF-8 (the column is then not defined and not judged).
func LineCol(file []byte, off int) (line, col int, colOK bool) {
	prefix := file[:off]
	line = 1 + bytes.Count(prefix, []byte{'\n'})
	ls := bytes.LastIndexByte(prefix, '\n') + 1
	seg := prefix[ls:]
	if !utf8.Valid(seg) {
		return line, 0, false
	}
	return line, 1 + utf8.RuneCount(seg), true
}

var bom = []byte("\xEF\xBB\xBF")

// acceptableColumns returns the columns the oracle accepts for offset off: the
// character count, and the alternatives for the two points on which the
// documentation is silent and two readings are reasonable:
//   - a byte order mark at the very beginning of the file may be counted as a
//     character of line 1 or ignored (Go ignores it);
//   - a carriage return that directly follows a line feed ("\n\r") may be taken as
//     part of the line break or as the first character of the new line.
func acceptableColumns(file []byte, off int) (cols []int, ok bool) {
	line, col, ok := LineCol(file, off)
	if !ok {
		return nil, false
	}
	cols = []int{col}
	if line == 1 && bytes.HasPrefix(file, bom) && off >= len(bom) {
		cols = append(cols, col-1)
	}
	ls := bytes.LastIndexByte(file[:off], '\n') + 1
	if ls > 0 && ls < off && file[ls] == '\r' {
		cols = append(cols, col-1)
	}
	return cols, true
}

// Check judges a reported position against the content of the reported file.
func Check(file []byte, p Pos) []Disagreement {
	var out []Disagreement
	n := len(file)
	if p.Start < 0 || p.Start > n {
		out = append(out, Disagreement{"range-start", fmt.Sprintf("Start=%d outside [0,%d]", p.Start, n)})
	}
	// End is the index of the last byte: it lies in [0,n-1]; it may be n only for a
	// position at the end of the file (Start = n), and -1 for an empty range at
	// the beginning (Start = 0).
	maxEnd := n - 1
	if p.Start >= n {
		maxEnd = n
	}
	if p.End < 0 || p.End > maxEnd {
		if !(p.End == -1 && p.Start == 0) {
			out = append(out, Disagreement{"range-end", fmt.Sprintf("End=%d outside [0,%d]", p.End, maxEnd)})
		}
	}
	if p.End < p.Start-1 {
		out = append(out, Disagreement{"end-before-start", fmt.Sprintf("End=%d < Start-1=%d", p.End, p.Start-1)})
	}
	if p.Start < 0 || p.Start > n {
		return out
	}
	line, col, colOK := LineCol(file, p.Start)
	if p.Line != line {
		d := fmt.Sprintf("Line=%d but offset Start=%d is on line %d", p.Line, p.Start, line)
		if colOK {
			d += fmt.Sprintf(" (column %d); reported %d:%d", col, p.Line, p.Column)
		}
		out = append(out, Disagreement{"line", d})
		return out
	}
	cols, ok := acceptableColumns(file, p.Start)
	if !ok {
		return out
	}
	for _, c := range cols {
		if c == p.Column {
			return out
		}
	}
	out = append(out, Disagreement{"column", fmt.Sprintf("Column=%d but offset Start=%d is character %d of line %d (delta %+d)", p.Column, p.Start, col, line, p.Column-col)})
	return out
}

// OffsetOf is the inverse of LineCol: the byte offset of character col of line
// line (both 1-based), or ok=false if the file has no such line or the line is
// shorter than col-1 characters or not valid UTF-8 up to there.
func OffsetOf(file []byte, line, col int) (off int, ok bool) {
	if line < 1 || col < 1 {
		return 0, false
	}
	pos := 0
	for l := 1; l < line; l++ {
		i := bytes.IndexByte(file[pos:], '\n')
		if i < 0 {
			return 0, false
		}
		pos += i + 1
	}
	for c := 1; c < col; c++ {
		if pos >= len(file) || file[pos] == '\n' {
			return 0, false
		}
		r, n := utf8.DecodeRune(file[pos:])
		if r == utf8.RuneError && n == 1 {
			return 0, false
		}
		pos += n
	}
	return pos, true
}

// OffsetsOfLenient is OffsetOf for lines that are not valid UTF-8 between the
// line start and the column: it returns the offsets obtained by the two usual
// conventions (every invalid byte is one character; bytes 0x80-0xBF are never
// the start of a character). Used only to classify a disagreement.
func OffsetsOfLenient(file []byte, line, col int) []int {
	if line < 1 || col < 1 {
		return nil
	}
	pos := 0
	for l := 1; l < line; l++ {
		i := bytes.IndexByte(file[pos:], '\n')
		if i < 0 {
			return nil
		}
		pos += i + 1
	}
	var out []int
	// convention 1: RuneCount (an invalid byte is one character)
	p := pos
	ok := true
	for c := 1; c < col; c++ {
		if p >= len(file) || file[p] == '\n' {
			ok = false
			break
		}
		_, n := utf8.DecodeRune(file[p:])
		p += n
	}
	if ok {
		out = append(out, p)
	}
	// convention 2: count the bytes that can start a character
	p = pos
	c := 1
	for p < len(file) && file[p] != '\n' {
		if b := file[p]; b < 0x80 || b > 0xBF {
			if c == col {
				break
			}
			c++
		}
		p++
	}
	if c == col && (len(out) == 0 || out[0] != p) {
		out = append(out, p)
	}
	return out
}

// Relation says where the reported line:column lies relative to the reported
// byte range, for a position whose line:column and Start disagree:
//
//	inside  — line:column denote a byte X with Start < X <= End (the position
//	          of a token inside the node's own range, e.g. its operator)
//	before  — X < Start
//	after   — X > End
//	nowhere — the file has no such line:column
func Relation(file []byte, p Pos) string {
	x, ok := OffsetOf(file, p.Line, p.Column)
	if !ok {
		return "nowhere"
	}
	switch {
	case x < p.Start:
		return "before"
	case x > p.End:
		return "after"
	case x == p.Start:
		return "same" // only reachable through the BOM / CR tolerances
	}
	return "inside"
}

var (
	reQuoted = regexp.MustCompile("\"(?:[^\"\\\\]|\\\\.)*\"|'(?:[^'\\\\]|\\\\.)*'|`[^`]*`|U\\+[0-9A-Fa-f]+")
	reDigits = regexp.MustCompile(`[0-9]+`)
	reIdent  = regexp.MustCompile(`\b(undefined|declared and not used|imported and not used): \S+`)
)

// MsgClass reduces an error message to its class: quoted parts, code points and
// numbers are replaced by placeholders; long messages are cut.
func MsgClass(m string) string {
	m = reQuoted.ReplaceAllString(m, "Q")
	m = reIdent.ReplaceAllString(m, "$1: X")
	m = reDigits.ReplaceAllString(m, "N")
	if i := bytes.IndexByte([]byte(m), '\n'); i >= 0 {
		m = m[:i]
	}
	if len(m) > 60 {
		m = m[:60]
	}
	return m
}
