// Package c21 checks that build errors point at a real location in the reported
// file: every *scriggo.BuildError's Path() names a file the build opened
// (recording fs wrapper), Position().Start/End lie within [0,len(file)] with
// End >= Start-1, and Line/Column are the line and the character column of Start
// computed by an independent counter.
//
// Workload: byte-level mutations, truncations, type-error mutants and multi-file
// sets from gen/bytesgen (shared with C04); every build that fails with a
// *BuildError is judged.
package c21

import (
	"bytes"
	"encoding/json"
	"errors"
	"fmt"
	"sort"
	"strings"
	"time"

	"github.com/open2b/scriggo"

	"verif/core"
	"verif/gen/bytesgen"
)

type prop struct{}

func init() { core.Register(prop{}) }

func (prop) ID() string    { return "C21" }
func (prop) Level() string { return "exploration" }

type caseData struct {
	Inputs []bytesgen.Input `json:"inputs"`
}

// viol is one violating error of a batch.
type viol struct {
	Index  int    `json:"index"`
	Key    string `json:"key"` // violation class: error type | message class | disagreement kind
	Size   int    `json:"size"`
	Detail string `json:"detail"`
}

type workOut struct {
	Viols []viol `json:"viols,omitempty"`
}

var (
	natives = bytesgen.Packages()
	globals = bytesgen.Globals()
)

const batchSize = 25

// errType names the concrete compiler error behind a BuildError by the shape of
// its Error() text (the concrete types are internal).
func errType(be *scriggo.BuildError) string {
	e := be.Error()
	switch {
	case strings.Contains(e, ": syntax error: "):
		return "syntax"
	case strings.Contains(e, "cycle not allowed"):
		return "cycle"
	case be.Path() == "go.mod":
		return "gomod"
	}
	return "check"
}

// tokenClassAt names the kind of token that starts at offset x (used to keep
// the class of "line:column inside the range" disagreements narrow).
func tokenClassAt(file []byte, x int) string {
	if x < 0 || x >= len(file) {
		return "eof"
	}
	c := file[x]
	switch {
	case c == '.':
		return "dot"
	case c == '(':
		return "paren"
	case c == '[':
		return "bracket"
	case c == '{':
		return "brace"
	case strings.IndexByte("+-*/%&|^<>=!:", c) >= 0:
		return "operator"
	case c == '_' || c >= 'a' && c <= 'z' || c >= 'A' && c <= 'Z' || c >= 0x80:
		j := x
		for j < len(file) && (file[j] == '_' || file[j] >= 'a' && file[j] <= 'z' || file[j] >= 'A' && file[j] <= 'Z') {
			j++
		}
		switch w := string(file[x:j]); w {
		case "contains", "and", "or", "not", "default":
			return "word-operator"
		}
		return "name"
	case c >= '0' && c <= '9':
		return "number"
	case c == '"' || c == '`' || c == '\'':
		return "quote"
	case c == ' ' || c == '\t' || c == '\n' || c == '\r':
		return "space"
	}
	return "other"
}

// isUnaryPrefix reports whether b, the bytes between the reported line:column
// and Start, begins with a unary operator (+ - ! ^ * & <- or the word not) and
// holds nothing but unary operators, white space and comments.
func isUnaryPrefix(b []byte) bool {
	if len(b) == 0 {
		return false
	}
	first := true
	for len(b) > 0 {
		switch c := b[0]; {
		case c == '<' && len(b) > 1 && b[1] == '-':
			b = b[2:]
		case c == '+' || c == '-' || c == '!' || c == '^' || c == '*' || c == '&':
			b = b[1:]
		case len(b) >= 3 && string(b[:3]) == "not" && (len(b) == 3 || b[3] == ' ' || b[3] == '\t' || b[3] == '\n' || b[3] == '\r' || b[3] == '('):
			b = b[3:]
		case !first && (c == ' ' || c == '\t' || c == '\n' || c == '\r'):
			b = b[1:]
		case !first && c == '/' && len(b) > 1 && b[1] == '*':
			// a general comment is white space
			i := bytes.Index(b[2:], []byte("*/"))
			if i < 0 {
				return false
			}
			b = b[i+4:]
		case !first && c == '/' && len(b) > 1 && b[1] == '/':
			i := bytes.IndexByte(b, '\n')
			if i < 0 {
				return false
			}
			b = b[i+1:]
		default:
			return false
		}
		first = false
	}
	return true
}

// disagreementClass refines a line/column disagreement into a narrow class.
//
//	inside:<group>  line:column denote a byte inside (Start,End], where a token of <group> starts
//	before:<delta>, after:<delta>  line:column denote a byte before Start / after End
//	                (delta in lines if the line differs, else in columns, bucketed)
//	before:unary-operator  line:column denote a unary operator, Start its operand
//	nowhere         the file has no such line:column
func disagreementClass(d Disagreement, p Pos, file []byte) string {
	rel := Relation(file, p)
	switch rel {
	case "inside":
		// The class does not depend on whether the token is on the line of Start
		// or on a later one; tokens are grouped into operator-like tokens (where a
		// node's own operator, dot, parenthesis, bracket or brace is) and operand
		// starts (inner expression of a parenthesized expression).
		x, _ := OffsetOf(file, p.Line, p.Column)
		switch tc := tokenClassAt(file, x); tc {
		case "operator", "word-operator", "dot", "paren", "bracket", "brace":
			return "inside:operator"
		case "name", "number", "quote":
			return "inside:operand"
		default:
			return "inside:" + tc
		}
	case "nowhere":
		// The line may hold invalid UTF-8 between Start and the reported column:
		// try the two usual counting conventions before giving up.
		for _, x := range OffsetsOfLenient(file, p.Line, p.Column) {
			if x > p.Start && x <= p.End {
				switch tc := tokenClassAt(file, x); tc {
				case "operator", "word-operator", "dot", "paren", "bracket", "brace":
					return "inside:operator"
				case "name", "number", "quote":
					return "inside:operand"
				}
			}
		}
		return d.Kind + ":nowhere"
	}
	if rel == "before" {
		// A unary operator followed by a binary operator loses its own bytes from
		// Start (the parser moves the Start of a pending unary operator to the Start
		// of its operand): line:column denote the operator, Start the operand, and
		// between them there are only unary operators and white space.
		if x, ok := OffsetOf(file, p.Line, p.Column); ok && isUnaryPrefix(file[x:p.Start]) {
			return "before:unary-operator"
		}
	}
	line, col, ok := LineCol(file, p.Start)
	bucket := func(n int) string {
		switch {
		case n < -3:
			return "<-3"
		case n > 3:
			return ">+3"
		}
		return fmt.Sprintf("%+d", n)
	}
	if p.Line != line {
		return d.Kind + ":" + rel + ":lines" + bucket(p.Line-line)
	}
	if !ok {
		return d.Kind + ":" + rel
	}
	return d.Kind + ":" + rel + ":cols" + bucket(p.Column-col)
}

// judgeError applies the oracle to one build error. It returns the violation
// classes with details (empty if the error is consistent).
func judgeError(be *scriggo.BuildError, fsys *bytesgen.RecFS, programInput bool) (keys []string, details []string, file []byte) {
	typ := errType(be)
	cls := MsgClass(be.Message())
	pos := be.Position()
	p := Pos{pos.Line, pos.Column, pos.Start, pos.End}
	path := be.Path()
	content, exists := fsys.Content(path)
	if !fsys.Opened(path) {
		k := "path-not-opened"
		if !exists {
			k = "path-unknown"
		}
		if typ == "cycle" && !exists && programInput {
			// import cycle of a program: Path() is the import path of a package, by
			// design (the repository tests expect it); one structural class
			keys = append(keys, "cycle|package-path")
			details = append(details, fmt.Sprintf("Path()=%q is an import path, not a file the build opened (opened: %v)", path, fsys.OpenedNames()))
			return keys, details, nil
		}
		keys = append(keys, core.SigJoin(typ, cls, k))
		details = append(details, fmt.Sprintf("Path()=%q is not a file the build opened (opened: %v)", path, fsys.OpenedNames()))
		if !exists {
			return keys, details, nil
		}
	}
	for _, d := range Check(content, p) {
		k := d.Kind
		if d.Kind == "line" || d.Kind == "column" {
			k = disagreementClass(d, p, content)
		}
		if strings.HasPrefix(k, "inside:") || k == "before:unary-operator" {
			// systematic: keyed by the token the line:column point at, not by the message
			keys = append(keys, core.SigJoin(typ, k))
		} else {
			keys = append(keys, core.SigJoin(typ, cls, k))
		}
		details = append(details, d.Detail)
	}
	return keys, details, content
}

func excerpt(file []byte, off int) string {
	if off < 0 {
		off = 0
	}
	if off > len(file) {
		off = len(file)
	}
	lo, hi := max(0, off-30), min(len(file), off+20)
	return fmt.Sprintf("%q ▶ %q", file[lo:off], file[off:hi])
}

func (prop) Work(c core.Case) core.Result {
	bytesgen.LimitAddressSpace()
	var cd caseData
	c.Decode(&cd)
	counts := map[string]int64{}
	sigs := map[string]struct{}{}
	var out workOut
	for i := range cd.Inputs {
		in := &cd.Inputs[i]
		fsys := bytesgen.NewRecFS(in.Files)
		opts := &scriggo.BuildOptions{Packages: natives, AllowGoStmt: true}
		var err error
		_, panicked, _ := core.Guard(func() {
			if in.Kind == "program" {
				_, err = scriggo.Build(fsys, opts)
			} else {
				opts.Globals = globals
				opts.NoParseShortShowStmt = in.NoParseShow
				_, err = scriggo.BuildTemplate(fsys, in.Main, opts)
			}
		})
		counts["builds"]++
		if panicked {
			counts["build_panicked_not_judged_here"]++ // C04's business
			continue
		}
		if err == nil {
			counts["build_ok"]++
			continue
		}
		var be *scriggo.BuildError
		if !errors.As(err, &be) {
			counts["non_build_errors"]++
			continue
		}
		counts["build_errors_judged"]++
		typ := errType(be)
		counts["errors_"+typ]++
		path := be.Path()
		if path != in.Main && path != "main.go" {
			counts["errors_in_included_file"]++
		}
		keys, details, file := judgeError(be, fsys, in.Kind == "program")
		pos := be.Position()
		// non-triviality: how hard the position was to get right
		feat := ""
		if file != nil && pos.Start >= 0 && pos.Start <= len(file) {
			pre := file[:pos.Start]
			if pos.Line > 1 {
				feat += "L"
			}
			for _, b := range pre {
				if b >= 0x80 {
					feat += "U"
					break
				}
			}
			if strings.Contains(string(pre), "\t") {
				feat += "T"
			}
			if strings.Contains(string(pre), "\r") {
				feat += "R"
			}
			if strings.HasPrefix(string(file), "\xEF\xBB\xBF") {
				feat += "B"
			}
			if path != in.Main && path != "main.go" {
				feat += "I"
			}
			_, _, ok := LineCol(file, pos.Start)
			if !ok {
				counts["column_not_judged_invalid_utf8"]++
			} else {
				counts["columns_judged"]++
			}
		}
		sigs[core.SigJoin(in.Ext(), typ, MsgClass(be.Message()), feat)] = struct{}{}
		for k := range keys {
			counts["violations"]++
			out.Viols = append(out.Viols, viol{Index: i, Key: keys[k], Size: in.Size(), Detail: fmt.Sprintf(
				"[%s] %s\nerror: %s\nPath=%q Position={Line:%d Column:%d Start:%d End:%d} len(file)=%d\nat: %s\ninput: %s",
				keys[k], details[k], be.Error(), path, pos.Line, pos.Column, pos.Start, pos.End, len(file), excerpt(file, pos.Start), in.Describe(400))})
		}
	}
	res := core.Result{Status: core.OK, Evals: counts["build_errors_judged"], Counts: counts}
	if res.Evals == 0 {
		res.Evals = 1
		counts["cases_without_errors"]++
	}
	for s := range sigs {
		res.Sigs = append(res.Sigs, s)
	}
	sort.Strings(res.Sigs)
	if len(out.Viols) > 0 {
		res.Status = core.Violation
		res.Detail = out.Viols[0].Detail
	}
	res.Out = core.MustJSON(out)
	return res
}

// ---------------------------------------------------------------- driver side

type classAgg struct {
	key   string
	n     int
	best  bytesgen.Input
	size  int
	first string
}

func (p prop) Drive(d *core.Driver) error {
	corpus := bytesgen.LoadCorpus(bytesgen.RepoDir())
	g := bytesgen.NewGen(corpus)
	d.T.Rule = "inputs come from gen/bytesgen (shared with C04): type-error mutants of corpus programs/templates (misspelled names, literals of another type, swapped operators, keywords for identifiers; with BOM, CRLF, tabs, multi-byte runes and multi-line comments/strings inserted before the error), 1-3 grammar-aware byte/token mutations, truncations, arbitrary bytes, multi-file template sets (error in an extended/imported/rendered file, nested directories, cycles) and go.mod program sets. Every build failing with a *scriggo.BuildError is one evaluation: Path() must have been opened through the recording fs.FS, Start/End must lie in [0,len(file)] with End >= Start-1, Line must be 1 + number of '\\n' before Start and Column 1 + number of characters between the line start and Start. distinct_nontrivial counts distinct (format, error type, message class, position features) where features are: line>1, non-ASCII/tab/CR before the offset, BOM, error in an included file."
	d.T.Assumptions = []string{
		"column = Unicode code points since the last '\\n' (documentation of scriggo.Position: \"column in characters starting from 1\"); a tab and a CR are one character each",
		"two readings are accepted where the documentation is silent: a BOM at offset 0 counted or not on line 1; a CR directly after LF counted or not",
		"the column is not judged when the bytes between the line start and Start are not valid UTF-8; the line and the ranges always are",
		"builds that panic or kill the process are not judged here (C04)",
	}
	total := d.N(30000, 750000)
	round := 60000
	r := d.Rand("mix")
	truncs := g.TruncInputs(d.Rand("trunc"), d.N(60, 150), d.N(25, 0))
	if len(truncs) > total/5 {
		truncs = truncs[:total/5]
	}
	ti := 0
	aggs := map[string]*classAgg{}
	sampled := 0
	for done, rn := 0, 0; done < total; rn++ {
		n := min(round, total-done)
		nt := min(len(truncs)-ti, n/5)
		rest := n - nt
		mix := bytesgen.Mix{
			Random:     rest * 5 / 100,
			Mutant:     rest * 28 / 100,
			TypeErr:    rest * 30 / 100,
			MultiT:     rest * 19 / 100,
			MultiP:     rest * 8 / 100,
			TmplSyntax: rest * 10 / 100,
			Wide:       n * d.N(150, 3000) / total, // limit errors of every table, package level and bodies
		}
		inputs := g.Batch(r, mix)
		inputs = append(inputs, truncs[ti:ti+nt]...)
		ti += nt
		if len(inputs) == 0 {
			break
		}
		for sampled < 5 {
			in := inputs[sampled*11%len(inputs)]
			d.T.Sample(map[string]any{"family": in.Fam, "source": in.Src, "input": core.Truncate(in.Describe(160), 500)})
			sampled++
		}
		var cases []core.Case
		for lo := 0; lo < len(inputs); lo += batchSize {
			hi := min(lo+batchSize, len(inputs))
			cases = append(cases, core.NewCase(fmt.Sprintf("r%d-%d", rn, lo/batchSize), caseData{Inputs: inputs[lo:hi]}))
		}
		rs := d.Run(cases, core.RunOpts{NoTally: true, CaseWall: 150 * time.Second, GOMAXPROCS: 1})
		for i := range rs {
			p.collect(d, cases[i], rs[i], inputs[i*batchSize:min((i+1)*batchSize, len(inputs))], aggs)
		}
		done += len(inputs)
	}
	// one witness per violation class: the smallest input, confirmed alone
	var keys []string
	for k := range aggs {
		keys = append(keys, k)
	}
	sort.Strings(keys)
	classes := map[string]int{}
	var covered []string
	for _, k := range keys {
		a := aggs[k]
		classes[k] = a.n
		if d.InScope(k) {
			// the class of an open known finding (its witness is replayed at every run)
			d.T.Count("covered_by_open_finding", int64(a.n))
			covered = append(covered, k)
			continue
		}
		sc := core.NewCase("class:"+k, caseData{Inputs: []bytesgen.Input{a.best}})
		sr := d.Run([]core.Case{sc}, core.RunOpts{Workers: 1, NoTally: true})[0]
		sr.Out, sr.Evals, sr.Sigs, sr.Counts = nil, 0, nil, nil
		if sr.Status != core.Violation {
			sr = core.Result{ID: sc.ID, Status: core.Violation, Detail: a.first + "\n(not reproduced alone)"}
		}
		sr.Detail = fmt.Sprintf("%d errors of this class in the sweep; smallest witness:\n%s", a.n, sr.Detail)
		d.Judge(sc, sr)
	}
	d.T.Set("violation_classes", classes)
	d.T.Set("classes_covered_by_open_findings", covered)
	return nil
}

// collect tallies one batch result and aggregates its violations by class.
func (p prop) collect(d *core.Driver, c core.Case, r core.Result, inputs []bytesgen.Input, aggs map[string]*classAgg) {
	switch r.Status {
	case core.Crash, core.Timeout, "":
		// a process death or a hang is C04's finding; salvage the other inputs one by one
		d.T.Count("batches_lost_to_crash_or_timeout", 1)
		if len(inputs) > 1 {
			var solos []core.Case
			for i := range inputs {
				solos = append(solos, core.NewCase(fmt.Sprintf("%s-i%d", c.ID, i), caseData{Inputs: inputs[i : i+1]}))
			}
			srs := d.Run(solos, core.RunOpts{NoTally: true, Chunk: 1, CaseWall: 60 * time.Second})
			for i := range srs {
				p.collect(d, solos[i], srs[i], inputs[i:i+1], aggs)
			}
			return
		}
		d.T.Count("inputs_not_judged_process_died", 1)
		d.Judge(c, core.Result{ID: c.ID, Status: core.Skip, Detail: "the build killed or hung the worker (C04's domain); no error to judge"})
		return
	}
	var out workOut
	if len(r.Out) > 0 {
		json.Unmarshal(r.Out, &out)
	}
	for _, v := range out.Viols {
		a := aggs[v.Key]
		if a == nil {
			a = &classAgg{key: v.Key, size: 1 << 30, first: v.Detail}
			aggs[v.Key] = a
		}
		a.n++
		if v.Index < len(inputs) && v.Size < a.size {
			a.size = v.Size
			a.best = inputs[v.Index]
		}
	}
	r.Out = nil
	if r.Status == core.Violation {
		r.Status, r.Detail = core.OK, "" // reported once per class below
	}
	d.Judge(c, r)
}
