package c09

// Types declared in the template itself, with values.
//
// A type declared in a template ({% type T K %}) has no methods (Scriggo has no method
// declarations), so a value of T is shown exactly like the same value of its underlying type K.
// For every kind K with a literal value and every way a declared type can reach a show
// (directly, twice defined, element of slice / map / struct / pointer, map key, boxed in an
// interface) two templates are built in every position: one with the declared type and a
// reference with K written out. Relations:
//
//  1. C09: if the template with the declared type builds, Run does not fail. For declared
//     interface types a failure is allowed only if a variable of the dynamic type of the
//     value is rejected statically in that position.
//  2. If both templates build and run, they produce the same output.
//
// A declared type that is rejected where the underlying type is accepted is conservative and
// only counted.

import (
	"bytes"
	"fmt"
	"strings"

	"github.com/open2b/scriggo"

	"verif/core"
)

type declKind struct {
	name   string
	typ    string // the underlying type K
	lit    string // an expression of type K (not a constant of another type)
	key    bool   // K can be a map key
	iface  bool   // K is an interface type
	dynLit string // iface: expression whose static type is the dynamic type of lit
	pre    string // statements needed before (declares what lit refers to)
}

var declKinds = []declKind{
	{name: "bool", typ: "bool", lit: "bool(true)", key: true},
	{name: "int", typ: "int", lit: "int(7)", key: true},
	{name: "int8", typ: "int8", lit: "int8(-8)", key: true},
	{name: "uint16", typ: "uint16", lit: "uint16(9)", key: true},
	{name: "uint64", typ: "uint64", lit: "uint64(18446744073709551615)", key: true},
	{name: "uintptr", typ: "uintptr", lit: "uintptr(11)", key: true},
	{name: "float32", typ: "float32", lit: "float32(1.5)", key: true},
	{name: "float64", typ: "float64", lit: "float64(-2.25)", key: true},
	{name: "complex128", typ: "complex128", lit: "complex128(1+2i)", key: true},
	{name: "string", typ: "string", lit: `string("a<b")`, key: true},
	{name: "[]byte", typ: "[]byte", lit: `[]byte("ab")`},
	{name: "[]int", typ: "[]int", lit: "[]int{1, 2}"},
	{name: "[2]string", typ: "[2]string", lit: `[2]string{"a", "b"}`, key: true},
	{name: "map[string]int", typ: "map[string]int", lit: `map[string]int{"a": 1}`},
	{name: "map[int]string", typ: "map[int]string", lit: `map[int]string{1: "a"}`},
	{name: "map[uintptr]bool", typ: "map[uintptr]bool", lit: `map[uintptr]bool{3: true}`},
	{name: "struct", typ: "struct{ A int; B string }", lit: `struct{ A int; B string }{1, "b"}`, key: true},
	{name: "*int", typ: "*int", lit: "&n", pre: "{% var n = 5 %}", key: true},
	{name: "interface{}(int)", typ: "interface{}", lit: "interface{}(5)", iface: true, dynLit: "5", key: true},
	{name: "interface{}(string)", typ: "interface{}", lit: `interface{}("s<")`, iface: true, dynLit: `"s<"`, key: true},
	{name: "interface{}([]int)", typ: "interface{}", lit: "interface{}([]int{1})", iface: true, dynLit: "[]int{1}"},
	{name: "any(nil)", typ: "any", lit: "any(nil)", iface: true, dynLit: ""},
	{name: "error(nil)", typ: "error", lit: "error(nil)", iface: true, dynLit: ""},
	{name: "func()", typ: "func()", lit: "(func())(nil)"},
	{name: "chan int", typ: "chan int", lit: "(chan int)(nil)", key: true},
}

// declForm builds the statements that declare v for a declared type (decl=true) or for the
// reference with the underlying type written out.
type declForm struct {
	name    string
	keyOnly bool
	stmts   func(k declKind, decl bool) string
}

func tname(k declKind, decl bool) (typeDecl, t string, conv func(string) string) {
	if decl {
		return "{% type T " + k.typ + " %}", "T", func(e string) string { return "T(" + e + ")" }
	}
	return "", k.typ, func(e string) string { return e }
}

var declForms = []declForm{
	{"T", false, func(k declKind, d bool) string {
		td, t, c := tname(k, d)
		return td + "{% var v " + t + " = " + c(k.lit) + " %}"
	}},
	{"T2 over T", false, func(k declKind, d bool) string {
		if !d {
			return "{% var v " + k.typ + " = " + k.lit + " %}"
		}
		return "{% type T " + k.typ + " %}{% type T2 T %}{% var v T2 = T2(" + k.lit + ") %}"
	}},
	{"[]T", false, func(k declKind, d bool) string {
		td, t, c := tname(k, d)
		return td + "{% var v []" + t + " = []" + t + "{" + c(k.lit) + "} %}"
	}},
	{"map[string]T", false, func(k declKind, d bool) string {
		td, t, c := tname(k, d)
		return td + "{% var v map[string]" + t + " = map[string]" + t + `{"k": ` + c(k.lit) + "} %}"
	}},
	{"struct{F T}", false, func(k declKind, d bool) string {
		td, t, c := tname(k, d)
		return td + "{% var v struct{ F " + t + " } %}{% v.F = " + c(k.lit) + " %}"
	}},
	{"*T", false, func(k declKind, d bool) string {
		td, t, c := tname(k, d)
		return td + "{% var t " + t + " = " + c(k.lit) + " %}{% var v *" + t + " = &t %}"
	}},
	{"interface{}(T)", false, func(k declKind, d bool) string {
		td, _, c := tname(k, d)
		return td + "{% var v interface{} = " + c(k.lit) + " %}"
	}},
	{"map[T]int", true, func(k declKind, d bool) string {
		td, t, c := tname(k, d)
		return td + "{% var v map[" + t + "]int = map[" + t + "]int{" + c(k.lit) + ": 1} %}"
	}},
	{"declared struct with T field", false, func(k declKind, d bool) string {
		td, t, c := tname(k, d)
		if !d {
			return "{% var v struct{ F " + t + "; G int } %}{% v.F = " + c(k.lit) + " %}{% v.G = 2 %}"
		}
		return td + "{% type S struct{ F T; G int } %}{% var v S %}{% v.F = " + c(k.lit) + " %}{% v.G = 2 %}"
	}},
}

type declBuild struct {
	accept bool
	msg    string
	tmpl   *scriggo.Template
}

func (w *worker) buildDecl(ci int, prelude string) (*declBuild, error) {
	c := contexts[ci]
	if c.want == "tab code block" || c.want == "spaces code block" {
		prelude += "\n\n"
	}
	src := prelude + c.pre + "{{ v }}" + c.post
	var t *scriggo.Template
	var err error
	val, panicked, stack := core.Guard(func() {
		t, err = scriggo.BuildTemplate(scriggo.Files{c.file: []byte(src)}, c.file, nil)
	})
	w.counts["builds"]++
	if panicked {
		return nil, fmt.Errorf("BuildTemplate panicked for %q: %v\n%s", src, val, stack)
	}
	if err != nil {
		if !strings.Contains(err.Error(), "cannot show") {
			return nil, fmt.Errorf("harness: unexpected build error for %q: %v", src, err)
		}
		return &declBuild{msg: err.Error()}, nil
	}
	return &declBuild{accept: true, tmpl: t}, nil
}

func runDecl(w *worker, t *scriggo.Template) outcome {
	var buf bytes.Buffer
	var err error
	pv, panicked, stack := core.Guard(func() { err = t.Run(&buf, nil, nil) })
	w.counts["runs"]++
	switch {
	case panicked:
		return outcome{kind: "panic", msg: fmt.Sprintf("%v\n%s", pv, stack)}
	case err != nil:
		return outcome{kind: "error", msg: err.Error()}
	}
	return outcome{kind: "ok", out: buf.String()}
}

// checkDeclaredValues checks one kind in every form and position.
func (w *worker) checkDeclaredValues(k declKind, onlyForm, onlyCtx string) {
	for _, f := range declForms {
		if f.keyOnly && !k.key || onlyForm != "" && onlyForm != f.name {
			continue
		}
		for ci, c := range contexts {
			if onlyCtx != "" && onlyCtx != c.name {
				continue
			}
			declSrc, refSrc := k.pre+f.stmts(k, true), k.pre+f.stmts(k, false)
			where := fmt.Sprintf("context=%s (%s) kind=%s form=%s template=%q", c.name, c.want, k.name, f.name, declSrc+c.pre+"{{ v }}"+c.post)
			db, err := w.buildDecl(ci, declSrc)
			if err != nil {
				if strings.HasPrefix(err.Error(), "BuildTemplate panicked") {
					w.viols = append(w.viols, where+": "+err.Error())
				} else {
					w.incon = append(w.incon, where+": "+err.Error())
				}
				continue
			}
			rb, err := w.buildDecl(ci, refSrc)
			if err != nil {
				w.incon = append(w.incon, where+": reference: "+err.Error())
				continue
			}
			sig := c.name + "|declared " + k.name + "|" + f.name
			switch {
			case !db.accept && rb.accept:
				w.counts["declared_rejected_where_underlying_accepted"]++
				w.sigs[sig+"|conservative"] = struct{}{}
				continue
			case !db.accept:
				w.counts["static_reject"]++
				w.sigs[sig+"|reject"] = struct{}{}
				continue
			}
			w.counts["static_accept"]++
			w.sigs[sig+"|accept"] = struct{}{}
			o := runDecl(w, db.tmpl)
			if o.kind != "ok" {
				// interface kinds: a failure is justified by a static rejection of the dynamic type
				if k.iface && o.kind == "error" && strings.Contains(o.msg, "cannot show") && k.dynLit != "" {
					dyn, derr := w.buildDecl(ci, k.pre+"{% var v = "+k.dynLit+" %}")
					if derr == nil && !dyn.accept {
						w.counts["failures_justified_by_static_rejection"]++
						continue
					}
				}
				// boxed in interface{}: justified if the declared type itself is rejected statically
				if f.name == "interface{}(T)" && o.kind == "error" && strings.Contains(o.msg, "cannot show") {
					direct, derr := w.buildDecl(ci, k.pre+declForms[0].stmts(k, true))
					if derr == nil && !direct.accept {
						w.counts["failures_justified_by_static_rejection"]++
						continue
					}
				}
				if o.kind == "panic" {
					w.viols = append(w.viols, where+": Run panicked in the host: "+o.msg)
				} else {
					w.viols = append(w.viols, where+": the show was accepted by the type checker but Run fails: "+o.msg)
				}
				continue
			}
			if !rb.accept {
				w.counts["declared_accepted_where_underlying_rejected"]++
				continue
			}
			ro := runDecl(w, rb.tmpl)
			if ro.kind != "ok" {
				continue // the reference itself fails: judged by the table of non-declared types
			}
			if w.scopes["declared-byte-slice-js"] && k.name == "[]byte" && (c.want == "JavaScript") {
				continue // open finding C09-F7: the construct is kept out of the sweep
			}
			w.counts["declared_vs_underlying_outputs_compared"]++
			if stripTypeNames(o.out) != stripTypeNames(ro.out) {
				w.viols = append(w.viols, fmt.Sprintf("%s: output %q differs from the output %q of the same value with the underlying type written out (%q)", where, o.out, ro.out, refSrc))
			}
		}
	}
}

// stripTypeNames removes the type name from the comment scriggo writes for a value that has
// no JavaScript representation ("undefined/* scriggo: cannot represent a T value */"): the
// name of the declared type legitimately differs from the name of the underlying type.
func stripTypeNames(out string) string {
	const head, tail = "/* scriggo: cannot represent a ", " value */"
	for i := 0; ; {
		p := strings.Index(out[i:], head)
		if p < 0 {
			return out
		}
		p += i + len(head)
		q := strings.Index(out[p:], tail)
		if q < 0 {
			return out
		}
		out = out[:p] + "T" + out[p+q:]
		i = p
	}
}
