package c09

// Shows in rendered files and in called macros.
//
// The show under test sits in a callee: a file that is rendered ({{ render "p.html" }}), a macro
// declared in the same file, or a macro of an imported file. The callee has its own position
// (one of the table's positions, with its own context), the call sits at every position of the
// caller (URL attribute, quoted / unquoted attribute, tag, script, style, JS / CSS / JSON strings,
// Markdown, code blocks, plain text). The state of the compiler and of the renderer that
// belongs to the caller's position (inside a URL, inside a query, ...) must not reach the
// callee's shows, and must be intact after the call.
//
// Relations:
//
//  1. C09 itself: if the pair builds, Run never fails with "cannot show" (nor panics) for a value
//     of the callee's static type; interface values may fail only if their dynamic type is
//     rejected statically at the callee's position.
//  2. Transparent calls: when the caller's context is the plain context of the callee's format
//     (HTML text for an HTML callee, JavaScript code for a JS callee, ...) the output is
//     caller text + (output of the callee run on its own) + caller text.
//  3. Plain attribute (title="…", title=…) with an HTML callee: the attribute value and the
//     callee's own output are equal after HTML entity decoding (the attribute escaper escapes
//     quotes and angle brackets only and keeps entities).
//
// Relations 2 and 3 are only stated where they are sound without a model of the enclosing
// escaper; URL, string and cross-format positions are covered by relation 1 only.

import (
	"fmt"
	"html"
	"io"
	"path"
	"reflect"
	"strings"

	"github.com/open2b/scriggo"
	"github.com/open2b/scriggo/ast"
	"github.com/open2b/scriggo/native"

	"verif/core"
)

// crossTypes are the table types used for the cross-file family (a representative of every
// way a type is accepted or rejected).
var crossTypes = []string{"int", "uintptr", "bool", "complex128", "string", "[]byte", "[]int", "map[string]int", "map[uintptr]int", "Plain", "*int", "func()",
	"StringerV", "*StringerP", "ErrorV", "EnvStringerV", "HTMLStr", "CSSStr", "JSStr", "JSONStr", "MDStr", "native.HTML", "native.JS", "native.Markdown", "time.Time",
	"any", "error", "fmt.Stringer", "native.HTMLStringer"}

var crossModes = []string{"render", "macro", "import-macro"}

var plainContextOfFormat = map[string]string{".html": "HTML", ".css": "CSS", ".js": "JavaScript", ".json": "JSON", ".md": "Markdown", ".txt": "text"}

type crossPair struct {
	accept bool
	skip   string // why the pair is not usable (contexts differ from the intended ones, build error class)
	tmpl   *scriggo.Template
}

// collectShows returns the contexts of all show nodes of a tree, in source order.
func collectShows(nodes []ast.Node, seen *[]string) {
	for _, n := range nodes {
		switch n := n.(type) {
		case *ast.Show:
			*seen = append(*seen, n.Context.String())
		case *ast.URL:
			collectShows(n.Value, seen)
		case *ast.Func:
			if n.Body != nil {
				collectShows(n.Body.Nodes, seen)
			}
		case *ast.Block:
			collectShows(n.Nodes, seen)
		}
	}
}

// buildCross builds caller (position ei) + callee (position cj) for a global v of type t.
func (w *worker) buildCross(mode string, ei, cj int, t reflect.Type) (*crossPair, error) {
	E, C := contexts[ei], contexts[cj]
	ext := path.Ext(C.file)
	files := scriggo.Files{}
	wantShows := map[string][]string{}
	hole := "{{ v }}"
	switch mode {
	case "render":
		files[E.file] = []byte(E.pre + `{{ render "p` + ext + `" }}` + E.post)
		files["p"+ext] = []byte(C.pre + hole + C.post)
		wantShows[E.file] = []string{E.want}
		wantShows["p"+ext] = []string{C.want}
	case "macro":
		if C.file != E.file {
			return &crossPair{skip: "macro of another format"}, nil
		}
		files[E.file] = []byte("{% macro M %}" + C.pre + hole + C.post + "{% end %}" + E.pre + "{{ M() }}" + E.post)
		wantShows[E.file] = []string{C.want, E.want}
	case "import-macro":
		files[E.file] = []byte(`{% import "m` + ext + `" %}` + E.pre + "{{ M() }}" + E.post)
		files["m"+ext] = []byte("{% macro M %}" + C.pre + hole + C.post + "{% end %}")
		wantShows[E.file] = []string{E.want}
		wantShows["m"+ext] = []string{C.want}
	default:
		return nil, fmt.Errorf("unknown mode %s", mode)
	}
	got := map[string][]string{}
	opts := &scriggo.BuildOptions{
		Globals: native.Declarations{"v": reflect.Zero(reflect.PointerTo(t)).Interface()},
		UnexpandedTransformer: func(tree *ast.Tree) error {
			var seen []string
			collectShows(tree.Nodes, &seen)
			got[strings.TrimPrefix(tree.Path, "/")] = seen
			return nil
		},
		MarkdownConverter: func(src []byte, out io.Writer) error {
			_, err := out.Write(src)
			return err
		},
	}
	var tm *scriggo.Template
	var err error
	val, panicked, stack := core.Guard(func() { tm, err = scriggo.BuildTemplate(files, E.file, opts) })
	w.counts["builds"]++
	if panicked {
		return nil, fmt.Errorf("BuildTemplate panicked for %v: %v\n%s", describeFiles(files), val, stack)
	}
	// the positions must be the intended ones (a macro body that starts in the middle of a line
	// is not a code block, ...); otherwise the pair is not part of the family
	for f, want := range wantShows {
		g, parsed := got[f]
		if !parsed {
			continue // the build stopped before this file was parsed
		}
		if strings.Join(g, "|") != strings.Join(want, "|") {
			return &crossPair{skip: "positions differ from the intended ones"}, nil
		}
	}
	if err != nil {
		return &crossPair{skip: "build error: " + errorClass(err.Error())}, nil
	}
	return &crossPair{accept: true, tmpl: tm}, nil
}

func describeFiles(files scriggo.Files) string {
	var b strings.Builder
	for _, name := range []string{"index.html", "index.css", "index.js", "index.json", "index.md", "index.txt"} {
		if src, ok := files[name]; ok {
			fmt.Fprintf(&b, "%s=%q ", name, src)
		}
	}
	for name, src := range files {
		if !strings.HasPrefix(name, "index.") {
			fmt.Fprintf(&b, "%s=%q ", name, src)
		}
	}
	return strings.TrimSpace(b.String())
}

// errorClass strips positions and type names from a build error message.
func errorClass(msg string) string {
	if i := strings.Index(msg, ": "); i >= 0 && strings.Contains(msg[:i], ":") {
		msg = msg[i+2:]
	}
	switch {
	case strings.Contains(msg, "cannot show"):
		return "cannot show"
	case strings.Contains(msg, "not allowed"):
		return "construct not allowed at this position"
	case strings.Contains(msg, "cannot render"), strings.Contains(msg, "render"):
		return "render not possible here"
	case strings.Contains(msg, "import"):
		return "import not possible"
	}
	if len(msg) > 60 {
		msg = msg[:60]
	}
	return msg
}

// checkCross checks every callee position and every cross type for one caller position.
func (w *worker) checkCross(mode string, ei int, onlyCallee, onlyType string) {
	E := contexts[ei]
	tab := table()
	for cj, C := range contexts {
		if onlyCallee != "" && onlyCallee != C.name {
			continue
		}
		for _, name := range crossTypes {
			if onlyType != "" && onlyType != name {
				continue
			}
			var en *entry
			for i := range tab {
				if tab[i].name == name {
					en = &tab[i]
				}
			}
			if en == nil {
				w.incon = append(w.incon, "unknown cross type "+name)
				continue
			}
			label := fmt.Sprintf("%s at %s, callee position %s", mode, E.name, C.name)
			pair, err := w.buildCross(mode, ei, cj, en.typ)
			if err != nil {
				w.viols = append(w.viols, fmt.Sprintf("%s, type %s: %v", label, en.name, err))
				continue
			}
			if !pair.accept {
				w.counts["cross_pairs_not_built: "+pair.skip]++
				if strings.HasPrefix(pair.skip, "build error") {
					w.counts["static_reject"]++
				}
				continue
			}
			w.counts["static_accept"]++
			w.sigs["cross|"+mode+"|"+E.name+"|"+C.name+"|accept"] = struct{}{}
			// the callee on its own (reference for relations 2 and 3)
			alone, aerr := w.static(cj, en.typ)
			for _, val := range en.values {
				o := w.run(pair.tmpl, en.typ, val)
				w.judge(cj, label, en.name, en.typ, val, o)
				if o.kind != "ok" || aerr != nil || !alone.accept {
					continue
				}
				ref := w.run(alone.tmpl, en.typ, val)
				if ref.kind != "ok" {
					continue
				}
				calleeFormat := plainContextOfFormat[path.Ext(C.file)]
				where := fmt.Sprintf("%s type=%s value=%s caller=%q callee=%q", label, en.name, describe(val), E.pre+"{{ call }}"+E.post, C.pre+"{{ v }}"+C.post)
				switch {
				case E.want == calleeFormat && E.name == calleeFormat2Name(calleeFormat, E):
					w.counts["relation2_transparent_calls"]++
					if want := E.pre + ref.out + E.post; o.out != want {
						w.viols = append(w.viols, fmt.Sprintf("%s: output is %q, want %q (caller text around the callee's own output)", where, o.out, want))
					}
				case (E.name == "QuotedAttr" || E.name == "UnquotedAttr") && calleeFormat == "HTML":
					w.counts["relation3_attribute_calls"]++
					if !strings.HasPrefix(o.out, E.pre) || !strings.HasSuffix(o.out, E.post) || len(o.out) < len(E.pre)+len(E.post) {
						w.viols = append(w.viols, fmt.Sprintf("%s: output %q lost the caller text", where, o.out))
						continue
					}
					got := html.UnescapeString(o.out[len(E.pre) : len(o.out)-len(E.post)])
					if want := html.UnescapeString(ref.out); got != want {
						w.viols = append(w.viols, fmt.Sprintf("%s: attribute value decodes to %q, the callee's own output decodes to %q (output %q)", where, got, want, o.out))
					}
				}
			}
		}
	}
}

// calleeFormat2Name restricts relation 2 to the positions whose surrounding text is plain text
// of that format (the first 14 positions and the Markdown-HTML one), where nothing but the
// context decides how the call is shown.
func calleeFormat2Name(format string, E ctxDef) string {
	switch E.name {
	case "Text", "HTML", "CSS", "JS", "JSON", "Markdown", "MarkdownHTML(HTML)":
		return E.name
	}
	return ""
}
