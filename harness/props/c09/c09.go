// Package c09 checks that a show accepted by the type checker never fails at run time
// for its static type.
//
// For every entry of a finite type table and every context a template with one show of a
// global variable v is built:
//
//	static : v has the table type T. If BuildTemplate accepts the show, Run must not return a
//	         "cannot show" error for any value of T (T not an interface). If T is an interface
//	         type a failure is allowed only when the dynamic type of the value is itself
//	         rejected statically in that context (scriggo's own verdict for a variable of that
//	         type: metamorphic).
//	boxed  : v has type any and holds the value; same rule.
//	declared: the type is declared in the template itself ({% type T uintptr %}{% var v T %}),
//	         so that values reach the renderer as Scriggo-defined types.
//
// The context in which scriggo sees the show is read back from the parsed tree
// (BuildOptions.UnexpandedTransformer) and must be the intended one, so the fourteen contexts
// (plus URL attribute, srcset, <script>, <style>, JSON-LD positions) are observed, not assumed.
package c09

import (
	"bytes"
	"fmt"
	"math/rand"
	"reflect"
	"sort"
	"strings"
	"time"

	"github.com/open2b/scriggo"
	"github.com/open2b/scriggo/ast"
	"github.com/open2b/scriggo/native"

	"verif/core"
)

type prop struct{}

func init() { core.Register(prop{}) }

func (prop) ID() string    { return "C09" }
func (prop) Level() string { return "exploration" }

// ---------------------------------------------------------------------------
// contexts

type ctxDef struct {
	name string // label of the position
	file string
	pre  string
	post string
	want string // ast.Context name scriggo must assign to the show
}

var contexts = []ctxDef{
	// the fourteen contexts
	{"Text", "index.txt", "x ", " y", "text"},
	{"HTML", "index.html", "<div>", "</div>", "HTML"},
	{"Tag", "index.html", "<div ", ">", "tag"},
	{"QuotedAttr", "index.html", `<div title="`, `">`, "quoted attribute"},
	{"UnquotedAttr", "index.html", `<div title=`, `>`, "unquoted attribute"},
	{"CSS", "index.css", "a { width: ", "; }", "CSS"},
	{"CSSString", "index.css", `a { content: "`, `"; }`, "CSS string"},
	{"JS", "index.js", "var a = ", ";", "JavaScript"},
	{"JSString", "index.js", `var a = "`, `";`, "JavaScript string"},
	{"JSON", "index.json", `{"a": `, `}`, "JSON"},
	{"JSONString", "index.json", `{"a": "`, `"}`, "JSON string"},
	{"Markdown", "index.md", "P ", " Q\n", "Markdown"},
	{"TabCodeBlock", "index.md", "\t", "\n", "tab code block"},
	{"SpacesCodeBlock", "index.md", "    ", "\n", "spaces code block"},
	// further positions that map onto the same contexts through other lexer paths
	{"URLPath(QuotedAttr)", "index.html", `<a href="`, `">`, "quoted attribute"},
	{"URLQuery(QuotedAttr)", "index.html", `<a href="/p?q=`, `">`, "quoted attribute"},
	{"URLQuery(UnquotedAttr)", "index.html", `<a href=/p?q=`, `>`, "unquoted attribute"},
	{"Srcset(QuotedAttr)", "index.html", `<img srcset="`, ` 2x">`, "quoted attribute"},
	{"Script(JS)", "index.html", "<script>var a = ", ";</script>", "JavaScript"},
	{"Script(JSString)", "index.html", `<script>var a = '`, `';</script>`, "JavaScript string"},
	{"Style(CSS)", "index.html", "<style>a { width: ", "; }</style>", "CSS"},
	{"Style(CSSString)", "index.html", `<style>a { content: '`, `'; }</style>`, "CSS string"},
	{"JSONLD(JSON)", "index.html", `<script type="application/ld+json">{"a": `, `}</script>`, "JSON"},
	{"JSONLD(JSONString)", "index.html", `<script type="application/ld+json">{"a": "`, `"}</script>`, "JSON string"},
	{"MarkdownHTML(HTML)", "index.md", "<div>", "</div>\n", "Markdown"},
}

// ---------------------------------------------------------------------------
// worker

type verdict struct {
	accept bool
	msg    string // build error when rejected
	tmpl   *scriggo.Template
	ctx    string // context name read back from the tree
}

type worker struct {
	verdicts map[verdictKey]*verdict
	boxed    map[int]*verdict
	res      core.Result
	sigs     map[string]struct{}
	viols    []string
	incon    []string
	counts   map[string]int64
	scopes   map[string]bool // open findings whose construct is kept out of the sweep
}

func newWorker() *worker {
	return &worker{verdicts: map[verdictKey]*verdict{}, boxed: map[int]*verdict{}, sigs: map[string]struct{}{}, counts: map[string]int64{}, scopes: map[string]bool{}}
}

// build builds the template of context ci with the given prelude and globals.
func (w *worker) build(ci int, prelude string, globals native.Declarations) (*verdict, error) {
	c := contexts[ci]
	if prelude != "" && (c.want == "tab code block" || c.want == "spaces code block") {
		prelude += "\n\n" // a code block starts after a blank line (a line holding only statements does not count as blank for the lexer)
	}
	src := prelude + c.pre + "{{ v }}" + c.post
	var seen []string
	opts := &scriggo.BuildOptions{Globals: globals, UnexpandedTransformer: func(tree *ast.Tree) error {
		// the shows of these templates are top-level nodes (astutil.Walk is not used: it
		// panics on *ast.TypeDeclaration nodes, which the "declared" mode needs)
		// and inside *ast.URL nodes
		var visit func(nodes []ast.Node)
		visit = func(nodes []ast.Node) {
			for _, n := range nodes {
				switch n := n.(type) {
				case *ast.Show:
					seen = append(seen, n.Context.String())
				case *ast.URL:
					visit(n.Value)
				}
			}
		}
		visit(tree.Nodes)
		return nil
	}}
	var t *scriggo.Template
	var err error
	val, panicked, stack := core.Guard(func() {
		t, err = scriggo.BuildTemplate(scriggo.Files{c.file: []byte(src)}, c.file, opts)
	})
	w.counts["builds"]++
	if panicked {
		return nil, fmt.Errorf("BuildTemplate panicked: %v\n%s", val, stack)
	}
	if len(seen) != 1 || seen[0] != c.want {
		return nil, fmt.Errorf("harness: the show of %q is in contexts %v, want [%s]", src, seen, c.want)
	}
	v := &verdict{ctx: seen[0]}
	if err != nil {
		msg := err.Error()
		if !strings.Contains(msg, "cannot show") {
			return nil, fmt.Errorf("harness: unexpected build error for %q: %v", src, err)
		}
		v.msg = msg
		return v, nil
	}
	v.accept = true
	v.tmpl = t
	return v, nil
}

// static returns scriggo's static verdict for a variable of type t shown in context ci.
func (w *worker) static(ci int, t reflect.Type) (*verdict, error) {
	key := verdictKey{ci, t}
	if v, ok := w.verdicts[key]; ok {
		return v, nil
	}
	v, err := w.build(ci, "", native.Declarations{"v": reflect.Zero(reflect.PointerTo(t)).Interface()})
	if err != nil {
		return nil, err
	}
	w.verdicts[key] = v
	return v, nil
}

type verdictKey struct {
	ci int
	t  reflect.Type
}

func (w *worker) boxedTemplate(ci int) (*verdict, error) {
	if v, ok := w.boxed[ci]; ok {
		return v, nil
	}
	v, err := w.build(ci, "", native.Declarations{"v": (*any)(nil)})
	if err != nil {
		return nil, err
	}
	if !v.accept {
		return nil, fmt.Errorf("harness: a show of an any variable is rejected in %s: %s", contexts[ci].name, v.msg)
	}
	w.boxed[ci] = v
	return v, nil
}

type outcome struct {
	kind string // ok | cannotshow | error | panic
	msg  string
	out  string
}

// run runs the template with v set to val (a value assignable to the variable type vt).
func (w *worker) run(t *scriggo.Template, vt reflect.Type, val any) outcome {
	p := reflect.New(vt)
	if val != nil {
		p.Elem().Set(reflect.ValueOf(val))
	}
	var buf bytes.Buffer
	var err error
	pv, panicked, stack := core.Guard(func() { err = t.Run(&buf, map[string]any{"v": p.Interface()}, nil) })
	w.counts["runs"]++
	switch {
	case panicked:
		return outcome{kind: "panic", msg: fmt.Sprintf("%v\n%s", pv, stack)}
	case err != nil && strings.Contains(err.Error(), "cannot show"):
		return outcome{kind: "cannotshow", msg: err.Error()}
	case err != nil:
		return outcome{kind: "error", msg: err.Error()}
	}
	return outcome{kind: "ok", out: buf.String()}
}

func describe(val any) string {
	if val == nil {
		return "nil"
	}
	s := fmt.Sprintf("%#v", val)
	if len(s) > 120 {
		s = s[:120] + "…"
	}
	return fmt.Sprintf("%s (dynamic type %T)", s, val)
}

var anyType = reflect.TypeFor[any]()

// judge applies the property to one run.
//
//	varType : static type of the shown variable
//	val     : the value (nil = nil interface)
func (w *worker) judge(ci int, mode, typeName string, varType reflect.Type, val any, o outcome) {
	c := contexts[ci]
	where := fmt.Sprintf("context=%s (%s) template=%q mode=%s type=%s value=%s", c.name, c.want, c.pre+"{{ v }}"+c.post, mode, typeName, describe(val))
	switch o.kind {
	case "ok":
		return
	case "panic":
		w.viols = append(w.viols, where+": Run panicked in the host: "+o.msg)
		return
	case "error":
		// The templates consist of one show: an error of Run that is not a "cannot show" error
		// (for example a *PanicError raised while the value is formatted) is still the show
		// failing at run time for a value of a statically accepted type.
		w.viols = append(w.viols, where+": the show was accepted by the type checker but Run fails: "+o.msg)
		return
	}
	// a "cannot show" failure
	if varType.Kind() != reflect.Interface {
		// A composite static type can hold interface values (elements, fields, keys of interface
		// type). For those the second clause of the property applies: the failure is allowed if
		// the dynamic type of such a nested interface value is itself rejected statically here.
		if val != nil {
			if t, ok := w.rejectedNestedDynamic(ci, reflect.ValueOf(val), false, 0, new(int)); ok {
				w.counts["failures_justified_by_static_rejection"]++
				w.sigs[c.name+"|"+mode+"|nested-dynamic-reject|"+t.Kind().String()] = struct{}{}
				return
			}
		}
		w.viols = append(w.viols, where+": the show was accepted by the type checker but Run fails: "+o.msg)
		return
	}
	if val == nil {
		w.viols = append(w.viols, where+": showing a nil interface value fails at run time: "+o.msg)
		return
	}
	dv, err := w.static(ci, reflect.TypeOf(val))
	if err != nil {
		w.incon = append(w.incon, where+": cannot obtain the static verdict of the dynamic type: "+err.Error())
		return
	}
	if dv.accept {
		if t, ok := w.rejectedNestedDynamic(ci, reflect.ValueOf(val), false, 0, new(int)); ok {
			w.counts["failures_justified_by_static_rejection"]++
			w.sigs[c.name+"|"+mode+"|nested-dynamic-reject|"+t.Kind().String()] = struct{}{}
			return
		}
		w.viols = append(w.viols, where+fmt.Sprintf(": Run fails (%s) although a variable of the dynamic type %T is accepted statically in this context", o.msg, val))
		return
	}
	w.counts["failures_justified_by_static_rejection"]++
	w.sigs[c.name+"|"+mode+"|dynamic-reject"] = struct{}{}
}

// rejectedNestedDynamic walks v and reports the dynamic type of the first value held in a
// nested interface (boxed is true right below an interface-typed position) whose type scriggo
// rejects statically in context ci.
func (w *worker) rejectedNestedDynamic(ci int, v reflect.Value, boxed bool, depth int, budget *int) (reflect.Type, bool) {
	*budget++
	if depth > 64 || *budget > 20000 || !v.IsValid() {
		return nil, false
	}
	if boxed {
		if sv, err := w.static(ci, v.Type()); err == nil && !sv.accept {
			return v.Type(), true
		}
	}
	switch v.Kind() {
	case reflect.Interface:
		if v.IsNil() {
			return nil, false
		}
		return w.rejectedNestedDynamic(ci, v.Elem(), true, depth+1, budget)
	case reflect.Pointer:
		if v.IsNil() {
			return nil, false
		}
		return w.rejectedNestedDynamic(ci, v.Elem(), false, depth+1, budget)
	case reflect.Slice, reflect.Array:
		for i := 0; i < v.Len(); i++ {
			if t, ok := w.rejectedNestedDynamic(ci, v.Index(i), false, depth+1, budget); ok {
				return t, true
			}
		}
	case reflect.Map:
		it := v.MapRange()
		for it.Next() {
			if t, ok := w.rejectedNestedDynamic(ci, it.Key(), false, depth+1, budget); ok {
				return t, true
			}
			if t, ok := w.rejectedNestedDynamic(ci, it.Value(), false, depth+1, budget); ok {
				return t, true
			}
		}
	case reflect.Struct:
		for i := 0; i < v.NumField(); i++ {
			if v.Type().Field(i).PkgPath != "" {
				continue
			}
			if t, ok := w.rejectedNestedDynamic(ci, v.Field(i), false, depth+1, budget); ok {
				return t, true
			}
		}
	}
	return nil, false
}

// checkEntry checks one table entry in every context, static and boxed.
func (w *worker) checkEntry(en entry, only string) {
	for ci, c := range contexts {
		if only != "" && only != c.name {
			continue
		}
		isIface := en.typ.Kind() == reflect.Interface
		// static
		sv, err := w.static(ci, en.typ)
		if err != nil {
			if strings.HasPrefix(err.Error(), "BuildTemplate panicked") {
				w.viols = append(w.viols, fmt.Sprintf("context=%s type=%s: %v", c.name, en.name, err))
			} else {
				w.incon = append(w.incon, fmt.Sprintf("context=%s type=%s: %v", c.name, en.name, err))
			}
			continue
		}
		if sv.accept {
			w.sigs[c.name+"|"+en.name+"|static-accept"] = struct{}{}
			w.counts["static_accept"]++
			for _, val := range en.values {
				w.judge(ci, "static", en.name, en.typ, val, w.run(sv.tmpl, en.typ, val))
			}
		} else {
			w.sigs[c.name+"|"+en.name+"|static-reject"] = struct{}{}
			w.counts["static_reject"]++
		}
		if en.typ == anyType {
			continue // static any is the boxed mode
		}
		// boxed in any
		bv, err := w.boxedTemplate(ci)
		if err != nil {
			w.incon = append(w.incon, err.Error())
			continue
		}
		for _, val := range en.values {
			if isIface && val == nil {
				continue
			}
			o := w.run(bv.tmpl, anyType, val)
			w.judge(ci, "boxed", en.name, anyType, val, o)
			if o.kind == "ok" && !isIface && !sv.accept {
				w.counts["boxed_ok_though_static_reject"]++
			}
		}
	}
}

// checkDeclared checks types declared in the template with the given underlying type.
func (w *worker) checkDeclared(under string) {
	for ci, c := range contexts {
		v, err := w.build(ci, "{% type T "+under+" %}{% var v T %}", nil)
		if err != nil {
			if strings.HasPrefix(err.Error(), "BuildTemplate panicked") {
				w.viols = append(w.viols, fmt.Sprintf("context=%s declared type T %s: %v", c.name, under, err))
			} else {
				w.incon = append(w.incon, fmt.Sprintf("context=%s declared type T %s: %v", c.name, under, err))
			}
			continue
		}
		if !v.accept {
			w.sigs[c.name+"|declared "+under+"|static-reject"] = struct{}{}
			w.counts["static_reject"]++
			continue
		}
		w.sigs[c.name+"|declared "+under+"|static-accept"] = struct{}{}
		w.counts["static_accept"]++
		var buf bytes.Buffer
		var rerr error
		pv, panicked, stack := core.Guard(func() { rerr = v.tmpl.Run(&buf, nil, nil) })
		w.counts["runs"]++
		where := fmt.Sprintf("context=%s (%s) template=%q mode=declared", c.name, c.want, "{% type T "+under+" %}{% var v T %}"+c.pre+"{{ v }}"+c.post)
		switch {
		case panicked:
			w.viols = append(w.viols, fmt.Sprintf("%s: Run panicked in the host: %v\n%s", where, pv, stack))
		case rerr != nil && strings.Contains(rerr.Error(), "cannot show"):
			w.viols = append(w.viols, where+": the show was accepted by the type checker but Run fails: "+rerr.Error())
		case rerr != nil:
			w.incon = append(w.incon, where+": Run failed: "+rerr.Error())
		}
	}
}

type caseData struct {
	Kind  string `json:"kind"`            // entry | declared | random
	Type  string `json:"type,omitempty"`  // entry: table name; declared: underlying type
	Ctx   string `json:"ctx,omitempty"`   // entry: restrict to one context (replays)
	Seed  int64  `json:"seed,omitempty"`  // random
	N     int    `json:"n,omitempty"`     // random: number of types
	Depth int    `json:"depth,omitempty"` // random
	// cross: a show in a rendered file / called macro (cross.go)
	Mode   string `json:"mode,omitempty"`   // render | macro | import-macro
	Enc    string `json:"enc,omitempty"`    // position of the call in the caller
	Callee string `json:"callee,omitempty"` // restrict to one callee position (replays)
	Form   string `json:"form,omitempty"`   // declvalue: restrict to one form (replays)
	// Scopes lists the open findings (d.InScope) whose construct this case must not generate.
	Scopes []string `json:"scopes,omitempty"`
}

func (prop) Work(c core.Case) core.Result {
	var cd caseData
	c.Decode(&cd)
	w := newWorker()
	for _, sc := range cd.Scopes {
		w.scopes[sc] = true
	}
	switch cd.Kind {
	case "entry":
		found := false
		for _, en := range table() {
			if en.name == cd.Type {
				w.checkEntry(en, cd.Ctx)
				found = true
			}
		}
		if !found {
			return core.Result{Status: core.Inconclusive, Detail: "unknown table type " + cd.Type}
		}
	case "declared":
		w.checkDeclared(cd.Type)
	case "declvalue":
		found := false
		for _, k := range declKinds {
			if k.name == cd.Type {
				w.checkDeclaredValues(k, cd.Form, cd.Ctx)
				found = true
			}
		}
		if !found {
			return core.Result{Status: core.Inconclusive, Detail: "unknown declared kind " + cd.Type}
		}
	case "cross":
		ei := -1
		for i, c := range contexts {
			if c.name == cd.Enc {
				ei = i
			}
		}
		if ei < 0 {
			return core.Result{Status: core.Inconclusive, Detail: "unknown position " + cd.Enc}
		}
		w.checkCross(cd.Mode, ei, cd.Callee, cd.Type)
	case "random":
		r := core.Rand(cd.Seed, "c09-random")
		for i := 0; i < cd.N; i++ {
			g := &gen{r: r}
			t := g.typ(cd.Depth)
			en := entry{name: "random:" + t.String(), typ: t}
			en.values = append(en.values, reflect.Zero(t).Interface())
			for k := 0; k < 3; k++ {
				en.values = append(en.values, g.value(t, cd.Depth+1).Interface())
			}
			var vals []any
			for _, v := range en.values {
				// nil is the zero value of an interface type (kept only for interface static types,
				// where checkEntry treats it as the nil interface)
				if v == nil && t.Kind() != reflect.Interface {
					continue
				}
				if v != nil && nilMethodPtr(reflect.ValueOf(v), 0) {
					w.counts["random_values_skipped_nil_receiver"]++
					continue
				}
				vals = append(vals, v)
			}
			en.values = vals
			w.checkEntry(en, "")
		}
	default:
		return core.Result{Status: core.Inconclusive, Detail: "unknown case kind " + cd.Kind}
	}
	res := core.Result{Status: core.OK, Evals: w.counts["runs"] + w.counts["static_reject"], Counts: w.counts}
	for s := range w.sigs {
		res.Sigs = append(res.Sigs, s)
	}
	sort.Strings(res.Sigs)
	switch {
	case len(w.viols) > 0:
		res.Status = core.Violation
		if len(w.viols) > 12 {
			w.viols = append(w.viols[:12], fmt.Sprintf("… and %d more", len(w.viols)-12))
		}
		res.Detail = strings.Join(w.viols, "\n")
	case len(w.incon) > 0:
		res.Status = core.Inconclusive
		res.Detail = strings.Join(w.incon, "\n")
	}
	return res
}

// ---------------------------------------------------------------------------
// random composite types (thorough, and a few in quick)

type gen struct{ r *rand.Rand }

var leafTypes = []reflect.Type{
	typeOf[bool](), typeOf[int](), typeOf[int8](), typeOf[uint16](), typeOf[uint64](), typeOf[uintptr](), typeOf[float32](), typeOf[float64](),
	typeOf[complex64](), typeOf[complex128](), typeOf[string](), typeOf[[]byte](), typeOf[any](), typeOf[error](), typeOf[time.Time](),
	typeOf[StringerV](), typeOf[StringerInt](), typeOf[MyUintptr](), typeOf[MyString](), typeOf[func()](), typeOf[chan int](), typeOf[native.HTML](),
	typeOf[JSStr](), typeOf[JSONStr](), typeOf[ErrorV](), typeOf[*int](), typeOf[fmt.Stringer](),
}

var keyTypes = []reflect.Type{
	typeOf[string](), typeOf[int](), typeOf[bool](), typeOf[uint8](), typeOf[uintptr](), typeOf[float64](), typeOf[complex128](), typeOf[MyString](),
	typeOf[MyUintptr](), typeOf[StringerInt](), typeOf[any](), typeOf[[2]int](), typeOf[StringerV](),
}

func (g *gen) typ(depth int) reflect.Type {
	if depth <= 0 || g.r.Intn(6) == 0 {
		return leafTypes[g.r.Intn(len(leafTypes))]
	}
	switch g.r.Intn(6) {
	case 0:
		return reflect.SliceOf(g.typ(depth - 1))
	case 1:
		return reflect.ArrayOf(g.r.Intn(3), g.typ(depth-1))
	case 2:
		return reflect.PointerTo(g.typ(depth - 1))
	case 3:
		return reflect.MapOf(keyTypes[g.r.Intn(len(keyTypes))], g.typ(depth-1))
	default:
		n := 1 + g.r.Intn(3)
		var fields []reflect.StructField
		for i := 0; i < n; i++ {
			f := reflect.StructField{Name: fmt.Sprintf("F%d", i), Type: g.typ(depth - 1)}
			switch g.r.Intn(5) {
			case 0:
				f.Tag = reflect.StructTag(fmt.Sprintf(`json:"f%d,omitempty"`, i))
			case 1:
				f.Tag = `json:"-"`
			case 2:
				f.Tag = reflect.StructTag(fmt.Sprintf(`json:"n%d"`, i))
			}
			fields = append(fields, f)
		}
		return reflect.StructOf(fields)
	}
}

var dynLeaves = []any{1, "s", uintptr(9), 2.5, complex(1, 2), true, []byte("b"), StringerV{"a"}, ErrorV{"e"}, MyUintptr(3), native.HTML("<b>"), someTime, func() {}, JSStr{"j"}}

// nilMethodPtr reports whether v contains a nil pointer to a type with methods. Showing such
// a value calls a value-receiver method through a nil pointer, which panics in Go itself
// (the value's fault, not the show's), so these values are not used.
func nilMethodPtr(v reflect.Value, depth int) bool {
	if depth > 12 {
		return false
	}
	switch v.Kind() {
	case reflect.Pointer:
		if v.IsNil() {
			return v.Type().Elem().NumMethod() > 0
		}
		return nilMethodPtr(v.Elem(), depth+1)
	case reflect.Interface:
		return !v.IsNil() && nilMethodPtr(v.Elem(), depth+1)
	case reflect.Slice, reflect.Array:
		for i := 0; i < v.Len(); i++ {
			if nilMethodPtr(v.Index(i), depth+1) {
				return true
			}
		}
	case reflect.Map:
		it := v.MapRange()
		for it.Next() {
			if nilMethodPtr(it.Value(), depth+1) {
				return true
			}
		}
	case reflect.Struct:
		for i := 0; i < v.NumField(); i++ {
			if nilMethodPtr(v.Field(i), depth+1) {
				return true
			}
		}
	}
	return false
}

// value builds a random value of type t.
func (g *gen) value(t reflect.Type, depth int) reflect.Value {
	v := reflect.New(t).Elem()
	if depth < 0 {
		return v
	}
	switch t.Kind() {
	case reflect.Bool:
		v.SetBool(g.r.Intn(2) == 0)
	case reflect.Int, reflect.Int8, reflect.Int16, reflect.Int32, reflect.Int64:
		v.SetInt(int64(g.r.Intn(200) - 100))
	case reflect.Uint, reflect.Uint8, reflect.Uint16, reflect.Uint32, reflect.Uint64, reflect.Uintptr:
		v.SetUint(uint64(g.r.Intn(200)))
	case reflect.Float32, reflect.Float64:
		v.SetFloat(float64(g.r.Intn(2000)-1000) / 8)
	case reflect.Complex64, reflect.Complex128:
		v.SetComplex(complex(float64(g.r.Intn(9)-4), float64(g.r.Intn(9)-4)))
	case reflect.String:
		v.SetString([]string{"", "a", "<b>", "x y", "é"}[g.r.Intn(5)])
	case reflect.Slice:
		if g.r.Intn(5) == 0 {
			return v // nil
		}
		n := g.r.Intn(3)
		s := reflect.MakeSlice(t, n, n)
		for i := 0; i < n; i++ {
			s.Index(i).Set(g.value(t.Elem(), depth-1))
		}
		v.Set(s)
	case reflect.Array:
		for i := 0; i < t.Len(); i++ {
			v.Index(i).Set(g.value(t.Elem(), depth-1))
		}
	case reflect.Pointer:
		// no nil pointers to types with methods: calling a value-receiver method through a nil
		// pointer panics in Go itself, which is the value's fault and not the show's
		if g.r.Intn(4) == 0 && t.Elem().NumMethod() == 0 {
			return v
		}
		p := reflect.New(t.Elem())
		p.Elem().Set(g.value(t.Elem(), depth-1))
		v.Set(p)
	case reflect.Map:
		if g.r.Intn(5) == 0 {
			return v
		}
		m := reflect.MakeMap(t)
		n := g.r.Intn(3)
		for i := 0; i < n; i++ {
			k := g.value(t.Key(), 0)
			if t.Key().Kind() == reflect.Interface {
				// hashable dynamic keys only
				k = reflect.New(t.Key()).Elem()
				k.Set(reflect.ValueOf([]any{1, "k", uintptr(2), 1.5, true}[g.r.Intn(5)]))
			}
			m.SetMapIndex(k, g.value(t.Elem(), depth-1))
		}
		v.Set(m)
	case reflect.Struct:
		if t == typeOf[time.Time]() {
			v.Set(reflect.ValueOf(someTime.Add(time.Duration(g.r.Intn(1000)) * time.Hour)))
			return v
		}
		for i := 0; i < t.NumField(); i++ {
			if t.Field(i).PkgPath == "" {
				v.Field(i).Set(g.value(t.Field(i).Type, depth-1))
			}
		}
	case reflect.Interface:
		if g.r.Intn(5) == 0 {
			return v
		}
		switch t {
		case typeOf[error]():
			v.Set(reflect.ValueOf(ErrorV{"e"}))
		case typeOf[fmt.Stringer]():
			v.Set(reflect.ValueOf(StringerV{"s"}))
		default:
			if depth > 0 && g.r.Intn(3) == 0 {
				inner := g.typ(depth - 1)
				iv := g.value(inner, depth-1)
				if inner.Kind() != reflect.Interface || !iv.IsNil() {
					v.Set(iv)
				}
			} else {
				v.Set(reflect.ValueOf(dynLeaves[g.r.Intn(len(dynLeaves))]))
			}
		}
	case reflect.Func:
		if g.r.Intn(2) == 0 && t == typeOf[func()]() {
			v.Set(reflect.ValueOf(func() {}))
		}
	case reflect.Chan:
		if g.r.Intn(2) == 0 {
			v.Set(reflect.MakeChan(t, 0))
		}
	}
	return v
}

// ---------------------------------------------------------------------------
// driver

func (prop) Drive(d *core.Driver) error {
	tab := table()
	var cnames, tnames []string
	for _, c := range contexts {
		cnames = append(cnames, c.name)
	}
	nvals := 0
	for _, en := range tab {
		tnames = append(tnames, en.name)
		nvals += len(en.values)
	}
	d.T.Exhaustive = true
	d.T.Rule = fmt.Sprintf("the complete table of %d types (every basic kind, named variants, byte slices, Stringer/error/EnvStringer implementers by value and by pointer, the five trusted types, implementers of the ten format Stringer interfaces, time types, arrays/slices/maps/structs/pointers/func/chan/unsafe.Pointer, and %d interface static types with dynamic values) x %d positions (the 14 contexts, read back from scriggo's parsed tree, plus URL/srcset/script/style/JSON-LD positions) x {static, boxed in any} x >=4 values each is enumerated completely; plus %d types declared in the template itself, plus seeded random composite types (reflect-built, depth<=3); plus the cross family: the show sits in a rendered file, in a macro of the same file or in a macro of an imported file (every position of the table) and the call sits at every position of the caller, for 29 representative types (relation: no run-time failure if the pair builds; transparent and plain-attribute calls reproduce the callee's own output). "+
		"evaluations = Run calls + statically rejected (type, context) pairs; distinct_nontrivial counts distinct (position, type, static verdict) triples observed", len(tab), 15, len(contexts), len(basicKinds))
	d.T.Assumptions = []string{
		"the templates consist of one show (plus declarations), so every error returned by Run and every host panic counts as the show failing at run time",
		"cyclic values are not generated (a cycle has no JS/JSON representation; its refusal is the documented behaviour); constructs of listed open findings are left out of the sweep and replayed as witnesses",
		"the static verdict for a type is scriggo's own: BuildTemplate of the same template with a global variable of that type",
		"nil pointers to types whose String/Error method has a value receiver are not generated (the method call itself panics in Go)",
		"exhaustive only over the stated table; random composite types are sampled",
	}
	d.T.Set("contexts", cnames)
	d.T.Set("table_types", len(tab))
	d.T.Set("table_values", nvals)
	var cases []core.Case
	var scopes []string
	for _, sc := range []string{"js-time-year-out-of-range", "declared-byte-slice-js"} {
		if d.InScope(sc) {
			scopes = append(scopes, sc)
		}
	}
	d.T.Set("open_finding_scopes_excluded", scopes)
	for _, en := range tab {
		if en.scope != "" && d.InScope(en.scope) {
			continue
		}
		cases = append(cases, core.NewCase("entry-"+en.name, caseData{Kind: "entry", Type: en.name}))
	}
	for _, k := range basicKinds {
		cases = append(cases, core.NewCase("declared-"+k, caseData{Kind: "declared", Type: k}))
	}
	for _, k := range declKinds {
		cases = append(cases, core.NewCase("declvalue-"+k.name, caseData{Kind: "declvalue", Type: k.name, Scopes: scopes}))
	}
	for _, mode := range crossModes {
		for _, c := range contexts {
			cases = append(cases, core.NewCase("cross-"+mode+"-"+c.name, caseData{Kind: "cross", Mode: mode, Enc: c.name}))
		}
	}
	d.T.Set("cross_types", crossTypes)
	d.T.Sample(map[string]any{"case": "cross-render-URLPath(QuotedAttr)", "meaning": "<a href=\"{{ render \"p.EXT\" }}\"> with p.EXT = every position of the table holding {{ v }}, v of 29 representative types; the pair must not fail at run time if it builds; transparent calls must reproduce the callee's own output"})
	nr := d.N(16, 400)
	for i := 0; i < nr; i++ {
		cases = append(cases, core.NewCase(fmt.Sprintf("random-%d", i), caseData{Kind: "random", Seed: d.Seed*1000003 + int64(i), N: d.N(6, 12), Depth: 3}))
	}
	d.T.Sample(map[string]any{"case": "entry-uintptr", "meaning": "uintptr in all positions, as a static type and boxed in any, values 0, 1, 4096, MaxUint64"})
	d.T.Sample(map[string]any{"case": "entry-error", "meaning": "static type error holding nil, errors.New, ErrorV, *ErrorP, ErrorInt, BothV, (*ErrorP)(nil)"})
	d.T.Sample(map[string]any{"case": "declared-uintptr", "meaning": "{% type T uintptr %}{% var v T %} shown in all positions"})
	d.Run(cases, core.RunOpts{GOMAXPROCS: 1})
	return nil
}
