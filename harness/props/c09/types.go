package c09

import (
	"errors"
	"fmt"
	"math"
	"reflect"
	"time"
	"unsafe"

	"github.com/open2b/scriggo/native"
)

// Named variants of the basic kinds.
type (
	MyBool       bool
	MyInt        int
	MyInt8       int8
	MyInt64      int64
	MyUint       uint
	MyUint8      uint8
	MyUint16     uint16
	MyUintptr    uintptr
	MyFloat32    float32
	MyFloat64    float64
	MyComplex64  complex64
	MyComplex128 complex128
	MyString     string
	MyBytes      []byte
)

// Stringer / error / EnvStringer implementers, by value and by pointer, of several kinds.
type (
	StringerV    struct{ S string }
	StringerP    struct{ S string }
	StringerInt  int
	StringerStr  string
	StringerSl   []int
	StringerMap  map[string]int
	StringerFunc func()
	ErrorV       struct{ S string }
	ErrorP       struct{ S string }
	ErrorInt     int
	EnvStringerV struct{ S string }
	EnvStringerP struct{ S string }
	BothV        struct{ S string } // Stringer and error
	PtrRecvInt   int                // only *PtrRecvInt is a Stringer; the value type is shown by kind
)

func (v StringerV) String() string { return "sv:" + v.S }
func (p *StringerP) String() string {
	if p == nil {
		return "sp:<nil>"
	}
	return "sp:" + p.S
}
func (v StringerInt) String() string  { return fmt.Sprintf("si:%d", int(v)) }
func (v StringerStr) String() string  { return "ss:" + string(v) }
func (v StringerSl) String() string   { return fmt.Sprintf("ssl:%d", len(v)) }
func (v StringerMap) String() string  { return fmt.Sprintf("smap:%d", len(v)) }
func (v StringerFunc) String() string { return "sfunc" }
func (v ErrorV) Error() string        { return "ev:" + v.S }
func (p *ErrorP) Error() string {
	if p == nil {
		return "ep:<nil>"
	}
	return "ep:" + p.S
}
func (v ErrorInt) Error() string                { return fmt.Sprintf("ei:%d", int(v)) }
func (v EnvStringerV) String(native.Env) string { return "esv:" + v.S }
func (p *EnvStringerP) String(native.Env) string {
	if p == nil {
		return "esp:<nil>"
	}
	return "esp:" + p.S
}
func (v BothV) String() string { return "bs:" + v.S }
func (v BothV) Error() string  { return "be:" + v.S }
func (p *PtrRecvInt) String() string {
	if p == nil {
		return "pri:<nil>"
	}
	return fmt.Sprintf("pri:%d", int(*p))
}

// Implementers of the ten format Stringer interfaces (struct kind: accepted only through the interface).
type (
	HTMLStr    struct{ S string }
	HTMLEnvStr struct{ S string }
	CSSStr     struct{ S string }
	CSSEnvStr  struct{ S string }
	JSStr      struct{ S string }
	JSEnvStr   struct{ S string }
	JSONStr    struct{ S string }
	JSONEnvStr struct{ S string }
	MDStr      struct{ S string }
	MDEnvStr   struct{ S string }
	// the same through a pointer receiver and on a basic kind
	HTMLStrP struct{ S string }
	JSStrInt int
)

func (v HTMLStr) HTML() native.HTML                    { return native.HTML("<b>" + v.S + "</b>") }
func (v HTMLEnvStr) HTML(native.Env) native.HTML       { return native.HTML("<i>" + v.S + "</i>") }
func (v CSSStr) CSS() native.CSS                       { return native.CSS("red") }
func (v CSSEnvStr) CSS(native.Env) native.CSS          { return native.CSS("blue") }
func (v JSStr) JS() native.JS                          { return native.JS("1+1") }
func (v JSEnvStr) JS(native.Env) native.JS             { return native.JS("2+2") }
func (v JSONStr) JSON() native.JSON                    { return native.JSON(`{"x":1}`) }
func (v JSONEnvStr) JSON(native.Env) native.JSON       { return native.JSON(`[1,2]`) }
func (v MDStr) Markdown() native.Markdown              { return native.Markdown("*" + v.S + "*") }
func (v MDEnvStr) Markdown(native.Env) native.Markdown { return native.Markdown("_" + v.S + "_") }
func (p *HTMLStrP) HTML() native.HTML {
	if p == nil {
		return "<u>nil</u>"
	}
	return native.HTML("<u>" + p.S + "</u>")
}
func (v JSStrInt) JS() native.JS { return native.JS(fmt.Sprintf("%d", int(v))) }

// Composite types.
type (
	Plain struct {
		A int
		B string
	}
	Tagged struct {
		A int     `json:"a"`
		B string  `json:"b,omitempty"`
		C float64 `json:"-"`
		D []int   `json:",omitempty"`
	}
	Hidden struct {
		A int
		b func() // unexported: never shown, so it does not make the type unshowable
	}
	WithUintptr struct {
		P uintptr
	}
	WithAny struct {
		V any
	}
	WithTime struct {
		T time.Time
	}
	Rec struct {
		V    int
		Next *Rec
	}
	WithFunc struct {
		F func()
	}
	Embedded struct {
		Plain
		C bool
	}
)

// An entry of the finite type table.
type entry struct {
	name   string
	typ    reflect.Type
	values []any // values of exactly type typ (for interface types: dynamic values, nil allowed)
	// scope names the open finding whose construct this entry is: the driver leaves the entry out
	// of the sweep while the finding is listed (the finding's witness still replays it)
	scope string
}

func typeOf[T any]() reflect.Type { return reflect.TypeFor[T]() }

func e[T any](name string, vals ...T) entry {
	en := entry{name: name, typ: typeOf[T]()}
	for _, v := range vals {
		en.values = append(en.values, v)
	}
	return en
}

// iface builds an entry whose static type is the interface type T and whose values are
// arbitrary dynamic values (each must implement T; nil is the nil interface value).
func iface[T any](name string, vals ...any) entry {
	return entry{name: name, typ: typeOf[T](), values: vals}
}

func ptr[T any](v T) *T { return &v }

func scoped(scope string, en entry) entry { en.scope = scope; return en }

// deepList returns an acyclic linked list of n nodes.
func deepList(n int) *Rec {
	var l *Rec
	for i := 0; i < n; i++ {
		l = &Rec{V: i, Next: l}
	}
	return l
}

// deepSlice returns 1 nested in n slices; the same inner slice also appears twice in one
// parent (shared, not cyclic).
func deepSlice(n int) []any {
	s := []any{1}
	for i := 1; i < n; i++ {
		if i%500 == 0 {
			s = []any{s, s}
		} else {
			s = []any{s}
		}
	}
	return s
}

func deepMap(n int) map[string]any {
	m := map[string]any{"k": 1}
	for i := 1; i < n; i++ {
		m = map[string]any{"k": m}
	}
	return m
}

// deepMixed nests struct -> interface -> pointer -> struct ...
func deepMixed(n int) WithAny {
	w := WithAny{V: 1}
	for i := 1; i < n; i++ {
		w = WithAny{V: &WithAny{V: []any{w}}}
	}
	return w
}

var someTime = time.Date(2024, 2, 29, 13, 4, 5, 678000000, time.UTC)
var otherTime = time.Date(1969, 12, 31, 23, 59, 59, 0, time.FixedZone("X", -5*3600-30*60))

// table is the complete finite type table of the check.
func table() []entry {
	i1, i2 := 7, -3
	pi2 := &i2
	sp := &StringerP{"p"}
	ep := &ErrorP{"p"}
	esp := &EnvStringerP{"p"}
	pri := PtrRecvInt(5)
	var nilSP *StringerP
	var nilEP *ErrorP
	var nilHP *HTMLStrP
	var x int
	t := []entry{
		// every basic kind
		e("bool", false, true, true, false),
		e("int", 0, 1, -1, math.MaxInt64, math.MinInt64),
		e("int8", int8(0), 1, -128, 127),
		e("int16", int16(0), 1, -32768, 32767),
		e("int32", int32(0), 1, math.MinInt32, math.MaxInt32),
		e("int64", int64(0), 1, math.MinInt64, math.MaxInt64),
		e("uint", uint(0), 1, 42, math.MaxUint64),
		e("uint8", uint8(0), 1, 128, 255),
		e("uint16", uint16(0), 1, 32768, 65535),
		e("uint32", uint32(0), 1, 1<<31, math.MaxUint32),
		e("uint64", uint64(0), 1, 1<<63, math.MaxUint64),
		e("uintptr", uintptr(0), 1, 4096, math.MaxUint64),
		e("float32", float32(0), 1.5, -2.25, math.MaxFloat32, math.SmallestNonzeroFloat32),
		e("float64", 0.0, 1.5, -2.25, math.MaxFloat64, math.SmallestNonzeroFloat64),
		e("complex64", complex64(0), 1, complex(1, 2), complex(0, -1), complex(-1.5, 0)),
		e("complex128", complex128(0), 1, complex(1, 2), complex(0, -1), complex(-1.5, 0)),
		e("string", "", "a", "<b>&\"'", "x y\n\tz", "\xff\x00"),
		// named variants
		e("MyBool", MyBool(false), true, true, false),
		e("MyInt", MyInt(0), 1, -1, 99),
		e("MyInt8", MyInt8(0), 1, -128, 127),
		e("MyInt64", MyInt64(0), 1, math.MinInt64, math.MaxInt64),
		e("MyUint", MyUint(0), 1, 42, math.MaxUint64),
		e("MyUint8", MyUint8(0), 1, 128, 255),
		e("MyUint16", MyUint16(0), 1, 32768, 65535),
		e("MyUintptr", MyUintptr(0), 1, 4096, math.MaxUint64),
		e("MyFloat32", MyFloat32(0), 1.5, -2.25, 1e10),
		e("MyFloat64", MyFloat64(0), 1.5, -2.25, 1e300),
		e("MyComplex64", MyComplex64(0), 1, MyComplex64(complex(1, 2)), MyComplex64(complex(0, -1))),
		e("MyComplex128", MyComplex128(0), 1, MyComplex128(complex(1, 2)), MyComplex128(complex(0, -1))),
		e("MyString", MyString(""), "a", "<b>&\"'", "x y"),
		// byte slices
		e("[]byte", []byte(nil), []byte{}, []byte("abc"), []byte{0, 255, '<'}),
		e("MyBytes", MyBytes(nil), MyBytes{}, MyBytes("abc"), MyBytes{0, 255}),
		// Stringer / error / EnvStringer implementers
		e("StringerV", StringerV{}, StringerV{"a"}, StringerV{"<&>"}, StringerV{"x y"}),
		e("*StringerV", &StringerV{}, &StringerV{"a"}, &StringerV{"<&>"}, &StringerV{"x y"}),
		e("*StringerP", sp, nilSP, &StringerP{"<&>"}, &StringerP{""}),
		e("StringerP", StringerP{}, StringerP{"a"}, StringerP{"b"}, StringerP{"c"}),
		e("StringerInt", StringerInt(0), 1, -1, 5),
		e("StringerStr", StringerStr(""), "a", "<", "x y"),
		e("StringerSl", StringerSl(nil), StringerSl{}, StringerSl{1}, StringerSl{1, 2}),
		e("StringerMap", StringerMap(nil), StringerMap{}, StringerMap{"a": 1}, StringerMap{"a": 1, "b": 2}),
		e("StringerFunc", StringerFunc(nil), StringerFunc(func() {}), StringerFunc(func() {}), StringerFunc(nil)),
		e("ErrorV", ErrorV{}, ErrorV{"a"}, ErrorV{"<&>"}, ErrorV{"x y"}),
		e("*ErrorP", ep, nilEP, &ErrorP{"<&>"}, &ErrorP{""}),
		e("ErrorInt", ErrorInt(0), 1, -1, 5),
		e("EnvStringerV", EnvStringerV{}, EnvStringerV{"a"}, EnvStringerV{"<&>"}, EnvStringerV{"x y"}),
		e("*EnvStringerP", esp, &EnvStringerP{}, &EnvStringerP{"<&>"}, &EnvStringerP{"x"}),
		e("BothV", BothV{}, BothV{"a"}, BothV{"<&>"}, BothV{"x y"}),
		e("PtrRecvInt", PtrRecvInt(0), 1, -1, 5),
		e("*PtrRecvInt", &pri, ptr(PtrRecvInt(0)), ptr(PtrRecvInt(-1)), ptr(PtrRecvInt(9))),
		// the five trusted types
		e("native.HTML", native.HTML(""), "<b>x</b>", "a &amp; b", "plain"),
		e("native.CSS", native.CSS(""), "red", "1px", "a b"),
		e("native.JS", native.JS(""), "1+1", "null", `"s"`),
		e("native.JSON", native.JSON(""), `{"a":1}`, "null", "[]"),
		e("native.Markdown", native.Markdown(""), "*a*", "# h", "plain"),
		// implementers of the ten format Stringer interfaces
		e("HTMLStr", HTMLStr{}, HTMLStr{"a"}, HTMLStr{"b"}, HTMLStr{"c"}),
		e("HTMLEnvStr", HTMLEnvStr{}, HTMLEnvStr{"a"}, HTMLEnvStr{"b"}, HTMLEnvStr{"c"}),
		e("CSSStr", CSSStr{}, CSSStr{"a"}, CSSStr{"b"}, CSSStr{"c"}),
		e("CSSEnvStr", CSSEnvStr{}, CSSEnvStr{"a"}, CSSEnvStr{"b"}, CSSEnvStr{"c"}),
		e("JSStr", JSStr{}, JSStr{"a"}, JSStr{"b"}, JSStr{"c"}),
		e("JSEnvStr", JSEnvStr{}, JSEnvStr{"a"}, JSEnvStr{"b"}, JSEnvStr{"c"}),
		e("JSONStr", JSONStr{}, JSONStr{"a"}, JSONStr{"b"}, JSONStr{"c"}),
		e("JSONEnvStr", JSONEnvStr{}, JSONEnvStr{"a"}, JSONEnvStr{"b"}, JSONEnvStr{"c"}),
		e("MDStr", MDStr{}, MDStr{"a"}, MDStr{"b"}, MDStr{"c"}),
		e("MDEnvStr", MDEnvStr{}, MDEnvStr{"a"}, MDEnvStr{"b"}, MDEnvStr{"c"}),
		e("*HTMLStrP", &HTMLStrP{"a"}, nilHP, &HTMLStrP{""}, &HTMLStrP{"b"}),
		e("JSStrInt", JSStrInt(0), 1, -1, 5),
		// time
		e("time.Time", time.Time{}, someTime, otherTime, someTime.Local()),
		e("*time.Time", &someTime, &otherTime, &time.Time{}, ptr(someTime.Add(time.Hour))),
		e("time.Duration", time.Duration(0), time.Second, -time.Hour, 1),
		e("time.Month", time.January, time.December, time.Month(0), time.Month(13)),
		// deeply nested acyclic values (the renderer must tell deep from cyclic)
		e("*Rec (deep list)", deepList(1200), deepList(5000), deepList(1001), deepList(999)),
		e("[]any (deep nesting)", deepSlice(1500), deepSlice(1001), deepSlice(3000), deepSlice(10)),
		e("map[string]any (deep nesting)", deepMap(1200), deepMap(1001), deepMap(2500), deepMap(10)),
		e("WithAny (deep mixed nesting)", deepMixed(1100), deepMixed(1001), deepMixed(2400), deepMixed(10)),
		// time values at the limits of what JavaScript can represent
		e("time.Time (years at the JS limits)", time.Date(999999, 12, 31, 23, 59, 59, 0, time.UTC), time.Date(-999999, 1, 1, 0, 0, 0, 0, time.UTC), time.Date(9999, 1, 1, 0, 0, 0, 0, time.UTC), time.Date(10000, 1, 1, 0, 0, 0, 0, time.UTC), time.Date(-1, 1, 1, 0, 0, 0, 0, time.UTC)),
		scoped("js-time-year-out-of-range", e("time.Time (year beyond the JS limits)", time.Date(1000001, 1, 1, 0, 0, 0, 0, time.UTC), time.Date(-1000000, 1, 1, 0, 0, 0, 0, time.UTC), time.Date(1000000, 1, 1, 0, 0, 0, 0, time.UTC), time.Date(292277026596, 12, 4, 15, 30, 7, 0, time.UTC))),
		// composite types
		e("[3]int", [3]int{}, [3]int{1, 2, 3}, [3]int{-1, 0, 1}, [3]int{9, 9, 9}),
		e("[0]int", [0]int{}, [0]int{}, [0]int{}, [0]int{}),
		e("[2]string", [2]string{}, [2]string{"a", "b"}, [2]string{"<", ">"}, [2]string{"", "x"}),
		e("[2]uintptr", [2]uintptr{}, [2]uintptr{1, 2}, [2]uintptr{3, 4}, [2]uintptr{5, 6}),
		e("[]int", []int(nil), []int{}, []int{1}, []int{1, 2, 3}),
		e("[]string", []string(nil), []string{}, []string{"a"}, []string{"<", "b"}),
		e("[]any", []any(nil), []any{}, []any{1, "a", nil, 2.5, true}, []any{uintptr(3), complex(1, 2), []any{nil}, map[string]any{"k": uintptr(1)}}),
		e("[][]byte", [][]byte(nil), [][]byte{}, [][]byte{nil}, [][]byte{[]byte("a"), {}}),
		e("[]uintptr", []uintptr(nil), []uintptr{}, []uintptr{1}, []uintptr{1, 2}),
		e("[]complex128", []complex128(nil), []complex128{}, []complex128{1}, []complex128{complex(1, 2)}),
		e("[]func()", ([]func())(nil), []func(){}, []func(){nil}, []func(){func() {}}),
		e("[]error", []error(nil), []error{}, []error{nil}, []error{errors.New("x"), ErrorV{"y"}}),
		e("[]StringerV", []StringerV(nil), []StringerV{}, []StringerV{{"a"}}, []StringerV{{"a"}, {"b"}}),
		e("map[string]int", map[string]int(nil), map[string]int{}, map[string]int{"a": 1}, map[string]int{"b": 2, "a": 1}),
		e("map[string]any", map[string]any(nil), map[string]any{}, map[string]any{"a": 1, "b": nil}, map[string]any{"k": map[uintptr]any{1: uintptr(2)}, "c": complex(1, 1)}),
		e("map[int]string", map[int]string(nil), map[int]string{}, map[int]string{1: "a"}, map[int]string{-1: "a", 2: "b"}),
		e("map[bool]string", map[bool]string(nil), map[bool]string{}, map[bool]string{true: "a"}, map[bool]string{true: "a", false: "b"}),
		e("map[uint8]int", map[uint8]int(nil), map[uint8]int{}, map[uint8]int{1: 1}, map[uint8]int{255: 1, 0: 2}),
		e("map[uintptr]int", map[uintptr]int(nil), map[uintptr]int{}, map[uintptr]int{1: 1}, map[uintptr]int{4096: 1, 2: 2}),
		e("map[MyUintptr]string", map[MyUintptr]string(nil), map[MyUintptr]string{}, map[MyUintptr]string{1: "a"}, map[MyUintptr]string{7: "a", 8: "b"}),
		e("map[float64]int", map[float64]int(nil), map[float64]int{}, map[float64]int{1.5: 1}, map[float64]int{-0.5: 1, 2: 2}),
		e("map[complex128]int", map[complex128]int(nil), map[complex128]int{}, map[complex128]int{1: 1}, map[complex128]int{complex(1, 2): 1}),
		e("map[MyString]bool", map[MyString]bool(nil), map[MyString]bool{}, map[MyString]bool{"a": true}, map[MyString]bool{"a": true, "b": false}),
		e("map[StringerInt]int", map[StringerInt]int(nil), map[StringerInt]int{}, map[StringerInt]int{1: 1}, map[StringerInt]int{1: 1, 2: 2}),
		e("map[StringerV]int", map[StringerV]int(nil), map[StringerV]int{}, map[StringerV]int{{"a"}: 1}, map[StringerV]int{{"a"}: 1, {"b"}: 2}),
		e("map[any]int", map[any]int(nil), map[any]int{}, map[any]int{"a": 1}, map[any]int{1: 1, uintptr(2): 2}),
		e("map[[2]int]int", map[[2]int]int(nil), map[[2]int]int{}, map[[2]int]int{{1, 2}: 1}, map[[2]int]int{{1, 2}: 1, {3, 4}: 2}),
		e("map[string]uintptr", map[string]uintptr(nil), map[string]uintptr{}, map[string]uintptr{"a": 1}, map[string]uintptr{"a": 1, "b": 2}),
		e("map[string]func()", (map[string]func())(nil), map[string]func(){}, map[string]func(){"a": nil}, map[string]func(){"a": func() {}}),
		e("Plain", Plain{}, Plain{1, "a"}, Plain{-1, "<"}, Plain{2, "x y"}),
		e("Tagged", Tagged{}, Tagged{1, "b", 2.5, []int{1}}, Tagged{0, "", 0, []int{}}, Tagged{A: 3}),
		e("Hidden", Hidden{}, Hidden{A: 1}, Hidden{A: 2, b: func() {}}, Hidden{A: 3}),
		e("WithUintptr", WithUintptr{}, WithUintptr{1}, WithUintptr{4096}, WithUintptr{math.MaxUint64}),
		e("WithAny", WithAny{}, WithAny{1}, WithAny{uintptr(1)}, WithAny{map[uintptr]any{3: nil}}),
		e("WithTime", WithTime{}, WithTime{someTime}, WithTime{otherTime}, WithTime{someTime}),
		e("WithFunc", WithFunc{}, WithFunc{func() {}}, WithFunc{}, WithFunc{func() {}}),
		e("Rec", Rec{}, Rec{1, nil}, Rec{1, &Rec{2, nil}}, Rec{1, &Rec{2, &Rec{3, nil}}}),
		e("Embedded", Embedded{}, Embedded{Plain{1, "a"}, true}, Embedded{Plain{2, "b"}, false}, Embedded{C: true}),
		e("struct{}", struct{}{}, struct{}{}, struct{}{}, struct{}{}),
		e("*int", &i1, (*int)(nil), &i2, &x),
		e("**int", &pi2, (**int)(nil), ptr((*int)(nil)), ptr(&i1)),
		e("*uintptr", ptr(uintptr(1)), (*uintptr)(nil), ptr(uintptr(0)), ptr(uintptr(77))),
		e("*Plain", &Plain{1, "a"}, (*Plain)(nil), &Plain{}, &Plain{2, "b"}),
		e("*[]int", &[]int{1}, (*[]int)(nil), &[]int{}, ptr([]int(nil))),
		e("*string", ptr("a"), (*string)(nil), ptr(""), ptr("<")),
		e("func()", (func())(nil), func() {}, func() {}, (func())(nil)),
		e("func(int) string", (func(int) string)(nil), func(int) string { return "" }, func(int) string { return "a" }, (func(int) string)(nil)),
		e("chan int", (chan int)(nil), make(chan int), make(chan int, 1), (chan int)(nil)),
		e("unsafe.Pointer", unsafe.Pointer(nil), unsafe.Pointer(&x), unsafe.Pointer(&i1), unsafe.Pointer(nil)),
		e("reflect.Value", reflect.Value{}, reflect.ValueOf(1), reflect.ValueOf("a"), reflect.ValueOf(nil)),
		// interface static types: the value column holds dynamic values
		iface[any]("any", nil, 1, "a", uintptr(5), 2.5, complex(1, 2), []byte("b"), StringerV{"a"}, ErrorV{"e"}, []int{1}, map[string]int{"a": 1}, Plain{1, "a"}, &i1, func() {}, make(chan int), map[uintptr]int{1: 1}, native.HTML("<b>"), HTMLStr{"h"}, someTime, MyUintptr(3), true),
		iface[error]("error", nil, errors.New("plain <error>"), ErrorV{"a"}, ep, ErrorInt(3), BothV{"b"}, nilEP),
		iface[fmt.Stringer]("fmt.Stringer", nil, StringerV{"a"}, sp, StringerInt(2), StringerStr("s"), StringerSl{1}, StringerMap{"a": 1}, StringerFunc(func() {}), BothV{"b"}, someTime, time.Second, nilSP, &pri),
		iface[native.EnvStringer]("native.EnvStringer", nil, EnvStringerV{"a"}, esp),
		iface[native.HTMLStringer]("native.HTMLStringer", nil, HTMLStr{"a"}, &HTMLStrP{"p"}, nilHP),
		iface[native.HTMLEnvStringer]("native.HTMLEnvStringer", nil, HTMLEnvStr{"a"}),
		iface[native.CSSStringer]("native.CSSStringer", nil, CSSStr{"a"}),
		iface[native.CSSEnvStringer]("native.CSSEnvStringer", nil, CSSEnvStr{"a"}),
		iface[native.JSStringer]("native.JSStringer", nil, JSStr{"a"}, JSStrInt(4)),
		iface[native.JSEnvStringer]("native.JSEnvStringer", nil, JSEnvStr{"a"}),
		iface[native.JSONStringer]("native.JSONStringer", nil, JSONStr{"a"}),
		iface[native.JSONEnvStringer]("native.JSONEnvStringer", nil, JSONEnvStr{"a"}),
		iface[native.MarkdownStringer]("native.MarkdownStringer", nil, MDStr{"a"}),
		iface[native.MarkdownEnvStringer]("native.MarkdownEnvStringer", nil, MDEnvStr{"a"}),
	}
	t = append(t, keyEntries()...)
	t = append(t, wideEntries()...)
	return t
}

// basicKinds are the underlying types used for types declared in the template itself
// ({% type T uintptr %}): they exercise the ScriggoType unwrapping of the renderer.
var basicKinds = []string{"bool", "int", "int8", "int16", "int32", "int64", "uint", "uint8", "uint16", "uint32", "uint64", "uintptr",
	"float32", "float64", "complex64", "complex128", "string", "[]byte", "[]int", "map[string]int", "map[uintptr]int", "struct{ A int; P uintptr }", "*int", "error", "any", "func()", "chan int", "[2]uintptr"}
