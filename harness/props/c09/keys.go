package c09

// Map key types and wide values.
//
// JS and JSON show a map key through a path of its own (Stringer, EnvStringer, otherwise the
// basic kinds of toString), separate from the checker's rule for key types. keyEntries
// enumerates key types by what they implement (fmt.Stringer, native.EnvStringer, error,
// encoding.TextMarshaler, nothing) x kind (struct, pointer, interface, basic int / string,
// array), and puts non-empty maps with such keys directly, nested (slice, map value, struct
// field, pointer) and boxed (any element) into the table.
//
// wideEntries are flat values with thousands of sibling pointers / maps / slices, many of
// them the same shared sub-value: siblings are not nesting, and a shared sub-value is not a
// cycle.

import (
	"encoding"
	"fmt"
	"reflect"

	"github.com/open2b/scriggo/native"
)

type (
	// struct kind
	KStrS  struct{ A string }
	KEnvS  struct{ A string }
	KErrS  struct{ A string }
	KTextS struct{ A string }
	KNoneS struct{ A string }
	// pointer kind (pointer receivers, nil safe)
	KStrP  struct{ A string }
	KEnvP  struct{ A string }
	KErrP  struct{ A string }
	KTextP struct{ A string }
	// basic kinds
	KEnvI   int
	KTextI  int
	KErrStr string
	KTextSt string
	// array kind
	KErrArr [2]int
	KStrArr [2]int
	// implements both Stringer and error
	KBothS struct{ A string }
)

func (k KStrS) String() string                { return "str:" + k.A }
func (k KEnvS) String(native.Env) string      { return "env:" + k.A }
func (k KErrS) Error() string                 { return "err:" + k.A }
func (k KTextS) MarshalText() ([]byte, error) { return []byte("text:" + k.A), nil }
func (k *KStrP) String() string               { return "strp:" + k.a() }
func (k *KStrP) a() string {
	if k == nil {
		return "<nil>"
	}
	return k.A
}
func (k *KEnvP) String(native.Env) string {
	if k == nil {
		return "envp:<nil>"
	}
	return "envp:" + k.A
}
func (k *KErrP) Error() string {
	if k == nil {
		return "errp:<nil>"
	}
	return "errp:" + k.A
}
func (k *KTextP) MarshalText() ([]byte, error) {
	if k == nil {
		return []byte("textp:<nil>"), nil
	}
	return []byte("textp:" + k.A), nil
}
func (k KEnvI) String(native.Env) string       { return fmt.Sprintf("envi:%d", int(k)) }
func (k KTextI) MarshalText() ([]byte, error)  { return []byte(fmt.Sprintf("texti:%d", int(k))), nil }
func (k KErrStr) Error() string                { return "errstr:" + string(k) }
func (k KTextSt) MarshalText() ([]byte, error) { return []byte("textstr:" + string(k)), nil }
func (k KErrArr) Error() string                { return fmt.Sprintf("errarr:%d", k[0]) }
func (k KStrArr) String() string               { return fmt.Sprintf("strarr:%d", k[0]) }
func (k KBothS) String() string                { return "boths:" + k.A }
func (k KBothS) Error() string                 { return "bothe:" + k.A }

type keyType struct {
	name string
	typ  reflect.Type
	keys []any // at least two distinct keys (dynamic values for interface key types)
}

func kt[T any](name string, keys ...any) keyType {
	return keyType{name: name, typ: reflect.TypeFor[T](), keys: keys}
}

func keyTypeTable() []keyType {
	sp1, sp2 := &KStrP{"a"}, &KStrP{"b"}
	ep1, ep2 := &KEnvP{"a"}, &KEnvP{"b"}
	rp1, rp2 := &KErrP{"a"}, &KErrP{"b"}
	tp1, tp2 := &KTextP{"a"}, &KTextP{"b"}
	np1, np2 := &KNoneS{"a"}, &KNoneS{"b"}
	return []keyType{
		kt[KStrS]("KStrS(struct,Stringer)", KStrS{"a"}, KStrS{"b"}),
		kt[KEnvS]("KEnvS(struct,EnvStringer)", KEnvS{"a"}, KEnvS{"b"}),
		kt[KErrS]("KErrS(struct,error)", KErrS{"a"}, KErrS{"b"}),
		kt[KTextS]("KTextS(struct,TextMarshaler)", KTextS{"a"}, KTextS{"b"}),
		kt[KNoneS]("KNoneS(struct,none)", KNoneS{"a"}, KNoneS{"b"}),
		kt[KBothS]("KBothS(struct,Stringer+error)", KBothS{"a"}, KBothS{"b"}),
		kt[*KStrP]("*KStrP(pointer,Stringer)", sp1, sp2),
		kt[*KEnvP]("*KEnvP(pointer,EnvStringer)", ep1, ep2),
		kt[*KErrP]("*KErrP(pointer,error)", rp1, rp2),
		kt[*KTextP]("*KTextP(pointer,TextMarshaler)", tp1, tp2),
		kt[*KNoneS]("*KNoneS(pointer,none)", np1, np2),
		kt[*int]("*int(pointer,none)", new(int), new(int)),
		kt[fmt.Stringer]("fmt.Stringer(interface)", KStrS{"a"}, sp1, StringerInt(3), KBothS{"c"}),
		kt[native.EnvStringer]("native.EnvStringer(interface)", KEnvS{"a"}, ep1, KEnvI(2)),
		kt[error]("error(interface)", KErrS{"a"}, rp1, ErrorInt(3), KErrStr("s"), KBothS{"c"}, KErrArr{1, 2}),
		kt[encoding.TextMarshaler]("encoding.TextMarshaler(interface)", KTextS{"a"}, tp1, KTextI(2)),
		kt[any]("any(interface)", 1, "s", KStrS{"a"}, KErrS{"b"}, 2.5, true, KNoneS{"n"}),
		kt[StringerInt]("StringerInt(int,Stringer)", StringerInt(1), StringerInt(2)),
		kt[KEnvI]("KEnvI(int,EnvStringer)", KEnvI(1), KEnvI(2)),
		kt[ErrorInt]("ErrorInt(int,error)", ErrorInt(1), ErrorInt(2)),
		kt[KTextI]("KTextI(int,TextMarshaler)", KTextI(1), KTextI(2)),
		kt[MyInt]("MyInt(int,none)", MyInt(1), MyInt(2)),
		kt[StringerStr]("StringerStr(string,Stringer)", StringerStr("a"), StringerStr("b")),
		kt[KErrStr]("KErrStr(string,error)", KErrStr("a"), KErrStr("b")),
		kt[KTextSt]("KTextSt(string,TextMarshaler)", KTextSt("a"), KTextSt("b")),
		kt[KErrArr]("KErrArr(array,error)", KErrArr{1, 2}, KErrArr{3, 4}),
		kt[KStrArr]("KStrArr(array,Stringer)", KStrArr{1, 2}, KStrArr{3, 4}),
		kt[[2]int]("[2]int(array,none)", [2]int{1, 2}, [2]int{3, 4}),
	}
}

var intType = reflect.TypeFor[int]()

// mapWith builds a map[K]int holding the first n keys.
func mapWith(k keyType, elem reflect.Type, n int, val func(i int) reflect.Value) reflect.Value {
	m := reflect.MakeMap(reflect.MapOf(k.typ, elem))
	for i := 0; i < n && i < len(k.keys); i++ {
		key := reflect.New(k.typ).Elem()
		key.Set(reflect.ValueOf(k.keys[i]))
		m.SetMapIndex(key, val(i))
	}
	return m
}

// keyEntries returns the table entries of the map key family.
func keyEntries() []entry {
	var es []entry
	intVal := func(i int) reflect.Value { return reflect.ValueOf(i + 1) }
	for _, k := range keyTypeTable() {
		mt := reflect.MapOf(k.typ, intType)
		full := mapWith(k, intType, len(k.keys), intVal)
		one := mapWith(k, intType, 1, intVal)
		// map[K]int: non-empty first, then the values that never touch a key
		es = append(es, entry{name: "map[" + k.name + "]int", typ: mt,
			values: []any{full.Interface(), one.Interface(), reflect.MakeMap(mt).Interface(), reflect.Zero(mt).Interface()}})
		// []map[K]int
		st := reflect.SliceOf(mt)
		sl := reflect.MakeSlice(st, 0, 2)
		sl = reflect.Append(sl, one, full)
		es = append(es, entry{name: "[]map[" + k.name + "]int", typ: st, values: []any{sl.Interface(), reflect.Append(reflect.MakeSlice(st, 0, 1), full).Interface()}})
		// map[string]map[K]int
		mmt := reflect.MapOf(reflect.TypeFor[string](), mt)
		mm := reflect.MakeMap(mmt)
		mm.SetMapIndex(reflect.ValueOf("a"), full)
		es = append(es, entry{name: "map[string]map[" + k.name + "]int", typ: mmt, values: []any{mm.Interface()}})
		// struct{ Title string; M map[K]int } and a pointer to it
		stt := reflect.StructOf([]reflect.StructField{{Name: "Title", Type: reflect.TypeFor[string]()}, {Name: "M", Type: mt}})
		sv := reflect.New(stt)
		sv.Elem().Field(0).SetString("t")
		sv.Elem().Field(1).Set(full)
		es = append(es, entry{name: "struct{M map[" + k.name + "]int}", typ: stt, values: []any{sv.Elem().Interface()}})
		es = append(es, entry{name: "*struct{M map[" + k.name + "]int}", typ: reflect.PointerTo(stt), values: []any{sv.Interface()}})
		// boxed at depth: []any{map[K]int}, map[K]any{key: map[K]int}
		es = append(es, entry{name: "[]any{map[" + k.name + "]int}", typ: reflect.TypeFor[[]any](), values: []any{[]any{full.Interface(), 1}, []any{[]any{one.Interface()}}}})
		at := reflect.TypeFor[any]()
		nested := mapWith(k, at, len(k.keys), func(i int) reflect.Value {
			v := reflect.New(at).Elem()
			v.Set(full)
			return v
		})
		es = append(es, entry{name: "map[" + k.name + "]any", typ: reflect.MapOf(k.typ, at), values: []any{nested.Interface()}})
	}
	return es
}

// wideEntries returns flat values with many sibling references.
func wideEntries() []entry {
	shared := 7
	sharedMap := map[string]int{"k": 1}
	sharedSlice := []int{1, 2}
	sharedRec := &Rec{V: 1, Next: &Rec{V: 2}}
	ptrs := func(n int, same bool) []*int {
		s := make([]*int, n)
		for i := range s {
			if same || i%3 == 0 {
				s[i] = &shared
			} else {
				s[i] = new(int)
			}
		}
		return s
	}
	maps := func(n int) []map[string]int {
		s := make([]map[string]int, n)
		for i := range s {
			if i%2 == 0 {
				s[i] = sharedMap
			} else {
				s[i] = map[string]int{"i": i}
			}
		}
		return s
	}
	slices := func(n int) [][]int {
		s := make([][]int, n)
		for i := range s {
			if i%2 == 0 {
				s[i] = sharedSlice
			} else {
				s[i] = []int{i}
			}
		}
		return s
	}
	anys := func(n int) []any {
		s := make([]any, n)
		for i := range s {
			switch i % 5 {
			case 0:
				s[i] = &shared
			case 1:
				s[i] = sharedMap
			case 2:
				s[i] = sharedSlice
			case 3:
				s[i] = sharedRec
			default:
				s[i] = []any{sharedRec, sharedMap, i}
			}
		}
		return s
	}
	recs := func(n int) map[string]*Rec {
		m := make(map[string]*Rec, n)
		for i := 0; i < n; i++ {
			m[fmt.Sprintf("k%04d", i)] = sharedRec
		}
		return m
	}
	ints := func(n int) []int {
		s := make([]int, n)
		for i := range s {
			s[i] = i
		}
		return s
	}
	type wideStruct struct {
		A, B, C, D *Rec
		M          map[string]int
		S          []int
	}
	structs := func(n int) []wideStruct {
		s := make([]wideStruct, n)
		for i := range s {
			s[i] = wideStruct{sharedRec, sharedRec, sharedRec, sharedRec, sharedMap, sharedSlice}
		}
		return s
	}
	return []entry{
		e("[]*int (wide, shared)", ptrs(3000, true), ptrs(1001, false), ptrs(5000, false), ptrs(1000, true)),
		e("[]map[string]int (wide, shared)", maps(3000), maps(1001), maps(1500), maps(999)),
		e("[][]int (wide, shared)", slices(3000), slices(1001), slices(1500), slices(999)),
		e("[]any (wide, shared)", anys(5000), anys(1001), anys(1500), anys(999)),
		e("map[string]*Rec (wide, shared)", recs(2000), recs(1001), recs(1200), recs(999)),
		e("[]int (wide)", ints(5000), ints(1001), ints(1000), ints(1500)),
		e("[]struct (wide, shared)", structs(1000), structs(300), structs(251), structs(2000)),
	}
}
