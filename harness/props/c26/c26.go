// Package c26 checks that Markdown escaping neutralises Markdown syntax.
//
// A string shown in a paragraph of a Markdown template is rendered by scriggo to Markdown
// text; the text is converted with goldmark configured like the repository's own converter
// (cmd/scriggo: GFM + Footnote, unsafe HTML, auto heading ids) and the resulting HTML is
// tokenized with x/net/html. The property holds for a render when
//
//   - paragraph positions: the only elements are <p> (more than the template's own
//     paragraphs only if the value contains a blank line), there is no comment / doctype /
//     raw HTML, and the text equals template text + value after Markdown whitespace
//     normalisation (runs of Unicode whitespace collapse, ends trimmed);
//   - indented code block positions (tab and four spaces): the elements are the two
//     surrounding paragraphs and at most one <pre><code>, the text outside the code block is
//     exactly the surrounding paragraphs, the text inside is the value.
package c26

import (
	"bytes"
	"fmt"
	"io"
	"sort"
	"strings"
	"sync"
	"unicode"
	"unicode/utf8"

	"github.com/open2b/scriggo"
	"github.com/open2b/scriggo/ast"
	"github.com/open2b/scriggo/native"
	"github.com/yuin/goldmark"
	"github.com/yuin/goldmark/extension"
	"github.com/yuin/goldmark/parser"
	gmhtml "github.com/yuin/goldmark/renderer/html"
	xhtml "golang.org/x/net/html"

	"verif/core"
)

type prop struct{}

func init() { core.Register(prop{}) }

func (prop) ID() string    { return "C26" }
func (prop) Level() string { return "exploration" }

// newConverter mirrors goldmarkOptions of /repo/cmd/scriggo/main.go.
func newConverter() goldmark.Markdown {
	return goldmark.New(
		goldmark.WithRendererOptions(gmhtml.WithUnsafe()),
		goldmark.WithParserOptions(parser.WithAutoHeadingID()),
		goldmark.WithExtensions(extension.GFM),
		goldmark.WithExtensions(extension.Footnote),
	)
}

// ---------------------------------------------------------------------------
// positions

type position struct {
	name  string
	pre   string // template text before the show
	post  string // template text after the show
	code  bool   // indented code block position
	want  string // ast context name
	paras int    // paragraphs of the template itself (paragraph positions)
	// code positions: text of the code line around the value
	codePre, codePost string
}

var positions = []position{
	{name: "para-middle", pre: "P ", post: " Q\n", want: "Markdown", paras: 1},
	{name: "para-start", pre: "", post: " Q\n", want: "Markdown", paras: 1},
	{name: "para-end", pre: "P ", post: "\n", want: "Markdown", paras: 1},
	{name: "para-alone", pre: "", post: "\n", want: "Markdown", paras: 1},
	{name: "line-start", pre: "P\n", post: " Q\n", want: "Markdown", paras: 1},
	{name: "line-end", pre: "P ", post: "\nQ\n", want: "Markdown", paras: 1},
	{name: "intraword", pre: "P", post: "Q\n", want: "Markdown", paras: 1},
	{name: "own-paragraph", pre: "Intro\n\n", post: "\n\nOutro\n", want: "Markdown", paras: 3},
	{name: "tab-code", pre: "Intro\n\n\t", post: "\n\nOutro\n", code: true, want: "tab code block"},
	{name: "spaces-code", pre: "Intro\n\n    ", post: "\n\nOutro\n", code: true, want: "spaces code block"},
	{name: "tab-code-middle", pre: "Intro\n\n\tcode ", post: " more\n\nOutro\n", code: true, want: "tab code block", codePre: "code ", codePost: " more"},
	{name: "spaces-code-middle", pre: "Intro\n\n    code ", post: " more\n\nOutro\n", code: true, want: "spaces code block", codePre: "code ", codePost: " more"},
}

// ---------------------------------------------------------------------------
// oracle

// isMDSpace reports whether r is a Unicode whitespace character in the sense of CommonMark
// §2.1 (general category Zs, tab, line feed, form feed, carriage return).
func isMDSpace(r rune) bool {
	switch r {
	case '\t', '\n', '\f', '\r':
		return true
	}
	return unicode.Is(unicode.Zs, r)
}

// normalize collapses every run of Unicode whitespace into one space and trims the ends.
// Bytes that are not valid UTF-8 are kept as they are.
func normalize(s string) string {
	var b strings.Builder
	space := false
	for i := 0; i < len(s); {
		r, n := utf8.DecodeRuneInString(s[i:])
		if r != utf8.RuneError && isMDSpace(r) {
			space = true
			i += n
			continue
		}
		if space && b.Len() > 0 {
			b.WriteByte(' ')
		}
		space = false
		b.WriteString(s[i : i+n])
		i += n
	}
	return b.String()
}

// Exemptions: code points Markdown cannot carry.
var exemptions = []string{
	"NUL: CommonMark §2.3 replaces U+0000 by U+FFFD (goldmark does so in inline text but keeps the NUL in code blocks); NUL and U+FFFD are compared as equal",
	"whitespace: runs of Unicode whitespace (Zs incl. U+00A0, tab, LF, FF, CR) are compared collapsed and trimmed (the property's 'whitespace normalised as Markdown normalises it'); additional <p> boundaries are tolerated only when the value contains a blank line",
}

// expectText maps NUL to U+FFFD (applied to both sides of a comparison).
func expectText(s string) string { return strings.ReplaceAll(s, "\x00", "\ufffd") }

// hasBlankLine reports whether s contains a line ending followed by a whitespace-only line
// and another line ending (a paragraph break in Markdown), or starts/ends so that template
// text is cut off into its own paragraph.
func hasBlankLine(s string) bool {
	t := strings.ReplaceAll(s, "\r\n", "\n")
	t = strings.ReplaceAll(t, "\r", "\n")
	lines := strings.Split(t, "\n")
	for i := 1; i < len(lines)-1; i++ {
		if normalize(lines[i]) == "" {
			return true
		}
	}
	return false
}

type census struct {
	elems    map[string]int
	other    []string // comments, doctypes, anything that is not an element or text
	text     strings.Builder
	codeText strings.Builder
	outText  strings.Builder
	badNest  string
}

func tokenize(doc string) (*census, error) {
	c := &census{elems: map[string]int{}}
	z := xhtml.NewTokenizer(strings.NewReader(doc))
	var stack []string
	inCode := func() bool {
		for _, s := range stack {
			if s == "code" {
				return true
			}
		}
		return false
	}
	for {
		tt := z.Next()
		switch tt {
		case xhtml.ErrorToken:
			if z.Err() == io.EOF {
				return c, nil
			}
			return nil, z.Err()
		case xhtml.TextToken:
			t := string(z.Text())
			c.text.WriteString(t)
			if inCode() {
				c.codeText.WriteString(t)
			} else {
				c.outText.WriteString(t)
			}
		case xhtml.StartTagToken:
			name, _ := z.TagName()
			n := string(name)
			c.elems[n]++
			if n == "code" && (len(stack) == 0 || stack[len(stack)-1] != "pre") {
				c.badNest = "<code> outside <pre>"
			}
			stack = append(stack, n)
		case xhtml.EndTagToken:
			name, _ := z.TagName()
			n := string(name)
			if len(stack) > 0 && stack[len(stack)-1] == n {
				stack = stack[:len(stack)-1]
			} else {
				c.badNest = "unbalanced </" + n + ">"
			}
			// paragraph and block boundaries separate words
			c.text.WriteByte('\n')
			if n != "code" && n != "pre" {
				c.outText.WriteByte('\n')
			}
		case xhtml.SelfClosingTagToken:
			name, _ := z.TagName()
			c.elems[string(name)]++
		default:
			c.other = append(c.other, fmt.Sprintf("%v %q", tt, z.Raw()))
		}
	}
}

func elemList(m map[string]int) string {
	var k []string
	for n, c := range m {
		k = append(k, fmt.Sprintf("%s x%d", n, c))
	}
	sort.Strings(k)
	return strings.Join(k, " ")
}

// judge returns "" if the conversion html of the rendered Markdown satisfies the property
// for value s at position p, otherwise the reason.
func judge(p *position, s, html string) string {
	c, err := tokenize(html)
	if err != nil {
		return "cannot tokenize the converted HTML: " + err.Error()
	}
	if len(c.other) > 0 {
		return "the conversion contains " + strings.Join(c.other, ", ")
	}
	if c.badNest != "" {
		return "the conversion is not well nested: " + c.badNest
	}
	if !p.code {
		for n := range c.elems {
			if n != "p" {
				return "the value introduces the element(s) " + elemList(c.elems)
			}
		}
		if c.elems["p"] > p.paras && !hasBlankLine(p.pre+s+p.post) {
			return fmt.Sprintf("%d paragraphs instead of %d although the value contains no blank line", c.elems["p"], p.paras)
		}
		got, want := normalize(expectText(c.text.String())), normalize(expectText(p.pre+s+p.post))
		if got != want {
			return fmt.Sprintf("text of the conversion is %q, want %q", got, want)
		}
		return ""
	}
	for n := range c.elems {
		if n != "p" && n != "pre" && n != "code" {
			return "the value introduces the element(s) " + elemList(c.elems)
		}
	}
	if c.elems["pre"] > 1 || c.elems["code"] > 1 || c.elems["pre"] != c.elems["code"] {
		return "the value splits the code block: " + elemList(c.elems)
	}
	if got := normalize(c.outText.String()); got != "Intro Outro" {
		return fmt.Sprintf("text outside the code block is %q, want %q (part of the value left the code block)", got, "Intro Outro")
	}
	got, want := normalize(expectText(c.codeText.String())), normalize(expectText(p.codePre+s+p.codePost))
	if got != want {
		return fmt.Sprintf("text of the code block is %q, want %q", got, want)
	}
	return ""
}

// ---------------------------------------------------------------------------
// worker

var (
	buildOnce sync.Once
	built     []*scriggo.Template
	buildErr  error
	conv      goldmark.Markdown
)

func buildAll() {
	conv = newConverter()
	built = make([]*scriggo.Template, len(positions))
	for i, p := range positions {
		src := p.pre + "{{ s }}" + p.post
		var seen []string
		opts := &scriggo.BuildOptions{Globals: native.Declarations{"s": (*string)(nil)}, UnexpandedTransformer: func(tree *ast.Tree) error {
			for _, n := range tree.Nodes {
				if s, ok := n.(*ast.Show); ok {
					seen = append(seen, s.Context.String())
				}
			}
			return nil
		}}
		var t *scriggo.Template
		var err error
		v, pn, st := core.Guard(func() { t, err = scriggo.BuildTemplate(scriggo.Files{"index.md": []byte(src)}, "index.md", opts) })
		if pn {
			buildErr = fmt.Errorf("BuildTemplate panicked for %q: %v\n%s", src, v, st)
			return
		}
		if err != nil {
			buildErr = fmt.Errorf("BuildTemplate failed for %q: %v", src, err)
			return
		}
		if len(seen) != 1 || seen[0] != p.want {
			buildErr = fmt.Errorf("the show of %q is in contexts %v, want %s", src, seen, p.want)
			return
		}
		built[i] = t
	}
}

type state struct {
	evals    int64
	escaped  int64
	multiP   int64
	sigs     map[string]struct{}
	viols    []string
	only     string
	buf, out bytes.Buffer
}

func (st *state) check(s, class string) {
	for i := range positions {
		p := &positions[i]
		if st.only != "" && st.only != p.name {
			continue
		}
		if len(st.viols) >= 8 {
			return
		}
		st.evals++
		st.buf.Reset()
		var err error
		v, pn, stack := core.Guard(func() { err = built[i].Run(&st.buf, map[string]any{"s": s}, nil) })
		if pn {
			st.viols = append(st.viols, fmt.Sprintf("position=%s value=%q: Run panicked: %v\n%s", p.name, s, v, stack))
			continue
		}
		if err != nil {
			st.viols = append(st.viols, fmt.Sprintf("position=%s value=%q: Run failed: %v", p.name, s, err))
			continue
		}
		md := st.buf.String()
		st.out.Reset()
		if err := conv.Convert([]byte(md), &st.out); err != nil {
			st.viols = append(st.viols, fmt.Sprintf("position=%s value=%q markdown=%q: goldmark failed: %v", p.name, s, md, err))
			continue
		}
		html := st.out.String()
		if why := judge(p, s, html); why != "" {
			st.viols = append(st.viols, fmt.Sprintf("position=%s template=%q value=%q markdown=%q html=%q: %s", p.name, p.pre+"{{ s }}"+p.post, s, md, html, why))
			continue
		}
		if md != p.pre+s+p.post {
			st.escaped++
			st.sigs[p.name+"|"+class] = struct{}{}
		}
		if !p.code && strings.Count(html, "<p>") > p.paras {
			st.multiP++
		}
	}
}

type caseData struct {
	Kind string `json:"kind"` // dict | succ | random | one
	From int    `json:"from,omitempty"`
	To   int    `json:"to,omitempty"`
	Lead []byte `json:"lead,omitempty"`
	Seed int64  `json:"seed,omitempty"`
	N    int    `json:"n,omitempty"`
	Pos  string `json:"pos,omitempty"`
	Val  []byte `json:"val,omitempty"`
}

func (prop) Work(c core.Case) core.Result {
	var cd caseData
	c.Decode(&cd)
	buildOnce.Do(buildAll)
	if buildErr != nil {
		return core.Result{Status: core.Inconclusive, Detail: buildErr.Error()}
	}
	st := &state{sigs: map[string]struct{}{}}
	switch cd.Kind {
	case "one":
		st.only = cd.Pos
		st.check(string(cd.Val), "one")
	case "dict":
		for _, e := range dictionary[cd.From:cd.To] {
			for _, v := range forms(e.s) {
				st.check(v, e.family)
			}
		}
	case "succ":
		lead := string(cd.Lead)
		cl := "char:" + printable(lead)
		st.check(lead, cl)
		for _, succ := range successors(cd.Seed) {
			st.check(lead+succ, cl)
			st.check("a"+lead+succ+"z", cl)
			st.check(succ+lead, cl)
			st.check(lead+succ+lead, cl)
			st.check("a\n"+lead+succ+" z", cl)
		}
	case "random":
		r := core.Rand(cd.Seed, "c26-random")
		for i := 0; i < cd.N; i++ {
			st.check(randomValue(r), "random")
		}
	default:
		return core.Result{Status: core.Inconclusive, Detail: "unknown case kind " + cd.Kind}
	}
	res := core.Result{Status: core.OK, Evals: st.evals, Counts: map[string]int64{
		"conversions":                       st.evals,
		"renders_with_escaping":             st.escaped,
		"extra_paragraphs_from_blank_lines": st.multiP,
	}}
	for s := range st.sigs {
		res.Sigs = append(res.Sigs, s)
	}
	sort.Strings(res.Sigs)
	if len(st.viols) > 0 {
		res.Status = core.Violation
		res.Detail = strings.Join(st.viols, "\n")
	}
	return res
}

func printable(s string) string {
	q := fmt.Sprintf("%q", s)
	return q[1 : len(q)-1]
}

// ---------------------------------------------------------------------------
// driver

func (prop) Drive(d *core.Driver) error {
	var names []string
	for _, p := range positions {
		names = append(names, p.name)
	}
	fam := map[string]int{}
	for _, e := range dictionary {
		fam[e.family]++
	}
	d.T.Rule = fmt.Sprintf("each value is shown at %d positions of a Markdown template (8 paragraph positions: start/middle/end of paragraph and of line, intraword, own paragraph; 4 indented code block positions: tab and four spaces, alone and inside a code line; contexts read back from scriggo's parsed tree), the rendered Markdown is converted by goldmark (GFM+Footnote+unsafe HTML, as cmd/scriggo) and the HTML is tokenized by x/net/html. "+
		"values: (dict) %d Markdown-syntax dictionary entries of %d families in 9 embeddings each; (succ) every ASCII punctuation/space/control character followed by, preceded by and wrapped around every ASCII byte and 32 sampled non-ASCII runes, also at a line start inside the value; (random) seeded random mixes of dictionary entries, words, punctuation and line endings. "+
		"evaluations = (position, value) conversions; distinct_nontrivial counts distinct (position, family or character) pairs for which the escaper changed the text", len(positions), len(dictionary), len(fam))
	d.T.Assumptions = append([]string{
		"goldmark v1.7.16 with the extension set of cmd/scriggo is the reference CommonMark converter (e.g. goldmark does not treat a lone CR as a line ending)",
		"x/net/html tokenizes goldmark's output correctly",
	}, exemptions...)
	d.T.Set("positions", names)
	d.T.Set("dictionary_families", fam)
	d.T.Set("exemptions", exemptions)
	var cases []core.Case
	const step = 8
	for from := 0; from < len(dictionary); from += step {
		to := min(from+step, len(dictionary))
		cases = append(cases, core.NewCase(fmt.Sprintf("dict-%03d", from), caseData{Kind: "dict", From: from, To: to}))
	}
	ls := leads()
	rounds := d.N(1, 8)
	for k := 0; k < rounds; k++ {
		for i, l := range ls {
			cases = append(cases, core.NewCase(fmt.Sprintf("succ%d-%03d-%s", k, i, printable(l)), caseData{Kind: "succ", Lead: []byte(l), Seed: d.Seed*7919 + int64(i) + int64(k)*104729}))
		}
	}
	nr := d.N(60, 1000)
	per := d.N(400, 1000)
	for i := 0; i < nr; i++ {
		cases = append(cases, core.NewCase(fmt.Sprintf("random-%d", i), caseData{Kind: "random", Seed: d.Seed*1000003 + int64(i), N: per}))
	}
	d.T.Sample(map[string]any{"case": "dict-000", "meaning": "dictionary entries 0..7 (emphasis family) in 9 embeddings at every position", "example": map[string]string{"position": "para-middle", "value": "*a*", "markdown": "P \\*a\\* Q\n", "html": "<p>P *a* Q</p>\n"}})
	d.T.Sample(map[string]any{"case": "succ0-…-#", "meaning": "'#' with every successor/predecessor at every position"})
	d.T.Sample(map[string]any{"case": "random-0", "meaning": fmt.Sprintf("%d seeded random values at every position", per)})
	d.Run(cases, core.RunOpts{GOMAXPROCS: 1})
	return nil
}
