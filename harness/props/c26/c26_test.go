package c26

import (
	"bytes"
	"testing"
)

func pos(name string) *position {
	for i := range positions {
		if positions[i].name == name {
			return &positions[i]
		}
	}
	panic(name)
}

func TestNormalize(t *testing.T) {
	for _, tt := range [][2]string{
		{"", ""}, {" a ", "a"}, {"a  b", "a b"}, {"a\u00a0 b", "a b"}, {"a\n\n\tb\r\n", "a b"}, {"\u2003a\u3000", "a"},
		{"a\xffb", "a\xffb"}, {"a\u200bb", "a\u200bb"}, // zero width space is not Zs
	} {
		if got := normalize(tt[0]); got != tt[1] {
			t.Errorf("normalize(%q) = %q, want %q", tt[0], got, tt[1])
		}
	}
	if !hasBlankLine("a\n\nb") || !hasBlankLine("a\r\n \t\r\nb") || !hasBlankLine("a\r\rb") || hasBlankLine("a\nb") || hasBlankLine("a\n") || hasBlankLine("\na") {
		t.Error("hasBlankLine")
	}
}

// The judge must accept correct conversions and reject every kind of leak.
func TestJudge(t *testing.T) {
	ok := []struct{ pos, s, html string }{
		{"para-middle", "*a*", "<p>P *a* Q</p>\n"},
		{"para-middle", "a  b", "<p>P a\u00a0 b Q</p>\n"},
		{"para-middle", " a ", "<p>P \u00a0a\u00a0 Q</p>\n"},
		{"para-middle", "<b>&amp;", "<p>P &lt;b&gt;&amp;amp; Q</p>\n"},
		{"para-middle", "a\n\nb", "<p>P a</p>\n<p>b Q</p>\n"},
		{"para-middle", "a\nb", "<p>P a\nb Q</p>\n"},
		{"para-middle", "a\x00b", "<p>P a\ufffdb Q</p>\n"},
		{"own-paragraph", "x", "<p>Intro</p>\n<p>x</p>\n<p>Outro</p>\n"},
		{"own-paragraph", "", "<p>Intro</p>\n<p>Outro</p>\n"},
		{"tab-code", "a\nb", "<p>Intro</p>\n<pre><code>a\nb\n</code></pre>\n<p>Outro</p>\n"},
		{"tab-code", "<b>", "<p>Intro</p>\n<pre><code>&lt;b&gt;\n</code></pre>\n<p>Outro</p>\n"},
		{"tab-code", " ", "<p>Intro</p>\n<p>Outro</p>\n"},
		{"tab-code", "a\x00", "<p>Intro</p>\n<pre><code>a\x00\n</code></pre>\n<p>Outro</p>\n"},
		{"tab-code-middle", "x", "<p>Intro</p>\n<pre><code>code x more\n</code></pre>\n<p>Outro</p>\n"},
	}
	for _, tt := range ok {
		if why := judge(pos(tt.pos), tt.s, tt.html); why != "" {
			t.Errorf("judge(%s, %q, %q) rejects a correct conversion: %s", tt.pos, tt.s, tt.html, why)
		}
	}
	bad := []struct{ pos, s, html string }{
		{"para-middle", "*a*", "<p>P <em>a</em> Q</p>\n"},
		{"para-middle", "**a**", "<p>P <strong>a</strong> Q</p>\n"},
		{"para-middle", "[a](b)", "<p>P <a href=\"b\">a</a> Q</p>\n"},
		{"para-middle", "![a](b)", "<p>P <img src=\"b\" alt=\"a\"> Q</p>\n"},
		{"para-middle", "![a](b)", "<p>P <img src=\"b\" alt=\"a\" /> Q</p>\n"},
		{"para-middle", "`a`", "<p>P <code>a</code> Q</p>\n"},
		{"para-middle", "a  \nb", "<p>P a<br>\nb Q</p>\n"},
		{"para-middle", "a  \nb", "<p>P a<br />\nb Q</p>\n"},
		{"para-start", "# h", "<h1 id=\"h-q\">h Q</h1>\n"},
		{"para-start", "- a", "<ul>\n<li>a Q</li>\n</ul>\n"},
		{"para-start", "> a", "<blockquote>\n<p>a Q</p>\n</blockquote>\n"},
		{"para-start", "***", "<hr>\n<p>Q</p>"},
		{"para-middle", "a\n\n\tb", "<p>P a</p>\n<pre><code>b Q\n</code></pre>\n"},
		{"para-middle", "<b>x</b>", "<p>P <b>x</b> Q</p>\n"},
		{"para-middle", "<!-- c -->", "<p>P <!-- c --> Q</p>\n"},
		{"para-middle", "&amp;", "<p>P &amp; Q</p>\n"},    // entity turned into another character
		{"para-middle", "&copy;", "<p>P \u00a9 Q</p>\n"},  // the same
		{"para-middle", "\\*", "<p>P * Q</p>\n"},          // a character of the value disappeared
		{"para-middle", "ab", "<p>P a</p>\n<p>b Q</p>\n"}, // paragraph break without a blank line in the value
		{"para-middle", "www.x.co", "<p>P <a href=\"http://www.x.co\">www.x.co</a> Q</p>\n"},
		{"para-middle", "~~a~~", "<p>P <del>a</del> Q</p>\n"},
		{"para-start", "|a|\n|-|", "<table>\n<thead>\n<tr>\n<th>a</th>\n</tr>\n</thead>\n</table>\n<p>Q</p>"},
		{"tab-code", "a\nb", "<p>Intro</p>\n<pre><code>a\n</code></pre>\n<p>b</p>\n<p>Outro</p>\n"},
		{"tab-code", "a\n\nb", "<p>Intro</p>\n<pre><code>a\n</code></pre>\n<pre><code>b\n</code></pre>\n<p>Outro</p>\n"},
		{"tab-code", "a\n# b", "<p>Intro</p>\n<pre><code>a\n</code></pre>\n<h1>b</h1>\n<p>Outro</p>\n"},
		{"tab-code", "ab", "<p>Intro</p>\n<pre><code>a\n</code></pre>\n<p>Outro</p>\n"},
		{"tab-code-middle", "x\n\r", "<p>Intro</p>\n<pre><code>code x\n</code></pre>\n<p>more</p>\n<p>Outro</p>\n"},
		{"tab-code", "a", "<p>Intro</p>\n<p><code>a</code></p>\n<p>Outro</p>\n"},
	}
	for _, tt := range bad {
		if why := judge(pos(tt.pos), tt.s, tt.html); why == "" {
			t.Errorf("judge(%s, %q, %q) accepts a leaking conversion", tt.pos, tt.s, tt.html)
		}
	}
}

// goldmark itself, configured like cmd/scriggo, must produce the constructs the judge looks
// for when the syntax is NOT escaped (otherwise the oracle would be blind to a missing escape).
func TestReferenceConverterSeesSyntax(t *testing.T) {
	conv := newConverter()
	for _, raw := range []string{"*a*", "_a_", "**a**", "[a](b)", "![a](b)", "`a`", "a  \nb", "a\\\nb", "# h", "- a", "1. a", "> q", "***", "a\n===",
		"|a|b|\n|-|-|\n|c|d|", "<b>x</b>", "<!-- c -->", "&amp;", "&#65;", "http://example.com", "www.example.com", "a@example.com", "~~a~~", "```\ncode\n```",
		"    code", "\tcode", "<http://x.y>", "- [ ] t", "x[^1]\n\n[^1]: note", "a\n\n\tb"} {
		var out bytes.Buffer
		if err := conv.Convert([]byte(raw+"\n"), &out); err != nil {
			t.Fatal(err)
		}
		p := position{name: "raw", post: "\n", paras: 1}
		if why := judge(&p, raw, out.String()); why == "" {
			t.Errorf("unescaped %q converts to %q, which the judge accepts as inert", raw, out.String())
		}
	}
}
