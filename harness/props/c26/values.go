package c26

import (
	"math/rand"
	"unicode/utf8"

	"verif/core"
)

type dictEntry struct {
	family string
	s      string
}

func fam(family string, ss ...string) []dictEntry {
	var out []dictEntry
	for _, s := range ss {
		out = append(out, dictEntry{family, s})
	}
	return out
}

// dictionary is the Markdown-syntax dictionary.
var dictionary = func() []dictEntry {
	var d []dictEntry
	add := func(e []dictEntry) { d = append(d, e...) }
	add(fam("emphasis", "*a*", "_a_", "**a**", "__a__", "***a***", "*a", "a*", "_", "*", "~~a~~", "~a~", "*a _b_ c*", "a*b*c", "a_b_c", "**", "__"))
	add(fam("link", "[a](http://x.y)", "[a](<b>)", "[a](b \"t\")", "[a][b]", "[a][]", "[a]", "[a]: /url", "[a]: /url \"t\"", "](", "[", "]", "[a](", "(b)", "[a]:", "[a]: <b>"))
	add(fam("image", "![a](b)", "![a][b]", "![a]", "!", "!["))
	add(fam("footnote", "[^1]", "[^1]: note", "[^a]: x\n    y"))
	add(fam("heading", "# h", "## h", "###### h", "####### h", "#", "#h", "# ", "h\n===", "h\n---", "===", "---", "=", "-", "h\n=", "h\n-", "# h #"))
	add(fam("list", "- a", "* a", "+ a", "1. a", "1) a", "10. a", "0. a", "- [ ] task", "- [x] task", "-", "1.", "- a\n- b", "1. a\n2. b", "- a\n  - b", "-\ta", "1.\ta"))
	add(fam("blockquote", "> q", ">q", ">", "> q\n> r", ">> q", "> # h"))
	add(fam("code", "`a`", "``a``", "`", "``", "```", "```\ncode\n```", "```go\ncode\n```", "~~~", "~~~\ncode\n~~~", "    code", "\tcode", "`a", "a`", "```a```"))
	add(fam("thematic", "***", "---", "___", "* * *", "- - -", "_ _ _", "****", "----------", " ***", "   ---"))
	add(fam("table", "|a|b|\n|-|-|\n|c|d|", "a|b\n-|-", "a|b\n-|-\nc|d", "|", "|a|", "|-|", "a | b\n:-: | -:\nc | d", "||"))
	add(fam("html", "<b>x</b>", "<div>", "</div>", "<div>\nx\n</div>", "<!-- c -->", "<!--", "-->", "<?php x ?>", "<!DOCTYPE x>", "<![CDATA[x]]>", "<script>alert(1)</script>", "<a href=\"x\">", "<br/>", "<br>", "<", ">", "<a", "a>", "<x-y z>", "</a>", "<pre>", "<style>", "<textarea>", "<img src=x onerror=y>"))
	add(fam("autolink", "<http://x.y>", "<a@b.co>", "<mailto:a@b.co>", "http://example.com", "https://example.com/a?b=c&d=e", "www.example.com", "a@b.co", "ftp://x.y/z", "mailto:a@b.co", "xmpp:a@b.co/r", "http://", "www.", "a@b", "(http://example.com)", "http://example.com/a_b_c", "www.example.com/~x"))
	add(fam("entity", "&amp;", "&lt;", "&gt;", "&quot;", "&#65;", "&#x41;", "&#X41;", "&copy;", "&nbsp;", "&", "&#0;", "&#xD800;", "&amp", "&#65", "&ouml;", "&notanentity;", "&#1234567;"))
	add(fam("hardbreak", "a  \nb", "a\\\nb", "a   \nb", "\\", "a\\", "  ", "a  ", "a \nb", "a\t\nb", "a  \r\nb", "a\\\r\nb"))
	add(fam("lineending", "a\nb", "a\r\nb", "a\rb", "a\n\nb", "a\r\n\r\nb", "a\r\rb", "a\n \nb", "a\n\t\nb", "\n", "\n\n", "a\n", "\na", "\r", "\r\n", "a\n\n\nb", "\n\na", "a\n\n"))
	add(fam("space", " a", "a ", "    a", "\ta", "a\tb", "a  b", "a\n    b", "a\n\tb", "a\n\n    b", "a\n\n\tb", " ", " a ", "a\n b", "a\n   b", "     a", "\t\ta", "a \tb", "\u00a0", "a\u00a0\u00a0b", "\u2003a"))
	add(fam("backslash", "\\*a\\*", "\\\\*a*", "\\\\", "\\a", "\\\\\\", "\\<b>", "\\&amp;", "\\[a](b)", "\\\n", "a\\b", "\\`a`", "\\h", "\\http://x.y"))
	add(fam("setext-ish", "a\n==", "a\n--", "a\n= =", "a\n***", "a\n___", "a\n+", "a\n+ b", "a\n1. b", "a\n2. b", "a\n- b", "a\n# b", "a\n> b", "a\n```", "a\n~~~", "a\n<div>", "a\n|b|\n|-|", "a\n[b]: c", "a\n    b\n"))
	add(fam("misc", "{a}", "{{", "{%", "$x$", ":smile:", "^a^", "==a==", "+++", "%", "\"a\"", "'a'", "--", "...", "(c)", "a.b", "1.5", "a-b", "a+b", "a=b", "a!b", "a~b", "x^2", "\u00e9", "\u00a0", "\u2028", "\ufeff", "\x00", "\xff", "a\x00b", "\xc3", "\U0001F600"))
	return d
}()

// forms embeds a dictionary entry in nine ways.
func forms(s string) []string {
	return []string{s, "x" + s, s + "y", "x" + s + "y", "x " + s + " y", s + s, s + " " + s, "x\n" + s, s + "\ny"}
}

// leads are the characters of the successor sweep: every ASCII character that is not a
// letter or a digit (Markdown punctuation, space, controls) and a few others.
func leads() []string {
	var l []string
	for c := 0; c < 0x80; c++ {
		isAlnum := '0' <= c && c <= '9' || 'a' <= c && c <= 'z' || 'A' <= c && c <= 'Z'
		if !isAlnum {
			l = append(l, string([]byte{byte(c)}))
		}
	}
	l = append(l, "1", "a", "h", "w", "\u00a0", "\r\n", "\n\n", "  ", "    ", "\xff")
	return l
}

var nonASCIIPool = func() []rune {
	var p []rune
	add := func(lo, hi rune) {
		for r := lo; r <= hi; r++ {
			p = append(p, r)
		}
	}
	add(0x80, 0xFF)
	add(0x2000, 0x206F) // general punctuation and Unicode spaces
	add(0x3000, 0x3002)
	add(0xFF01, 0xFF0F) // full-width punctuation
	add(0xFFF0, 0xFFFF)
	add(0x1F600, 0x1F60F)
	return p
}()

func successors(seed int64) []string {
	var s []string
	for c := 0; c < 0x80; c++ {
		s = append(s, string([]byte{byte(c)}))
	}
	r := core.Rand(seed, "c26-succ")
	for i := 0; i < 32; i++ {
		s = append(s, string(nonASCIIPool[r.Intn(len(nonASCIIPool))]))
	}
	return s
}

var words = []string{"a", "b", "foo", "bar", "Hello", "world", "1", "2", "10", "x", "http", "www", "h", "code", "\u00e9"}
var punct = "!\"#$%&'()*+,-./:;<=>?@[\\]^_`{|}~"
var seps = []string{" ", " ", "  ", "\n", "\n", "\n\n", "\r\n", "\t", "    ", "\r", " \n", "  \n", "\\\n", "", "", ""}

// randomValue mixes dictionary entries, words, punctuation and separators.
func randomValue(r *rand.Rand) string {
	n := 1 + r.Intn(8)
	var b []byte
	for i := 0; i < n && len(b) < 96; i++ {
		switch r.Intn(8) {
		case 0, 1, 2:
			b = append(b, dictionary[r.Intn(len(dictionary))].s...)
		case 3, 4:
			b = append(b, words[r.Intn(len(words))]...)
		case 5:
			k := 1 + r.Intn(3)
			for j := 0; j < k; j++ {
				b = append(b, punct[r.Intn(len(punct))])
			}
		case 6:
			b = utf8.AppendRune(b, nonASCIIPool[r.Intn(len(nonASCIIPool))])
		default:
			b = append(b, byte(r.Intn(0x80)))
		}
		b = append(b, seps[r.Intn(len(seps))]...)
	}
	return string(b)
}
