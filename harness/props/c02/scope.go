package c02

import (
	"go/ast"
	"go/constant"
	"go/token"
	"go/types"

	"verif/oracle/gotypes"
)

// maxShiftCount is the largest constant shift count go/types (and gc) accept:
// an implementation restriction of the Go toolchain (1023-1+52), not a rule of
// the language specification. Scriggo has a different restriction (left shifts
// by 512 or more are refused unless the operand is zero, right shifts by any
// count representable as uint are allowed). Constant shifts whose count lies
// in (maxShiftCount, 2^64) are therefore kept out of the generated set: neither
// verdict there is wrong with respect to the specification.
const maxShiftCount = 1074

// referenceNotTrusted reports whether expr contains a shift whose count is a
// constant with an integer value in (maxShiftCount, 2^64), or a typed constant
// of non-integer type, judged by go/types, or the integer division -1<<63 / -1
// (used in the driver only; it never calls scriggo).
func referenceNotTrusted(expr string) bool {
	r := gotypes.Check(program("const c = "+expr, nil), nil)
	if r.File == nil {
		return false
	}
	huge := false
	limit := constant.MakeInt64(maxShiftCount)
	top := constant.Shift(constant.MakeInt64(1), token.SHL, 64)
	minInt64 := constant.MakeInt64(-1 << 63)
	minusOne := constant.MakeInt64(-1)
	ast.Inspect(r.File, func(n ast.Node) bool {
		be, ok := n.(*ast.BinaryExpr)
		if ok && (be.Op == token.QUO || be.Op == token.REM) {
			// go/constant (and gc) compute the integer quotient -1<<63 / -1 in
			// int64 arithmetic and return -1<<63 instead of 1<<63: a defect
			// of the reference, so the case is not generated.
			x, y := r.Info.Types[be.X].Value, r.Info.Types[be.Y].Value
			if x != nil && y != nil && x.Kind() == constant.Int && y.Kind() == constant.Int &&
				constant.Compare(x, token.EQL, minInt64) && constant.Compare(y, token.EQL, minusOne) {
				huge = true
			}
			return true
		}
		if !ok || (be.Op != token.SHL && be.Op != token.SHR) {
			return true
		}
		tv, ok := r.Info.Types[be.Y]
		if !ok || tv.Value == nil {
			return true
		}
		// go/types (and gc) accept a typed floating-point or complex constant
		// with an integer value as shift count (1 << float64(2)), which the
		// specification does not allow ("integer type or untyped constant
		// representable by uint"); scriggo follows the specification. The
		// reference is not trusted there.
		if b, ok := tv.Type.Underlying().(*types.Basic); ok && b.Info()&types.IsUntyped == 0 && b.Info()&types.IsInteger == 0 {
			huge = true
		}
		v := constant.ToInt(tv.Value)
		if v.Kind() != constant.Int {
			return true
		}
		if constant.Compare(v, token.GTR, limit) && constant.Compare(v, token.LSS, top) {
			huge = true
		}
		return true
	})
	return huge
}
