package c02

import (
	"go/constant"
	"math"
	"math/rand"
	"testing"

	"verif/oracle/gotypes"
)

// refValue evaluates a constant expression with the reference.
func refValue(t *testing.T, expr string) constant.Value {
	t.Helper()
	r := gotypes.Check(program("const c = "+expr, nil), nil)
	if !r.Accepted() {
		t.Fatalf("%s: %s", expr, r.FirstError())
	}
	return refConst(r).Val()
}

// The exactness probe must denote exactly the value it was built from: the
// reference itself has to evaluate `c == <probe literal>` to true, and to false
// for a neighbouring value.
func TestExactCmpDenotesTheValue(t *testing.T) {
	exprs := []string{
		"0", "1", "-1", "1<<63", "-(1<<64)+1", "1<<400", "0.5", "0.1", "1.0/3", "-7.0/9", "1e308", "1e-400", "5e-324", "0x1p-1074",
		"1e1000", "1e5000", "1e-5000", "float32(0.1)", "float64(0.1)", "float32(16777217)", "2.5e-324", "123456789.123456789", "1e1000/3", "1e5000*3",
	}
	for _, e := range exprs {
		v := refValue(t, e)
		probe, ok := exactCmp("c", v)
		if !ok {
			t.Errorf("%s: no probe", e)
			continue
		}
		for _, variant := range []struct {
			decl string
			want bool
		}{{"const c = " + e, true}, {"const c = (" + e + ") * 3 + 3", false}, {"const c = (" + e + ") * 5 - 7", false}} {
			if variant.decl != "const c = "+e && (e[0] == 'f' || e == "0") {
				continue // typed operands round, 0 is a fixed point of neither variant but keep it simple
			}
			r := gotypes.Check(program(variant.decl, []string{"println(" + probe + ")"}), nil)
			if !r.Accepted() {
				t.Errorf("%s: probe %q rejected: %s", e, probe, r.FirstError())
				continue
			}
			got, err := refPrinted(r)
			if err != nil || len(got) != 1 || got[0] != variant.want {
				t.Errorf("%s: probe %q with %q evaluates to %v, want %v", e, probe, variant.decl, got, variant.want)
			}
		}
	}
	// too large for a literal: no probe rather than a wrong one
	if _, ok := exactCmp("c", refValue(t, "1<<511")); ok {
		t.Errorf("1<<511 should have no probe (literal limit)")
	}
}

func TestGoValue(t *testing.T) {
	cases := []struct {
		src  string
		want any
	}{
		{"println(1)", int(1)}, {"println('a')", int32('a')}, {"println(1.5)", float64(1.5)}, {"println(2i)", complex(0, 2)},
		{"println(int8(-128))", int8(-128)}, {"println(uint64(1<<64-1))", uint64(math.MaxUint64)}, {"println(uintptr(7))", uintptr(7)},
		{"println(float32(0.1))", float32(0.1)}, {"println(complex64(1+0.1i))", complex64(complex(1, float32(0.1)))},
		{`println("a"+"b")`, "ab"}, {"println(1 < 2)", true}, {"println(-0.0)", float64(0)}, {"println(float32(1e-50))", float32(0)},
		{"println(9007199254740993.0)", float64(9007199254740992)}, {"println(byte(255))", uint8(255)},
	}
	for _, c := range cases {
		r := gotypes.Check("package main\nfunc main() { "+c.src+" }\n", nil)
		if !r.Accepted() {
			t.Fatalf("%s: %s", c.src, r.FirstError())
		}
		got, err := refPrinted(r)
		if err != nil || len(got) != 1 || !sameValue(got[0], c.want) {
			t.Errorf("%s: got %s, want %s (%v)", c.src, showValues(got), showValue(c.want), err)
		}
	}
}

func TestSameValueSeesNegativeZeroAndType(t *testing.T) {
	if sameValue(float64(0), math.Copysign(0, -1)) {
		t.Error("0 and -0 must differ")
	}
	if sameValue(int(1), int64(1)) || sameValue(float32(1), float64(1)) {
		t.Error("dynamic types must be compared")
	}
	if !sameValue(complex(1, 2), complex(1, 2)) || sameValue(complex(0, 0), complex(0, math.Copysign(0, -1))) {
		t.Error("complex comparison")
	}
	if !closeValue(1.0, 1.0+1e-14) || closeValue(1.0, 1.0+1e-9) || closeValue(1, 2) {
		t.Error("closeValue")
	}
}

func TestReferenceNotTrusted(t *testing.T) {
	for expr, want := range map[string]bool{
		"1 >> 1074": false, "1 >> 1075": true, "1 << 5000": true, "0 << 600": false, "1 >> 1e10": true, "1 >> (1<<64)": false,
		"1 << float64(2)": true, "1 << 2.0": false, "1 << uint8(2)": false, "(-9223372036854775808) / (-1)": true, "(-9223372036854775808) / int64(-1)": true,
		"(-9223372036854775807) / (-1)": false, "(-9223372036854775808) / (-1.0)": false, "1 + 2": false,
	} {
		if got := referenceNotTrusted(expr); got != want {
			t.Errorf("referenceNotTrusted(%q) = %v, want %v", expr, got, want)
		}
	}
}

func TestHasInexact(t *testing.T) {
	for expr, want := range map[string]bool{"1.0 / 3": false, "1e1000 / 3": false, "1e5000": true, "1e5000 / 1e4999": true, "1 << 100": false, "1e1000 * 1e1000 * 1e1000 * 1e1000": true} {
		r := gotypes.Check(program("const c = "+expr, nil), nil)
		if got := hasInexact(r); got != want {
			t.Errorf("hasInexact(%q) = %v, want %v", expr, got, want)
		}
	}
}

// The generator must give a healthy mix: accepted and rejected expressions of every class.
func TestGeneratorMix(t *testing.T) {
	g := &exprGen{r: rand.New(rand.NewSource(1))}
	acc, n := 0, 1500
	classes := map[string]int{}
	for i := 0; i < n; i++ {
		e := g.expr(3, false)
		classes[e.Class]++
		if gotypes.Check(program("const c = "+e.Src, nil), nil).Accepted() {
			acc++
		}
	}
	if acc*100 < n*20 || acc*100 > n*90 {
		t.Errorf("accepted %d of %d expressions: the mix is off", acc, n)
	}
	for _, c := range []string{"num", "bool", "str", "wild"} {
		if classes[c] == 0 {
			t.Errorf("class %s never generated", c)
		}
	}
	t.Logf("accepted %d of %d; classes %v", acc, n, classes)
}
