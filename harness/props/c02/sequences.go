package c02

import (
	"strings"
)

// A constant must keep its value however often it is used: operators must not
// modify their operands (big integers, rationals and big floats are shared
// pointers inside an implementation). sequencePrograms declares a named
// constant, applies an operator to it in another declaration, and then compares
// the constant again with a fresh evaluation of its defining expression, and
// the result of a second application with the first.

// aliasValues are defining expressions of every representation: integers
// beyond int64 and beyond uint64, native integers, exact rationals, big floats,
// complex values with such parts, and typed constants.
var aliasValues = []string{
	"1<<64 - 1", "1 << 63", "-(1 << 63) - 1", "1 << 100", "-(1 << 100)", "1<<511 + 1", "18446744073709551616", "9223372036854775808",
	"1 << 62", "5000000000", "-9223372036854775807 - 1", "255",
	"1.0 / 3", "0.1", "-2.5", "1e-400", "3.4e38", "1e1000", "-1e1000", "1e5000",
	"1<<64 + 2i", "0.1 + 1i/3", "1e1000i", "(1<<100) * 1i",
	"uint64(1<<64 - 1)", "int64(-1 << 63)", "float64(0.1)", "complex128(1<<64 + 0.1i)", "float32(0.1)",
}

// aliasOps are applied to the named constant k (%k) with the small operand w (%w).
var aliasOps = []string{
	"-%k", "+%k", "^%k", "- -%k", "-(%k)",
	"%k + %w", "%w + %k", "%k - %w", "%w - %k", "%k * %w", "%w * %k", "%k / %w", "%w / %k", "%k %% %w", "%k & %w", "%k | %w", "%k ^ %w", "%k &^ %w",
	"%k << 1", "%k >> 1", "%k << 62", "%k >> 62", "%k == %w", "%k < %w", "%k != -%k",
	"%k + %k", "%k - %k", "%k * %k", "%k / %k", "-%k + %k", "-%k * -%k", "%k * -%k",
	"float64(%k)", "float32(%k)", "uint64(%k)", "int64(%k)", "complex128(%k)", "real(%k)", "imag(%k)", "complex(%k, %k)", "real(-%k)", "-real(%k)", "-imag(%k)",
}

var aliasSmall = []string{"1", "-1", "3", "0.5", "2i"}

// sequenceProgram builds the program for one value and one operator form.
func sequenceProgram(v, op string) string {
	onK := strings.NewReplacer("%k", "k", "%%", "%").Replace(op)
	onV := strings.NewReplacer("%k", "("+v+")", "%%", "%").Replace(op)
	obs := []string{
		"const r1 = " + onK,
		"println(k == (" + v + "))",
		"const r2 = " + onK,
		"println(r1 == r2)",
		"println(r2 == (" + onV + "))",
		"const k2 = k",
		"const r3 = -k2",
		"println(k == (" + v + "), k2 == k, r3 == -(" + v + "))",
	}
	return program("const k = "+v, obs)
}
