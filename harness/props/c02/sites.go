package c02

import (
	"fmt"
	"go/constant"
	"go/types"
	"strings"

	"verif/core"
	"verif/oracle/gotypes"
)

// sitesProgram uses the untyped constant expression e at every place where Go
// converts it implicitly to the type t: variable initialiser, assignment,
// argument (plain and variadic), result, element of slice/array literals,
// struct fields (positional and keyed), map value and key, channel send,
// pointer indirection, element/field/map assignment. Each site prints the
// resulting value; the first line prints the typed constant `const y t = e`,
// whose value the reference knows. All sites must print that value: the
// conversion is the same wherever it happens.
func sitesProgram(e, t string) string {
	var b strings.Builder
	b.WriteString("package main\n\n")
	b.WriteString(Prelude)
	fmt.Fprintf(&b, `
type st struct{ f %[1]s }

func id(p %[1]s) %[1]s { return p }

func ret() %[1]s { return %[2]s }

func main() {
	const y %[1]s = %[2]s
	println(y)
	var v1 %[1]s = %[2]s
	println(v1)
	var v2 %[1]s
	v2 = %[2]s
	println(v2)
	println(id(%[2]s))
	println(ret())
	func(q ...%[1]s) { println(q[0]) }(%[2]s)
	println([]%[1]s{%[2]s}[0])
	println([1]%[1]s{%[2]s}[0])
	println([...]%[1]s{0: %[2]s}[0])
	println(st{%[2]s}.f)
	println(st{f: %[2]s}.f)
	println(map[int]%[1]s{0: %[2]s}[0])
	for k := range map[%[1]s]int{%[2]s: 0} {
		println(k)
	}
	ch := make(chan %[1]s, 1)
	ch <- %[2]s
	println(<-ch)
	p := new(%[1]s)
	*p = %[2]s
	println(*p)
	s := []%[1]s{0}
	s[0] = %[2]s
	println(s[0])
	m := map[int]%[1]s{}
	m[0] = %[2]s
	println(m[0])
	var w st
	w.f = %[2]s
	println(w.f)
	println(v1 == %[2]s)
}
`, t, e)
	return b.String()
}

// constantOf returns the value of the constant y of a sites program.
func constantOf(g *gotypes.Result) constant.Value {
	for id, obj := range g.Info.Defs {
		if c, ok := obj.(*types.Const); ok && id.Name == "y" {
			return c.Val()
		}
	}
	return constant.MakeUnknown()
}

const nSites = 18 // lines printing the value of y (the constant itself included)

// checkSites compares every implicit conversion site with the typed constant.
func (w *worker) checkSites(e, t string) {
	src := sitesProgram(e, t)
	g := gotypes.Check(src, nil)
	if g.File != nil && hasInexact(g) {
		w.counts["bigfloat_domain"]++
		return
	}
	s := buildRun(src, true)
	what := "sites:" + t
	both, ok := w.compareVerdict(what, src, g, s)
	if !ok {
		return
	}
	if !both {
		w.counts["sites_both_reject"]++
		w.sig("sites", t, "reject", errClass(g.FirstError()))
		return
	}
	var want any
	for id, obj := range g.Info.Defs {
		if c, isConst := obj.(*types.Const); isConst && id.Name == "y" {
			v, err := goValue(c.Type(), c.Val())
			if err != nil {
				w.inconcl = append(w.inconcl, "sites: no reference value: "+err.Error())
				return
			}
			want = v
		}
	}
	if want == nil {
		w.inconcl = append(w.inconcl, "sites: constant y not found in the reference\n"+src)
		return
	}
	if s.runErr != nil || s.badSep || len(s.printed) != nSites+1 {
		w.violation("%s: Run error %v or unexpected output %s (want %d values)\nsource:\n%s", what, s.runErr, showValues(s.printed), nSites+1, src)
		return
	}
	names := []string{"const y", "var v T = e", "v = e", "argument", "result", "variadic argument", "slice literal", "array literal", "keyed array literal", "struct literal", "keyed struct literal", "map value literal", "map key literal", "channel send", "*p = e", "s[0] = e", "m[0] = e", "w.f = e"}
	for i := 0; i < nSites; i++ {
		if !sameValue(want, s.printed[i]) {
			w.violation("%s: the untyped constant %s converted implicitly to %s at site %q gives %s, the typed constant (go/constant) is %s; all sites: %s\nsource:\n%s", what, e, t, names[i], showValue(s.printed[i]), showValue(want), showValues(s.printed), core.Truncate(src, 1500))
			return
		}
	}
	if b, isBool := s.printed[nSites].(bool); !isBool || !b {
		w.violation("%s: v == %s is %v for a variable initialised with the same constant\nsource:\n%s", what, e, s.printed[nSites], core.Truncate(src, 1500))
		return
	}
	w.counts["sites_programs"]++
	w.counts["implicit_conversion_sites_compared"] += nSites
	w.sig("sites", t, valueClass(constantOf(g)))
}

// constantOfK returns the value of the constant k of a sequence program.
func constantOfK(g *gotypes.Result) constant.Value {
	for id, obj := range g.Info.Defs {
		if c, ok := obj.(*types.Const); ok && id.Name == "k" {
			return c.Val()
		}
	}
	return constant.MakeUnknown()
}
