package c02

import (
	"fmt"
	"math/big"
)

// Prelude declares named constants at package level in every program. They
// bring values into the expressions through paths a literal cannot take: typed
// constants, values computed by an operation (and therefore held in the
// native-integer representation right at its boundary) and typed floats.
const Prelude = `const kMinI64 int64 = -1 << 63
const kMaxI64 int64 = 1<<63 - 1
const kMinI32 int32 = -1 << 31
const kMinI8 int8 = -128
const kMaxU64 uint64 = 1<<64 - 1
const kMaxU8 uint8 = 255
const kMax32 float32 = 3.4028234663852886e38
const kOne64 float64 = 1
const uMinI64 = -9223372036854775807 - 1
const uMaxI64 = 9223372036854775806 + 1
const uMinI32 = -2147483647 - 1
const uSqrt = 3037000499 + 1
const uThird = 1.0 / 3
`

// boundaryOperands are integer operands at the edges of every integer width,
// written so that they reach the evaluator in different representations: as a
// literal, as the result of an operation, as a typed conversion and as a named
// (typed or untyped) constant.
var boundaryOperands = []string{
	"uMinI64", "uMaxI64", "kMinI64", "kMaxI64", "(-9223372036854775807 - 1)", "(9223372036854775806 + 1)",
	"int64(-9223372036854775808)", "int64(9223372036854775807)", "int(-9223372036854775808)", "-9223372036854775808", "9223372036854775807", "9223372036854775808",
	"(1 << 62)", "(-1 << 62)", "4611686018427387904", "uSqrt", "3037000500", "-3037000500", "(-3037000499 - 1)", "3037000499",
	"uMinI32", "kMinI32", "int32(-2147483648)", "int32(2147483647)", "2147483648", "(1 << 31)", "(1 << 32)", "4294967295", "uint32(4294967295)",
	"kMinI8", "int8(-128)", "int8(127)", "kMaxU8", "uint8(255)", "int16(-32768)", "uint16(65535)",
	"kMaxU64", "uint64(18446744073709551615)", "18446744073709551615", "uint64(9223372036854775808)", "uint(1)", "uintptr(18446744073709551615)",
	"9007199254740993", "(9007199254740992 + 1)", "int64(9007199254740993)",
}

// smallOperands are the second operands combined with every boundary operand.
var smallOperands = []string{"-1", "1", "2", "-2", "0", "3", "-3", "10", "63", "64", "(-1)", "int64(-1)", "1.0", "-1.0", "0.5", "1i"}

var pairOps = []string{"+", "-", "*", "/", "%", "&", "|", "^", "&^", "<<", ">>", "==", "<"}

// boundaryPairs enumerates A op B and B op A for every boundary operand A,
// every small operand B and every binary operator, plus A op A' for boundary
// operands of the same spelling class, and the unary operators on A.
func boundaryPairs() []Expr {
	var out []Expr
	add := func(src string) {
		class := "num"
		out = append(out, Expr{Src: src, Class: class})
	}
	for _, a := range boundaryOperands {
		for _, op := range []string{"-", "+", "^"} {
			add("(" + op + " " + a + ")")
		}
		for _, b := range smallOperands {
			for _, op := range pairOps {
				add("(" + a + " " + op + " " + b + ")")
				if op != "<<" && op != ">>" {
					add("(" + b + " " + op + " " + a + ")")
				}
			}
		}
	}
	for i, a := range boundaryOperands {
		for j, b := range boundaryOperands {
			if (i+j)%9 != 0 {
				continue
			}
			for _, op := range []string{"+", "-", "*", "/", "%", "&^"} {
				add("(" + a + " " + op + " " + b + ")")
			}
		}
	}
	return out
}

// roundingMidpoints returns integer literals around the rounding midpoints of
// float32 (2^k + 2^(k-24)) and float64 (2^k + 2^(k-53)) for exponents below
// and above the native-integer range, each with its neighbours at distance 1
// and 2^j, positive and negative.
func roundingMidpoints() []string {
	var lits []string
	seen := map[string]bool{}
	push := func(v *big.Int) {
		for _, s := range []string{v.String(), "-" + v.String()} {
			if !seen[s] {
				seen[s] = true
				lits = append(lits, s)
			}
		}
	}
	for _, k := range []uint{24, 25, 31, 40, 53, 54, 55, 57, 60, 62, 63, 64, 65, 100, 126, 127} {
		base := new(big.Int).Lsh(big.NewInt(1), k)
		for _, m := range []uint{24, 53} {
			if k < m {
				continue
			}
			mid := new(big.Int).Add(base, new(big.Int).Lsh(big.NewInt(1), k-m))
			push(mid)
			for _, d := range []int64{-1, 1} {
				if k-m >= 1 {
					push(new(big.Int).Add(mid, big.NewInt(d)))
				}
			}
			// a neighbour whose distance from the midpoint is below float64 resolution
			if k-m >= 30 {
				push(new(big.Int).Add(mid, new(big.Int).Lsh(big.NewInt(1), k-m-30)))
				push(new(big.Int).Sub(mid, new(big.Int).Lsh(big.NewInt(1), k-m-30)))
			}
			// odd mantissa: ties to even goes up
			mid3 := new(big.Int).Add(mid, new(big.Int).Lsh(big.NewInt(1), k-m+1))
			push(mid3)
			if k-m >= 1 {
				push(new(big.Int).Add(mid3, big.NewInt(1)))
				push(new(big.Int).Sub(mid3, big.NewInt(1)))
			}
		}
	}
	return lits
}

// fractionMidpoints returns constant expressions 2^k + 2^(k-m) + d for the
// float32 (m = 24) and float64 (m = 53) rounding midpoints at small, fractional
// and subnormal-range exponents k, with a perturbation d that is zero, above or
// below the resolution of the wider type, positive and negative, also around
// odd mantissas (where ties-to-even rounds up).
func fractionMidpoints() []string {
	var out []string
	for _, k := range []int{0, 1, -1, -10, 10, 100, -100, -126, -127, 127} {
		for _, m := range []int{24, 53} {
			for _, odd := range []string{"", fmt.Sprintf(" + 0x1p%d", k-m+1)} {
				mid := fmt.Sprintf("0x1p%d + 0x1p%d%s", k, k-m, odd)
				for _, d := range []string{"", fmt.Sprintf(" + 0x1p%d", k-m-36), fmt.Sprintf(" - 0x1p%d", k-m-36), fmt.Sprintf(" + 0x1p%d", k-m-3), fmt.Sprintf(" - 0x1p%d", k-m-200)} {
					out = append(out, "("+mid+d+")", "(-("+mid+d+"))")
				}
			}
		}
	}
	return out
}

// midpointConversions declares every rounding-midpoint integer, as untyped
// literal, as typed integer constant and as floating-point literal, with each
// floating-point and complex type (const c T = x and const c = T(x)).
func midpointConversions() []Expr {
	ft := []string{"float32", "float64", "complex64", "complex128"}
	var out []Expr
	for _, l := range fractionMidpoints() {
		out = append(out, Expr{Src: l, Class: "num", Typed: ft, Conv: ft, Sites: ft})
	}
	for _, l := range roundingMidpoints() {
		out = append(out, Expr{Src: l, Class: "num", Typed: ft, Conv: ft, Sites: ft})
		v, _ := new(big.Int).SetString(l, 10)
		if v.IsInt64() {
			out = append(out, Expr{Src: fmt.Sprintf("int64(%s)", l), Class: "num", Conv: ft})
		} else if v.IsUint64() {
			out = append(out, Expr{Src: fmt.Sprintf("uint64(%s)", l), Class: "num", Conv: ft})
		}
		out = append(out, Expr{Src: l + ".0", Class: "num", Typed: []string{"float32", "complex64"}, Conv: []string{"float32"}})
		out = append(out, Expr{Src: "(" + l + " + 0)", Class: "num", Conv: []string{"float32", "complex64"}})
	}
	return out
}

// midRangeProducts multiplies, in pairs and triples, operands in the middle of
// the int64 range (around 2^31, 2^32, 2^33, 3e9, 5e9, written as literal, as sum
// and as named or typed constant, never as shift): each is a native integer,
// their products leave int64 and uint64 and may wrap to any sign.
func midRangeProducts() []Expr {
	ops := []string{"2147483647", "2147483648", "3000000000", "3037000499", "3037000500", "4294967295", "4294967296", "4294967297", "5000000000", "8589934592", "65536", "-4294967296", "-3037000500", "-5000000000", "(4294967295 + 1)", "(2147483647 + 1)", "uSqrt", "int64(4294967296)", "uint64(4294967296)", "1e9"}
	it := []string{"int64", "uint64", "int", "float64"}
	var out []Expr
	for i, a := range ops {
		for j, b := range ops {
			e := Expr{Src: "(" + a + " * " + b + ")", Class: "num"}
			if (i+j)%3 == 0 {
				e.Typed, e.Sites = []string{it[(i+j)%4]}, []string{it[(i*j)%4]}
			}
			out = append(out, e)
			if (i+j)%4 == 0 {
				out = append(out, Expr{Src: "(" + a + " * " + b + " * " + a + ")", Class: "num"},
					Expr{Src: "(" + a + "*" + b + " - " + b + "*" + a + " + 1)", Class: "num", Conv: []string{"int64"}},
					Expr{Src: "((" + a + " + " + b + ") * (" + a + " - " + b + "))", Class: "num"})
			}
		}
	}
	return out
}
