package c02

import (
	"fmt"
	"go/ast"
	"go/constant"
	"go/token"
	"go/types"
	"math"
	"math/big"
	"reflect"
	"strings"

	"verif/oracle/gotypes"
)

// maxLitBits bounds the integer literals emitted in exactness probes: both Go
// and scriggo refuse integer constants of more than 512 bits. maxFloatLitBits
// bounds the integers written as floating-point literals (d.0, 0x..p..): beyond
// 4096 bits go/constant itself stops being exact.
const maxLitBits = 500
const maxFloatLitBits = 3500

// exactCmp returns a boolean Go expression that is true exactly when the real
// numeric constant named by operand equals v, using only a comparison with a
// literal that denotes v exactly (integers: decimal; dyadic rationals and
// big.Float values: hexadecimal floating-point literal) or, for a rational p/q
// with q not a power of two, the cross-multiplication operand*q.0 == p.0.
func exactCmp(operand string, v constant.Value) (string, bool) {
	switch v.Kind() {
	case constant.Int:
		i, ok := constant.Val(v).(*big.Int)
		if !ok {
			i = big.NewInt(constant.Val(v).(int64))
		}
		if i.BitLen() > maxLitBits {
			return "", false
		}
		return fmt.Sprintf("%s == (%s)", operand, i.String()), true
	case constant.Float:
		switch x := constant.Val(v).(type) {
		case *big.Rat:
			if x.Num().BitLen() > maxFloatLitBits || x.Denom().BitLen() > maxFloatLitBits {
				return "", false
			}
			if x.IsInt() {
				return fmt.Sprintf("%s == (%s.0)", operand, x.Num().String()), true
			}
			den := x.Denom()
			if isPow2(den) {
				k := den.BitLen() - 1
				return fmt.Sprintf("%s == (%s)", operand, hexFloat(x.Num(), -k)), true
			}
			return fmt.Sprintf("%s * (%s.0) == (%s.0)", operand, den.String(), x.Num().String()), true
		case *big.Float:
			if x.IsInf() {
				return "", false
			}
			if x.Sign() == 0 {
				return fmt.Sprintf("%s == (0.0)", operand), true
			}
			mant := new(big.Float)
			exp := x.MantExp(mant) // x = mant * 2^exp, 0.5 <= |mant| < 1
			prec := int(x.MinPrec())
			mant.SetMantExp(mant, prec) // integer now
			mi, acc := mant.Int(nil)
			if acc != big.Exact {
				return "", false
			}
			return fmt.Sprintf("%s == (%s)", operand, hexFloat(mi, exp-prec)), true
		}
	}
	return "", false
}

func isPow2(x *big.Int) bool {
	return x.Sign() > 0 && x.TrailingZeroBits() == uint(x.BitLen()-1)
}

// hexFloat formats m * 2^e as a Go hexadecimal floating-point literal.
func hexFloat(m *big.Int, e int) string {
	sign := ""
	if m.Sign() < 0 {
		sign = "-"
		m = new(big.Int).Neg(m)
	}
	return fmt.Sprintf("%s0x%sp%+d", sign, m.Text(16), e)
}

// goValue converts a constant of a basic type to the Go value a program would
// print for it (the value RunOptions.Print receives).
func goValue(t types.Type, v constant.Value) (any, error) {
	b, ok := t.Underlying().(*types.Basic)
	if !ok || v == nil {
		return nil, fmt.Errorf("not a basic constant: %v", t)
	}
	i64 := func() int64 { n, _ := constant.Int64Val(constant.ToInt(v)); return n }
	u64 := func() uint64 { n, _ := constant.Uint64Val(constant.ToInt(v)); return n }
	f64 := func(v constant.Value) float64 {
		f, _ := constant.Float64Val(constant.ToFloat(v))
		if f == 0 {
			return 0 // constants have no negative zero
		}
		return f
	}
	f32 := func(v constant.Value) float32 {
		f, _ := constant.Float32Val(constant.ToFloat(v))
		if f == 0 {
			return 0
		}
		return f
	}
	switch b.Kind() {
	case types.Bool, types.UntypedBool:
		return constant.BoolVal(v), nil
	case types.String, types.UntypedString:
		return constant.StringVal(v), nil
	case types.Int, types.UntypedInt:
		return int(i64()), nil
	case types.Int8:
		return int8(i64()), nil
	case types.Int16:
		return int16(i64()), nil
	case types.Int32, types.UntypedRune:
		return int32(i64()), nil
	case types.Int64:
		return i64(), nil
	case types.Uint:
		return uint(u64()), nil
	case types.Uint8:
		return uint8(u64()), nil
	case types.Uint16:
		return uint16(u64()), nil
	case types.Uint32:
		return uint32(u64()), nil
	case types.Uint64:
		return u64(), nil
	case types.Uintptr:
		return uintptr(u64()), nil
	case types.Float32:
		return f32(v), nil
	case types.Float64, types.UntypedFloat:
		return f64(v), nil
	case types.Complex64:
		c := constant.ToComplex(v)
		return complex(f32(constant.Real(c)), f32(constant.Imag(c))), nil
	case types.Complex128, types.UntypedComplex:
		c := constant.ToComplex(v)
		return complex(f64(constant.Real(c)), f64(constant.Imag(c))), nil
	}
	return nil, fmt.Errorf("unexpected basic kind %v", b)
}

// sameValue compares two printed values: same dynamic type and same value
// (floating-point parts bit for bit, so that a negative zero is noticed).
func sameValue(a, b any) bool {
	if reflect.TypeOf(a) != reflect.TypeOf(b) {
		return false
	}
	switch x := a.(type) {
	case float32:
		return math.Float32bits(x) == math.Float32bits(b.(float32))
	case float64:
		return math.Float64bits(x) == math.Float64bits(b.(float64))
	case complex64:
		y := b.(complex64)
		return math.Float32bits(real(x)) == math.Float32bits(real(y)) && math.Float32bits(imag(x)) == math.Float32bits(imag(y))
	case complex128:
		y := b.(complex128)
		return math.Float64bits(real(x)) == math.Float64bits(real(y)) && math.Float64bits(imag(x)) == math.Float64bits(imag(y))
	}
	return a == b
}

// closeValue reports whether two printed values have the same dynamic type
// and, for floating-point and complex values, agree to 1e-12 relative (or both
// are tiny); other kinds must be equal.
func closeValue(a, b any) bool {
	if reflect.TypeOf(a) != reflect.TypeOf(b) {
		return false
	}
	near := func(x, y float64) bool {
		if x == y {
			return true
		}
		d := math.Abs(x - y)
		m := math.Max(math.Abs(x), math.Abs(y))
		return d <= 1e-12*m || m < 1e-300
	}
	switch x := a.(type) {
	case float32:
		return near(float64(x), float64(b.(float32))) || math.Abs(float64(x)-float64(b.(float32))) <= 1e-6*math.Abs(float64(x))
	case float64:
		return near(x, b.(float64))
	case complex64:
		y := b.(complex64)
		f := func(p, q float32) bool {
			return near(float64(p), float64(q)) || math.Abs(float64(p)-float64(q)) <= 1e-6*math.Abs(float64(p))
		}
		return f(real(x), real(y)) && f(imag(x), imag(y))
	case complex128:
		y := b.(complex128)
		return near(real(x), real(y)) && near(imag(x), imag(y))
	}
	return a == b
}

func showValue(v any) string {
	switch x := v.(type) {
	case float32:
		return fmt.Sprintf("float32(%v /*bits %#x*/)", x, math.Float32bits(x))
	case float64:
		return fmt.Sprintf("float64(%v /*bits %#x*/)", x, math.Float64bits(x))
	case string:
		return fmt.Sprintf("string(%q)", x)
	}
	return fmt.Sprintf("%T(%v)", v, v)
}

func showValues(vs []any) string {
	var parts []string
	for _, v := range vs {
		parts = append(parts, showValue(v))
	}
	return "[" + strings.Join(parts, ", ") + "]"
}

// program wraps a constant declaration and observation statements in a main package.
func program(decl string, obs []string) string {
	var b strings.Builder
	b.WriteString("package main\n\n")
	b.WriteString(Prelude)
	b.WriteString("\nfunc main() {\n\t")
	b.WriteString(decl)
	b.WriteString("\n")
	for _, o := range obs {
		b.WriteString("\t")
		b.WriteString(o)
		b.WriteString("\n")
	}
	b.WriteString("}\n")
	return b.String()
}

// refConst returns the object of the constant c declared in main.
func refConst(r *gotypes.Result) *types.Const {
	for id, obj := range r.Info.Defs {
		if id.Name == "c" {
			if c, ok := obj.(*types.Const); ok {
				return c
			}
		}
	}
	return nil
}

// refPrinted returns the values the println calls of the program print, in order.
func refPrinted(r *gotypes.Result) ([]any, error) {
	var out []any
	var err error
	ast.Inspect(r.File, func(n ast.Node) bool {
		call, ok := n.(*ast.CallExpr)
		if !ok {
			return true
		}
		if id, ok := call.Fun.(*ast.Ident); !ok || id.Name != "println" {
			return true
		}
		for _, a := range call.Args {
			tv := r.Info.Types[a]
			v, e := goValue(tv.Type, tv.Value)
			if e != nil && err == nil {
				err = e
			}
			out = append(out, v)
		}
		return false
	})
	return out, err
}

// hasInexact reports whether any constant subexpression of the file was
// evaluated by go/constant in big.Float (rounded, 512-bit) representation rather
// than exactly. In that domain the Go specification allows implementations to
// round differently, so value differences there are not judged.
func hasInexact(r *gotypes.Result) bool {
	for _, tv := range r.Info.Types {
		if tv.Value == nil {
			continue
		}
		if inexactVal(tv.Value) {
			return true
		}
	}
	return false
}

func inexactVal(v constant.Value) bool {
	switch v.Kind() {
	case constant.Float:
		_, ok := constant.Val(v).(*big.Float)
		return ok
	case constant.Complex:
		return inexactVal(constant.Real(v)) || inexactVal(constant.Imag(v))
	}
	return false
}

// valueClass gives a coarse class of a constant for non-triviality signatures.
func valueClass(v constant.Value) string {
	switch v.Kind() {
	case constant.Bool:
		return "bool"
	case constant.String:
		if constant.StringVal(v) == "" {
			return "str0"
		}
		return "str"
	case constant.Int:
		a := constant.ToInt(v)
		if constant.Sign(a) == 0 {
			return "int0"
		}
		s := "+"
		if constant.Sign(a) < 0 {
			s = "-"
			a = constant.UnaryOp(token.SUB, a, 0)
		}
		n := constant.BitLen(a)
		for _, w := range []int{7, 8, 15, 16, 31, 32, 53, 63, 64, 128, 512} {
			if n <= w {
				return fmt.Sprintf("int%s<=%db", s, w)
			}
		}
		return "int" + s + "huge"
	case constant.Float:
		if constant.Sign(v) == 0 {
			return "flt0"
		}
		impl := "rat"
		if inexactVal(v) {
			impl = "bigfloat"
		}
		f, _ := constant.Float64Val(v)
		f = math.Abs(f)
		isInt := constant.ToInt(v).Kind() == constant.Int
		var mag string
		switch {
		case f == 0:
			mag = "underflow64"
		case math.IsInf(f, 0):
			mag = "over64"
		case f < 2.2250738585072014e-308:
			mag = "subnormal64"
		case f < 1.1754943508222875e-38:
			mag = "below-normal32"
		case f < 1:
			mag = "frac"
		case f < 1<<24:
			mag = "<2^24"
		case f < 1<<53:
			mag = "<2^53"
		case f < 1<<64:
			mag = "<2^64"
		case f < 3.4028234663852886e38:
			mag = "<max32"
		default:
			mag = "<max64"
		}
		return fmt.Sprintf("flt/%s/%s/int=%v", impl, mag, isInt)
	case constant.Complex:
		return "cplx(" + valueClass(constant.Real(v)) + "," + valueClass(constant.Imag(v)) + ")"
	}
	return "unknown"
}

// errClass maps a go/types message to a coarse class (signatures only; never used for verdicts).
func errClass(msg string) string {
	for _, k := range []string{"overflows", "truncated", "division by zero", "shift", "mismatched types", "not defined", "cannot convert", "cannot use", "overflow", "syntax", "invalid operation", "undefined", "not constant"} {
		if strings.Contains(msg, k) {
			return strings.ReplaceAll(k, " ", "-")
		}
	}
	return "other"
}
