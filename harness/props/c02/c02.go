// Package c02 checks that scriggo's compile-time constant arithmetic agrees with
// go/types + go/constant: same accept/reject verdict and the same value for
// every constant expression tree drawn from a boundary-rich literal set.
//
// Oracle: go/types type-checks the very same program text scriggo builds
// (const c [T] = <expr> plus observation statements) and go/constant gives the
// value of every println argument. Scriggo side: scriggo.Build + Program.Run with
// RunOptions.Print capturing the printed Go values (dynamic type and value).
// Only accept/reject and values are compared, never message text.
package c02

import (
	"bytes"
	"fmt"
	"go/constant"
	"sort"
	"strings"

	"github.com/open2b/scriggo"

	"verif/core"
	"verif/oracle/gotypes"
)

type prop struct{}

func init() { core.Register(prop{}) }

func (prop) ID() string    { return "C02" }
func (prop) Level() string { return "exploration" }

type caseData struct {
	Exprs []Expr `json:"exprs"`
}

// built is what scriggo did with one program.
type built struct {
	accepted   bool
	buildErr   error
	isBuildErr bool
	panicked   bool
	panicVal   any
	stack      string
	printed    []any
	all        []any // every value passed to Print, separators included
	runErr     error
	badSep     bool
}

func buildRun(src string, run bool) built {
	var b built
	var prog *scriggo.Program
	val, panicked, stack := core.Guard(func() {
		prog, b.buildErr = scriggo.Build(scriggo.Files{"main.go": []byte(src)}, nil)
	})
	if panicked {
		b.panicked, b.panicVal, b.stack = true, val, stack
		return b
	}
	if b.buildErr != nil {
		_, b.isBuildErr = b.buildErr.(*scriggo.BuildError)
		return b
	}
	b.accepted = true
	if !run {
		return b
	}
	var all []any
	val, panicked, stack = core.Guard(func() {
		b.runErr = prog.Run(&scriggo.RunOptions{Print: func(v any) { all = append(all, v) }})
	})
	if panicked {
		b.panicked, b.panicVal, b.stack = true, val, stack
		return b
	}
	b.all = all
	// every println(x) prints x and then "\n"
	for i, v := range all {
		if i%2 == 0 {
			b.printed = append(b.printed, v)
		} else if s, ok := v.(string); !ok || s != "\n" {
			b.badSep = true
		}
	}
	if len(all)%2 != 0 {
		b.badSep = true
	}
	return b
}

// renderTemplate builds and runs a one-file text template.
func renderTemplate(src string) (out string, b built) {
	var tmpl *scriggo.Template
	val, panicked, stack := core.Guard(func() {
		tmpl, b.buildErr = scriggo.BuildTemplate(scriggo.Files{"index.txt": []byte(src)}, "index.txt", nil)
	})
	if panicked {
		b.panicked, b.panicVal, b.stack = true, val, stack
		return
	}
	if b.buildErr != nil {
		_, b.isBuildErr = b.buildErr.(*scriggo.BuildError)
		return
	}
	b.accepted = true
	var buf bytes.Buffer
	val, panicked, stack = core.Guard(func() { b.runErr = tmpl.Run(&buf, nil, nil) })
	if panicked {
		b.panicked, b.panicVal, b.stack = true, val, stack
	}
	return buf.String(), b
}

// checkTemplate repeats the declaration inside a template: `{%% const c = E %%}`
// must be accepted exactly when the reference accepts the declaration, and the
// probes, shown with {{ }}, must render as "true".
func (w *worker) checkTemplate(form, decl string, accepted bool, probes []string) {
	var sb strings.Builder
	sb.WriteString("{%%\n" + Prelude + decl + " %%}")
	for _, p := range probes {
		sb.WriteString("{{ " + p + " }};")
	}
	src := sb.String()
	out, b := renderTemplate(src)
	w.evals++
	w.counts["template_builds"]++
	switch {
	case b.panicked:
		w.violation("%s/template: scriggo panicked: %v\ntemplate: %s\n%s", form, b.panicVal, src, core.Truncate(b.stack, 1500))
	case !b.accepted && !b.isBuildErr:
		w.violation("%s/template: BuildTemplate failed with %T (not *scriggo.BuildError): %v\ntemplate: %s", form, b.buildErr, b.buildErr, src)
	case accepted && !b.accepted:
		w.violation("%s/template: the reference accepts the declaration, BuildTemplate rejects it: %v\ntemplate: %s", form, b.buildErr, src)
	case !accepted && b.accepted:
		w.violation("%s/template: the reference rejects the declaration, BuildTemplate accepts it\ntemplate: %s", form, src)
	case accepted:
		if b.runErr != nil {
			w.violation("%s/template: Run returned %v\ntemplate: %s", form, b.runErr, src)
		} else if want := strings.Repeat("true;", len(probes)); out != want {
			w.violation("%s/template: rendered %q, want %q (exactness probes built from the go/constant value)\ntemplate: %s", form, out, want, src)
		}
	}
}

type worker struct {
	evals   int64
	sigs    map[string]struct{}
	counts  map[string]int64
	viols   []string
	inconcl []string
}

func (w *worker) sig(parts ...string) { w.sigs[core.SigJoin(parts...)] = struct{}{} }

func (w *worker) violation(format string, a ...any) {
	w.counts["violations"]++
	if len(w.viols) < 8 {
		// the named-constant prelude is the same in every program: elide it in reports
		w.viols = append(w.viols, strings.ReplaceAll(fmt.Sprintf(format, a...), Prelude, "// + prelude of named boundary constants (c02.Prelude)\n"))
	}
}

// compareVerdict compares accept/reject of one program. It returns true if both accept.
func (w *worker) compareVerdict(what, src string, g *gotypes.Result, s built) (bothAccept bool, ok bool) {
	w.evals++
	if s.panicked {
		w.violation("%s: scriggo panicked: %v\nsource:\n%s\ngo/types: accepted=%v %s\n%s", what, s.panicVal, src, g.Accepted(), g.FirstError(), core.Truncate(s.stack, 1500))
		return false, false
	}
	if !s.accepted && !s.isBuildErr {
		w.violation("%s: Build failed with %T (not *scriggo.BuildError): %v\nsource:\n%s", what, s.buildErr, s.buildErr, src)
		return false, false
	}
	switch {
	case g.Accepted() && !s.accepted:
		w.violation("%s: go/types accepts, scriggo rejects: %v\nsource:\n%s", what, s.buildErr, src)
		return false, false
	case !g.Accepted() && s.accepted:
		w.violation("%s: go/types rejects (%s), scriggo accepts\nsource:\n%s", what, g.FirstError(), src)
		return false, false
	}
	return g.Accepted(), true
}

// compareOutput compares the printed values of a program both sides accept.
func (w *worker) compareOutput(what, src string, g *gotypes.Result, s built) bool {
	want, err := refPrinted(g)
	if err != nil {
		w.inconcl = append(w.inconcl, fmt.Sprintf("%s: reference value not available: %v\nsource:\n%s", what, err, src))
		return false
	}
	if s.runErr != nil {
		w.violation("%s: Run returned %T: %v\nsource:\n%s", what, s.runErr, s.runErr, src)
		return false
	}
	if s.badSep {
		w.inconcl = append(w.inconcl, fmt.Sprintf("%s: unexpected print separator sequence\nsource:\n%s", what, src))
		return false
	}
	same := len(want) == len(s.printed)
	for i := 0; same && i < len(want); i++ {
		same = sameValue(want[i], s.printed[i])
	}
	if !same {
		w.violation("%s: printed values differ\n  go/constant: %s\n  scriggo:     %s\nsource:\n%s", what, showValues(want), showValues(s.printed), src)
		return false
	}
	return true
}

// checkDecl runs the staged comparison for one constant declaration.
func (w *worker) checkDecl(form, decl string) {
	// Stage A: the declaration alone.
	srcA := program(decl, nil)
	ga := gotypes.Check(srcA, nil)
	sa := buildRun(srcA, false)
	if ga.File != nil && hasInexact(ga) && !sa.panicked && (sa.accepted || sa.isBuildErr) {
		// Some subexpression was evaluated by the reference in rounded 512-bit
		// big.Float arithmetic. The Go specification lets implementations round
		// differently there, so verdict and low-order bits are not judged;
		// only a gross value difference is.
		w.bigFloatDomain(form, decl, ga, sa)
		return
	}
	both, ok := w.compareVerdict(form+"/decl", srcA, ga, sa)
	if !ok {
		return
	}
	if !both {
		w.counts["both_reject"]++
		w.sig(formClass(form), "reject", errClass(ga.FirstError()))
		if w.tmplTick(decl) {
			w.checkTemplate(form, decl, false, nil)
		}
		return
	}
	w.counts["both_accept"]++
	c := refConst(ga)
	if c == nil || c.Val().Kind() == constant.Unknown {
		w.inconcl = append(w.inconcl, "reference has no value for c: "+srcA)
		return
	}
	v := c.Val()
	// Stage B: observation.
	var exact []string
	switch v.Kind() {
	case constant.Int, constant.Float:
		if e, ok := exactCmp("c", v); ok {
			exact = append(exact, "println("+e+")")
		}
	case constant.Complex:
		if e, ok := exactCmp("real(c)", constant.Real(v)); ok {
			exact = append(exact, "println("+e+")")
		}
		if e, ok := exactCmp("imag(c)", constant.Imag(v)); ok {
			exact = append(exact, "println("+e+")")
		}
	}
	if len(exact) == 0 && (v.Kind() == constant.Int || v.Kind() == constant.Float || v.Kind() == constant.Complex) {
		w.counts["no_exact_probe"]++
	}
	obs := append(append([]string{}, exact...), "println(c)")
	srcB := program(decl, obs)
	gb := gotypes.Check(srcB, nil)
	sb := buildRun(srcB, true)
	both, ok = w.compareVerdict(form+"/print", srcB, gb, sb)
	if !ok {
		return
	}
	printedC := both
	if !both {
		// c is not representable in the type println needs: both rejected that.
		w.counts["print_rejected_by_both"]++
		if len(exact) == 0 {
			w.sig(formClass(form), c.Type().String(), valueClass(v), "unprintable")
			return
		}
		srcB = program(decl, exact)
		gb = gotypes.Check(srcB, nil)
		if !gb.Accepted() {
			w.inconcl = append(w.inconcl, "exactness probe rejected by the reference: "+gb.FirstError()+"\n"+srcB)
			return
		}
		sb = buildRun(srcB, true)
		if both, ok = w.compareVerdict(form+"/exact", srcB, gb, sb); !ok || !both {
			return
		}
	}
	// self-check of the probes: the reference must say they hold
	if want, err := refPrinted(gb); err == nil {
		for i := range exact {
			if b, ok := want[i].(bool); !ok || !b {
				w.inconcl = append(w.inconcl, "exactness probe is not true in the reference\n"+srcB)
				return
			}
		}
	}
	if w.tmplTick(decl) {
		var probes []string
		for _, e := range exact {
			probes = append(probes, strings.TrimSuffix(strings.TrimPrefix(e, "println("), ")"))
		}
		w.checkTemplate(form, decl, true, probes)
	}
	if w.compareOutput(form+"/value", srcB, gb, sb) {
		w.counts["values_compared"]++
		cls := valueClass(v)
		p := "printed"
		if !printedC {
			p = "exact-only"
		}
		w.sig(formClass(form), c.Type().String(), cls, p)
	}
}

// bigFloatDomain handles a declaration whose reference evaluation left exact
// arithmetic: host panics were already excluded by the caller; the verdicts are
// only counted; if both accept and c is printable, the printed values must agree
// to 1e-12 relative.
func (w *worker) bigFloatDomain(form, decl string, ga *gotypes.Result, sa built) {
	w.evals++
	w.counts["bigfloat_domain"]++
	if ga.Accepted() != sa.accepted {
		w.counts["bigfloat_domain_verdict_diff"]++
		return
	}
	if !ga.Accepted() {
		w.sig(formClass(form), "reject", "bigfloat-domain")
		return
	}
	src := program(decl, []string{"println(c)"})
	gb := gotypes.Check(src, nil)
	sb := buildRun(src, true)
	w.evals++
	if sb.panicked {
		w.violation("%s: scriggo panicked: %v\nsource:\n%s\n%s", form, sb.panicVal, src, core.Truncate(sb.stack, 1500))
		return
	}
	if !gb.Accepted() || !sb.accepted || sb.runErr != nil || len(sb.printed) != 1 {
		if gb.Accepted() != sb.accepted {
			w.counts["bigfloat_domain_verdict_diff"]++
		}
		return
	}
	want, err := refPrinted(gb)
	if err != nil || len(want) != 1 {
		return
	}
	if sameValue(want[0], sb.printed[0]) {
		w.counts["bigfloat_domain_values_equal"]++
		if c := refConst(ga); c != nil {
			w.sig(formClass(form), c.Type().String(), valueClass(c.Val()), "bigfloat-domain")
		}
		return
	}
	if !closeValue(want[0], sb.printed[0]) {
		w.violation("%s: printed values differ grossly (reference evaluated in big.Float arithmetic)\n  go/constant: %s\n  scriggo:     %s\nsource:\n%s", form, showValues(want), showValues(sb.printed), src)
		return
	}
	w.counts["bigfloat_domain_value_diff_within_1e-12"]++
}

// tmplTick selects (deterministically, by content) one declaration in four for
// the additional template observation.
func (w *worker) tmplTick(decl string) bool {
	if strings.Contains(decl, "%%}") || strings.Contains(decl, "`") {
		return false
	}
	h := 0
	for i := 0; i < len(decl); i++ {
		h = h*31 + int(decl[i])
	}
	return h&3 == 0
}

func formClass(form string) string {
	if i := strings.IndexByte(form, ':'); i >= 0 {
		return form[:i]
	}
	return form
}

func (w *worker) checkExpr(e Expr) {
	if e.Class == "seq" {
		for _, op := range e.Ops {
			w.checkSequence(e.Src, op)
		}
		return
	}
	w.checkDecl("untyped", "const c = "+e.Src)
	for _, t := range e.Typed {
		w.checkDecl("typed:"+t, "const c "+t+" = "+e.Src)
	}
	for _, t := range e.Conv {
		w.checkDecl("conv:"+t, "const c = "+t+"("+e.Src+")")
	}
	for _, t := range e.Sites {
		w.checkSites(e.Src, t)
	}
	for _, op := range e.Ops {
		w.checkSequence(e.Src, op)
	}
}

// checkSequence builds one sequence program (sequences.go): same verdict as
// the reference and, when accepted, the same printed booleans (all true in
// the reference unless the operator is a comparison of complex parts etc.).
func (w *worker) checkSequence(v, op string) {
	src := sequenceProgram(v, op)
	g := gotypes.Check(src, nil)
	if g.File != nil && hasInexact(g) {
		w.counts["bigfloat_domain"]++
		return
	}
	s := buildRun(src, true)
	both, ok := w.compareVerdict("sequence", src, g, s)
	if !ok {
		return
	}
	if !both {
		w.counts["sequence_both_reject"]++
		return
	}
	// println with several arguments prints separators between them: compare the boolean values only
	want, err := refPrinted(g)
	if err != nil {
		w.inconcl = append(w.inconcl, "sequence: no reference value: "+err.Error())
		return
	}
	var got []any
	for _, x := range s.all {
		if _, isBool := x.(bool); isBool {
			got = append(got, x)
		}
	}
	same := len(got) == len(want) && s.runErr == nil
	for i := 0; same && i < len(want); i++ {
		same = sameValue(want[i], got[i])
	}
	if !same {
		w.violation("sequence: a named constant does not keep its value, or an operator gives different results on the constant and on its defining expression\n  reference: %s\n  scriggo:   %s (run error %v)\nsource:\n%s", showValues(want), showValues(got), s.runErr, src)
		return
	}
	w.counts["sequence_programs"]++
	w.sig("sequence", op, valueClass(constantOfK(g)))
}

func (prop) Work(c core.Case) core.Result {
	var cd caseData
	c.Decode(&cd)
	w := &worker{sigs: map[string]struct{}{}, counts: map[string]int64{}}
	for _, e := range cd.Exprs {
		w.checkExpr(e)
	}
	res := core.Result{Status: core.OK, Evals: w.evals, Counts: w.counts}
	for s := range w.sigs {
		res.Sigs = append(res.Sigs, s)
	}
	sort.Strings(res.Sigs)
	switch {
	case len(w.viols) > 0:
		res.Status = core.Violation
		res.Detail = strings.Join(w.viols, "\n----\n")
	case len(w.inconcl) > 0:
		res.Status = core.Inconclusive
		res.Detail = strings.Join(w.inconcl, "\n----\n")
	}
	return res
}

func (prop) Drive(d *core.Driver) error {
	depth := d.N(3, 4)
	nExpr := d.N(8000, 150000)
	perCase := 20
	d.T.Rule = fmt.Sprintf("a fixed systematic set (every boundary operand — literal, computed, converted, named typed/untyped constant at the edges of every integer width — against every small operand with every operator; every float32/float64 rounding midpoint 2^k+2^(k-24), 2^k+2^(k-53), integer and fractional, with neighbours, with every floating-point and complex type, in constant declarations and conversions and at 18 implicit conversion sites — variable initialiser, assignment, argument, result, literal elements, struct fields, map key and value, channel send, indirection; every number-literal form of the specification: each hexadecimal digit at each position of hexadecimal integer and floating-point literals, prefixes, underscores, exponents, legacy octals, imaginary forms, valid and invalid) plus %d random constant expression trees of depth <= %d over the boundary literal set (0, ±1, 2^k-1/2^k/2^k+1 for k in 7,8,15,16,31,32,63,64,127,128,511,512, 2^53±1, 2^24±1, extreme/subnormal/huge floats, imaginary, rune, string, bool literals), all unary/binary operators, constant shifts, conversions to every basic type, real/imag/complex/len; each is declared as `const c = E`, `const c T = E` and `const c = T(E)` inside func main, type-checked by go/types (go/constant values) and built+run by scriggo; accept/reject and the printed Go values (dynamic type, value bit for bit) plus an exactness probe `c == <exact literal>` are compared. distinct_nontrivial counts distinct (declaration form, type of c, value class incl. magnitude class around the width boundaries and exact-rational vs big.Float representation, observation kind) tuples among accepted constants and (form, reference error class) among rejected ones", nExpr, depth)
	d.T.Assumptions = []string{"go/types and go/constant (go1.25 standard library, GoVersion go1.20) are the reference", "only constant expressions the generator grammar produces are covered",
		"constant shifts with a count in (1074, 2^64) are not generated: go/types refuses them by an implementation restriction that is not in the language specification",
		"constant shifts whose count is a typed floating-point or complex constant are not generated: go/types accepts them when the value is integral, contrary to the specification",
		"the integer constant division -1<<63 / -1 is not generated: go/constant (and gc) return -1<<63 (int64 wrap-around) instead of 1<<63",
		"where the reference itself leaves exact arithmetic (a subexpression held as a rounded 512-bit big.Float), the specification allows different rounding: there only host panics and value differences above 1e-12 relative are judged, verdict differences are counted (bigfloat_domain_verdict_diff)"}
	g := &exprGen{r: d.Rand("expr")}
	var cases []core.Case
	var cur []Expr
	excluded := 0
	for i := 0; i < nExpr; i++ {
		e := g.expr(depth, d.Thorough() && i%10 == 0)
		for referenceNotTrusted(e.Src) {
			excluded++
			e = g.expr(depth, d.Thorough() && i%10 == 0)
		}
		if i < 3 {
			d.T.Sample(map[string]any{"expr": e.Src, "typed": e.Typed, "conv": e.Conv})
		}
		cur = append(cur, e)
		if len(cur) == perCase || i == nExpr-1 {
			cases = append(cases, core.NewCase(fmt.Sprintf("batch-%d", len(cases)), caseData{Exprs: cur}))
			cur = nil
		}
	}
	// Systematic part (the same at every seed): every boundary operand against
	// every small operand with every operator, and every rounding midpoint with
	// every floating-point type. In the quick tier the pairs get the untyped
	// declaration only, in thorough also a typed and a converted one.
	sys := 0
	addSys := func(e Expr) {
		if referenceNotTrusted(e.Src) {
			excluded++
			return
		}
		sys++
		cur = append(cur, e)
		if len(cur) == perCase {
			cases = append(cases, core.NewCase(fmt.Sprintf("sys-%d", len(cases)), caseData{Exprs: cur}))
			cur = nil
		}
	}
	rs := d.Rand("sys")
	for _, e := range boundaryPairs() {
		if d.Thorough() {
			e.Typed = []string{numTypes[rs.Intn(len(numTypes))]}
			e.Conv = []string{numTypes[rs.Intn(len(numTypes))]}
		}
		addSys(e)
	}
	for _, e := range midpointConversions() {
		addSys(e)
	}
	for _, e := range literalForms() {
		addSys(e)
	}
	for _, e := range midRangeProducts() {
		addSys(e)
	}
	for _, v := range aliasValues {
		var ops []string
		for _, op := range aliasOps {
			if strings.Contains(op, "%w") {
				for _, sm := range aliasSmall {
					ops = append(ops, strings.ReplaceAll(op, "%w", sm))
				}
			} else {
				ops = append(ops, op)
			}
		}
		// sequences only: no plain declarations of the value here
		cur = append(cur, Expr{Src: v, Class: "seq", Ops: ops})
		sys++
		if len(cur) >= 4 {
			cases = append(cases, core.NewCase(fmt.Sprintf("seq-%d", len(cases)), caseData{Exprs: cur}))
			cur = nil
		}
	}
	if len(cur) > 0 {
		cases = append(cases, core.NewCase(fmt.Sprintf("sys-%d", len(cases)), caseData{Exprs: cur}))
		cur = nil
	}
	d.T.Set("systematic_expressions", sys)
	d.T.Set("expressions", nExpr)
	d.T.Set("excluded_reference_not_trusted", excluded)
	d.Run(cases, core.RunOpts{})
	return nil
}
