package c02

import (
	"fmt"
	"math/big"
	"math/rand"
	"strings"
)

// Basic types used for typed constants and conversions.
var intTypes = []string{"int", "int8", "int16", "int32", "int64", "uint", "uint8", "uint16", "uint32", "uint64", "uintptr", "byte", "rune"}
var floatTypes = []string{"float32", "float64"}
var complexTypes = []string{"complex64", "complex128"}
var numTypes = append(append(append([]string{}, intTypes...), floatTypes...), complexTypes...)

// AllTypes lists every basic type name (with the byte and rune aliases).
var AllTypes = append(append([]string{}, numTypes...), "bool", "string")

var boundaryBits = []uint{7, 8, 15, 16, 31, 32, 63, 64, 127, 128, 511, 512}

// intLits: 0, 1, small values and 2^k-1, 2^k, 2^k+1 around every width.
var intLits = func() []string {
	lits := []string{"0", "1", "2", "3", "7", "10", "100", "0x10", "0b101", "0o17", "017", "1_000", "53", "1024"}
	for _, k := range boundaryBits {
		p := new(big.Int).Lsh(big.NewInt(1), k)
		for d := int64(-1); d <= 1; d++ {
			v := new(big.Int).Add(p, big.NewInt(d))
			lits = append(lits, v.String())
			if k <= 128 {
				lits = append(lits, "0x"+v.Text(16))
			}
		}
	}
	// 2^53 neighbourhood (float64 fast path), 2^24 (float32)
	lits = append(lits, "9007199254740991", "9007199254740992", "9007199254740993", "16777215", "16777216", "16777217")
	return lits
}()

var midLits = roundingMidpoints()

var floatLits = []string{
	"0.0", "1.0", "2.0", "0.5", "1.5", "2.5", "0.1", "0.2", "0.3", "3.0", "10.0", "1e2", ".25", "1.",
	"1e308", "1.7976931348623157e308", "1.7976931348623158e308", "1.797693134862315807e308", "1.7976931348623159e308", "1e309",
	"2.2250738585072014e-308", "1e-308", "5e-324", "4.9e-324", "2.5e-324", "2.4e-324", "1e-400",
	"1e1000", "1e-1000", "1e5000", "1e-5000",
	"3.4028234663852886e38", "3.4028235677973366e38", "3.4028235677973367e38", "3.5e38", "1e39",
	"1.401298464324817e-45", "7.006492321624085e-46", "7.1e-46", "1e-50",
	"9007199254740993.0", "9007199254740992.5", "16777217.0", "16777216.5",
	"9223372036854775807.0", "9223372036854775808.0", "18446744073709551615.0", "18446744073709551616.0",
	"127.0", "128.0", "255.0", "256.0", "2147483648.0", "4294967296.0",
	"0x1p-1074", "0x1p-1075", "0x1p1023", "0x1.fffffffffffffp1023", "0x1p1024", "0x1p-2", "0x.8p1", "0x1p63", "0x1p64",
	"1e100", "1e-100", "123456789.123456789", "0.000001", "1e22", "1e23",
}

var imagLits = []string{"0i", "1i", "2i", "0.5i", "2.5i", "1e308i", "1e1000i", "1e-400i", "0123i", "0x10i", "1.5e38i", "3.5e38i", "128i", "9007199254740993i"}

var runeLits = []string{`'a'`, `'0'`, `'\x00'`, `'\n'`, `'é'`, `'\U0010FFFF'`, `'世'`, `'\377'`, `'\''`, `'\x7f'`, `'\x80'`, `'\uffff'`, `'\ud7ff'`}

var strLits = []string{`""`, `"a"`, `"b"`, `"ab"`, `"é"`, "`raw`", `"\x00"`, `"\xff"`, `"世界"`, `"a\nb"`, `"\u00e9"`, "`a\\n`"}

var shiftCounts = []string{"0", "1", "2", "7", "8", "15", "16", "31", "32", "33", "62", "63", "64", "65", "100", "127", "128", "500", "510", "511", "512", "513", "1000",
	"-1", "1.0", "2.0", "1.5", "uint(3)", "uint8(7)", "int(2)", "int8(-1)", "uint64(64)", "1<<70", "18446744073709551615", "18446744073709551616", "'\\x02'", "0i", "2+0i", "uint8(255)", "4294967296", "1e2", "1e10"}

// per-type boundary values (as untyped literals) that are representable, or just not.
func typeBoundary(t string) []string {
	switch t {
	case "int8":
		return []string{"-128", "-127", "-1", "0", "1", "126", "127", "-129", "128"}
	case "int16":
		return []string{"-32768", "-1", "0", "1", "32767", "-32769", "32768"}
	case "int32", "rune":
		return []string{"-2147483648", "-1", "0", "1", "2147483647", "-2147483649", "2147483648", "'a'"}
	case "int64", "int":
		return []string{"-9223372036854775808", "-9223372036854775807", "-1", "0", "1", "9223372036854775806", "9223372036854775807", "-9223372036854775809", "9223372036854775808", "4611686018427387904", "3037000500"}
	case "uint8", "byte":
		return []string{"0", "1", "2", "127", "128", "254", "255", "-1", "256"}
	case "uint16":
		return []string{"0", "1", "65535", "-1", "65536", "256"}
	case "uint32":
		return []string{"0", "1", "4294967295", "-1", "4294967296", "65536"}
	case "uint64", "uint", "uintptr":
		return []string{"0", "1", "18446744073709551615", "18446744073709551614", "9223372036854775808", "9223372036854775807", "-1", "18446744073709551616", "4294967296"}
	case "float32":
		return []string{"0", "1", "0.5", "0.1", "16777216", "16777217", "3.4028234663852886e38", "3.4028235677973366e38", "1.401298464324817e-45", "7.006492321624085e-46", "1e-50", "1e39", "-1.5", "1e38", "3"}
	case "float64":
		return []string{"0", "1", "0.5", "0.1", "9007199254740992", "9007199254740993", "1.7976931348623157e308", "1.797693134862315807e308", "5e-324", "2.5e-324", "2.4e-324", "1e-400", "1e309", "-1.5", "1e308", "3", "1e200"}
	case "complex64":
		return []string{"0", "1", "1i", "1+2i", "0.1i", "3.4028234663852886e38i", "1e39i", "16777217", "1e-50i", "2.5-0.5i"}
	case "complex128":
		return []string{"0", "1", "1i", "1+2i", "0.1i", "1.7976931348623157e308i", "1e309i", "9007199254740993", "1e-400i", "2.5-0.5i", "1e200+1e200i"}
	}
	return []string{"0", "1"}
}

type exprGen struct {
	r *rand.Rand
}

func (g *exprGen) pick(s []string) string { return s[g.r.Intn(len(s))] }

// untyped numeric literal leaf
func (g *exprGen) numLit() string {
	var s string
	switch n := g.r.Intn(100); {
	case n < 8:
		return g.pick(boundaryOperands)
	case n < 14:
		return g.pick(smallOperands)
	case n < 18:
		return g.pick(midLits)
	case n < 45:
		s = g.pick(intLits)
	case n < 75:
		s = g.pick(floatLits)
	case n < 85:
		s = g.pick(imagLits)
	default:
		s = g.pick(runeLits)
	}
	if g.r.Intn(6) == 0 {
		s = "-" + s
	}
	return s
}

// leaf of a numeric tree in typed context t ("" = untyped).
func (g *exprGen) numLeaf(t string) string {
	if t == "" || g.r.Intn(100) < 40 {
		if t != "" && g.r.Intn(100) < 75 {
			// an untyped operand that probably fits t
			return g.wrapNeg(g.pick(typeBoundary(t)))
		}
		return g.numLit()
	}
	tt := t
	if g.r.Intn(100) < 4 {
		tt = g.pick(numTypes) // mismatched operand type
	}
	if g.r.Intn(100) < 85 {
		return tt + "(" + g.pick(typeBoundary(tt)) + ")"
	}
	return tt + "(" + g.numLit() + ")"
}

func (g *exprGen) wrapNeg(s string) string {
	if strings.HasPrefix(s, "-") {
		return "(" + s + ")"
	}
	return s
}

var arithOps = []string{"+", "-", "*", "/", "%", "&", "|", "^", "&^", "+", "-", "*", "/"}
var cmpOps = []string{"==", "!=", "<", "<=", ">", ">="}

// num generates a numeric constant expression.
func (g *exprGen) num(depth int, t string) string {
	if depth <= 0 {
		return g.numLeaf(t)
	}
	switch n := g.r.Intn(100); {
	case n < 44:
		return "(" + g.num(depth-1, t) + " " + g.pick(arithOps) + " " + g.num(depth-1, t) + ")"
	case n < 54:
		op := g.pick([]string{"-", "-", "+", "^", "^"})
		return "(" + op + " " + g.num(depth-1, t) + ")"
	case n < 68:
		op := g.pick([]string{"<<", "<<", ">>"})
		cnt := g.pick(shiftCounts)
		if g.r.Intn(8) == 0 {
			cnt = g.num(depth-1, "")
		}
		return "(" + g.num(depth-1, t) + " " + op + " " + cnt + ")"
	case n < 80:
		// conversion; stays in the typed context if there is one
		to := t
		if to == "" || g.r.Intn(10) == 0 {
			to = g.pick(numTypes)
		}
		from := ""
		if g.r.Intn(2) == 0 {
			from = g.pick(numTypes)
		}
		return to + "(" + g.num(depth-1, from) + ")"
	case n < 84:
		return g.pick([]string{"real", "imag"}) + "(" + g.num(depth-1, g.pick([]string{"", "", "complex64", "complex128", t})) + ")"
	case n < 88:
		ft := g.pick([]string{"", "", "float32", "float64", t})
		return "complex(" + g.num(depth-1, ft) + ", " + g.num(depth-1, ft) + ")"
	case n < 90:
		s := "len(" + g.str(depth-1) + ")"
		if t != "" && g.r.Intn(2) == 0 {
			s = t + "(" + s + ")"
		}
		return s
	default:
		return g.numLeaf(t)
	}
}

func (g *exprGen) boolean(depth int) string {
	if depth <= 0 {
		return g.pick([]string{"true", "false"})
	}
	switch n := g.r.Intn(100); {
	case n < 55:
		t := ""
		if g.r.Intn(3) == 0 {
			t = g.pick(numTypes)
		}
		return "(" + g.num(depth-1, t) + " " + g.pick(cmpOps) + " " + g.num(depth-1, t) + ")"
	case n < 67:
		return "(" + g.str(depth-1) + " " + g.pick(cmpOps) + " " + g.str(depth-1) + ")"
	case n < 77:
		return "(" + g.boolean(depth-1) + " " + g.pick([]string{"&&", "||", "==", "!="}) + " " + g.boolean(depth-1) + ")"
	case n < 85:
		return "(! " + g.boolean(depth-1) + ")"
	case n < 90:
		return "bool(" + g.boolean(depth-1) + ")"
	case n < 94:
		// invalid on purpose: ordering of booleans, arithmetic on booleans
		return "(" + g.boolean(depth-1) + " " + g.pick([]string{"<", "+", "&", ">="}) + " " + g.boolean(depth-1) + ")"
	default:
		return g.pick([]string{"true", "false"})
	}
}

func (g *exprGen) str(depth int) string {
	if depth <= 0 {
		return g.pick(strLits)
	}
	switch n := g.r.Intn(100); {
	case n < 45:
		return "(" + g.str(depth-1) + " + " + g.str(depth-1) + ")"
	case n < 65:
		// string(integer constant)
		return "string(" + g.pick([]string{"65", "0x4e16", "'a'", "-1", "0x10FFFF", "0x110000", "0xD800", "1<<40", "rune(233)", "byte(97)", "int64(-5)", "uint64(1<<63)", "65.0", "1i", `"x"`}) + ")"
	case n < 75:
		return "string(" + g.str(depth-1) + ")"
	case n < 80:
		return "(" + g.str(depth-1) + " " + g.pick([]string{"-", "*", "&"}) + " " + g.str(depth-1) + ")"
	default:
		return g.pick(strLits)
	}
}

// wild mixes classes freely (mostly ill-typed expressions).
func (g *exprGen) wild(depth int) string {
	if depth <= 0 {
		switch g.r.Intn(4) {
		case 0:
			return g.pick(strLits)
		case 1:
			return g.pick([]string{"true", "false", "nil"})
		default:
			return g.numLit()
		}
	}
	switch g.r.Intn(5) {
	case 0:
		return "(" + g.pick([]string{"-", "+", "^", "!"}) + " " + g.wild(depth-1) + ")"
	case 1:
		return g.pick(AllTypes) + "(" + g.wild(depth-1) + ")"
	default:
		ops := append(append([]string{"&&", "||", "<<", ">>"}, arithOps...), cmpOps...)
		return "(" + g.wild(depth-1) + " " + g.pick(ops) + " " + g.wild(depth-1) + ")"
	}
}

// Expr is one generated expression with the declaration forms to try.
type Expr struct {
	Src   string   `json:"src"`
	Class string   `json:"class"`           // num | bool | str | wild
	Typed []string `json:"typed,omitempty"` // T for `const c T = E`
	Conv  []string `json:"conv,omitempty"`  // T for `const c = T(E)`
	Sites []string `json:"sites,omitempty"` // T for the implicit conversion sites (sites.go)
	Ops   []string `json:"ops,omitempty"`   // operator forms of the sequence programs (sequences.go); Class "seq" skips the plain declarations
}

func (g *exprGen) expr(maxDepth int, allTypes bool) Expr {
	depth := 1 + g.r.Intn(maxDepth)
	if g.r.Intn(3) != 0 {
		depth = maxDepth
	}
	var e Expr
	switch n := g.r.Intn(100); {
	case n < 66:
		t := ""
		if g.r.Intn(100) < 45 {
			t = g.pick(numTypes)
		}
		e = Expr{Src: g.num(depth, t), Class: "num"}
	case n < 86:
		e = Expr{Src: g.boolean(depth), Class: "bool"}
	case n < 94:
		e = Expr{Src: g.str(depth), Class: "str"}
	default:
		e = Expr{Src: g.wild(depth), Class: "wild"}
	}
	if allTypes {
		e.Typed = AllTypes
		e.Conv = AllTypes
	} else {
		// mostly a type of the right class, sometimes any basic type
		compatible := func() string {
			if g.r.Intn(100) < 20 {
				return g.pick(AllTypes)
			}
			switch e.Class {
			case "bool":
				return "bool"
			case "str":
				return "string"
			}
			return g.pick(numTypes)
		}
		e.Typed = []string{compatible()}
		e.Conv = []string{compatible()}
		if e.Class == "num" || e.Class == "wild" {
			e.Typed = append(e.Typed, g.pick(numTypes))
			e.Conv = append(e.Conv, g.pick(numTypes))
		}
		if e.Class == "num" && g.r.Intn(2) == 0 {
			// implicit conversion sites, mostly with the floating-point and complex types
			if g.r.Intn(3) == 0 {
				e.Sites = []string{g.pick(numTypes)}
			} else {
				e.Sites = []string{g.pick([]string{"float32", "complex64", "float64", "complex128"})}
			}
		}
	}
	return e
}

func (e Expr) String() string { return fmt.Sprintf("%s[%s]", e.Src, e.Class) }
