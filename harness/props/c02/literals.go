package c02

import "fmt"

// literalForms enumerates the number-literal syntax of the specification
// systematically (valid and invalid forms; the reference decides): every
// hexadecimal digit in every position of hexadecimal integer and
// floating-point literals, mantissas with and without integer and fractional
// part, exponent markers in both cases with both signs, underscores at every
// legal and illegal place, the 0x/0X, 0o/0O, 0b/0B prefixes, legacy octals and
// leading-zero decimals, and the imaginary form of each of them.
func literalForms() []Expr {
	seen := map[string]bool{}
	var out []Expr
	add := func(l string) {
		for _, s := range []string{l, l + "i"} {
			if !seen[s] {
				seen[s] = true
				out = append(out, Expr{Src: s, Class: "num"})
			}
		}
	}
	for _, d := range "0123456789abcdefABCDEF" {
		add(fmt.Sprintf("0x%c", d))
		add(fmt.Sprintf("0x1%c", d))
		add(fmt.Sprintf("0X%c0", d))
		add(fmt.Sprintf("0x%cp2", d))
		add(fmt.Sprintf("0x%c.8p0", d))
		add(fmt.Sprintf("0x1.%cp1", d))
		add(fmt.Sprintf("0x1.%c7p1", d))
		add(fmt.Sprintf("0x1.f%cp-1", d))
		add(fmt.Sprintf("0x1.fffffe%cfp1", d))
		add(fmt.Sprintf("0x.%cp3", d))
		add(fmt.Sprintf("0x%c.p3", d))
		add(fmt.Sprintf("0x_%c.%cP+1", d, d))
		add(fmt.Sprintf("0x1.%c", d))   // no exponent: invalid
		add(fmt.Sprintf("0x1.%ce1", d)) // 'e' is a digit here, still no p exponent
		add(fmt.Sprintf("0x1%cp1_0", d))
	}
	for _, d := range "0123456789" {
		add(fmt.Sprintf("%c", d))
		add(fmt.Sprintf("0%c", d))
		add(fmt.Sprintf("0%c.5", d))
		add(fmt.Sprintf("0%ce1", d))
		add(fmt.Sprintf("0o%c", d))
		add(fmt.Sprintf("0O1%c", d))
		add(fmt.Sprintf("0b%c", d))
		add(fmt.Sprintf("0B1%c", d))
		add(fmt.Sprintf("1%c_%c", d, d))
		add(fmt.Sprintf("1.%ce%c", d, d))
		add(fmt.Sprintf(".%c", d))
		add(fmt.Sprintf("%c.", d))
		add(fmt.Sprintf("1e-%c", d))
		add(fmt.Sprintf("1E+0%c", d))
		add(fmt.Sprintf("0_%c", d))
	}
	for _, l := range []string{
		"0", "00", "0_0", "0.0", "0e0", "0.", ".0", "1_000", "1_0.2_5e1_0", "1_000_000.000_001", "1__0", "1_", "_1", "1_.5", "1._5", "1e_3", "1_e3", "1e3_", "1e", "1e+", "1e-", "1.e3", ".5e-3", "1E3", "1e+03", "1.5E-0_1",
		"0x", "0X", "0x_", "0x_1", "0_x1", "0x1_", "0x1__2", "0x.p1", "0x1p", "0x1p+", "0x1p_1", "0x1.8", "0x1p1.5", "0x1P-2", "0X1.8P1", "0x.8p1", "0x8.p-1", "0x1p1_0", "0x1_f.a_bp1_0", "0x1._8p0", "0x1_.8p0", "0x1e1", "0x1e+1", "0x1.0e1", "0x1.ep", "0xep1", "0x1p0x1",
		"0o", "0o_7", "0o7_", "0o17", "0O17", "0o1_7", "0o8", "0o1.5", "0o1e1", "0o1p1", "017", "0_17", "018", "019.5", "08e1", "0128", "01_7", "01e1", "01.5",
		"0b", "0b_1", "0b1_", "0b101", "0B1_0", "0b12", "0b1.0", "0b1e1", "0b1p1",
		"1i", "0i", "0.i", ".5i", "1e3i", "1E-3i", "0x1p0i", "0x10i", "0b11i", "0o7i", "017i", "08i", "09.5i", "1_0i", "1ii", "1i1", "0x1.8i",
		"9223372036854775807", "9223372036854775808", "18446744073709551616", "0xffffffffffffffffffff", "0b1111111111111111111111111111111111111111111111111111111111111111111", "0o7777777777777777777777777", "1e400", "1e-400", "0x1p-2000", "0x1p2000", "1e4000", "0x1p100000",
	} {
		add(l)
	}
	return out
}
