// Package c14 checks that goroutine and channel programs agree with gc under
// every explored schedule and that the interpreter shows no data race.
//
// Oracles: gc reference output (programs whose gc output varies over 4 runs
// with different GOMAXPROCS are discarded), the Go race detector on the worker
// (reports are attributed to the case through the race log), in-program
// conservation and per-producer FIFO checks whose verdicts are part of the
// printed output. Reach: GOMAXPROCS 1..16 × seeded yields at the VM's yield sites.
package c14

import (
	"context"
	"fmt"
	"os"
	"path/filepath"
	"reflect"
	"runtime"
	"strings"
	"sync"
	"syscall"
	"time"

	"github.com/open2b/scriggo"
	"github.com/open2b/scriggo/native"

	"verif/core"
	"verif/gen/goconc"
	"verif/mon"
	"verif/oracle/gcref"
	"verif/props/c01"
)

type prop struct{}

func init() { core.Register(prop{}) }

func (prop) ID() string    { return "C14" }
func (prop) Level() string { return "exploration" }

type schedule struct {
	Procs int    `json:"procs"`
	Seed  uint64 `json:"seed"`
}

type caseData struct {
	Name      string     `json:"name"`
	Source    string     `json:"source"`
	WantOut   []byte     `json:"want_out"`
	Patterns  []string   `json:"patterns"`
	Schedules []schedule `json:"schedules"`
	Trace     bool       `json:"trace"` // record interleaving signatures (non-race pass)
}

func goBin() string {
	if g := os.Getenv("VGO"); g != "" {
		return g
	}
	return "go"
}

func (prop) Drive(d *core.Driver) error {
	n := d.N(40, 500)
	ns := d.N(6, 30)
	d.T.Rule = "deterministic concurrent programs (gen/goconc: pipelines, fan-in/out with (producer,seq) tags, ping-pong, semaphores, select over several ready channels, close broadcast, channel mutexes, generators with quit channels, goroutine trees) are run by gc (4 runs with GOMAXPROCS 2,1,4,16 must agree, else discarded) and by scriggo under schedules (GOMAXPROCS, seeded yields at VM yield sites); output must equal gc's on every schedule; the worker runs under the race detector. distinct_nontrivial counts distinct interleaving signatures (sha1 of the sequence of yield sites hit) observed in the trace pass plus distinct pattern combinations."
	d.T.Assumptions = []string{"gc is the reference semantics", "programs are data-race-free at source level by construction (communication only through channels)", "a race report counts only if it has a scriggo frame"}
	var sources []string
	var pats [][]string
	for i := 0; i < n; i++ {
		p := goconc.Generate(d.Rand(fmt.Sprintf("prog-%d", i)))
		// the init marker goes after the import declaration, before the first function
		sources = append(sources, strings.Replace(p.Source, "func ", gcref.InitMarker+"\nfunc ", 1))
		pats = append(pats, p.Patterns)
	}
	dir := filepath.Join(d.Scratch, "gc")
	outs, err := gcref.RunExtra(goBin(), dir, sources, 8, 4, map[string]string{"hostlib/hostlib.go": goconc.HostLibSource})
	os.RemoveAll(dir)
	if err != nil {
		return err
	}
	var raceCases, traceCases []core.Case
	discarded, unstable := 0, 0
	procsList := []int{1, 2, 3, 8, 16}
	for i, o := range outs {
		if !o.Built || o.TimedOut || o.Panic != "" || o.Fatal != "" {
			discarded++
			fmt.Printf("NOTE property=C14 program %d discarded: built=%v timeout=%v crash=%q %s\n", i, o.Built, o.TimedOut, o.Panic+o.Fatal, core.Truncate(o.BuildErr, 300))
			continue
		}
		if o.Unstable {
			unstable++
			continue
		}
		r := d.Rand(fmt.Sprintf("sched-%d", i))
		var sch []schedule
		for k := 0; k < ns; k++ {
			s := schedule{Procs: procsList[(k+i)%len(procsList)], Seed: r.Uint64() | 1}
			if k == 0 {
				s.Seed = 0 // one unperturbed schedule
			}
			sch = append(sch, s)
		}
		cd := caseData{Name: fmt.Sprintf("p%d", i), Source: sources[i], WantOut: []byte(o.Out), Patterns: pats[i], Schedules: sch}
		raceCases = append(raceCases, core.NewCase(fmt.Sprintf("race-p%d", i), cd))
		cd.Trace = true
		traceCases = append(traceCases, core.NewCase(fmt.Sprintf("trace-p%d", i), cd))
		if i < 2 {
			d.T.Sample(map[string]any{"id": cd.Name, "patterns": cd.Patterns, "schedules": sch[:2], "source": core.Truncate(cd.Source, 1200), "gc_output": string(cd.WantOut)})
		}
	}
	d.T.Set("programs", len(raceCases))
	d.T.Set("generator_discarded", discarded)
	d.T.Set("discarded_schedule_dependent_under_gc", unstable)
	if discarded*10 > n {
		return fmt.Errorf("generator defect: %d of %d programs unusable under gc", discarded, n)
	}
	// pass 1: race detector, no recording (recording would add happens-before edges)
	d.Run(raceCases, core.RunOpts{Race: true, CaseWall: 5 * time.Minute, Workers: 8})
	// pass 2: same schedules without the race detector, recording interleaving signatures
	d.Run(traceCases, core.RunOpts{CaseWall: 5 * time.Minute})
	d.T.Set("schedules_per_program", ns)
	return nil
}

func (prop) Work(c core.Case) core.Result {
	var cd caseData
	c.Decode(&cd)
	mon.Install()
	res := core.Result{Status: core.OK, Counts: map[string]int64{}}
	var prog *scriggo.Program
	var err error
	v, panicked, stack := core.Guard(func() {
		prog, err = scriggo.Build(scriggo.Files{"main.go": []byte(cd.Source)}, &scriggo.BuildOptions{AllowGoStmt: true, Packages: hostLib()})
	})
	if panicked {
		res.Status, res.Detail = core.Violation, fmt.Sprintf("Build panicked: %v\n--- source ---\n%s\n%s", v, cd.Source, stack)
		return res
	}
	if err != nil {
		res.Status, res.Detail = core.Violation, fmt.Sprintf("gc compiles and runs the program but scriggo.Build fails: %v\n--- source ---\n%s", err, cd.Source)
		return res
	}
	defer runtime.GOMAXPROCS(runtime.GOMAXPROCS(0))
	path := filepath.Join(os.Getenv("VERIF_SCRATCH"), "fd2.txt")
	for _, p := range cd.Patterns {
		res.Sigs = append(res.Sigs, "pattern:"+p)
	}
	for _, s := range cd.Schedules {
		runtime.GOMAXPROCS(s.Procs)
		mon.SetSchedule(s.Seed, cd.Trace)
		ctx, cancel := context.WithTimeout(context.Background(), 60*time.Second)
		var runErr error
		cpu0 := cpuMillis()
		out := c01.CaptureFD2(path, func() {
			v, panicked, stack = core.Guard(func() { runErr = prog.Run(&scriggo.RunOptions{Context: ctx}) })
		})
		expired := ctx.Err() != nil
		cancel()
		cpu := cpuMillis() - cpu0
		res.Evals++
		for k, n := range mon.Counters() {
			res.Counts[k] += n
		}
		if cd.Trace {
			sig, n := mon.TraceSignature()
			if n > 0 {
				res.Sigs = append(res.Sigs, "interleaving:"+sig)
			}
		}
		desc := fmt.Sprintf("schedule GOMAXPROCS=%d yield-seed=%d", s.Procs, s.Seed)
		switch {
		case panicked:
			res.Status, res.Detail = core.Violation, fmt.Sprintf("%s: Run panicked into the host: %v\n--- source ---\n%s\n%s", desc, v, cd.Source, stack)
			return res
		case expired && cpu < 2000:
			res.Status, res.Detail = core.Violation, fmt.Sprintf("%s: the program terminates under gc but under scriggo every goroutine was blocked (context expired after 60 s with %d ms CPU used); output so far %q\n--- source ---\n%s", desc, cpu, core.Truncate(out, 400), cd.Source)
			return res
		case expired:
			res.Status, res.Detail = core.Inconclusive, fmt.Sprintf("%s: did not finish within 60 s (%d ms CPU)", desc, cpu)
			return res
		case runErr != nil:
			res.Status, res.Detail = core.Violation, fmt.Sprintf("%s: gc runs the program to completion, scriggo returns %T: %v\n--- source ---\n%s", desc, runErr, runErr, cd.Source)
			return res
		case out != string(cd.WantOut):
			res.Status, res.Detail = core.Violation, fmt.Sprintf("%s: output differs from gc\n--- gc ---\n%s--- scriggo ---\n%s\n--- source ---\n%s", desc, cd.WantOut, core.Truncate(out, 3000), cd.Source)
			return res
		}
	}
	mon.SetSchedule(0, false)
	res.Counts["schedules_run"] = res.Evals
	return res
}

// hostLib is the scriggo side of gen/goconc.HostLibSource.
func hostLib() native.Packages {
	return native.Packages{goconc.HostLibPath: native.Package{Name: "hostlib", Declarations: native.Declarations{
		"Send": func(ch chan int, v int) { ch <- v },
		"SendAll": func(ch chan int, vs ...int) {
			for _, v := range vs {
				ch <- v
			}
		},
		"Add":    func(a, b int) int { return a + b },
		"Apply":  func(f func(int) int, v int) int { return f(v) },
		"Acc":    reflect.TypeOf(acc{}),
		"NewAcc": func() *acc { return &acc{} },
		"Label":  func(s string, n int) string { return s + string(rune('a'+n%26)) },
	}}}
}

func cpuMillis() int64 {
	var ru syscall.Rusage
	if syscall.Getrusage(syscall.RUSAGE_SELF, &ru) != nil {
		return 0
	}
	return (ru.Utime.Sec+ru.Stime.Sec)*1000 + int64(ru.Utime.Usec+ru.Stime.Usec)/1000
}

// acc is the scriggo side of hostlib.Acc.
type acc struct {
	mu sync.Mutex
	n  int
}

func (a *acc) Add(v int) {
	a.mu.Lock()
	a.n += v
	a.mu.Unlock()
}

func (a *acc) Get() int {
	a.mu.Lock()
	defer a.mu.Unlock()
	return a.n
}
