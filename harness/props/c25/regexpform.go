package c25

import (
	"bytes"
	"fmt"
	"io"
	"mime/multipart"
	"net/http"
	"net/textproto"
	"net/url"
	"reflect"
	"regexp"
	"sort"
	"strings"

	"github.com/open2b/scriggo/builtin"
)

var regexps = []string{``, `a`, `a*`, `a+`, `(a)(b)?`, `(?i)lorem`, `\s+`, `[a-c]`, `[^a]`, `^`, `$`, `\b`, `(scrig)go`, `(\w+)@(\w+)\.com`, `a|b`, `(a|ab)(c|bcd)`, `.`, `(?s).`, `\pL+`, `\d{2,3}`, `é`, `\xff`, `(?P<n>a)`, `(?U)a+`, `,\s*`,
	`(`, `)`, `[`, `a**`, `\`, `(?z)`, `a{1001}`, `a{2,1}`, `\8`, `[b-a]`, `(?<n>a)(?<n>b)`, "\xff", `\pX`, `x{1000}{1000}`, `(?i`, `*`, `+a`, `a{,}`, `\Q`, `[[:nope:]]`}

func init() {
	register(&checker{name: "RegExp", covers: []string{"RegExp", "Regexp"}, weight: 2,
		gen: func(g *G) Args {
			expr := g.pick(regexps)
			switch g.intn(8) {
			case 0:
				expr = g.str()
			case 1:
				expr = g.mutate(expr)
			case 2:
				expr = g.pick(regexps) + g.pick(regexps)
			}
			s := g.str()
			if g.intn(2) == 0 {
				s = g.small() + g.pick([]string{"scriggo", "ab", "abcd", "Lorem ipsum", "x@y.com", "12 345", "a,b, c"}) + g.small()
			}
			repl := g.pick([]string{"", "x", "$1", "${1}y", "$0$0", "$n", "$", "$$", "${", "$9", "[$1]", "\xff"})
			return sArgs(expr, s, repl).withI(g.smallInt(4))
		},
		check: func(a Args, e *env) verdict {
			expr, s, repl, n := a.str(0), a.str(1), a.str(2), a.int(0)
			var re builtin.Regexp
			panicked, pv, d := call(func() { re = builtin.RegExp(expr) })
			ref, rerr := regexp.Compile(expr)
			if rerr != nil {
				if !panicked {
					return bad("RegExp(%q) did not panic; the expression cannot be parsed (%v)", expr, rerr)
				}
				if _, isStr := pv.(string); !isStr {
					if _, isErr := pv.(error); !isErr {
						return bad("RegExp(%q) panics with a %T", expr, pv)
					}
				}
				return ok("panic-parse-error")
			}
			if panicked {
				return bad("RegExp(%q): %s; regexp.Compile accepts the expression", expr, d)
			}
			var v verdict
			if p, _, d := call(func() {
				up := func(m string) string { return "<" + strings.ToUpper(m) + ">" }
				switch {
				case re.Match(s) != ref.MatchString(s):
					v = bad("RegExp(%q).Match(%q) = %v, want %v", expr, s, re.Match(s), ref.MatchString(s))
				case re.Find(s) != ref.FindString(s):
					v = bad("RegExp(%q).Find(%q) = %q, want %q", expr, s, re.Find(s), ref.FindString(s))
				case !reflect.DeepEqual(re.FindAll(s, n), ref.FindAllString(s, n)):
					v = bad("RegExp(%q).FindAll(%q, %d) = %q, want %q", expr, s, n, re.FindAll(s, n), ref.FindAllString(s, n))
				case !reflect.DeepEqual(re.FindAllSubmatch(s, n), ref.FindAllStringSubmatch(s, n)):
					v = bad("RegExp(%q).FindAllSubmatch(%q, %d) = %q, want %q", expr, s, n, re.FindAllSubmatch(s, n), ref.FindAllStringSubmatch(s, n))
				case !reflect.DeepEqual(re.FindSubmatch(s), ref.FindStringSubmatch(s)):
					v = bad("RegExp(%q).FindSubmatch(%q) = %q, want %q", expr, s, re.FindSubmatch(s), ref.FindStringSubmatch(s))
				case re.ReplaceAll(s, repl) != ref.ReplaceAllString(s, repl):
					v = bad("RegExp(%q).ReplaceAll(%q, %q) = %q, want %q", expr, s, repl, re.ReplaceAll(s, repl), ref.ReplaceAllString(s, repl))
				case re.ReplaceAllFunc(s, up) != ref.ReplaceAllStringFunc(s, up):
					v = bad("RegExp(%q).ReplaceAllFunc(%q, upper) = %q, want %q", expr, s, re.ReplaceAllFunc(s, up), ref.ReplaceAllStringFunc(s, up))
				case !reflect.DeepEqual(re.Split(s, n), ref.Split(s, n)):
					v = bad("RegExp(%q).Split(%q, %d) = %q, want %q", expr, s, n, re.Split(s, n), ref.Split(s, n))
				default:
					// documentation-derived facts
					if m := re.Find(s); m != "" && (!re.Match(s) || !strings.Contains(s, m)) {
						v = bad("RegExp(%q).Find(%q) = %q but Match is %v", expr, s, m, re.Match(s))
						return
					}
					if all := re.FindAll(s, -1); re.Match(s) != (all != nil) {
						v = bad("RegExp(%q): Match(%q) = %v but FindAll = %q", expr, s, re.Match(s), all)
						return
					}
					if n == 0 && re.Split(s, 0) != nil {
						v = bad("RegExp(%q).Split(%q, 0) = %q, want nil", expr, s, re.Split(s, 0))
						return
					}
					v = ok(fmt.Sprintf("match=%v,groups=%d,n%s", re.Match(s), min(ref.NumSubexp(), 2), sign(n)))
				}
			}); p {
				return bad("method of RegExp(%q) on %q (repl %q, n %d): %s", expr, s, repl, n, d)
			}
			return v
		}})

	register(&checker{name: "FormData", covers: []string{"NewFormData", "FormData", "File", "Opener", "ErrBadRequest", "ErrRequestEntityTooLarge"}, weight: 1,
		gen:   func(g *G) Args { return g.formSpec() },
		check: checkForm})
}

// ---------------------------------------------------------------- FormData

// A request is described by S = [method, raw query, content type, body, field to look up]
// and I = [maxMemory]. Multipart bodies are written out in full in the body string, so
// that malformed variants can be expressed.
func (g *G) formSpec() Args {
	queries := []string{"", "a=b", "a=b&a=c&d=", "q=1&a=z", "x=%41%zz", "a=b;c=d", "a=%", "%=1", "=novalue", "a=b&&c", "é=ü", "a=+b+", "a=%2B", "a[]=1&a[]=2", "a=b&" + strings.Repeat("k=v&", 50)}
	fields := []string{"a", "q", "d", "f", "f1", "missing", "", "é", "a[]", "k"}
	method := g.pick([]string{"GET", "POST", "POST", "POST", "PUT", "PATCH", "DELETE", "HEAD"})
	query := g.pick(queries)
	var ctype, body string
	switch g.intn(8) {
	case 0: // no body
	case 1, 2: // urlencoded
		ctype = g.pick([]string{"application/x-www-form-urlencoded", "application/x-www-form-urlencoded; charset=utf-8", "APPLICATION/X-WWW-FORM-URLENCODED"})
		body = g.pick(queries)
	case 3, 4, 5: // multipart
		if g.avoid[scopeFormMultipartQuery] {
			query = ""
		}
		boundary := g.pick([]string{"xYzZY", "----WebKitFormBoundary7MA4YWxkTrZu0gW", "b"})
		var buf bytes.Buffer
		w := multipart.NewWriter(&buf)
		w.SetBoundary(boundary)
		for i, n := 0, g.intn(4); i < n; i++ {
			w.WriteField(g.pick(fields), g.small())
		}
		for i, n := 0, g.intn(3); i < n; i++ {
			h := textproto.MIMEHeader{}
			fname := g.pick([]string{"foo.txt", "é.bin", "", "a b.txt", "../x"})
			h.Set("Content-Disposition", fmt.Sprintf(`form-data; name=%q; filename=%q`, g.pick([]string{"f", "f1", "a"}), fname))
			if g.intn(3) > 0 {
				h.Set("Content-Type", g.pick([]string{"application/octet-stream", "text/plain; charset=utf-8", "image/png"}))
			}
			pw, _ := w.CreatePart(h)
			content := g.str()
			if g.intn(4) == 0 {
				content = strings.Repeat(content+"x", 200) // larger than a small maxMemory: spills to disk
			}
			io.WriteString(pw, content)
		}
		w.Close()
		body = buf.String()
		ctype = "multipart/form-data; boundary=" + boundary
		switch g.intn(10) {
		case 0:
			body = g.mutate(body)
		case 1:
			body = body[:g.intn(len(body)+1)]
		case 2:
			ctype = "multipart/form-data"
		case 3:
			ctype = "multipart/form-data; boundary="
		case 4:
			ctype = "multipart/form-data; boundary=other"
		case 5:
			ctype = "multipart/mixed; boundary=" + boundary
		}
	case 6: // odd content types
		ctype = g.pick([]string{"text/plain", "application/json", "application/x-www-form-urlencoded; charset", ";", "a/b/c", "\xff", "application/octet-stream"})
		body = g.pick(queries)
	default:
		ctype = "application/x-www-form-urlencoded"
		body = g.mutate(g.pick(queries))
	}
	maxMem := int64(g.pick2([]int{0, 1, 10, 1000, 1 << 20, -1}))
	return Args{S: []string{q(method), q(query), q(ctype), q(body), q(g.pick(fields))}, I: []int64{maxMem}}
}

func buildRequest(a Args) *http.Request {
	method, query, ctype, body := a.str(0), a.str(1), a.str(2), a.str(3)
	u := &url.URL{Scheme: "http", Host: "example.com", Path: "/form", RawQuery: query}
	r := &http.Request{Method: method, URL: u, Header: http.Header{}, Proto: "HTTP/1.1", ProtoMajor: 1, ProtoMinor: 1, Host: "example.com"}
	if ctype != "" {
		r.Header["Content-Type"] = []string{ctype}
	}
	r.Body = io.NopCloser(strings.NewReader(body))
	r.ContentLength = int64(len(body))
	return r
}

func sortedValues(m map[string][]string) string {
	keys := make([]string, 0, len(m))
	for k := range m {
		keys = append(keys, k)
	}
	sort.Strings(keys)
	var b strings.Builder
	for _, k := range keys {
		fmt.Fprintf(&b, "%q=%q ", k, m[k])
	}
	return b.String()
}

func containsAll(have, want []string) bool {
	cnt := map[string]int{}
	for _, x := range have {
		cnt[x]++
	}
	for _, x := range want {
		cnt[x]--
		if cnt[x] < 0 {
			return false
		}
	}
	return true
}

func removeAllForm(r *http.Request) {
	if r != nil && r.MultipartForm != nil {
		r.MultipartForm.RemoveAll()
	}
}

func checkForm(a Args, e *env) verdict {
	field, maxMem := a.str(4), a.I[0]
	desc := fmt.Sprintf("request %s /form?%s, Content-Type %q, body %q", a.str(0), a.str(1), a.str(2), core_truncate(a.str(3), 300))

	// ---- Value / Values without ParseMultipart
	ref := buildRequest(a)
	refErr := ref.ParseForm()
	sub := buildRequest(a)
	form := builtin.NewFormData(sub, maxMem)
	var val string
	var vals map[string][]string
	panicked, pv, d := call(func() { val = form.Value(field); vals = form.Values() })
	if refErr != nil {
		if !panicked {
			return bad("%s: Value/Values did not panic although the request is not valid (ParseForm: %v)", desc, refErr)
		}
		if _, isEsc := refErr.(url.EscapeError); isEsc || refErr.Error() == "invalid semicolon separator in query" {
			if pv != builtin.ErrBadRequest {
				return bad("%s: Value/Values panic with %#v, want ErrBadRequest (ParseForm: %v)", desc, pv, refErr)
			}
		}
		e.count("form_parse_panics")
		return ok("panic-bad-request")
	}
	if panicked {
		return bad("%s: Value/Values: %s; net/http parses the request without error", desc, d)
	}
	if !reflect.DeepEqual(map[string][]string(ref.Form), vals) && !(len(ref.Form) == 0 && len(vals) == 0) {
		return bad("%s: Values() = %s, want %s", desc, sortedValues(vals), sortedValues(ref.Form))
	}
	if val != ref.Form.Get(field) {
		return bad("%s: Value(%q) = %q, want %q", desc, field, val, ref.Form.Get(field))
	}
	if form.File(field) != nil {
		return bad("%s: File(%q) is not nil before ParseMultipart", desc, field)
	}

	// ---- ParseMultipart on a fresh request
	ref2 := buildRequest(a)
	ref2Err := ref2.ParseMultipartForm(maxMem)
	defer removeAllForm(ref2)
	sub2 := buildRequest(a)
	defer removeAllForm(sub2)
	form2 := builtin.NewFormData(sub2, maxMem)
	panicked, pv, d = call(func() { form2.ParseMultipart() })
	if ref2Err == http.ErrNotMultipart {
		if panicked {
			return bad("%s: ParseMultipart: %s; the body is not multipart/form-data, it is documented to do nothing", desc, d)
		}
		if len(vals) > 0 {
			return ok("not-multipart-values")
		}
		return ok("not-multipart-empty")
	}
	if ref2Err != nil {
		if !panicked {
			return bad("%s: ParseMultipart did not panic although the request is not valid (ParseMultipartForm: %v)", desc, ref2Err)
		}
		if ref2Err == http.ErrMissingBoundary && pv != builtin.ErrBadRequest {
			return bad("%s: ParseMultipart panics with %#v, want ErrBadRequest (missing boundary)", desc, pv)
		}
		e.count("form_multipart_panics")
		return ok("panic-bad-multipart")
	}
	if panicked {
		return bad("%s: ParseMultipart: %s; net/http parses the multipart body without error", desc, d)
	}
	// ParseMultipart can be called multiple times
	if p, _, d := call(func() { form2.ParseMultipart() }); p {
		return bad("%s: second ParseMultipart: %s", desc, d)
	}
	var mvals map[string][]string
	var files map[string][]builtin.File
	if p, _, d := call(func() { mvals = form2.Values(); files = form2.Files() }); p {
		return bad("%s: Values/Files after ParseMultipart: %s", desc, d)
	}
	// values: the multipart fields and (documented for Values) the URL query parameters
	for k, want := range ref2.MultipartForm.Value {
		if !containsAll(mvals[k], want) {
			return bad("%s: after ParseMultipart Values()[%q] = %q, want it to include the multipart values %q", desc, k, mvals[k], want)
		}
	}
	qv, _ := url.ParseQuery(a.str(1))
	for k, want := range qv {
		if !containsAll(mvals[k], want) {
			return bad("%s: after ParseMultipart Values() = %s lacks the URL query parameter %q=%q (documented: \"including both the URL field's query parameters and the POST form data\")", desc, sortedValues(mvals), k, want)
		}
	}
	for k := range mvals {
		if _, inQ := qv[k]; !inQ {
			if _, inM := ref2.MultipartForm.Value[k]; !inM {
				return bad("%s: after ParseMultipart Values() has the unknown key %q", desc, k)
			}
		}
	}
	if files == nil {
		return bad("%s: Files() is nil after ParseMultipart", desc)
	}
	nfiles := 0
	for k, fhs := range ref2.MultipartForm.File {
		got := files[k]
		if len(got) != len(fhs) {
			return bad("%s: Files()[%q] has %d files, want %d", desc, k, len(got), len(fhs))
		}
		for i, fh := range fhs {
			nfiles++
			f := got[i]
			if f.Name() != fh.Filename || f.Size() != int(fh.Size) || f.Type() != fh.Header.Get("Content-Type") {
				return bad("%s: file %q #%d: Name/Size/Type = %q/%d/%q, want %q/%d/%q", desc, k, i, f.Name(), f.Size(), f.Type(), fh.Filename, fh.Size, fh.Header.Get("Content-Type"))
			}
			op, isOpener := f.(builtin.Opener)
			if !isOpener {
				return bad("%s: file %q #%d does not implement Opener", desc, k, i)
			}
			rc, err := op.Open()
			if err != nil {
				return bad("%s: file %q #%d: Open: %v", desc, k, i, err)
			}
			gotB, _ := io.ReadAll(rc)
			rc.Close()
			wf, err := fh.Open()
			if err != nil {
				continue
			}
			wantB, _ := io.ReadAll(wf)
			wf.Close()
			if !bytes.Equal(gotB, wantB) || len(gotB) != f.Size() {
				return bad("%s: file %q #%d: content of %d bytes, want %d bytes (Size() = %d)", desc, k, i, len(gotB), len(wantB), f.Size())
			}
		}
		if first := form2.File(k); len(fhs) > 0 && (first == nil || first.Name() != fhs[0].Filename) {
			return bad("%s: File(%q) is not the first file of the field", desc, k)
		}
	}
	for k := range files {
		if _, okk := ref2.MultipartForm.File[k]; !okk {
			return bad("%s: Files() has the unknown field %q", desc, k)
		}
	}
	if form2.File("no-such-field") != nil {
		return bad("%s: File(\"no-such-field\") is not nil", desc)
	}
	cls := "multipart"
	if nfiles > 0 {
		cls += "-files"
	}
	if len(qv) > 0 {
		cls += "-with-query"
	}
	return ok(cls)
}
