package c25

import (
	"fmt"
	"html"
	"strings"
	"unicode"
	"unicode/utf8"

	"github.com/open2b/scriggo/builtin"
)

// ---------------------------------------------------------------- models

// isSep is the word-boundary definition of the standard library's strings.Title
// (documented there as "letters that begin words"): ASCII alphanumerics and underscore,
// Unicode letters and digits are not separators; of the rest only spaces are known separators.
func isSep(r rune) bool {
	if r <= 0x7F {
		switch {
		case '0' <= r && r <= '9', 'a' <= r && r <= 'z', 'A' <= r && r <= 'Z', r == '_':
			return false
		}
		return true
	}
	if unicode.IsLetter(r) || unicode.IsDigit(r) {
		return false
	}
	return unicode.IsSpace(r)
}

// runeNorm replaces every invalid byte by U+FFFD (what a rune-wise rewrite of a string does).
func runeNorm(s string) string { return string([]rune(s)) }

func classOf(s string) string {
	switch {
	case s == "":
		return "empty"
	case !utf8.ValidString(s):
		return "invalid-utf8"
	}
	for i := 0; i < len(s); i++ {
		if s[i] >= 0x80 {
			return "multibyte"
		}
	}
	return "ascii"
}

// capitalizeModel returns the acceptable results of Capitalize(s).
func capitalizeModel(s string) []string {
	for i := 0; i < len(s); {
		r, w := utf8.DecodeRuneInString(s[i:])
		if r == utf8.RuneError && w == 1 {
			// An invalid byte is not a separator. It has no upper case: leaving s as it is, or
			// rewriting the byte as U+FFFD (as the strings package does), are both accepted.
			return []string{s, s[:i] + "\uFFFD" + s[i+1:]}
		}
		if isSep(r) {
			i += w
			continue
		}
		return []string{s[:i] + string(unicode.ToUpper(r)) + s[i+w:]}
	}
	return []string{s}
}

func capitalizeAllModel(s string) string {
	var b strings.Builder
	prev := ' '
	for i := 0; i < len(s); {
		r, w := utf8.DecodeRuneInString(s[i:])
		if isSep(prev) {
			if r == utf8.RuneError && w == 1 {
				b.WriteString(s[i : i+1])
			} else {
				b.WriteRune(unicode.ToUpper(r))
			}
		} else {
			b.WriteString(s[i : i+w])
		}
		prev = r
		i += w
	}
	return b.String()
}

// percentDecode decodes %XX sequences; ok is false if the text contains anything but
// unreserved characters (RFC 3986: ALPHA / DIGIT / "-" / "." / "_" / "~") and well-formed escapes.
func percentDecode(s string) (out string, ok bool) {
	var b []byte
	hexv := func(c byte) int {
		switch {
		case '0' <= c && c <= '9':
			return int(c - '0')
		case 'a' <= c && c <= 'f':
			return int(c-'a') + 10
		case 'A' <= c && c <= 'F':
			return int(c-'A') + 10
		}
		return -1
	}
	for i := 0; i < len(s); i++ {
		c := s[i]
		switch {
		case 'a' <= c && c <= 'z', 'A' <= c && c <= 'Z', '0' <= c && c <= '9', c == '-', c == '.', c == '_', c == '~':
			b = append(b, c)
		case c == '%':
			if i+2 >= len(s) {
				return "", false
			}
			h, l := hexv(s[i+1]), hexv(s[i+2])
			if h < 0 || l < 0 {
				return "", false
			}
			b = append(b, byte(h<<4|l))
			i += 2
		default:
			return "", false
		}
	}
	return string(b), true
}

// kebabViolation checks the documentation-derived predicates of a kebab-case form.
func kebabViolation(s, out string) string {
	if strings.HasPrefix(out, "-") || strings.HasSuffix(out, "-") || strings.Contains(out, "--") {
		return "result has a leading, trailing or doubled dash"
	}
	// alphanumeric content is preserved, in order, in lower case
	var want, got []rune
	for _, r := range s {
		if unicode.IsLower(r) || unicode.IsDigit(r) || unicode.IsUpper(r) {
			want = append(want, unicode.ToLower(r))
		}
	}
	for _, r := range out {
		if r == '-' {
			continue
		}
		if unicode.IsUpper(r) && unicode.ToLower(r) != r {
			return fmt.Sprintf("result contains the upper-case letter %q", r)
		}
		got = append(got, r)
	}
	// a '-' of the input is a separator, not content; cased letters and digits are content
	if string(got) != string(want) {
		return fmt.Sprintf("letters and digits of the result are %q, want those of the input in lower case %q", string(got), string(want))
	}
	return ""
}

func isKebabASCII(s string) bool {
	if s == "" {
		return false
	}
	prevDash := true
	for i := 0; i < len(s); i++ {
		c := s[i]
		switch {
		case 'a' <= c && c <= 'z', '0' <= c && c <= '9':
			prevDash = false
		case c == '-':
			if prevDash {
				return false
			}
			prevDash = true
		default:
			return false
		}
	}
	return !prevDash
}

func naiveIndex(s, sub string) int {
	for i := 0; i+len(sub) <= len(s); i++ {
		if s[i:i+len(sub)] == sub {
			return i
		}
	}
	return -1
}

func naiveLastIndex(s, sub string) int {
	for i := len(s) - len(sub); i >= 0; i-- {
		if s[i:i+len(sub)] == sub {
			return i
		}
	}
	return -1
}

// ---------------------------------------------------------------- checkers

// strictAbbreviateShort: an input that already fits in n runes is returned (right-trimmed)
// unchanged. This is the reading of "abbreviates s to almost n runes" that the package's
// own test table takes for ASCII input.
const strictAbbreviateShort = true

const abbrevSpaces = " \n\r\t\f"

func init() {
	register(&checker{name: "Abbreviate", covers: []string{"Abbreviate"}, weight: 3,
		gen: func(g *G) Args {
			s := g.str()
			n := 0
			switch g.intn(4) {
			case 0:
				n = utf8.RuneCountInString(strings.TrimRight(s, abbrevSpaces)) + g.intn(5) - 2
			case 1:
				n = g.smallInt(12)
			case 2:
				n = g.intn(utf8.RuneCountInString(s) + 2)
			default:
				n = g.int()
			}
			return sArgs(s).withI(n)
		},
		check: func(a Args, e *env) verdict {
			s, n := a.str(0), a.int(0)
			var out string
			if p, _, d := call(func() { out = builtin.Abbreviate(s, n) }); p {
				return bad("Abbreviate(%q, %d): %s", s, n, d)
			}
			limit := n
			if limit < 0 {
				limit = 0
			}
			if rc := utf8.RuneCountInString(out); rc > limit {
				return bad("Abbreviate(%q, %d) = %q has %d runes, more than n", s, n, out, rc)
			}
			t := strings.TrimRight(s, abbrevSpaces)
			tl := utf8.RuneCountInString(t)
			if tl > n {
				if n >= 3 {
					if !strings.HasSuffix(out, "...") {
						return bad("Abbreviate(%q, %d) = %q: s is longer than n runes but the result does not end with \"...\"", s, n, out)
					}
					if body := strings.TrimSuffix(out, "..."); !strings.HasPrefix(s, body) {
						return bad("Abbreviate(%q, %d) = %q: the text before \"...\" is not a prefix of s", s, n, out)
					}
					return ok("abbreviated-" + classOf(s))
				}
				return ok("n<3")
			}
			if out != t && out != s {
				if strictAbbreviateShort {
					return bad("Abbreviate(%q, %d) = %q: s has only %d runes (<= n) but is not returned as it is", s, n, out, tl)
				}
				e.count("abbreviate_short_input_changed")
			}
			return ok("fits-" + classOf(s))
		}})

	register(&checker{name: "Capitalize", covers: []string{"Capitalize"}, weight: 3,
		gen: func(g *G) Args { return sArgs(g.str()) },
		check: func(a Args, e *env) verdict {
			s := a.str(0)
			var out string
			if p, _, d := call(func() { out = builtin.Capitalize(s) }); p {
				return bad("Capitalize(%q): %s", s, d)
			}
			want := capitalizeModel(s)
			for _, w := range want {
				if out == w {
					ch := "unchanged"
					if out != s {
						ch = "changed"
					}
					return ok(classOf(s) + "-" + ch)
				}
			}
			return bad("Capitalize(%q) = %q, want %q (first non-separator in upper case, everything else untouched)", s, out, want[0])
		}})

	register(&checker{name: "CapitalizeAll", covers: []string{"CapitalizeAll"}, weight: 3,
		gen: func(g *G) Args { return sArgs(g.str()) },
		check: func(a Args, e *env) verdict {
			s := a.str(0)
			var out string
			if p, _, d := call(func() { out = builtin.CapitalizeAll(s) }); p {
				return bad("CapitalizeAll(%q): %s", s, d)
			}
			want := capitalizeAllModel(s)
			if runeNorm(out) != runeNorm(want) {
				return bad("CapitalizeAll(%q) = %q, want %q (first letter of each word in upper case)", s, out, want)
			}
			// independent cross-check with strings.Title where title case and upper case coincide
			same := true
			for _, r := range s {
				if unicode.ToTitle(r) != unicode.ToUpper(r) {
					same = false
				}
			}
			if same {
				if t := strings.Title(s); runeNorm(out) != runeNorm(t) { //nolint:staticcheck
					return bad("CapitalizeAll(%q) = %q, strings.Title gives %q", s, out, t)
				}
			}
			ch := "unchanged"
			if out != s {
				ch = "changed"
			}
			return ok(classOf(s) + "-" + ch)
		}})

	register(&checker{name: "ToKebab", covers: []string{"ToKebab"}, weight: 3,
		gen: func(g *G) Args {
			if g.intn(5) == 0 {
				ws := []string{"foo", "b", "x1", "42", "a", "http2", "z"}
				var parts []string
				for i, n := 0, 1+g.intn(4); i < n; i++ {
					parts = append(parts, g.pick(ws))
				}
				return sArgs(strings.Join(parts, "-"))
			}
			return sArgs(g.str())
		},
		check: func(a Args, e *env) verdict {
			s := a.str(0)
			var out string
			if p, _, d := call(func() { out = builtin.ToKebab(s) }); p {
				return bad("ToKebab(%q): %s", s, d)
			}
			if !utf8.ValidString(s) {
				// only "no panic" is required for malformed input
				return ok("invalid-utf8")
			}
			if v := kebabViolation(s, out); v != "" {
				return bad("ToKebab(%q) = %q: %s", s, out, v)
			}
			if isKebabASCII(s) {
				if out != s {
					return bad("ToKebab(%q) = %q: the input is already in kebab case", s, out)
				}
				return ok("already-kebab")
			}
			for _, ex := range kebabExamples {
				if s == ex[0] && out != ex[1] {
					return bad("ToKebab(%q) = %q, want %q", s, out, ex[1])
				}
			}
			ch := "unchanged"
			if out != s {
				ch = "changed"
			}
			return ok(classOf(s) + "-" + ch)
		}})

	register(&checker{name: "ToLowerUpper", covers: []string{"ToLower", "ToUpper"},
		gen: func(g *G) Args { return sArgs(g.str()) },
		check: func(a Args, e *env) verdict {
			s := a.str(0)
			var lo, up string
			if p, _, d := call(func() { lo, up = builtin.ToLower(s), builtin.ToUpper(s) }); p {
				return bad("ToLower/ToUpper(%q): %s", s, d)
			}
			if lo != strings.ToLower(s) {
				return bad("ToLower(%q) = %q, strings.ToLower gives %q", s, lo, strings.ToLower(s))
			}
			if up != strings.ToUpper(s) {
				return bad("ToUpper(%q) = %q, strings.ToUpper gives %q", s, up, strings.ToUpper(s))
			}
			// rune-wise model from the documentation ("all Unicode letters mapped to their lower case")
			var ml, mu []rune
			for _, r := range s {
				ml = append(ml, unicode.ToLower(r))
				mu = append(mu, unicode.ToUpper(r))
			}
			if runeNorm(lo) != string(ml) || runeNorm(up) != string(mu) {
				return bad("ToLower/ToUpper(%q) = %q / %q, rune-wise mapping gives %q / %q", s, lo, up, string(ml), string(mu))
			}
			return ok(classOf(s))
		}})

	register(&checker{name: "RuneCount", covers: []string{"RuneCount"},
		gen: func(g *G) Args { return sArgs(g.str()) },
		check: func(a Args, e *env) verdict {
			s := a.str(0)
			var n int
			if p, _, d := call(func() { n = builtin.RuneCount(s) }); p {
				return bad("RuneCount(%q): %s", s, d)
			}
			want := 0
			for range s { // erroneous and short encodings are single runes of width 1
				want++
			}
			if n != want {
				return bad("RuneCount(%q) = %d, want %d", s, n, want)
			}
			return ok(classOf(s))
		}})

	register(&checker{name: "QueryEscape", covers: []string{"QueryEscape"}, weight: 3,
		gen: func(g *G) Args { return sArgs(g.str()) },
		check: func(a Args, e *env) verdict {
			s := a.str(0)
			var out string
			if p, _, d := call(func() { out = builtin.QueryEscape(s) }); p {
				return bad("QueryEscape(%q): %s", s, d)
			}
			dec, okk := percentDecode(out)
			if !okk {
				return bad("QueryEscape(%q) = %q contains something else than unreserved characters and %%XX escapes", s, out)
			}
			if dec != s {
				return bad("QueryEscape(%q) = %q percent-decodes to %q", s, out, dec)
			}
			// "safely placed inside a URL query": no query metacharacter may survive
			if strings.ContainsAny(out, "&=+#?/;: ") {
				return bad("QueryEscape(%q) = %q contains a query metacharacter", s, out)
			}
			if out == s {
				return ok("verbatim")
			}
			return ok("escaped-" + classOf(s))
		}})

	register(&checker{name: "HtmlEscape", covers: []string{"HtmlEscape"},
		gen: func(g *G) Args {
			if g.intn(2) == 0 {
				return sArgs(g.str() + g.pick([]string{"<", ">", "&", "\"", "'", "&amp;", "<a href='x'>"}) + g.str())
			}
			return sArgs(g.str())
		},
		check: func(a Args, e *env) verdict {
			s := a.str(0)
			var out string
			if p, _, d := call(func() { out = string(builtin.HtmlEscape(s)) }); p {
				return bad("HtmlEscape(%q): %s", s, d)
			}
			if want := html.EscapeString(s); out != want {
				return bad("HtmlEscape(%q) = %q, want %q", s, out, want)
			}
			if html.UnescapeString(out) != s {
				return bad("HtmlEscape(%q) = %q does not unescape to the input", s, out)
			}
			if out != s {
				return ok("escaped")
			}
			return ok("verbatim")
		}})

	// ---- two-string predicates and searches
	register(&checker{name: "Search", covers: []string{"HasPrefix", "HasSuffix", "Index", "IndexAny", "LastIndex"}, weight: 2,
		gen: func(g *G) Args {
			s := g.str()
			if g.intn(2) == 0 {
				s = g.small()
			}
			return sArgs(s, g.sub(s))
		},
		check: func(a Args, e *env) verdict {
			s, t := a.str(0), a.str(1)
			var hp, hs bool
			var ix, ia, li int
			if p, _, d := call(func() {
				hp, hs = builtin.HasPrefix(s, t), builtin.HasSuffix(s, t)
				ix, ia, li = builtin.Index(s, t), builtin.IndexAny(s, t), builtin.LastIndex(s, t)
			}); p {
				return bad("HasPrefix/HasSuffix/Index/IndexAny/LastIndex(%q, %q): %s", s, t, d)
			}
			whp := len(s) >= len(t) && s[:len(t)] == t
			whs := len(s) >= len(t) && s[len(s)-len(t):] == t
			if hp != whp || hp != strings.HasPrefix(s, t) {
				return bad("HasPrefix(%q, %q) = %v, want %v", s, t, hp, whp)
			}
			if hs != whs || hs != strings.HasSuffix(s, t) {
				return bad("HasSuffix(%q, %q) = %v, want %v", s, t, hs, whs)
			}
			if w := naiveIndex(s, t); ix != w || ix != strings.Index(s, t) {
				return bad("Index(%q, %q) = %d, want %d", s, t, ix, w)
			}
			if w := naiveLastIndex(s, t); li != w || li != strings.LastIndex(s, t) {
				return bad("LastIndex(%q, %q) = %d, want %d", s, t, li, w)
			}
			if w := strings.IndexAny(s, t); ia != w {
				return bad("IndexAny(%q, %q) = %d, want %d", s, t, ia, w)
			}
			if utf8.ValidString(s) && utf8.ValidString(t) {
				w := -1
				for i, r := range s {
					if strings.ContainsRune(t, r) {
						w = i
						break
					}
				}
				if ia != w {
					return bad("IndexAny(%q, %q) = %d, first code point of chars is at %d", s, t, ia, w)
				}
			}
			return ok(fmt.Sprintf("prefix=%v,suffix=%v,found=%v,any=%v", hp, hs, ix >= 0, ia >= 0))
		}})

	register(&checker{name: "Trims", covers: []string{"Trim", "TrimLeft", "TrimRight", "TrimPrefix", "TrimSuffix"}, weight: 2,
		gen: func(g *G) Args {
			s := g.str()
			if g.intn(2) == 0 {
				s = g.small()
			}
			return sArgs(s, g.sub(s))
		},
		check: func(a Args, e *env) verdict {
			s, t := a.str(0), a.str(1)
			var tr, tl, trr, tp, ts string
			if p, _, d := call(func() {
				tr, tl, trr = builtin.Trim(s, t), builtin.TrimLeft(s, t), builtin.TrimRight(s, t)
				tp, ts = builtin.TrimPrefix(s, t), builtin.TrimSuffix(s, t)
			}); p {
				return bad("Trim*(%q, %q): %s", s, t, d)
			}
			if tr != strings.Trim(s, t) || tl != strings.TrimLeft(s, t) || trr != strings.TrimRight(s, t) {
				return bad("Trim/TrimLeft/TrimRight(%q, %q) = %q / %q / %q, strings gives %q / %q / %q", s, t, tr, tl, trr, strings.Trim(s, t), strings.TrimLeft(s, t), strings.TrimRight(s, t))
			}
			wp, ws := s, s
			if len(s) >= len(t) && s[:len(t)] == t {
				wp = s[len(t):]
			}
			if len(s) >= len(t) && s[len(s)-len(t):] == t {
				ws = s[:len(s)-len(t)]
			}
			if tp != wp || ts != ws {
				return bad("TrimPrefix/TrimSuffix(%q, %q) = %q / %q, want %q / %q", s, t, tp, ts, wp, ws)
			}
			if utf8.ValidString(s) && utf8.ValidString(t) {
				// model: remove leading/trailing code points contained in cutset
				rs := []rune(s)
				i, j := 0, len(rs)
				for i < j && strings.ContainsRune(t, rs[i]) {
					i++
				}
				wl := string(rs[i:])
				for j > i && strings.ContainsRune(t, rs[j-1]) {
					j--
				}
				wb := string(rs[i:j])
				k := len(rs)
				for k > 0 && strings.ContainsRune(t, rs[k-1]) {
					k--
				}
				wr := string(rs[:k])
				if tl != wl || tr != wb || trr != wr {
					return bad("TrimLeft/Trim/TrimRight(%q, %q) = %q / %q / %q, code-point model gives %q / %q / %q", s, t, tl, tr, trr, wl, wb, wr)
				}
			}
			return ok(fmt.Sprintf("trim=%v,left=%v,right=%v,prefix=%v,suffix=%v", tr != s, tl != s, trr != s, tp != s, ts != s))
		}})

	register(&checker{name: "Replace", covers: []string{"Replace", "ReplaceAll"}, weight: 2,
		gen: func(g *G) Args {
			s := g.small()
			if g.intn(3) == 0 {
				s = g.str()
			}
			return sArgs(s, g.sub(s), g.small()).withI(g.smallInt(5))
		},
		check: func(a Args, e *env) verdict {
			s, old, nw, n := a.str(0), a.str(1), a.str(2), a.int(0)
			var r1, r2 string
			if p, _, d := call(func() { r1, r2 = builtin.Replace(s, old, nw, n), builtin.ReplaceAll(s, old, nw) }); p {
				return bad("Replace/ReplaceAll(%q, %q, %q, %d): %s", s, old, nw, n, d)
			}
			if w := strings.Replace(s, old, nw, n); r1 != w {
				return bad("Replace(%q, %q, %q, %d) = %q, want %q", s, old, nw, n, r1, w)
			}
			if w := strings.ReplaceAll(s, old, nw); r2 != w {
				return bad("ReplaceAll(%q, %q, %q) = %q, want %q", s, old, nw, r2, w)
			}
			if old != "" {
				// model: first n non-overlapping instances, left to right
				var b strings.Builder
				rest, k := s, 0
				for n < 0 || k < n {
					i := naiveIndex(rest, old)
					if i < 0 {
						break
					}
					b.WriteString(rest[:i])
					b.WriteString(nw)
					rest = rest[i+len(old):]
					k++
				}
				b.WriteString(rest)
				if r1 != b.String() {
					return bad("Replace(%q, %q, %q, %d) = %q, model gives %q", s, old, nw, n, r1, b.String())
				}
			}
			return ok(fmt.Sprintf("n%s,changed=%v,emptyold=%v", sign(n), r1 != s, old == ""))
		}})

	register(&checker{name: "Splits", covers: []string{"Split", "SplitAfter", "SplitN", "SplitAfterN", "Join"}, weight: 2,
		gen: func(g *G) Args {
			s := g.small()
			if g.intn(3) == 0 {
				s = g.str()
			}
			return sArgs(s, g.sub(s)).withI(g.smallInt(6))
		},
		check: func(a Args, e *env) verdict {
			s, sep, n := a.str(0), a.str(1), a.int(0)
			var sp, sa, sn, san []string
			var joined string
			if p, _, d := call(func() {
				sp, sa = builtin.Split(s, sep), builtin.SplitAfter(s, sep)
				sn, san = builtin.SplitN(s, sep, n), builtin.SplitAfterN(s, sep, n)
				joined = builtin.Join(sp, sep)
			}); p {
				return bad("Split*/Join(%q, %q, %d): %s", s, sep, n, d)
			}
			eq := func(a, b []string) bool {
				if (a == nil) != (b == nil) || len(a) != len(b) {
					return false
				}
				for i := range a {
					if a[i] != b[i] {
						return false
					}
				}
				return true
			}
			if !eq(sp, strings.Split(s, sep)) || !eq(sa, strings.SplitAfter(s, sep)) || !eq(sn, strings.SplitN(s, sep, n)) || !eq(san, strings.SplitAfterN(s, sep, n)) {
				return bad("Split/SplitAfter/SplitN/SplitAfterN(%q, %q, %d) = %q / %q / %q / %q, strings gives %q / %q / %q / %q", s, sep, n, sp, sa, sn, san,
					strings.Split(s, sep), strings.SplitAfter(s, sep), strings.SplitN(s, sep, n), strings.SplitAfterN(s, sep, n))
			}
			// documentation-derived facts
			manual := ""
			for i, x := range sp {
				if i > 0 {
					manual += sep
				}
				manual += x
			}
			if joined != manual {
				return bad("Join(%q, %q) = %q, want %q", sp, sep, joined, manual)
			}
			if utf8.ValidString(s) || sep != "" {
				if joined != s {
					return bad("Join(Split(%q, %q), sep) = %q, want the input", s, sep, joined)
				}
				if c := strings.Join(sa, ""); c != s {
					return bad("concatenation of SplitAfter(%q, %q) = %q, want the input", s, sep, c)
				}
			}
			if sep != "" && naiveIndex(s, sep) < 0 && (len(sp) != 1 || sp[0] != s) {
				return bad("Split(%q, %q) = %q, want a slice with only s (sep not present)", s, sep, sp)
			}
			if s == "" && sep == "" && len(sp) != 0 {
				return bad("Split(\"\", \"\") = %q, want an empty slice", sp)
			}
			if n == 0 && (sn != nil || san != nil) {
				return bad("SplitN/SplitAfterN(%q, %q, 0) = %v / %v, want nil", s, sep, sn, san)
			}
			if n > 0 && (len(sn) > n || len(san) > n) {
				return bad("SplitN/SplitAfterN(%q, %q, %d) return more than n substrings: %q / %q", s, sep, n, sn, san)
			}
			if n < 0 && (!eq(sn, sp) || !eq(san, sa)) {
				return bad("SplitN/SplitAfterN(%q, %q, %d) differ from Split/SplitAfter", s, sep, n)
			}
			return ok(fmt.Sprintf("n%s,parts%d,emptysep=%v", sign(n), min(len(sp), 4), sep == ""))
		}})

	register(&checker{name: "JoinElems", covers: []string{"Join"},
		gen: func(g *G) Args {
			var ss []string
			for i, n := 0, g.intn(5); i < n; i++ {
				ss = append(ss, g.str())
			}
			ss = append(ss, g.small()) // last one is the separator
			return sArgs(ss...)
		},
		check: func(a Args, e *env) verdict {
			all := a.strs()
			elems, sep := all[:len(all)-1], all[len(all)-1]
			var out string
			if p, _, d := call(func() { out = builtin.Join(elems, sep) }); p {
				return bad("Join(%q, %q): %s", elems, sep, d)
			}
			want := ""
			for i, x := range elems {
				if i > 0 {
					want += sep
				}
				want += x
			}
			if out != want {
				return bad("Join(%q, %q) = %q, want %q", elems, sep, out, want)
			}
			return ok(fmt.Sprintf("elems%d", len(elems)))
		}})
}

func sign(n int) string {
	switch {
	case n < 0:
		return "<0"
	case n == 0:
		return "=0"
	}
	return ">0"
}

// kebabExamples are the conversions shown by the package's own documentation/tests; they
// pin the word-boundary rules that the structural predicates above leave open.
var kebabExamples = [][2]string{
	{"AaBbCc", "aa-bb-cc"}, {"aBc", "a-bc"}, {"aBC", "a-bc"}, {"abC", "ab-c"}, {"aaBBBcc", "aa-bb-bcc"}, {"AAbb", "a-abb"},
	{"HTTPServer", "http-server"}, {"userID", "user-id"}, {"fooBar", "foo-bar"}, {"foo_bar", "foo-bar"}, {"foo bar", "foo-bar"},
	{"Aa Bbb C", "aa-bbb-c"}, {"A€B", "a-b"}, {"eÈè", "e-èè"},
}
