package c25

import (
	"fmt"
	"math"
	"reflect"
	"sort"
	"strings"

	"github.com/open2b/scriggo/builtin"
	"github.com/open2b/scriggo/native"
)

// catalog holds named values for the any-typed parameters (readable witnesses).
var catalog = map[string]func() any{
	"nil":          func() any { return nil },
	"int":          func() any { return 5 },
	"string":       func() any { return "abc" },
	"array":        func() any { return [3]int{3, 1, 2} },
	"ptr-to-slice": func() any { return &[]int{3, 1, 2} },
	"map":          func() any { return map[string]int{"a": 1} },
	"struct":       func() any { return recA{A: 1} },
	"func":         func() any { return func() {} },
	"chan":         func() any { return make(chan int) },
	"nil-slice":    func() any { return []int(nil) },
	"empty-slice":  func() any { return []string{} },
	"ints":         func() any { return []int{3, -1, 2, math.MinInt, math.MaxInt, 2} },
	"strings":      func() any { return []string{"b", "", "a", "é", "B", "\xff", "ab"} },
	"floats": func() any {
		return []float64{2, math.NaN(), -1, math.Inf(1), math.Inf(-1), 0, math.Copysign(0, -1), math.NaN()}
	},
	"runes":               func() any { return []rune{'b', 'a', 'é', 0, -1} },
	"bytes":               func() any { return []byte{3, 255, 0, 1} },
	"htmls":               func() any { return []native.HTML{"<b>", "<a>", ""} },
	"csss":                func() any { return []native.CSS{"b", "a"} },
	"jss":                 func() any { return []native.JS{"b", "a"} },
	"jsons":               func() any { return []native.JSON{"2", "1"} },
	"markdowns":           func() any { return []native.Markdown{"b", "a"} },
	"bools":               func() any { return []bool{true, false, true} },
	"uints":               func() any { return []uint{3, 0, math.MaxUint} },
	"int8s":               func() any { return []int8{3, -128, 127} },
	"float32s":            func() any { return []float32{2, float32(math.NaN()), -1} },
	"complexes":           func() any { return []complex128{2 + 1i, 1, 2} },
	"named-ints":          func() any { return namedInts{3, 1, 2} },
	"named-strs":          func() any { return []namedStr{"b", "a"} },
	"structs":             func() any { return []recA{{A: 2, B: "x"}, {A: 1, B: "y"}, {A: 2, B: "a"}} },
	"struct-ptrs":         func() any { return []*recA{{A: 2}, nil, {A: 1}} },
	"arrays":              func() any { return [][2]int{{2, 1}, {1, 2}, {1, 1}} },
	"anys-mixed":          func() any { return []any{1, "a", nil, 2.5, true, []int{1}, nil} },
	"anys-ints":           func() any { return []any{3, 1, 2} },
	"errors":              func() any { return []error{fmt.Errorf("b"), nil, fmt.Errorf("a")} },
	"nested-equal-len":    func() any { return [][]int{{2, 1}, {1, 2}, {1, 1}} },
	"nested-ragged":       func() any { return [][]int{{1}, {1, 2}, {}, {0, 5, 6}} },
	"nested-ragged-2":     func() any { return [][]string{{"a"}, {"a", "b"}} },
	"nested-nil":          func() any { return [][]int{nil, {1}, nil} },
	"maps":                func() any { return []map[string]int{{"a": 1}, {"b": 2}} },
	"maps-with-nil":       func() any { return []map[string]int{nil, {"b": 2}} },
	"maps-all-nil":        func() any { return []map[string]int{nil, nil} },
	"funcs":               func() any { return []func(){func() {}, func() {}} },
	"funcs-with-nil":      func() any { return []func(){nil, func() {}} },
	"chans":               func() any { return []chan int{make(chan int), nil, make(chan int)} },
	"structs-with-map":    func() any { return []struct{ M map[string]int }{{map[string]int{"a": 1}}, {map[string]int{"b": 1}}} },
	"structs-with-slice":  func() any { return []struct{ S []int }{{[]int{1, 2}}, {[]int{1}}} },
	"anys-maps":           func() any { return []any{map[string]int{"a": 1}, map[string]int{"b": 1}} },
	"anys-ragged-slices":  func() any { return []any{[]int{1, 2}, []int{1}} },
	"unsafe-pointers":     func() any { return []uintptr{3, 1} },
	"single":              func() any { return []map[string]int{{"a": 1}} },
	"interfaces-of-funcs": func() any { return []any{func() {}, func() {}} },
}

var catalogNames []string

func init() {
	for k := range catalog {
		catalogNames = append(catalogNames, k)
	}
	sort.Strings(catalogNames)
}

// multiset returns a canonical multiset description of the elements of a slice.
func multiset(v reflect.Value) []string {
	out := make([]string, v.Len())
	for i := range out {
		out[i] = elemKey(v.Index(i))
	}
	sort.Strings(out)
	return out
}

// elemKey identifies an element: by address for reference kinds, by %#v otherwise.
func elemKey(e reflect.Value) string {
	switch e.Kind() {
	case reflect.Func, reflect.Chan, reflect.Map, reflect.Pointer, reflect.UnsafePointer:
		if e.IsNil() {
			return "nil"
		}
		return fmt.Sprintf("%s@%x", e.Kind(), e.Pointer())
	case reflect.Interface:
		if e.IsNil() {
			return "nil-iface"
		}
		return "iface:" + elemKey(e.Elem())
	case reflect.Slice:
		if e.IsNil() {
			return "nil-slice"
		}
		return fmt.Sprintf("slice@%x+%d", e.Pointer(), e.Len())
	case reflect.Float32, reflect.Float64:
		return fmt.Sprintf("%x", math.Float64bits(e.Float()))
	}
	return fmt.Sprintf("%#v", e.Interface())
}

func copySlice(v any) any {
	rv := reflect.ValueOf(v)
	if rv.Kind() != reflect.Slice || rv.IsNil() {
		return v
	}
	c := reflect.MakeSlice(rv.Type(), rv.Len(), rv.Len())
	reflect.Copy(c, rv)
	return c.Interface()
}

func isSliceValue(v any) bool { return v != nil && reflect.TypeOf(v).Kind() == reflect.Slice }

func (g *G) sliceSpec() string {
	if g.intn(3) == 0 {
		return "cat:" + g.pick(catalogNames)
	}
	return fmt.Sprintf("gen:%d", g.r.Int63())
}

// genSlice builds a random slice (or sometimes a non-slice) from a seed.
func genSlice(seed int64) any {
	g := &G{r: randFrom(seed)}
	n := g.intn(9)
	switch g.intn(16) {
	case 0:
		s := make([]int, n)
		for i := range s {
			s[i] = g.intn(7) - 3
		}
		return s
	case 1:
		s := make([]string, n)
		for i := range s {
			s[i] = g.small()
		}
		return s
	case 2:
		s := make([]float64, n)
		for i := range s {
			s[i] = g.float()
		}
		return s
	case 3:
		s := make([]rune, n)
		for i := range s {
			s[i] = g.rune()
		}
		return s
	case 4:
		return []byte(g.str())
	case 5:
		s := make([]native.HTML, n)
		for i := range s {
			s[i] = native.HTML(g.small())
		}
		return s
	case 6:
		s := make([]native.Markdown, n)
		for i := range s {
			s[i] = native.Markdown(g.small())
		}
		return s
	case 7:
		s := make([]any, n)
		for i := range s {
			s[i] = g.anyValue(1)
		}
		return s
	case 8:
		s := make([][]int, n)
		for i := range s {
			if g.intn(5) > 0 {
				s[i] = make([]int, g.intn(4))
				for j := range s[i] {
					s[i][j] = g.intn(3)
				}
			}
		}
		return s
	case 9:
		s := make([]recA, n)
		for i := range s {
			s[i] = recA{A: g.intn(3), B: g.small()}
			if g.intn(2) == 0 {
				s[i].C = make([]float64, g.intn(3))
			}
		}
		return s
	case 10:
		s := make([]map[string]int, n)
		for i := range s {
			if g.intn(3) > 0 {
				s[i] = map[string]int{g.small(): i}
			}
		}
		return s
	case 11:
		s := make([]*int, n)
		for i := range s {
			if g.intn(3) > 0 {
				x := g.intn(5)
				s[i] = &x
			}
		}
		return s
	case 12:
		s := make([]bool, n)
		for i := range s {
			s[i] = g.intn(2) == 0
		}
		return s
	case 13:
		s := make([]uint16, n)
		for i := range s {
			s[i] = uint16(g.intn(5))
		}
		return s
	case 14:
		s := make(namedInts, n)
		for i := range s {
			s[i] = g.intn(5)
		}
		return s
	}
	return g.anyValue(2) // mostly not a slice
}

func sliceFromSpec(spec string) any {
	if strings.HasPrefix(spec, "gen:") {
		var n int64
		fmt.Sscanf(strings.TrimPrefix(spec, "gen:"), "%d", &n)
		return genSlice(n)
	}
	return valueFromSpec(spec)
}

// naturalLess returns the ascending order of the element types whose natural order is evident.
func naturalLess(v any) func(i, j int) bool {
	switch s := v.(type) {
	case []string:
		return func(i, j int) bool { return s[i] < s[j] }
	case []int:
		return func(i, j int) bool { return s[i] < s[j] }
	case []rune:
		return func(i, j int) bool { return s[i] < s[j] }
	case []byte:
		return func(i, j int) bool { return s[i] < s[j] }
	case []float64:
		return func(i, j int) bool { return s[i] < s[j] } // NaN: never less, never greater
	case []native.HTML:
		return func(i, j int) bool { return s[i] < s[j] }
	case []native.CSS:
		return func(i, j int) bool { return s[i] < s[j] }
	case []native.JS:
		return func(i, j int) bool { return s[i] < s[j] }
	case []native.JSON:
		return func(i, j int) bool { return s[i] < s[j] }
	case []native.Markdown:
		return func(i, j int) bool { return s[i] < s[j] }
	}
	return nil
}

func init() {
	register(&checker{name: "Reverse", covers: []string{"Reverse"},
		gen: func(g *G) Args { return Args{V: g.sliceSpec()} },
		check: func(a Args, e *env) verdict {
			v := sliceFromSpec(a.V)
			if v == nil {
				// nil is "not a slice", yet the obvious no-op; either behaviour is accepted
				call(func() { builtin.Reverse(v) })
				return ok("")
			}
			before := copySlice(v)
			panicked, _, d := call(func() { builtin.Reverse(v) })
			if !isSliceValue(v) {
				if !panicked {
					return bad("Reverse(%s) did not panic; documented to panic when the argument is not a slice", describe(v))
				}
				return ok("panic-non-slice-" + kindClass(v))
			}
			if panicked {
				return bad("Reverse(%s): %s; the argument is a slice", describe(before), d)
			}
			bv, av := reflect.ValueOf(before), reflect.ValueOf(v)
			n := bv.Len()
			for i := 0; i < n; i++ {
				if elemKey(av.Index(i)) != elemKey(bv.Index(n-1-i)) {
					return bad("Reverse(%s) gives %s: element %d is not the former element %d", describe(before), describe(v), i, n-1-i)
				}
			}
			cls := "len>1"
			if n <= 1 {
				cls = "len<=1"
			}
			return ok(cls + "-" + reflect.TypeOf(v).Elem().Kind().String())
		}})

	register(&checker{name: "Sort", covers: []string{"Sort"}, weight: 2,
		gen: func(g *G) Args { return Args{V: g.sliceSpec(), I: []int64{int64(g.intn(3))}} },
		check: func(a Args, e *env) verdict {
			v := sliceFromSpec(a.V)
			mode := a.int(0) // 0: natural order (nil less), 1: less by %v text, 2: descending by position key
			if v == nil {
				call(func() { builtin.Sort(v, nil) })
				return ok("")
			}
			before := copySlice(v)
			var less func(i, j int) bool
			if isSliceValue(v) && mode > 0 {
				rv := reflect.ValueOf(v)
				key := func(i int) string { return fmt.Sprintf("%v", rv.Index(i).Interface()) }
				if mode == 1 {
					less = func(i, j int) bool { return key(i) < key(j) }
				} else {
					less = func(i, j int) bool { return key(i) > key(j) }
				}
			}
			panicked, _, d := call(func() { builtin.Sort(v, less) })
			if !isSliceValue(v) {
				if !panicked {
					return bad("Sort(%s) did not panic; documented to panic when the argument is not a slice", describe(v))
				}
				return ok("panic-non-slice-" + kindClass(v))
			}
			if panicked {
				return bad("Sort(%s, less=%s): %s; the argument is a slice (the only documented panic is for non-slices)", describe(before), lessName(mode), d)
			}
			bv, av := reflect.ValueOf(before), reflect.ValueOf(v)
			if strings.Join(multiset(bv), "\x00") != strings.Join(multiset(av), "\x00") {
				return bad("Sort(%s, less=%s) gives %s, which is not a permutation of the input", describe(before), lessName(mode), describe(v))
			}
			order := less
			if order == nil {
				order = naturalLess(v)
			}
			if order != nil {
				for i := 0; i+1 < av.Len(); i++ {
					if order(i+1, i) {
						return bad("Sort(%s, less=%s) gives %s: element %d should be ordered before element %d", describe(before), lessName(mode), describe(v), i+1, i)
					}
				}
				return ok(lessName(mode) + "-ordered-" + reflect.TypeOf(v).Elem().Kind().String())
			}
			return ok(lessName(mode) + "-permutation-" + reflect.TypeOf(v).Elem().Kind().String())
		}})
}

func lessName(mode int) string {
	switch mode {
	case 0:
		return "nil"
	case 1:
		return "ascending-by-text"
	}
	return "descending-by-text"
}
