package c25

import (
	"encoding/json"
	"fmt"
	"math"
	"math/rand"
	"strconv"
	"strings"

	"github.com/open2b/scriggo/native"

	"verif/core"
)

// G is the seeded input generator of one batch.
type G struct {
	r     *rand.Rand
	avoid map[string]bool
}

func newG(seed int64, name string, avoid map[string]bool) *G {
	return &G{r: core.Rand(seed, "c25/"+name), avoid: avoid}
}

func (g *G) intn(n int) int { return g.r.Intn(n) }
func (g *G) pick(ss []string) string {
	return ss[g.r.Intn(len(ss))]
}

// Letters whose case mappings change the encoded length, have no mapping, are title case,
// or are otherwise awkward; plus separators of several kinds.
var specialRunes = []rune{
	'ı', 'İ', 'ſ', 'ɐ', 'Ɐ', 'ⱥ', 'Ⱥ', 'ⱦ', 'Ȿ', 'ɀ', 'ß', 'ẞ', 'ǅ', 'ǆ', 'Ǆ', 'K', 'Å', 'ϒ', 'ῼ', 'ᾳ', 'ﬁ', 'µ', 'ÿ', 'Ÿ',
	'é', 'È', 'è', 'ö', 'Ω', 'ω', 'я', 'Я', '日', '本', 'א', '٣', '५', 'Ⅷ', 'ⅷ', '𝐀', '𐐨', '𐐀', '€', '✓', '😀',
	'\u00a0', '\u2028', '\u2029', '\u3000', '\u200b', '\ufeff', '\ufffd', '\u0301', '\U0010ffff', 0x80, 0x7ff, 0x800, 0xffff, 0x10000,
}

var invalidSeqs = []string{"\xff", "\xfe", "\x80", "\xbf", "\xc0\xaf", "\xc3", "\xe2\x82", "\xf0\x9f\x98", "\xed\xa0\x80", "\xf4\x90\x80\x80", "\xc1\xbf", "\xe0\x80\xaf", "\xf8\x88\x80\x80\x80"}

var asciiWords = []string{"lorem", "ipsum", "Dolor", "SIT", "amet", "a", "B", "x1", "HTTPServer", "userID", "fooBar", "foo_bar", "foo-bar", "42", "3D", "e", "Go"}

var asciiSeps = []string{" ", "  ", "\t", "\n", "\r\n", "\f", "\v", ",", ", ", ".", ". ", "-", "_", "/", "'", "\"", "!", "(", ")", ";", ":", "?", "&", "=", "+", "%", "#", "~", "*", "<", ">", "@", "\x00", "\x7f"}

// str returns a string of a random category.
func (g *G) str() string {
	switch g.intn(12) {
	case 0:
		return ""
	case 1, 2:
		return g.words(1 + g.intn(6))
	case 3:
		return g.unicodeStr(1 + g.intn(8))
	case 4:
		return g.bytesStr(1 + g.intn(12))
	case 5:
		return g.mixed(1 + g.intn(10))
	case 6:
		return g.invalidStr()
	case 7:
		// single "character" strings: the boundary where a lot of index arithmetic goes wrong
		switch g.intn(3) {
		case 0:
			return string(rune(g.intn(128)))
		case 1:
			return string(specialRunes[g.intn(len(specialRunes))])
		}
		return string([]byte{byte(g.intn(256))})
	case 8:
		return g.words(8 + g.intn(40))
	case 9:
		return g.mixed(10 + g.intn(60))
	case 10:
		return strings.Repeat(g.pick(asciiSeps), g.intn(4)) + g.unicodeStr(1+g.intn(3)) + strings.Repeat(g.pick(asciiSeps), g.intn(4))
	}
	return g.small()
}

func (g *G) words(n int) string {
	var b strings.Builder
	if g.intn(4) == 0 {
		b.WriteString(g.pick(asciiSeps))
	}
	for i := 0; i < n; i++ {
		if i > 0 {
			b.WriteString(g.pick(asciiSeps))
		}
		b.WriteString(g.pick(asciiWords))
	}
	if g.intn(3) == 0 {
		b.WriteString(strings.Repeat(g.pick(asciiSeps), 1+g.intn(3)))
	}
	return b.String()
}

func (g *G) rune() rune {
	switch g.intn(5) {
	case 0:
		return rune(g.intn(128))
	case 1, 2:
		return specialRunes[g.intn(len(specialRunes))]
	case 3:
		r := rune(g.intn(0x3000))
		return r
	}
	r := rune(g.intn(0x110000))
	if r >= 0xd800 && r < 0xe000 {
		r = 0xe9
	}
	return r
}

func (g *G) unicodeStr(n int) string {
	rs := make([]rune, n)
	for i := range rs {
		rs[i] = g.rune()
	}
	return string(rs)
}

func (g *G) bytesStr(n int) string {
	b := make([]byte, n)
	for i := range b {
		b[i] = byte(g.intn(256))
	}
	return string(b)
}

func (g *G) invalidStr() string {
	var b strings.Builder
	for i, n := 0, 1+g.intn(4); i < n; i++ {
		switch g.intn(3) {
		case 0:
			b.WriteString(g.pick(asciiWords))
		case 1:
			b.WriteString(g.pick(invalidSeqs))
		default:
			b.WriteString(g.pick(asciiSeps))
		}
	}
	if g.intn(2) == 0 {
		return g.pick(invalidSeqs) + b.String()
	}
	return b.String() + g.pick(invalidSeqs)
}

func (g *G) mixed(n int) string {
	var b strings.Builder
	for i := 0; i < n; i++ {
		switch g.intn(6) {
		case 0:
			b.WriteString(g.pick(asciiWords))
		case 1:
			b.WriteString(g.pick(asciiSeps))
		case 2:
			b.WriteRune(g.rune())
		case 3:
			b.WriteByte(byte(g.intn(256)))
		case 4:
			b.WriteString(g.pick(invalidSeqs))
		default:
			b.WriteByte(byte('a' + g.intn(26)))
		}
	}
	return b.String()
}

var smallAlphabet = []string{"a", "b", "ab", "é", " ", ",", "\xff", "", "a"}

// small returns a string over a tiny alphabet, so that substrings, prefixes and cutsets
// of two such strings meet often.
func (g *G) small() string {
	var b strings.Builder
	for i, n := 0, g.intn(9); i < n; i++ {
		b.WriteString(g.pick(smallAlphabet))
	}
	return b.String()
}

// sub returns a string related to s: a substring, a prefix, a suffix, or an unrelated small string.
func (g *G) sub(s string) string {
	if len(s) == 0 || g.intn(4) == 0 {
		return g.small()
	}
	i := g.intn(len(s) + 1)
	j := i + g.intn(len(s)-i+1)
	switch g.intn(4) {
	case 0:
		return s[:j]
	case 1:
		return s[i:]
	}
	return s[i:j]
}

var boundaryInts = []int{0, 1, -1, 2, -2, 3, 4, 5, 7, 8, 10, 16, 35, 36, 37, 62, 64, 100, 255, 256, 999, 1000, 1001, 1 << 16, math.MaxInt32, math.MinInt32, math.MaxInt32 + 1, math.MaxInt64, math.MinInt64, math.MaxInt64 - 1, math.MinInt64 + 1}

func (g *G) int() int {
	switch g.intn(4) {
	case 0:
		return boundaryInts[g.intn(len(boundaryInts))]
	case 1:
		return g.intn(41) - 20
	case 2:
		return int(g.r.Uint64())
	}
	return g.intn(2001) - 1000
}

// smallInt returns an int in [-3, n].
func (g *G) smallInt(n int) int { return g.intn(n+4) - 3 }

var boundaryFloats = []float64{0, math.Copysign(0, -1), 1, -1, 0.5, 0.1, 1.0 / 3, 2, 10, 100, 1e21, 1e-7, 123456789.125, math.MaxFloat64, -math.MaxFloat64, math.SmallestNonzeroFloat64, math.Inf(1), math.Inf(-1), math.NaN(), math.MaxInt64, math.Pi, 1e308, 5e-324, 2.2250738585072014e-308}

func (g *G) float() float64 {
	switch g.intn(4) {
	case 0:
		return boundaryFloats[g.intn(len(boundaryFloats))]
	case 1:
		return math.Float64frombits(g.r.Uint64())
	case 2:
		return float64(g.intn(2001)-1000) / float64(1+g.intn(64))
	}
	return g.r.NormFloat64() * math.Pow(10, float64(g.intn(40)-20))
}

// ---------------------------------------------------------------- values of type any

type recA struct {
	A int
	B string `json:"b,omitempty" yaml:"b,omitempty"`
	C []float64
	D *bool
	e int
}

type recB struct {
	Name  string         `json:"name" yaml:"name"`
	Inner recA           `json:"inner" yaml:"inner"`
	M     map[string]int `json:"m" yaml:"m"`
	Any   any            `json:"any" yaml:"any"`
}

type namedInts []int
type namedStr string

// plainValue returns JSON-like data: nil, bool, float64/int, string, []any, map[string]any.
// With ints=true numbers are ints (YAML) otherwise float64 (JSON decoding).
func (g *G) plainValue(depth int, ints bool, validUTF8 bool) any {
	k := g.intn(8)
	if depth <= 0 && k >= 6 {
		k = g.intn(6)
	}
	switch k {
	case 0:
		return nil
	case 1:
		return g.intn(2) == 0
	case 2, 3:
		if ints {
			switch g.intn(3) {
			case 0:
				return boundaryInts[g.intn(len(boundaryInts))]
			default:
				return g.intn(2001) - 1000
			}
		}
		f := g.float()
		if math.IsNaN(f) || math.IsInf(f, 0) {
			f = 1.5
		}
		return f
	case 4, 5:
		s := g.str()
		if validUTF8 {
			s = strings.ToValidUTF8(s, "?")
		}
		return s
	case 6:
		n := g.intn(4)
		out := make([]any, n)
		for i := range out {
			out[i] = g.plainValue(depth-1, ints, validUTF8)
		}
		return out
	}
	n := g.intn(4)
	out := map[string]any{}
	for i := 0; i < n; i++ {
		key := g.str()
		if validUTF8 {
			key = strings.ToValidUTF8(key, "?")
		}
		out[key] = g.plainValue(depth-1, ints, validUTF8)
	}
	return out
}

// anyValue returns a Go value of an arbitrary kind (acyclic).
func (g *G) anyValue(depth int) any {
	k := g.intn(30)
	if depth <= 0 && k >= 18 {
		k = g.intn(18)
	}
	switch k {
	case 0:
		return nil
	case 1:
		return g.intn(2) == 0
	case 2:
		return g.int()
	case 3:
		return int8(g.int())
	case 4:
		return uint16(g.int())
	case 5:
		return uint64(g.r.Uint64())
	case 6:
		return g.float()
	case 7:
		return float32(g.float())
	case 8, 9:
		return g.str()
	case 10:
		return namedStr(g.str())
	case 11:
		return native.HTML(g.str())
	case 12:
		return native.JSON(g.jsonDoc(2))
	case 13:
		return []byte(g.str())
	case 14:
		return complex(g.float(), 1)
	case 15:
		return json.Number(strconv.Itoa(g.int()))
	case 16:
		return rune(g.rune())
	case 17:
		return uintptr(g.intn(1000))
	case 18:
		n := g.intn(4)
		out := make([]any, n)
		for i := range out {
			out[i] = g.anyValue(depth - 1)
		}
		return out
	case 19:
		out := map[string]any{}
		for i, n := 0, g.intn(4); i < n; i++ {
			out[g.str()] = g.anyValue(depth - 1)
		}
		return out
	case 20:
		out := make([]int, g.intn(5))
		for i := range out {
			out[i] = g.int()
		}
		return out
	case 21:
		out := make([]string, g.intn(5))
		for i := range out {
			out[i] = g.str()
		}
		return out
	case 22:
		out := map[int]string{}
		for i, n := 0, g.intn(4); i < n; i++ {
			out[g.intn(10)] = g.str()
		}
		return out
	case 23:
		return g.recA()
	case 24:
		v := g.recA()
		return &v
	case 25:
		return recB{Name: g.str(), Inner: g.recA(), M: map[string]int{g.str(): g.int()}, Any: g.anyValue(depth - 1)}
	case 26:
		return namedInts{g.int(), g.int()}
	case 27:
		return [2]string{g.str(), g.str()}
	case 28:
		switch g.intn(3) {
		case 0:
			return make(chan int)
		case 1:
			return func() {}
		}
		return map[[2]int]int{{1, 2}: 3}
	}
	var p *int
	if g.intn(2) == 0 {
		x := g.int()
		p = &x
	}
	return p
}

func (g *G) recA() recA {
	v := recA{A: g.int(), B: g.str(), e: 7}
	for i, n := 0, g.intn(3); i < n; i++ {
		v.C = append(v.C, float64(g.intn(100))/4)
	}
	if g.intn(2) == 0 {
		b := g.intn(2) == 0
		v.D = &b
	}
	return v
}

// valueFromSpec materialises Args.V.
func valueFromSpec(spec string) any {
	switch {
	case strings.HasPrefix(spec, "cat:"):
		f := catalog[strings.TrimPrefix(spec, "cat:")]
		if f == nil {
			panic("c25: unknown catalog value " + spec)
		}
		return f()
	case strings.HasPrefix(spec, "seed:"):
		n, err := strconv.ParseInt(strings.TrimPrefix(spec, "seed:"), 10, 64)
		if err != nil {
			panic("c25: bad value spec " + spec)
		}
		g := &G{r: rand.New(rand.NewSource(n))}
		return g.anyValue(3)
	case strings.HasPrefix(spec, "plain:"):
		n, err := strconv.ParseInt(strings.TrimPrefix(spec, "plain:"), 10, 64)
		if err != nil {
			panic("c25: bad value spec " + spec)
		}
		g := &G{r: rand.New(rand.NewSource(n))}
		return g.plainValue(3, true, true)
	}
	panic("c25: bad value spec " + spec)
}

func (g *G) valueSpec() string { return fmt.Sprintf("seed:%d", g.r.Int63()) }

// ---------------------------------------------------------------- JSON / YAML documents

func (g *G) jsonDoc(depth int) string {
	v := g.plainValue(depth, false, true)
	b, err := json.Marshal(v)
	if err != nil {
		return "null"
	}
	return string(b)
}

var jsonSnippets = []string{``, ` `, `null`, `true`, `false`, `0`, `-0`, `1e999`, `1.5`, `"a"`, `"\ud800"`, `"é"`, `[]`, `{}`, `[1,2,3]`, `{"a":1,"b":[true,null,{"c":"d"}]}`,
	`{"a":1,"a":2}`, `{"b":1,"a":2}`, `[1,]`, `{"a"}`, `{a:1}`, `'a'`, `nul`, `[`, `]`, `{"a":`, `"abc`, `01`, `1.`, `.5`, `+1`, `NaN`, `Infinity`, "\ufeffnull", "\xff", "\"\xff\"", `{"A":1,"b":"x","C":[1.5,2],"D":true}`, `{"A":"wrong"}`, `{"name":"n","inner":{"A":3},"m":{"k":1},"any":[1,"2"]}`, `[1,2,"3"]`, `"12"`, `12`, `1e3`, `3.7`, `-9223372036854775808`, `9223372036854775808`, `{"A":1e400}`}

// jsonText returns a JSON text: valid, snippet, or a mutation of a valid document.
func (g *G) jsonText() string {
	switch g.intn(6) {
	case 0:
		return g.pick(jsonSnippets)
	case 1, 2:
		return g.jsonDoc(3)
	case 3:
		ws := []string{" ", "\n", "\t", "\r", "\n\n ", ""}
		return g.pick(ws) + g.jsonDoc(2) + g.pick(ws)
	case 4:
		return g.mutate(g.jsonDoc(3))
	}
	return g.mutate(g.pick(jsonSnippets))
}

// mutate applies a small byte-level change.
func (g *G) mutate(s string) string {
	if len(s) == 0 {
		return g.str()
	}
	b := []byte(s)
	i := g.intn(len(b))
	switch g.intn(5) {
	case 0:
		return string(b[:i])
	case 1:
		return string(append(b[:i:i], b[i+1:]...))
	case 2:
		b[i] = byte(g.intn(256))
		return string(b)
	case 3:
		ins := []string{"{", "}", "[", "]", ",", ":", "\"", "\\", "\xff", " ", "\n", "0", "-", "&", "*", "!", "|", ">", "#", "%", "@", "`", "\t", "- ", ": "}
		return string(b[:i]) + g.pick(ins) + string(b[i:])
	}
	j := g.intn(len(b))
	b[i], b[j] = b[j], b[i]
	return string(b)
}

var wsPool = []string{"", " ", "  ", "\t", " \t", "\n", "\r", "\r\n", " \n", "\t\r", "    ", "\x00", "a", "-", " a", "\xff", "\xfe ", "\xa0", "\u00a0", "\u2028", "\v", "\f", "\x1f", "\x7f", "\x80", "/*", "//"}

// wsArg returns a prefix/indent argument: mostly whitespace, sometimes arbitrary.
func (g *G) wsArg() string {
	switch g.intn(5) {
	case 0, 1:
		return g.pick(wsPool)
	case 2:
		var b strings.Builder
		for i, n := 0, g.intn(5); i < n; i++ {
			b.WriteString(g.pick([]string{" ", "\t", "\n", "\r"}))
		}
		return b.String()
	case 3:
		return string([]byte{byte(g.intn(256))})
	}
	return g.pick(wsPool) + g.pick(wsPool)
}
