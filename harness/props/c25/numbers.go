package c25

import (
	"fmt"
	"math"
	"strconv"
	"strings"

	"github.com/open2b/scriggo/builtin"
)

func sameFloat(a, b float64) bool {
	if math.IsNaN(a) || math.IsNaN(b) {
		return math.IsNaN(a) && math.IsNaN(b)
	}
	return math.Float64bits(a) == math.Float64bits(b)
}

var numberTexts = []string{"", "0", "-0", "+0", "1", "-1", "+1", "007", "12", "1_000", "0x10", "0X10", "-0x10", "0b11", "0o17", "017", "1e3", "1E3", "1e-3", "1.5", ".5", "5.", "1e", "e1", "1e400", "-1e400", "1e-400",
	"inf", "Inf", "+Inf", "-inf", "infinity", "nan", "NaN", "0x1p-2", "0X1P-2", "0x1.8p1", "-0x1p-2", "+0x1p-2", "0x", "0x_1p0", "1__0", "_1", "1_", "9223372036854775807", "9223372036854775808", "-9223372036854775808", "-9223372036854775809",
	"7fffffffffffffff", "zz", "ZZ", "Z", "z", "10", "１２", "١٢", " 1", "1 ", "1\n", "\x001", "1\xff", "--1", "+-1", "1.7976931348623157e308", "1.7976931348623159e308", "4.9e-324", "2.4703282292062327e-324", "0.1", "0.30000000000000004",
	"179769313486231570000000000000000000000000000000000000000000000000000000000000000000000000000000000000000000000000000000000000000000000000000000000000000000000000000000000000000000000000000000000000000000000000000000000000000000000000000000000000000000000000000000000000000000000000000000000000000000000"}

func (g *G) numberText() string {
	switch g.intn(6) {
	case 0, 1:
		return g.pick(numberTexts)
	case 2:
		return strconv.FormatInt(int64(g.int()), 2+g.intn(35))
	case 3:
		return strconv.FormatFloat(g.float(), "efgEGxX"[g.intn(7)], g.intn(20)-1, 64)
	case 4:
		return g.mutate(g.pick(numberTexts))
	}
	return g.str()
}

func init() {
	register(&checker{name: "AbsMinMax", covers: []string{"Abs", "Max", "Min"},
		gen: func(g *G) Args { return Args{}.withI(g.int(), g.int()) },
		check: func(a Args, e *env) verdict {
			x, y := a.int(0), a.int(1)
			var ab, mx, mn int
			if p, _, d := call(func() { ab, mx, mn = builtin.Abs(x), builtin.Max(x, y), builtin.Min(x, y) }); p {
				return bad("Abs/Max/Min(%d, %d): %s", x, y, d)
			}
			wab := x
			if x < 0 && x != math.MinInt {
				wab = -x
			}
			if ab != wab {
				return bad("Abs(%d) = %d, want %d", x, ab, wab)
			}
			wmx, wmn := x, y
			if y > x {
				wmx, wmn = y, x
			}
			if mx != wmx || mn != wmn {
				return bad("Max/Min(%d, %d) = %d / %d, want %d / %d", x, y, mx, mn, wmx, wmn)
			}
			cls := "x<y"
			if x == y {
				cls = "x=y"
			} else if x > y {
				cls = "x>y"
			}
			if x == math.MinInt {
				cls += ",minint"
			} else if x < 0 {
				cls += ",neg"
			}
			return ok(cls)
		}})

	register(&checker{name: "Pow", covers: []string{"Pow"},
		gen: func(g *G) Args { return Args{F: []string{ff(g.float()), ff(g.float())}} },
		check: func(a Args, e *env) verdict {
			x, y := a.flt(0), a.flt(1)
			var r float64
			if p, _, d := call(func() { r = builtin.Pow(x, y) }); p {
				return bad("Pow(%v, %v): %s", x, y, d)
			}
			if w := math.Pow(x, y); !sameFloat(r, w) {
				return bad("Pow(%v, %v) = %v, math.Pow gives %v", x, y, r, w)
			}
			// special cases of the documentation of math.Pow
			switch {
			case y == 0 && r != 1:
				return bad("Pow(%v, 0) = %v, want 1", x, r)
			case x == 1 && r != 1:
				return bad("Pow(1, %v) = %v, want 1", y, r)
			case y == 1 && !sameFloat(r, x) && !math.IsNaN(x):
				return bad("Pow(%v, 1) = %v, want x", x, r)
			}
			switch {
			case math.IsNaN(r):
				return ok("nan")
			case math.IsInf(r, 0):
				return ok("inf")
			case r == 0:
				return ok("zero")
			}
			return ok("finite")
		}})

	register(&checker{name: "FormatFloat", covers: []string{"FormatFloat"}, weight: 2,
		gen: func(g *G) Args {
			fmts := []string{"e", "f", "g", "e", "f", "g", "E", "G", "x", "b", "", "ef", "é", "\xff", "%", "F"}
			prec := 0
			switch g.intn(4) {
			case 0:
				prec = g.pick2([]int{-2, -1, 0, 1, 17, 999, 1000, 1001, -1000, math.MaxInt, math.MinInt})
			case 1:
				prec = -1
			default:
				prec = g.intn(25) - 2
			}
			a := sArgs(g.pick(fmts)).withI(prec)
			a.F = []string{ff(g.float())}
			return a
		},
		check: func(a Args, e *env) verdict {
			f, format, prec := a.flt(0), a.str(0), a.int(0)
			var out string
			panicked, _, d := call(func() { out = builtin.FormatFloat(f, format, prec) })
			validFmt := format == "e" || format == "f" || format == "g"
			validPrec := prec >= -1 && prec <= 1000
			if !validFmt || !validPrec {
				if !panicked {
					return bad("FormatFloat(%v, %q, %d) = %q, documented to panic (format valid: %v, precision valid: %v)", f, format, prec, out, validFmt, validPrec)
				}
				if !validFmt {
					return ok("panic-format")
				}
				return ok("panic-precision")
			}
			if panicked {
				return bad("FormatFloat(%v, %q, %d): %s, but format and precision are valid", f, format, prec, d)
			}
			if w := strconv.FormatFloat(f, format[0], prec, 64); out != w {
				return bad("FormatFloat(%v, %q, %d) = %q, strconv gives %q", f, format, prec, out, w)
			}
			if prec == -1 && !math.IsNaN(f) && !math.IsInf(f, 0) {
				// "the smallest number of digits necessary such that ParseFloat will return f exactly"
				var back float64
				var err error
				if p, _, d := call(func() { back, err = builtin.ParseFloat(out) }); p {
					return bad("ParseFloat(%q): %s", out, d)
				}
				if err != nil || !sameFloat(back, f) {
					return bad("ParseFloat(FormatFloat(%v, %q, -1) = %q) = %v, %v; want f exactly", f, format, out, back, err)
				}
				return ok("roundtrip-" + format)
			}
			if math.IsNaN(f) || math.IsInf(f, 0) {
				return ok("special-" + format)
			}
			return ok("prec-" + format)
		}})

	register(&checker{name: "FormatInt", covers: []string{"FormatInt"},
		gen: func(g *G) Args {
			base := g.intn(40) - 1
			if g.intn(6) == 0 {
				base = g.int()
			}
			return Args{}.withI(g.int(), base)
		},
		check: func(a Args, e *env) verdict {
			i, base := a.int(0), a.int(1)
			var out string
			panicked, _, d := call(func() { out = builtin.FormatInt(i, base) })
			if base < 2 || base > 36 {
				if !panicked {
					return bad("FormatInt(%d, %d) = %q, documented to panic for a base outside 2..36", i, base, out)
				}
				return ok("panic-base")
			}
			if panicked {
				return bad("FormatInt(%d, %d): %s", i, base, d)
			}
			if w := strconv.FormatInt(int64(i), base); out != w {
				return bad("FormatInt(%d, %d) = %q, strconv gives %q", i, base, out, w)
			}
			if out != strings.ToLower(out) {
				return bad("FormatInt(%d, %d) = %q uses upper-case digits", i, base, out)
			}
			var back int
			var err error
			if p, _, d := call(func() { back, err = builtin.ParseInt(out, base) }); p {
				return bad("ParseInt(%q, %d): %s", out, base, d)
			}
			if err != nil || back != i {
				return bad("ParseInt(FormatInt(%d, %d) = %q, %d) = %d, %v", i, base, out, base, back, err)
			}
			cls := "base10"
			if base < 10 {
				cls = "base<10"
			} else if base > 10 {
				cls = "base>10"
			}
			if i < 0 {
				cls += ",neg"
			}
			return ok(cls)
		}})

	register(&checker{name: "ParseInt", covers: []string{"ParseInt"}, weight: 2,
		gen: func(g *G) Args {
			base := g.intn(40) - 1
			if g.intn(8) == 0 {
				base = g.int()
			}
			return sArgs(g.numberText()).withI(base)
		},
		check: func(a Args, e *env) verdict {
			s, base := a.str(0), a.int(0)
			var v int
			var err error
			if p, _, d := call(func() { v, err = builtin.ParseInt(s, base) }); p {
				return bad("ParseInt(%q, %d): %s (documented to return an error)", s, base, d)
			}
			if err != nil && v != 0 {
				return bad("ParseInt(%q, %d) = %d with error %v, want 0 with an error", s, base, v, err)
			}
			if base < 2 || base > 36 {
				if err == nil {
					return bad("ParseInt(%q, %d) = %d, nil; want an error for a base outside 2..36", s, base, v)
				}
				return ok("error-base")
			}
			w, werr := strconv.ParseInt(s, base, 0)
			if (err == nil) != (werr == nil) {
				return bad("ParseInt(%q, %d) = %d, %v; strconv.ParseInt gives %d, %v", s, base, v, err, w, werr)
			}
			if err == nil {
				if int64(v) != w {
					return bad("ParseInt(%q, %d) = %d, strconv.ParseInt gives %d", s, base, v, w)
				}
				return ok("value")
			}
			if ne, isNE := werr.(*strconv.NumError); isNE && ne.Err == strconv.ErrRange {
				return ok("error-range")
			}
			return ok("error-syntax")
		}})

	register(&checker{name: "ParseFloat", covers: []string{"ParseFloat"}, weight: 2,
		gen: func(g *G) Args { return sArgs(g.numberText()) },
		check: func(a Args, e *env) verdict {
			s := a.str(0)
			var v float64
			var err error
			if p, _, d := call(func() { v, err = builtin.ParseFloat(s) }); p {
				return bad("ParseFloat(%q): %s (documented to return an error)", s, d)
			}
			w, werr := strconv.ParseFloat(s, 64)
			if err == nil {
				if werr != nil {
					return bad("ParseFloat(%q) = %v, nil; strconv.ParseFloat fails with %v", s, v, werr)
				}
				if !sameFloat(v, w) {
					return bad("ParseFloat(%q) = %v, strconv.ParseFloat gives %v (nearest float64)", s, v, w)
				}
				if math.IsNaN(v) || math.IsInf(v, 0) {
					return bad("ParseFloat(%q) = %v without an error", s, v)
				}
				if strings.ContainsAny(s, "xX") {
					e.count("parsefloat_hexadecimal_accepted")
					return ok("value-hex")
				}
				return ok("value")
			}
			if v != 0 {
				return bad("ParseFloat(%q) = %v with error %v, want 0 with an error", s, v, err)
			}
			if werr == nil {
				// The documentation does not say which well-formed texts are refused. Decimal
				// texts must be accepted; hexadecimal, infinities and NaN are only counted.
				if isDecimalFloat(s) && !math.IsInf(w, 0) {
					return bad("ParseFloat(%q) fails with %v; the text is a well-formed decimal number (%v)", s, err, w)
				}
				e.count("parsefloat_wellformed_refused")
				return ok("refused-nondecimal")
			}
			if ne, isNE := werr.(*strconv.NumError); isNE && ne.Err == strconv.ErrRange {
				return ok("error-range")
			}
			return ok("error-syntax")
		}})
}

func (g *G) pick2(is []int) int { return is[g.intn(len(is))] }

// isDecimalFloat reports whether s is [+-]digits[.digits][(e|E)[+-]digits] with at least one mantissa digit.
func isDecimalFloat(s string) bool {
	i := 0
	if i < len(s) && (s[i] == '+' || s[i] == '-') {
		i++
	}
	digits := 0
	for i < len(s) && '0' <= s[i] && s[i] <= '9' {
		i++
		digits++
	}
	if i < len(s) && s[i] == '.' {
		i++
		for i < len(s) && '0' <= s[i] && s[i] <= '9' {
			i++
			digits++
		}
	}
	if digits == 0 {
		return false
	}
	if i < len(s) && (s[i] == 'e' || s[i] == 'E') {
		i++
		if i < len(s) && (s[i] == '+' || s[i] == '-') {
			i++
		}
		ed := 0
		for i < len(s) && '0' <= s[i] && s[i] <= '9' {
			i++
			ed++
		}
		if ed == 0 {
			return false
		}
	}
	return i == len(s)
}

var _ = fmt.Sprint
