package c25

import (
	"encoding/json"
	"fmt"
	"math"
	"regexp"
	"strconv"
	"strings"
	"time"
	_ "time/tzdata" // the named zones must not depend on the machine

	"github.com/open2b/scriggo/builtin"
)

var jsDateRE = regexp.MustCompile(`^new Date\("([+-]\d{6}|\d{4})-(\d{2})-(\d{2})T(\d{2}):(\d{2}):(\d{2})\.(\d{3})(Z|[+-]\d{2}:\d{2})"\)$`)

// parseJSDate evaluates `new Date("<ECMAScript date-time string>")` (ECMA-262 §21.4.1.32:
// YYYY or ±YYYYYY, "-000000" is invalid, time zone Z or ±HH:mm) to an instant.
func parseJSDate(js string) (time.Time, error) {
	m := jsDateRE.FindStringSubmatch(js)
	if m == nil {
		return time.Time{}, fmt.Errorf("not of the form new Date(\"YYYY-MM-DDTHH:mm:ss.sssZ\")")
	}
	if m[1] == "-000000" {
		return time.Time{}, fmt.Errorf("year -000000 is not a valid ECMAScript year")
	}
	atoi := func(s string) int { n, _ := strconv.Atoi(s); return n }
	y, mo, d, h, mi, s, ms := atoi(m[1]), atoi(m[2]), atoi(m[3]), atoi(m[4]), atoi(m[5]), atoi(m[6]), atoi(m[7])
	if mo < 1 || mo > 12 || d < 1 || d > 31 || h > 24 || mi > 59 || s > 59 {
		return time.Time{}, fmt.Errorf("field out of range")
	}
	off := 0
	if m[8] != "Z" {
		oh, om := atoi(m[8][1:3]), atoi(m[8][4:6])
		if oh > 23 || om > 59 {
			return time.Time{}, fmt.Errorf("offset out of range")
		}
		off = oh*3600 + om*60
		if m[8][0] == '-' {
			off = -off
		}
	}
	t := time.Date(y, time.Month(mo), d, h, mi, s, ms*1e6, time.FixedZone("", off))
	if t.Day() != d { // e.g. February 30
		return time.Time{}, fmt.Errorf("day does not exist")
	}
	return t, nil
}

var zoneNames = []string{"", "UTC", "Local", "Europe/Rome", "America/New_York", "Asia/Kolkata", "Asia/Kathmandu", "Africa/Monrovia", "Europe/Lisbon", "Europe/Dublin", "Australia/Lord_Howe", "Pacific/Chatham", "Pacific/Kiritimati", "America/St_Johns", "Etc/GMT+12", "Atlantic/Azores",
	"Nope/Nowhere", "europe/rome", "../etc/passwd", "Europe/../Europe/Rome", "/usr/share/zoneinfo/Europe/Rome", "\x00", "UTC\x00", "é", " ", "Europe/Rome ", "\\", "GMT", "EST", "CET"}

// timeSpec: I = [unix seconds, nanoseconds, zone kind, zone parameter]; zone kind 0 = UTC,
// 1 = Local, 2 = fixed zone of I[3] seconds, 3 = named zone zoneNames[I[3]] (if it loads).
func (g *G) timeSpec() []int64 {
	var sec int64
	switch g.intn(6) {
	case 0:
		sec = int64(g.intn(4e9)) - 2e9 // 1906..2033
	case 1:
		sec = -62135596800 + int64(g.intn(1e6)) // around the zero time
	case 2:
		sec = int64(g.r.Uint64()>>1)%400000000000 - 200000000000 // years -4300..8300
	case 3:
		sec = int64(g.intn(2e9))
	case 4:
		sec = -2208988800 - int64(g.intn(3e9)) // before 1900: local mean time in named zones
	default:
		sec = []int64{0, -1, 1, 253402300799, 253402300800, -62135596800, -62135596801, -62167219200, -62167219201, 951782400}[g.intn(10)]
	}
	nsec := int64(g.intn(1e9))
	if g.intn(4) == 0 {
		nsec = []int64{0, 1, 999999999, 999999, 1000000, 500000000}[g.intn(6)]
	}
	kind := int64(g.intn(4))
	var p int64
	switch kind {
	case 2:
		offs := []int64{0, 3600, -3600, 1800, -1800, -60, 60, -59, 59, -1, 1, 19800, 20700, -12600, 45900, -43200, 50400, -3599, 3599, -2670, 2996, 86399, -86399}
		p = offs[g.intn(len(offs))]
		if g.intn(4) == 0 {
			p = int64(g.intn(2*50400)) - 50400
		}
	case 3:
		p = int64(g.intn(16)) // only the loadable names
	}
	return []int64{sec, nsec, kind, p}
}

func timeFromSpec(i []int64) time.Time {
	t := time.Unix(i[0], i[1])
	switch i[2] {
	case 0:
		return t.UTC()
	case 1:
		return t.In(time.Local)
	case 2:
		name := "X"
		if i[3]%7 == 0 {
			name = "UTC" // a zone that is merely called UTC
		}
		return t.In(time.FixedZone(name, int(i[3])))
	}
	loc, err := time.LoadLocation(zoneNames[int(i[3])%len(zoneNames)])
	if err != nil {
		return t.UTC()
	}
	return t.In(loc)
}

func sameTime(a builtin.Time, b time.Time) string {
	if a.String() != b.String() {
		return fmt.Sprintf("String() %q, want %q", a.String(), b.String())
	}
	if a.UnixNano() != b.UnixNano() || a.Unix() != b.Unix() {
		return fmt.Sprintf("Unix() %d, want %d", a.Unix(), b.Unix())
	}
	if got, want := a.Format(time.RFC3339Nano+" MST"), b.Format(time.RFC3339Nano+" MST"); got != want {
		return fmt.Sprintf("Format %q, want %q", got, want)
	}
	return ""
}

var layouts = []string{time.RFC3339, time.RFC3339Nano, time.RFC1123Z, time.RFC1123, time.RFC822Z, time.RFC822, time.RFC850, time.ANSIC, time.UnixDate, time.RubyDate, time.Kitchen, time.Stamp, time.StampMilli, time.StampMicro, time.StampNano,
	"2006-01-02", "02 Jan 2006", "2006-01-02 15:04:05", "2006-01-02T15:04:05", "Monday, 2 January 2006", "15:04:05.000", "3:04:05 pm -07:00", "2006-002", "Jan _2 06", "", "x", "2006-13-45", "\xff", "MST", "Z07:00", "-0700", "January", ".999999999", "15h04m", "2006-01-02T15:04:05Z07:00 MST"}

// autoLayouts are layouts that the documentation of ParseTime's empty-layout mode can be
// expected to cover (the formats of package time plus the plain date).
var autoLayouts = []string{time.RFC3339, time.RFC1123Z, time.RFC1123, time.RFC822Z, time.RFC822, time.RFC850, time.ANSIC, time.UnixDate, time.RubyDate, time.Kitchen, time.Stamp, time.StampMilli, time.StampMicro, time.StampNano, "2006-01-02"}

func init() {
	register(&checker{name: "Date", covers: []string{"Date", "NewTime", "Time"}, weight: 2,
		gen: func(g *G) Args {
			a := sArgs(g.pick(zoneNames))
			if g.intn(10) == 0 {
				a = sArgs(g.str())
			}
			year := 1900 + g.intn(200)
			switch g.intn(5) {
			case 0:
				year = g.intn(12000) - 2000
			case 1:
				year = g.int()
			}
			f := func(normal int) int {
				switch g.intn(6) {
				case 0:
					return g.intn(401) - 200
				case 1:
					return g.int()
				}
				return g.intn(normal + 1)
			}
			return a.withI(year, f(12), f(31), f(23), f(59), f(59), f(999999999))
		},
		check: func(a Args, e *env) verdict {
			loc := a.str(0)
			y, mo, d, h, mi, s, ns := a.int(0), a.int(1), a.int(2), a.int(3), a.int(4), a.int(5), a.int(6)
			var t builtin.Time
			var err error
			where := fmt.Sprintf("Date(%d, %d, %d, %d, %d, %d, %d, %q)", y, mo, d, h, mi, s, ns, loc)
			if p, _, desc := call(func() { t, err = builtin.Date(y, mo, d, h, mi, s, ns, loc) }); p {
				return bad("%s: %s (documented to return an error)", where, desc)
			}
			l, lerr := time.LoadLocation(loc)
			if lerr != nil {
				if err == nil {
					return bad("%s = %v, nil; the location does not exist (%v)", where, t, lerr)
				}
				if !t.IsZero() {
					return bad("%s returns the non-zero time %v together with the error %v", where, t, err)
				}
				return ok("error-location")
			}
			if err != nil {
				return bad("%s fails with %v; time.LoadLocation accepts the location", where, err)
			}
			want := time.Date(y, time.Month(mo), d, h, mi, s, ns, l)
			if diff := sameTime(t, want); diff != "" {
				return bad("%s: %s", where, diff)
			}
			if mo < 1 || mo > 12 || d < 1 || d > 28 || h < 0 || h > 23 || mi < 0 || mi > 59 || s < 0 || s > 59 || ns < 0 {
				return ok("normalized")
			}
			return ok("plain-" + want.Location().String())
		}})

	register(&checker{name: "UnixTimeNow", covers: []string{"UnixTime", "Now"},
		gen: func(g *G) Args {
			sp := g.timeSpec()
			nsec := sp[1]
			switch g.intn(4) {
			case 0:
				nsec = int64(g.r.Uint64())
			case 1:
				nsec = -nsec
			}
			sec := sp[0]
			if g.intn(10) == 0 {
				sec = []int64{math.MaxInt64, math.MinInt64, math.MaxInt64 - 1, 1 << 62, -(1 << 62)}[g.intn(5)]
			}
			return Args{I: []int64{sec, nsec}}
		},
		check: func(a Args, e *env) verdict {
			sec, nsec := a.I[0], a.I[1]
			var t, now builtin.Time
			before := time.Now()
			if p, _, d := call(func() { t, now = builtin.UnixTime(sec, nsec), builtin.Now() }); p {
				return bad("UnixTime(%d, %d) / Now(): %s", sec, nsec, d)
			}
			after := time.Now()
			if diff := sameTime(t, time.Unix(sec, nsec)); diff != "" {
				return bad("UnixTime(%d, %d): %s", sec, nsec, diff)
			}
			// Now: the current local time. Ordering against the wall clock is checked with a wide
			// margin (a stepped clock must not produce a verdict); the zone must be the local one.
			if now.Unix() < before.Unix()-3600 || now.Unix() > after.Unix()+3600 {
				return bad("Now() = %v, the clock reads between %v and %v", now, before, after)
			}
			if got, want := now.Format("-07:00 MST"), after.Format("-07:00 MST"); got != want {
				return bad("Now() is in zone %q, the local zone is %q", got, want)
			}
			if nsec < 0 || nsec > 999999999 {
				return ok("nsec-out-of-range")
			}
			return ok("plain")
		}})

	register(&checker{name: "ParseDuration", covers: []string{"ParseDuration", "Duration"},
		gen: func(g *G) Args {
			ds := []string{"", "0", "1", "1s", "300ms", "-1.5h", "2h45m", "1us", "1µs", "1μs", "1ns", "1d", "1h1", "h", ".s", "1.s", ".5m", "+5m", "--5m", "9223372036854775807ns", "9223372036854775808ns", "-9223372036854775808ns", "2562047h47m16.854775807s", "2562047h47m16.854775808s", "1e3s", "1 s", " 1s", "1S", "1m1m", "0.000000000000000000001h", "1.0000000000000000000001h", "99999999999999999999s", "1h\xff", "١s"}
			switch g.intn(4) {
			case 0:
				return sArgs(time.Duration(g.r.Int63() - g.r.Int63()).String())
			case 1:
				return sArgs(g.mutate(g.pick(ds)))
			case 2:
				return sArgs(g.str())
			}
			return sArgs(g.pick(ds))
		},
		check: func(a Args, e *env) verdict {
			s := a.str(0)
			var dur builtin.Duration
			var err error
			if p, _, d := call(func() { dur, err = builtin.ParseDuration(s) }); p {
				return bad("ParseDuration(%q): %s (documented to return an error)", s, d)
			}
			w, werr := time.ParseDuration(s)
			if (err == nil) != (werr == nil) || time.Duration(dur) != w {
				return bad("ParseDuration(%q) = %v, %v; time.ParseDuration gives %v, %v", s, dur, err, w, werr)
			}
			if err != nil {
				if dur != 0 {
					return bad("ParseDuration(%q) = %v together with an error", s, dur)
				}
				return ok("error")
			}
			return ok("value")
		}})

	register(&checker{name: "ParseTime", covers: []string{"ParseTime"}, weight: 2,
		gen: func(g *G) Args {
			t := timeFromSpec(g.timeSpec())
			switch g.intn(6) {
			case 0, 1: // a value written with the same layout
				l := g.pick(layouts)
				return sArgs(l, t.Format(l))
			case 2: // a value written with another layout, or mutated
				return sArgs(g.pick(layouts), g.mutate(t.Format(g.pick(layouts))))
			case 3: // layout "": a value in one of the standard formats
				return sArgs("", t.Format(g.pick(autoLayouts)))
			case 4:
				return sArgs("", g.mutate(t.Format(g.pick(autoLayouts))))
			}
			return sArgs(g.pick([]string{"", g.str()}), g.str())
		},
		check: func(a Args, e *env) verdict {
			layout, value := a.str(0), a.str(1)
			var t builtin.Time
			var err error
			if p, _, d := call(func() { t, err = builtin.ParseTime(layout, value) }); p {
				return bad("ParseTime(%q, %q): %s (documented to return an error)", layout, value, d)
			}
			if err != nil && !t.IsZero() {
				return bad("ParseTime(%q, %q) returns the non-zero time %v together with the error %v", layout, value, t, err)
			}
			if layout != "" {
				w, werr := time.Parse(layout, value)
				if (err == nil) != (werr == nil) {
					return bad("ParseTime(%q, %q) = %v, %v; time.Parse gives %v, %v", layout, value, t, err, w, werr)
				}
				if err == nil {
					if diff := sameTime(t, w); diff != "" {
						return bad("ParseTime(%q, %q): %s", layout, value, diff)
					}
					return ok("layout-value")
				}
				return ok("layout-error")
			}
			// predefined list of layouts: a value in one of the formats of package time must
			// be understood, with the meaning time.Parse gives it
			for _, l := range autoLayouts {
				w, werr := time.Parse(l, value)
				if werr != nil {
					continue
				}
				if err != nil {
					return bad("ParseTime(\"\", %q) fails with %v; the value is in the standard layout %q", value, err, l)
				}
				if !t.Equal(builtin.NewTime(w)) {
					// an earlier layout of the list may read the same text differently only in
					// the zone abbreviation; the instant must agree for numeric-zone layouts
					if l == time.RFC3339 || l == time.RFC1123Z || l == time.RFC822Z || l == time.RubyDate || l == "2006-01-02" {
						return bad("ParseTime(\"\", %q) = %v; time.Parse with layout %q gives %v", value, t, l, w)
					}
				}
				return ok("auto-value")
			}
			if err == nil {
				return ok("auto-other-layout")
			}
			return ok("auto-error")
		}})

	register(&checker{name: "TimeMethods", covers: []string{"Time", "NewTime"}, weight: 3,
		gen: func(g *G) Args {
			a := Args{I: append(g.timeSpec(), g.timeSpec()...)}
			durs := []int64{0, 1, -1, int64(time.Millisecond), int64(time.Second), int64(time.Hour), -int64(time.Hour), int64(24 * time.Hour), math.MaxInt64, math.MinInt64, 7, int64(90 * time.Minute), int64(time.Minute)}
			d := durs[g.intn(len(durs))]
			if g.intn(3) == 0 {
				d = g.r.Int63() - g.r.Int63()
			}
			a.I = append(a.I, d, int64(g.intn(41)-20), int64(g.intn(61)-30), int64(g.intn(801)-400))
			a.S = []string{q(g.pick(layouts))}
			return a
		},
		check: func(a Args, e *env) verdict {
			tt, uu := timeFromSpec(a.I[0:4]), timeFromSpec(a.I[4:8])
			d := time.Duration(a.I[8])
			years, months, days := int(a.I[9]), int(a.I[10]), int(a.I[11])
			layout := a.str(0)
			t, u := builtin.NewTime(tt), builtin.NewTime(uu)
			var v verdict
			if p, _, desc := call(func() { v = timeMethods(t, u, tt, uu, d, years, months, days, layout) }); p {
				return bad("method of Time %v (other %v, d=%v, layout %q): %s", tt, uu, d, layout, desc)
			}
			return v
		}})
}

func timeMethods(t, u builtin.Time, tt, uu time.Time, d time.Duration, years, months, days int, layout string) verdict {
	where := fmt.Sprintf("t = %s (zone offset %s), u = %s", tt.Format(time.RFC3339Nano), tt.Format("-07:00:00"), uu.Format(time.RFC3339Nano))
	chk := func(name string, got builtin.Time, want time.Time) string {
		if diff := sameTime(got, want); diff != "" {
			return fmt.Sprintf("%s: t.%s: %s", where, name, diff)
		}
		return ""
	}
	for _, m := range []string{
		chk(fmt.Sprintf("Add(%v)", d), t.Add(d), tt.Add(d)),
		chk(fmt.Sprintf("AddDate(%d, %d, %d)", years, months, days), t.AddDate(years, months, days), tt.AddDate(years, months, days)),
		chk(fmt.Sprintf("Round(%v)", d), t.Round(d), tt.Round(d)),
		chk(fmt.Sprintf("Truncate(%v)", d), t.Truncate(d), tt.Truncate(d)),
		chk("UTC()", t.UTC(), tt.UTC()),
	} {
		if m != "" {
			return bad("%s", m)
		}
	}
	if t.After(u) != tt.After(uu) || t.Before(u) != tt.Before(uu) || t.Equal(u) != tt.Equal(uu) || t.Sub(u) != tt.Sub(uu) {
		return bad("%s: After/Before/Equal/Sub = %v/%v/%v/%v, want %v/%v/%v/%v", where, t.After(u), t.Before(u), t.Equal(u), t.Sub(u), tt.After(uu), tt.Before(uu), tt.Equal(uu), tt.Sub(uu))
	}
	h, mi, s := t.Clock()
	wh, wmi, ws := tt.Clock()
	y, mo, dd := t.Date()
	wy, wmo, wd := tt.Date()
	if h != wh || mi != wmi || s != ws || y != wy || mo != int(wmo) || dd != wd {
		return bad("%s: Clock/Date = %d:%d:%d %d-%d-%d, want %d:%d:%d %d-%d-%d", where, h, mi, s, y, mo, dd, wh, wmi, ws, wy, wmo, wd)
	}
	if t.Year() != wy || t.Month() != int(wmo) || t.Day() != wd || t.Hour() != wh || t.Minute() != wmi || t.Second() != ws || t.Nanosecond() != tt.Nanosecond() ||
		t.Weekday() != int(tt.Weekday()) || t.YearDay() != tt.YearDay() || t.IsZero() != tt.IsZero() || t.Unix() != tt.Unix() || t.UnixNano() != tt.UnixNano() || t.String() != tt.String() {
		return bad("%s: one of Year/Month/Day/Hour/Minute/Second/Nanosecond/Weekday/YearDay/IsZero/Unix/UnixNano/String disagrees with time.Time: %d %d %d %d %d %d %d %d %d %v %d %d %q", where,
			t.Year(), t.Month(), t.Day(), t.Hour(), t.Minute(), t.Second(), t.Nanosecond(), t.Weekday(), t.YearDay(), t.IsZero(), t.Unix(), t.UnixNano(), t.String())
	}
	if mo < 1 || mo > 12 || dd < 1 || dd > 31 || h < 0 || h > 23 || mi < 0 || mi > 59 || s < 0 || s > 59 || t.Nanosecond() < 0 || t.Nanosecond() > 999999999 || t.Weekday() < 0 || t.Weekday() > 6 || t.YearDay() < 1 || t.YearDay() > 366 {
		return bad("%s: a calendar field is outside its documented range", where)
	}
	if got, want := t.Format(layout), tt.Format(layout); got != want {
		return bad("%s: Format(%q) = %q, want %q", where, layout, got, want)
	}
	// JSON: a JSON string; an RFC 3339 time for the years RFC 3339 can express
	js := string(t.JSON())
	var str string
	if err := json.Unmarshal([]byte(js), &str); err != nil {
		return bad("%s: JSON() = %s is not a JSON string: %v", where, js, err)
	}
	if wy >= 0 && wy <= 9999 {
		back, err := time.Parse(time.RFC3339, str)
		if err != nil {
			return bad("%s: JSON() = %s is not an RFC 3339 time: %v", where, js, err)
		}
		_, off := tt.Zone()
		if off%60 == 0 && !back.Equal(tt.Truncate(time.Second)) {
			return bad("%s: JSON() = %s denotes %v, want the instant of t to the second", where, js, back.UTC())
		}
	}
	// JS: defined for years -999999..999999; must denote the instant of t, to the millisecond
	cls := "utc"
	if _, off := tt.Zone(); off != 0 {
		cls = "offset"
		if off%60 != 0 {
			cls = "offset-with-seconds"
		} else if off > -3600 && off < 0 {
			cls = "offset-negative-below-hour"
		}
	}
	if wy >= -999999 && wy <= 999999 {
		jsd := string(t.JS())
		inst, err := parseJSDate(jsd)
		if err != nil {
			return bad("%s: JS() = %s: %v", where, jsd, err)
		}
		if want := tt.Truncate(time.Millisecond); !inst.Equal(want) {
			return bad("%s: JS() = %s denotes the instant %s, want %s (off by %v)", where, jsd, inst.UTC().Format(time.RFC3339Nano), want.UTC().Format(time.RFC3339Nano), inst.Sub(want))
		}
		if wy < 0 || wy > 9999 {
			cls += ",expanded-year"
		}
	}
	return ok(cls)
}

var _ = strings.Contains
