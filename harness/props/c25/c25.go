// Package c25 checks that every exported function, method and value of
// github.com/open2b/scriggo/builtin behaves as its documentation states.
//
// One "checker" exists per builtin (or per small family of builtins). A checker has an
// input generator and an oracle. Oracles are (a) the standard-library function the
// builtin documents itself to wrap, (b) small reference models written from the doc
// comment (percent-decoding, rune counting, word boundaries, HMAC from its definition,
// an ECMAScript date-string parser, ...), and (c) a host-panic sentinel: a builtin
// documented to return an error must never panic, a builtin documented to panic must
// panic exactly on the documented inputs.
//
// A case is either a batch (checker name, seed, count: the inputs are regenerated in the
// worker from the seed) or a single explicit call (checker name + arguments), which is
// the form used by replays of recorded findings.
package c25

import (
	"fmt"
	"sort"
	"strconv"
	"strings"

	"verif/core"
)

type prop struct{}

func init() { core.Register(prop{}) }

func (prop) ID() string    { return "C25" }
func (prop) Level() string { return "exploration" }

// Args are the arguments of one call, in a JSON-safe form.
type Args struct {
	S []string `json:"s,omitempty"` // strings, Go-quoted (strconv.QuoteToASCII) so that invalid UTF-8 survives JSON
	I []int64  `json:"i,omitempty"`
	F []string `json:"f,omitempty"` // float64 as strconv 'g' text ("NaN", "+Inf" allowed)
	V string   `json:"v,omitempty"` // value spec for arguments of type any: "cat:<name>" or "seed:<n>"
}

type caseData struct {
	Kind  string   `json:"kind"` // "batch" | "call"
	Fn    string   `json:"fn"`   // checker name
	Seed  int64    `json:"seed,omitempty"`
	N     int      `json:"n,omitempty"`
	Avoid []string `json:"avoid,omitempty"` // scopes of open findings the generator keeps away from
	Args  *Args    `json:"args,omitempty"`
}

// q quotes a string for Args.S.
func q(s string) string { return strconv.QuoteToASCII(s) }

// unq is the inverse of q (panics on malformed input: harness bug).
func unq(s string) string {
	u, err := strconv.Unquote(s)
	if err != nil {
		panic(fmt.Sprintf("c25: bad quoted string %s: %v", s, err))
	}
	return u
}

func ff(f float64) string { return strconv.FormatFloat(f, 'g', -1, 64) }
func pf(s string) float64 {
	f, err := strconv.ParseFloat(s, 64)
	if err != nil {
		panic("c25: bad float " + s)
	}
	return f
}

func (a Args) str(i int) string  { return unq(a.S[i]) }
func (a Args) int(i int) int     { return int(a.I[i]) }
func (a Args) flt(i int) float64 { return pf(a.F[i]) }
func (a Args) strs() []string {
	out := make([]string, len(a.S))
	for i := range a.S {
		out[i] = unq(a.S[i])
	}
	return out
}

func sArgs(ss ...string) Args {
	a := Args{}
	for _, s := range ss {
		a.S = append(a.S, q(s))
	}
	return a
}

func (a Args) withI(is ...int) Args {
	for _, i := range is {
		a.I = append(a.I, int64(i))
	}
	return a
}

// verdict is what a checker's oracle returns for one call.
type verdict struct {
	class string // non-triviality class of the call (becomes part of a signature); "" = trivial
	viol  string // violation description ("" = the call conformed)
}

func ok(class string) verdict { return verdict{class: class} }
func bad(format string, a ...any) verdict {
	return verdict{viol: fmt.Sprintf(format, a...)}
}

// checker is one builtin (or family) with its generator and oracle.
type checker struct {
	name   string
	covers []string                     // exported identifiers of package builtin exercised by this checker
	weight int                          // relative share of the call budget (default 1)
	gen    func(g *G) Args              // input generator
	check  func(a Args, e *env) verdict // oracle; runs the builtin under the panic sentinel
}

// env carries per-batch context to the oracles.
type env struct {
	avoid  map[string]bool
	counts map[string]int64
}

func (e *env) count(k string) { e.counts[k]++ }

var checkers = map[string]*checker{}
var checkerOrder []string

func register(c *checker) {
	if _, dup := checkers[c.name]; dup {
		panic("c25: duplicate checker " + c.name)
	}
	if c.weight == 0 {
		c.weight = 1
	}
	checkers[c.name] = c
	checkerOrder = append(checkerOrder, c.name)
}

// Scopes of open findings (see findings.json). A scope listed in known_findings.json
// makes the generators keep away from exactly that construct.
const (
	scopeIndentJSONNewline  = "indentjson-prefix-indent-with-newline-or-cr"
	scopeFormMultipartQuery = "formdata-multipart-request-with-url-query"
)

var allScopes = []string{scopeIndentJSONNewline, scopeFormMultipartQuery}

// ---------------------------------------------------------------- driver

func (prop) Drive(d *core.Driver) error {
	d.T.Rule = "one checker per exported builtin (see coverage key 'checkers'); every checker draws its inputs from seeded generators: strings over all byte values, valid and invalid UTF-8, special-casing letters whose upper/lower forms differ in encoded length, small alphabets for the search/split helpers, boundary integers (0, +-1, bases 1,2,36,37, precisions -2,-1,1000,1001, MinInt, MaxInt), special floats, random JSON and YAML documents and mutations of them, arbitrary prefix/indent strings, random Go values of every kind for the any-typed parameters, random instants in fixed and named time zones, regular expressions, HTTP requests (query, urlencoded and multipart bodies, malformed variants). evaluations = builtin calls judged. distinct_nontrivial counts distinct (checker, input/outcome class) pairs reported by the oracles (e.g. Capitalize/multibyte-changed, FormatFloat/panic-precision, UnmarshalJSON/error-target-unchanged)"
	d.T.Assumptions = []string{
		"the standard library (strings, strconv, encoding/json, time, regexp, net/http, crypto/*) is the reference for the builtins documented as its wrappers",
		"values passed to MarshalYAML/MarshalJSON are acyclic (yaml.v3 does not terminate on a cyclic map; a non-terminating call cannot be judged without a wall-clock verdict)",
		"gopkg.in/yaml.v3 is not imported by the harness: the YAML builtins are judged by round trips, by YAML being a superset of JSON and by documents written by a small block-style emitter",
	}
	var avoid []string
	for _, s := range allScopes {
		if d.InScope(s) {
			avoid = append(avoid, s)
		}
	}
	perUnit := d.N(150, 1000) // calls per weight unit and batch
	batches := d.N(12, 320)   // batches (= seeds) per checker
	var cases []core.Case
	names := append([]string{}, checkerOrder...)
	sort.Strings(names)
	for _, name := range names {
		c := checkers[name]
		for b := 0; b < batches; b++ {
			cd := caseData{Kind: "batch", Fn: name, Seed: d.Seed*1000003 + int64(b), N: perUnit * c.weight, Avoid: avoid}
			cases = append(cases, core.NewCase(fmt.Sprintf("%s-%d", name, b), cd))
		}
	}
	d.T.Set("checkers", names)
	d.T.Set("scopes_avoided", avoid)
	d.T.Sample(map[string]any{"case": "Capitalize-0", "meaning": "batch: N seeded calls of builtin.Capitalize judged by the word-boundary model", "data": caseData{Kind: "batch", Fn: "Capitalize", Seed: d.Seed * 1000003, N: perUnit}})
	d.T.Sample(map[string]any{"case": "single call form (replays, findings)", "data": caseData{Kind: "call", Fn: "Capitalize", Args: &Args{S: []string{q("\xffabc")}}}})
	// shuffle deterministically so that slow checkers spread over the children
	r := d.Rand("shuffle")
	r.Shuffle(len(cases), func(i, j int) { cases[i], cases[j] = cases[j], cases[i] })
	d.Run(cases, core.RunOpts{})
	return nil
}

// ---------------------------------------------------------------- worker

func (prop) Work(c core.Case) core.Result {
	var cd caseData
	c.Decode(&cd)
	ck := checkers[cd.Fn]
	if ck == nil {
		return core.Result{Status: core.Inconclusive, Detail: "unknown checker " + cd.Fn}
	}
	e := &env{avoid: map[string]bool{}, counts: map[string]int64{}}
	for _, s := range cd.Avoid {
		e.avoid[s] = true
	}
	res := core.Result{Status: core.OK}
	sigs := map[string]struct{}{}
	judge := func(a Args) bool {
		res.Evals++
		var v verdict
		pv, panicked, stack := core.Guard(func() { v = ck.check(a, e) })
		if panicked {
			// the oracles run every builtin call under their own sentinel; a panic that
			// reaches this point escaped from somewhere unexpected and is reported as such
			v = bad("unexpected panic outside the call sentinel: %v\n%s", pv, stack)
		}
		if v.viol != "" {
			res.Status = core.Violation
			res.Detail = fmt.Sprintf("%s: %s\nwitness case data: %s", cd.Fn, v.viol, core.MustJSON(caseData{Kind: "call", Fn: cd.Fn, Args: &a}))
			return false
		}
		if v.class != "" {
			sigs[cd.Fn+"/"+v.class] = struct{}{}
		}
		return true
	}
	switch cd.Kind {
	case "call":
		judge(*cd.Args)
	case "batch":
		g := newG(cd.Seed, cd.Fn, e.avoid)
		for i := 0; i < cd.N; i++ {
			if !judge(ck.gen(g)) {
				break
			}
		}
	default:
		return core.Result{Status: core.Inconclusive, Detail: "bad case kind " + cd.Kind}
	}
	e.counts["calls/"+cd.Fn] += res.Evals
	res.Counts = e.counts
	for s := range sigs {
		res.Sigs = append(res.Sigs, s)
	}
	sort.Strings(res.Sigs)
	return res
}

// call runs f under the panic sentinel and describes the panic value.
func call(f func()) (panicked bool, val any, desc string) {
	v, p, stack := core.Guard(f)
	if !p {
		return false, nil, ""
	}
	return true, v, fmt.Sprintf("panic(%T: %v) at %s", v, v, firstFrames(stack))
}

// firstFrames extracts the first builtin frames of a stack for a compact witness.
func firstFrames(stack string) string {
	var out []string
	lines := strings.Split(stack, "\n")
	for i := 0; i+1 < len(lines) && len(out) < 3; i++ {
		if strings.Contains(lines[i], "scriggo/") && strings.HasPrefix(lines[i+1], "\t") {
			loc := strings.TrimSpace(lines[i+1])
			if j := strings.IndexByte(loc, ' '); j > 0 {
				loc = loc[:j]
			}
			if k := strings.LastIndex(loc, "scriggo/"); k >= 0 {
				loc = loc[k+len("scriggo/"):]
			} else if k := strings.LastIndex(loc, "/"); k >= 0 {
				loc = loc[k+1:]
			}
			out = append(out, loc)
		}
	}
	if len(out) == 0 {
		return core.Truncate(stack, 400)
	}
	return strings.Join(out, " <- ")
}
