package c25

import (
	"math/rand"
	"reflect"
)

func randFrom(seed int64) *rand.Rand { return rand.New(rand.NewSource(seed)) }

// target is a destination for UnmarshalJSON / UnmarshalYAML.
type target struct {
	name    string
	invalid bool       // nil, not a pointer, or a nil pointer: documented to return an error
	make    func() any // returns the value passed as v, pre-filled with recognisable content
}

func ptrTo[T any](v T) func() any { return func() any { p := new(T); *p = v; return p } }

var targets = []target{
	{name: "*any", make: ptrTo[any]("prior")},
	{name: "*map[string]any", make: func() any { m := map[string]any{"prior": 1.0}; return &m }},
	{name: "*[]int", make: func() any { s := []int{9, 9}; return &s }},
	{name: "*recA", make: func() any { return &recA{A: 9, B: "prior", C: []float64{9}, e: 9} }},
	{name: "*recB", make: func() any { return &recB{Name: "prior", M: map[string]int{"prior": 9}, Any: "prior"} }},
	{name: "*int", make: ptrTo(9)},
	{name: "*string", make: ptrTo("prior")},
	{name: "*float64", make: ptrTo(9.5)},
	{name: "*bool", make: ptrTo(true)},
	{name: "nil", invalid: true, make: func() any { return nil }},
	{name: "int", invalid: true, make: func() any { return 9 }},
	{name: "map[string]any", invalid: true, make: func() any { return map[string]any{"prior": 1} }},
	{name: "(*int)(nil)", invalid: true, make: func() any { return (*int)(nil) }},
	{name: "**int", make: func() any { x := 9; p := &x; return &p }},
	{name: "*[]any", make: func() any { s := []any{"prior"}; return &s }},
	{name: "*map[string]int", make: func() any { m := map[string]int{"prior": 9}; return &m }},
	{name: "*namedInts", make: func() any { s := namedInts{9}; return &s }},
	{name: "*[2]int", make: func() any { return &[2]int{9, 9} }},
	{name: "recA", invalid: true, make: func() any { return recA{A: 9} }},
	{name: "*uint8", make: ptrTo(uint8(9))},
	{name: "(*recA)(nil)", invalid: true, make: func() any { return (*recA)(nil) }},
	{name: "[]int", invalid: true, make: func() any { return []int{9} }},
	{name: "string", invalid: true, make: func() any { return "prior" }},
}

// checkUnmarshal judges one call of an Unmarshal builtin. ref, when not nil, is the
// wrapped reference decoder.
func checkUnmarshal(fname, data string, ti int, fn func(string, any) error, ref func(string, any) error) verdict {
	t := targets[ti%len(targets)]
	v := t.make()
	snapshot := t.make() // equal content, separate memory
	var err error
	if p, _, d := call(func() { err = fn(data, v) }); p {
		return bad("%s(%q, %s): %s (documented to return an error)", fname, data, t.name, d)
	}
	if t.invalid {
		if err == nil {
			return bad("%s(%q, %s) = nil; v is nil or not a (non-nil) pointer, an error is documented", fname, data, t.name)
		}
		if !reflect.DeepEqual(v, snapshot) {
			return bad("%s(%q, %s) changed its argument although it failed: %s", fname, data, t.name, describe(v))
		}
		return ok("error-invalid-target")
	}
	if err != nil {
		if !reflect.DeepEqual(v, snapshot) {
			return bad("%s(%q, %s) failed with %v but changed the value pointed to by v: now %s, before %s", fname, data, t.name, err, describe(reflect.ValueOf(v).Elem().Interface()), describe(reflect.ValueOf(snapshot).Elem().Interface()))
		}
	}
	if ref != nil {
		fresh := reflect.New(reflect.TypeOf(v).Elem())
		var rerr error
		if p, _, _ := call(func() { rerr = ref(data, fresh.Interface()) }); p {
			return ok("")
		}
		if (err == nil) != (rerr == nil) {
			return bad("%s(%q, %s) returns %v; the reference decoder returns %v", fname, data, t.name, err, rerr)
		}
		if err == nil && !reflect.DeepEqual(reflect.ValueOf(v).Elem().Interface(), fresh.Elem().Interface()) {
			return bad("%s(%q, %s) stores %s; decoding into a new value gives %s", fname, data, t.name, describe(reflect.ValueOf(v).Elem().Interface()), describe(fresh.Elem().Interface()))
		}
	}
	if err != nil {
		return ok("error-target-unchanged-" + t.name)
	}
	return ok("ok-" + t.name)
}
