package c25

import (
	"bytes"
	"crypto/hmac"
	"crypto/md5"
	"crypto/sha1"
	"crypto/sha256"
	"encoding/base64"
	"encoding/hex"
	"encoding/json"
	"fmt"
	"math"
	"reflect"
	"sort"
	"strconv"
	"strings"
	"unicode/utf8"

	"github.com/open2b/scriggo/builtin"
	"github.com/open2b/scriggo/native"
)

// hmacByDefinition computes HMAC (RFC 2104) from the hash function alone.
func hmacByDefinition(sum func([]byte) []byte, blockSize int, key, msg []byte) []byte {
	if len(key) > blockSize {
		key = sum(key)
	}
	k := make([]byte, blockSize)
	copy(k, key)
	ipad, opad := make([]byte, blockSize), make([]byte, blockSize)
	for i := range k {
		ipad[i] = k[i] ^ 0x36
		opad[i] = k[i] ^ 0x5c
	}
	inner := sum(append(ipad, msg...))
	return sum(append(opad, inner...))
}

func sha1sum(b []byte) []byte   { s := sha1.Sum(b); return s[:] }
func sha256sum(b []byte) []byte { s := sha256.Sum256(b); return s[:] }

func onlyChars(s, set string) bool {
	for i := 0; i < len(s); i++ {
		if strings.IndexByte(set, s[i]) < 0 {
			return false
		}
	}
	return true
}

// guardedJSON runs a encoding/json reference call; a panic of the reference (e.g. a
// panicking Marshaler) makes the call unjudgeable.
func refMarshal(v any) (b []byte, err error, refPanic bool) {
	refPanic, _, _ = call(func() { b, err = json.Marshal(v) })
	return
}

func describe(v any) string { return core_truncate(fmt.Sprintf("%#v", v), 300) }

func core_truncate(s string, n int) string {
	if len(s) <= n {
		return s
	}
	return s[:n] + "…"
}

// yamlEmit writes plain data (nil, bool, int, string, []any, map[string]any) as a YAML
// block-style document: mappings and sequences in block form, strings double-quoted
// with JSON escaping (a subset of YAML's double-quoted escapes), other scalars plain.
func yamlEmit(b *strings.Builder, v any, indent int, inline bool) {
	pad := strings.Repeat("  ", indent)
	switch x := v.(type) {
	case nil:
		b.WriteString("null\n")
	case bool:
		b.WriteString(strconv.FormatBool(x) + "\n")
	case int:
		b.WriteString(strconv.Itoa(x) + "\n")
	case string:
		b.WriteString(yamlQuote(x))
		b.WriteString("\n")
	case []any:
		if len(x) == 0 {
			b.WriteString("[]\n")
			return
		}
		if inline {
			b.WriteString("\n")
		}
		for _, e := range x {
			b.WriteString(pad + "- ")
			switch e.(type) {
			case []any, map[string]any:
				// nested collection on following lines
				if isEmptyColl(e) {
					yamlEmit(b, e, indent+1, false)
				} else {
					b.WriteString("\n")
					yamlEmit(b, e, indent+1, false)
				}
			default:
				yamlEmit(b, e, indent+1, false)
			}
		}
	case map[string]any:
		if len(x) == 0 {
			b.WriteString("{}\n")
			return
		}
		if inline {
			b.WriteString("\n")
		}
		keys := make([]string, 0, len(x))
		for k := range x {
			keys = append(keys, k)
		}
		sort.Strings(keys)
		for _, k := range keys {
			b.WriteString(pad)
			b.WriteString(yamlQuote(k))
			b.WriteString(": ")
			e := x[k]
			switch e.(type) {
			case []any, map[string]any:
				if isEmptyColl(e) {
					yamlEmit(b, e, indent+1, false)
				} else {
					b.WriteString("\n")
					yamlEmit(b, e, indent+1, false)
				}
			default:
				yamlEmit(b, e, indent+1, false)
			}
		}
	default:
		panic(fmt.Sprintf("yamlEmit: unsupported %T", v))
	}
}

// yamlQuote writes a YAML double-quoted scalar (YAML 1.2 §5.7 escapes): characters outside
// the printable set of §5.1, line breaks, quotes and backslashes are escaped.
func yamlQuote(s string) string {
	var b strings.Builder
	b.WriteByte('"')
	for _, r := range s {
		switch {
		case r == '"' || r == '\\':
			b.WriteByte('\\')
			b.WriteRune(r)
		case r >= 0x20 && r <= 0x7e,
			r >= 0xa0 && r <= 0xd7ff && r != 0x2028 && r != 0x2029,
			r >= 0xe000 && r <= 0xfffd && r != 0xfeff,
			r >= 0x10000 && r <= 0x10ffff:
			b.WriteRune(r)
		case r <= 0xff:
			fmt.Fprintf(&b, "\\x%02x", r)
		case r <= 0xffff:
			fmt.Fprintf(&b, "\\u%04x", r)
		default:
			fmt.Fprintf(&b, "\\U%08x", r)
		}
	}
	b.WriteByte('"')
	return b.String()
}

// hasLineBreakString reports whether plain data contains a string (or key) with a YAML line break.
func hasLineBreakString(v any) bool {
	switch x := v.(type) {
	case string:
		return strings.ContainsAny(x, "\n\r\u0085\u2028\u2029")
	case []any:
		for _, e := range x {
			if hasLineBreakString(e) {
				return true
			}
		}
	case map[string]any:
		for k, e := range x {
			if hasLineBreakString(k) || hasLineBreakString(e) {
				return true
			}
		}
	}
	return false
}

func isEmptyColl(v any) bool {
	switch x := v.(type) {
	case []any:
		return len(x) == 0
	case map[string]any:
		return len(x) == 0
	}
	return false
}

// normPlain maps decoded data to a canonical form for comparison: every integer-valued
// number becomes int64 when it fits, other numbers float64; maps become map[string]any.
func normPlain(v any) any {
	switch x := v.(type) {
	case int:
		return int64(x)
	case int64:
		return x
	case uint64:
		if x <= math.MaxInt64 {
			return int64(x)
		}
		return float64(x)
	case float64:
		if x == math.Trunc(x) && math.Abs(x) < 1<<53 {
			return int64(x)
		}
		return x
	case []any:
		out := make([]any, len(x))
		for i := range x {
			out[i] = normPlain(x[i])
		}
		return out
	case map[string]any:
		out := make(map[string]any, len(x))
		for k, e := range x {
			out[k] = normPlain(e)
		}
		return out
	case map[any]any:
		out := make(map[string]any, len(x))
		for k, e := range x {
			out[fmt.Sprint(k)] = normPlain(e)
		}
		return out
	}
	return v
}

// jsonSafeForYAML reports whether a JSON text can be expected to mean the same as YAML:
// only characters of YAML's printable set (and none above U+FFFC) besides escapes known to both, no duplicate keys,
// no exponents/fractions that YAML 1.1 resolvers read differently, moderate size.
func jsonSafeForYAML(doc string) bool {
	if len(doc) > 2000 || !utf8.ValidString(doc) {
		return false
	}
	for _, r := range doc {
		if r < 0x20 || r == 0x7f || (r >= 0x80 && r < 0xa0) || r == 0x2028 || r == 0x2029 || r == 0xfeff || r >= 0xfffd {
			return false
		}
	}
	if strings.Contains(doc, `\u`) || strings.Contains(doc, `\/`) {
		return false // surrogate pairs and \/ are JSON-only conveniences
	}
	dec := json.NewDecoder(strings.NewReader(doc))
	dec.UseNumber()
	var stack []map[string]bool
	for {
		tok, err := dec.Token()
		if err != nil {
			break
		}
		switch t := tok.(type) {
		case json.Delim:
			switch t {
			case '{':
				stack = append(stack, map[string]bool{})
			case '[':
				stack = append(stack, nil)
			default:
				stack = stack[:len(stack)-1]
			}
		case json.Number:
			s := t.String()
			if strings.ContainsAny(s, "eE.") || len(s) > 15 || s == "-0" {
				return false
			}
		case string:
			if len(stack) > 0 && stack[len(stack)-1] != nil {
				// may be a key or a value; duplicates among both are harmlessly over-rejected
				if stack[len(stack)-1][t] {
					return false
				}
				stack[len(stack)-1][t] = true
			}
		}
	}
	return true
}

func init() {
	register(&checker{name: "Digests", covers: []string{"Base64", "Hex", "Md5", "Sha1", "Sha256", "HmacSHA1", "HmacSHA256"},
		gen: func(g *G) Args {
			key := g.str()
			if g.intn(5) == 0 {
				key = strings.Repeat(g.str()+"k", 20) // longer than the block size
			}
			msg := g.str()
			if g.intn(8) == 0 {
				msg = strings.Repeat(msg+"m", 40)
			}
			return sArgs(msg, key)
		},
		check: func(a Args, e *env) verdict {
			s, key := a.str(0), a.str(1)
			var b64, hx, m5, s1, s256, h1, h256 string
			if p, _, d := call(func() {
				b64, hx, m5, s1, s256 = builtin.Base64(s), builtin.Hex(s), builtin.Md5(s), builtin.Sha1(s), builtin.Sha256(s)
				h1, h256 = builtin.HmacSHA1(s, key), builtin.HmacSHA256(s, key)
			}); p {
				return bad("Base64/Hex/Md5/Sha1/Sha256/Hmac*(%q, %q): %s", s, key, d)
			}
			if dec, err := base64.StdEncoding.DecodeString(b64); err != nil || string(dec) != s || b64 != base64.StdEncoding.EncodeToString([]byte(s)) {
				return bad("Base64(%q) = %q does not decode to the input (%q, %v)", s, b64, dec, err)
			}
			if dec, err := hex.DecodeString(hx); err != nil || string(dec) != s || hx != strings.ToLower(hx) {
				return bad("Hex(%q) = %q does not decode to the input (%q, %v)", s, hx, dec, err)
			}
			w5 := md5.Sum([]byte(s))
			if m5 != hex.EncodeToString(w5[:]) {
				return bad("Md5(%q) = %q, want %x", s, m5, w5)
			}
			if s1 != hex.EncodeToString(sha1sum([]byte(s))) {
				return bad("Sha1(%q) = %q, want %x", s, s1, sha1sum([]byte(s)))
			}
			if s256 != hex.EncodeToString(sha256sum([]byte(s))) {
				return bad("Sha256(%q) = %q, want %x", s, s256, sha256sum([]byte(s)))
			}
			w1 := base64.StdEncoding.EncodeToString(hmacByDefinition(sha1sum, 64, []byte(key), []byte(s)))
			w256 := base64.StdEncoding.EncodeToString(hmacByDefinition(sha256sum, 64, []byte(key), []byte(s)))
			if h1 != w1 {
				return bad("HmacSHA1(message %q, key %q) = %q, HMAC by definition gives %q", s, key, h1, w1)
			}
			if h256 != w256 {
				return bad("HmacSHA256(message %q, key %q) = %q, HMAC by definition gives %q", s, key, h256, w256)
			}
			m := hmac.New(sha1.New, []byte(key))
			m.Write([]byte(s))
			if h1 != base64.StdEncoding.EncodeToString(m.Sum(nil)) {
				return bad("HmacSHA1(%q, %q) disagrees with crypto/hmac", s, key)
			}
			cls := "key<=block"
			if len(key) > 64 {
				cls = "key>block"
			}
			if s == "" {
				cls += ",empty"
			}
			return ok(cls)
		}})

	register(&checker{name: "MarshalJSON", covers: []string{"MarshalJSON", "MarshalJSONIndent"}, weight: 2,
		gen: func(g *G) Args {
			a := sArgs(g.wsArg(), g.wsArg())
			a.V = g.valueSpec()
			return a
		},
		check: func(a Args, e *env) verdict {
			v := valueFromSpec(a.V)
			prefix, indent := a.str(0), a.str(1)
			wb, werr, refPanic := refMarshal(v)
			if refPanic {
				return ok("")
			}
			var out native.JSON
			var err error
			if p, _, d := call(func() { out, err = builtin.MarshalJSON(v) }); p {
				return bad("MarshalJSON(%s): %s (documented to return an error)", describe(v), d)
			}
			if (err == nil) != (werr == nil) {
				return bad("MarshalJSON(%s) = %q, %v; json.Marshal gives %q, %v", describe(v), out, err, wb, werr)
			}
			if err == nil && string(out) != string(wb) {
				return bad("MarshalJSON(%s) = %q, json.Marshal gives %q", describe(v), out, wb)
			}
			if err != nil && out != "" {
				return bad("MarshalJSON(%s) = %q together with the error %v", describe(v), out, err)
			}
			// MarshalJSONIndent
			var iout native.JSON
			var ierr error
			if p, _, d := call(func() { iout, ierr = builtin.MarshalJSONIndent(v, prefix, indent) }); p {
				return bad("MarshalJSONIndent(%s, %q, %q): %s (documented to return an error)", describe(v), prefix, indent, d)
			}
			const ws = " \t\n\r"
			if !onlyChars(prefix, ws) || !onlyChars(indent, ws) {
				if ierr == nil {
					return bad("MarshalJSONIndent(%s, %q, %q) = %q, nil; prefix and indent can only contain ' ', '\\t', '\\n' and '\\r'", describe(v), prefix, indent, iout)
				}
				return ok("indent-rejected")
			}
			iwb, iwerr := json.MarshalIndent(v, prefix, indent)
			if (ierr == nil) != (iwerr == nil) {
				return bad("MarshalJSONIndent(%s, %q, %q) = %q, %v; json.MarshalIndent gives %q, %v", describe(v), prefix, indent, iout, ierr, iwb, iwerr)
			}
			if ierr == nil {
				if string(iout) != string(iwb) {
					return bad("MarshalJSONIndent(%s, %q, %q) = %q, json.MarshalIndent gives %q", describe(v), prefix, indent, iout, iwb)
				}
				var c1, c2 bytes.Buffer
				if json.Compact(&c1, []byte(iout)) != nil || json.Compact(&c2, wb) != nil || c1.String() != c2.String() {
					return bad("MarshalJSONIndent(%s, %q, %q) = %q is not the indented form of MarshalJSON's %q", describe(v), prefix, indent, iout, wb)
				}
				return ok("ok-" + kindClass(v))
			}
			return ok("error-" + kindClass(v))
		}})

	register(&checker{name: "IndentJSON", covers: []string{"IndentJSON"}, weight: 2,
		gen: func(g *G) Args {
			for {
				p, i := g.wsArg(), g.wsArg()
				if g.avoid[scopeIndentJSONNewline] && onlyChars(p+i, " \t\n\r") && strings.ContainsAny(p+i, "\n\r") {
					continue
				}
				return sArgs(g.jsonText(), p, i)
			}
		},
		check: func(a Args, e *env) verdict {
			data, prefix, indent := a.str(0), a.str(1), a.str(2)
			var out native.JSON
			panicked, _, d := call(func() { out = builtin.IndentJSON(native.JSON(data), prefix, indent) })
			valid := json.Valid([]byte(data))
			wsOK := onlyChars(prefix, " \t") && onlyChars(indent, " \t")
			if !valid || !wsOK {
				if !panicked {
					return bad("IndentJSON(%q, %q, %q) = %q; documented to panic (data valid JSON: %v; prefix and indent only ' ' or '\\t': %v)", data, prefix, indent, out, valid, wsOK)
				}
				if !valid {
					return ok("panic-invalid-json")
				}
				return ok("panic-prefix-indent")
			}
			if panicked {
				return bad("IndentJSON(%q, %q, %q): %s; the data is valid JSON and prefix/indent are blank", data, prefix, indent, d)
			}
			var w bytes.Buffer
			if err := json.Indent(&w, bytes.TrimSpace([]byte(data)), prefix, indent); err != nil {
				return ok("")
			}
			// bytes.TrimSpace trims more than JSON whitespace; only JSON whitespace can surround valid JSON
			if string(out) != w.String() {
				return bad("IndentJSON(%q, %q, %q) = %q, json.Indent gives %q", data, prefix, indent, out, w.String())
			}
			var c1, c2 bytes.Buffer
			if json.Compact(&c1, []byte(out)) != nil || json.Compact(&c2, []byte(data)) != nil || c1.String() != c2.String() {
				return bad("IndentJSON(%q, %q, %q) = %q does not compact to the same JSON as the input", data, prefix, indent, out)
			}
			if strings.ContainsAny(data, "{[") {
				return ok("indented-composite")
			}
			return ok("indented-scalar")
		}})

	register(&checker{name: "UnmarshalJSON", covers: []string{"UnmarshalJSON"}, weight: 2,
		gen: func(g *G) Args {
			return sArgs(g.jsonText()).withI(g.intn(len(targets)))
		},
		check: func(a Args, e *env) verdict {
			data, ti := a.str(0), a.int(0)
			return checkUnmarshal("UnmarshalJSON", data, ti, builtin.UnmarshalJSON, func(data string, v any) error {
				return json.Unmarshal([]byte(data), v)
			})
		}})

	register(&checker{name: "UnmarshalYAML", covers: []string{"UnmarshalYAML"}, weight: 2,
		gen: func(g *G) Args {
			var doc string
			kind := g.intn(6)
			switch kind {
			case 0, 1: // emitted block-style document; oracle: decodes to the emitted value
				seed := g.r.Int63()
				return Args{S: []string{q("")}, I: []int64{0, 1, seed}}
			case 2: // JSON text (YAML is a superset of JSON)
				doc = g.jsonDoc(3)
			case 3:
				doc = g.pick(yamlSnippets)
			case 4:
				doc = g.mutate(g.pick(yamlSnippets))
			default:
				doc = g.mutate(g.jsonDoc(2))
			}
			return Args{S: []string{q(doc)}, I: []int64{int64(g.intn(len(targets))), 0, 0}}
		},
		check: func(a Args, e *env) verdict {
			doc, ti, emitted := a.str(0), a.int(0), a.int(1) == 1
			if emitted {
				g := &G{r: randFrom(a.I[2])}
				want := g.plainValue(3, true, true)
				var b strings.Builder
				yamlEmit(&b, want, 0, false)
				doc = b.String()
				var got any
				var err error
				if p, _, d := call(func() { err = builtin.UnmarshalYAML(doc, &got) }); p {
					return bad("UnmarshalYAML(%q, *any): %s (documented to return an error)", doc, d)
				}
				if err != nil {
					return bad("UnmarshalYAML(%q, *any) fails with %v; the document is the block-style form of %s", doc, err, describe(want))
				}
				if !reflect.DeepEqual(normPlain(got), normPlain(want)) {
					return bad("UnmarshalYAML(%q, *any) gives %s, want %s", doc, describe(got), describe(want))
				}
				return ok("emitted-" + kindClass(want))
			}
			// no reference decoder: sentinel, "v unchanged on error", and the JSON-superset relation
			v := checkUnmarshal("UnmarshalYAML", doc, ti, builtin.UnmarshalYAML, nil)
			if v.viol != "" {
				return v
			}
			if ti == 0 && jsonSafeForYAML(doc) && json.Valid([]byte(doc)) {
				var viaJSON, viaYAML any
				if json.Unmarshal([]byte(doc), &viaJSON) == nil {
					var err error
					if p, _, d := call(func() { err = builtin.UnmarshalYAML(doc, &viaYAML) }); p {
						return bad("UnmarshalYAML(%q, *any): %s", doc, d)
					}
					if err != nil {
						return bad("UnmarshalYAML(%q, *any) fails with %v, but the document is plain JSON (YAML is a superset)", doc, err)
					}
					if !reflect.DeepEqual(normPlain(viaJSON), normPlain(viaYAML)) {
						return bad("UnmarshalYAML(%q, *any) gives %s, the JSON reading is %s", doc, describe(viaYAML), describe(viaJSON))
					}
					return ok("json-superset-" + kindClass(viaJSON))
				}
			}
			return v
		}})

	register(&checker{name: "MarshalYAML", covers: []string{"MarshalYAML"}, weight: 2,
		gen: func(g *G) Args {
			if g.intn(2) == 0 {
				return Args{V: fmt.Sprintf("plain:%d", g.r.Int63())}
			}
			return Args{V: g.valueSpec()}
		},
		check: func(a Args, e *env) verdict {
			v := valueFromSpec(a.V)
			var out string
			var err error
			if p, _, d := call(func() { out, err = builtin.MarshalYAML(v) }); p {
				return bad("MarshalYAML(%s): %s (documented to return an error)", describe(v), d)
			}
			if err != nil {
				if out != "" {
					return bad("MarshalYAML(%s) = %q together with the error %v", describe(v), out, err)
				}
				if strings.HasPrefix(a.V, "plain:") {
					return bad("MarshalYAML(%s) fails with %v for plain data", describe(v), err)
				}
				return ok("error-" + kindClass(v))
			}
			if !strings.HasPrefix(a.V, "plain:") {
				return ok("ok-" + kindClass(v))
			}
			if hasLineBreakString(v) {
				// yaml.v3 writes multi-line strings in literal block style, which does not
				// round-trip leading line breaks, tabs and spaces (a defect of the wrapped
				// library, not of the wrapper): such values are only checked for "no panic".
				return ok("multiline-not-judged")
			}
			// round trip of plain data through the package's own decoder
			var back any
			var uerr error
			if p, _, d := call(func() { uerr = builtin.UnmarshalYAML(out, &back) }); p {
				return bad("UnmarshalYAML(MarshalYAML(%s) = %q): %s", describe(v), out, d)
			}
			if uerr != nil {
				return bad("UnmarshalYAML(MarshalYAML(%s) = %q) fails with %v", describe(v), out, uerr)
			}
			if !reflect.DeepEqual(normPlain(back), normPlain(v)) {
				return bad("MarshalYAML(%s) = %q decodes back to %s", describe(v), out, describe(back))
			}
			return ok("roundtrip-" + kindClass(v))
		}})

	register(&checker{name: "Sprint", covers: []string{"Sprint", "Sprintf"},
		gen: func(g *G) Args {
			verbs := []string{"%v", "%d", "%s", "%q", "%x", "%5.2f", "%+v", "%#v", "%T", "%%", "%t", "%c", "%U", "%e", "%08b", "%-6s|", "%[2]v %[1]v", "%!", "%", "%z", "%*d", "%.*f", "no verbs", "%v %v %v"}
			a := sArgs(g.pick(verbs) + g.pick([]string{"", " ", "x"}) + g.pick(verbs))
			a.I = []int64{g.r.Int63(), int64(g.intn(4))}
			return a
		},
		check: func(a Args, e *env) verdict {
			format := a.str(0)
			g := &G{r: randFrom(a.I[0])}
			args := make([]any, a.int(1))
			for i := range args {
				args[i] = g.sprintValue()
			}
			var s1, s2 string
			if p, _, d := call(func() { s1, s2 = builtin.Sprint(args...), builtin.Sprintf(format, args...) }); p {
				return bad("Sprint/Sprintf(%q, %s): %s", format, describe(args), d)
			}
			if w := fmt.Sprint(args...); s1 != w {
				return bad("Sprint(%s) = %q, fmt.Sprint gives %q", describe(args), s1, w)
			}
			if w := fmt.Sprintf(format, args...); s2 != w {
				return bad("Sprintf(%q, %s) = %q, fmt.Sprintf gives %q", format, describe(args), s2, w)
			}
			// "Spaces are added between operands when neither is a string"
			if len(args) == 2 {
				_, s0 := args[0].(string)
				_, s1s := args[1].(string)
				if args[0] != nil && args[1] != nil && !s0 && !s1s {
					if w := fmt.Sprint(args[0]) + " " + fmt.Sprint(args[1]); s1 != w {
						return bad("Sprint(%s) = %q, want a space between the operands: %q", describe(args), s1, w)
					}
				}
			}
			return ok(fmt.Sprintf("args%d,bad-verb=%v", len(args), strings.Contains(s2, "%!")))
		}})

	register(&checker{name: "Unsafeconv", covers: []string{"Unsafeconv"},
		gen: func(g *G) Args { return sArgs(g.str()) },
		check: func(a Args, e *env) verdict {
			s := a.str(0)
			want := map[string]any{"ToHTML": native.HTML(s), "ToCSS": native.CSS(s), "ToJS": native.JS(s), "ToJSON": native.JSON(s), "ToMarkdown": native.Markdown(s)}
			if builtin.Unsafeconv.PackageName() != "unsafeconv" {
				return bad("Unsafeconv.PackageName() = %q", builtin.Unsafeconv.PackageName())
			}
			seen := 0
			if err := builtin.Unsafeconv.LookupFunc(func(name string, decl native.Declaration) error {
				if _, okk := want[name]; !okk {
					return fmt.Errorf("unexpected declaration %q", name)
				}
				seen++
				return nil
			}); err != nil || seen != len(want) {
				return bad("Unsafeconv.LookupFunc: %v, %d declarations seen, want %d", err, seen, len(want))
			}
			for name, w := range want {
				decl := builtin.Unsafeconv.Lookup(name)
				if decl == nil {
					return bad("Unsafeconv.Lookup(%q) = nil", name)
				}
				var got any
				if p, _, d := call(func() { got = reflect.ValueOf(decl).Call([]reflect.Value{reflect.ValueOf(s)})[0].Interface() }); p {
					return bad("unsafeconv.%s(%q): %s", name, s, d)
				}
				if got != w {
					return bad("unsafeconv.%s(%q) = %#v, want %#v", name, s, got, w)
				}
			}
			return ok(classOf(s))
		}})
}

// sprintValue returns an operand for Sprint/Sprintf (no pointers: their text is an address).
func (g *G) sprintValue() any {
	switch g.intn(10) {
	case 0:
		return nil
	case 1:
		return g.int()
	case 2:
		return g.float()
	case 3, 4:
		return g.str()
	case 5:
		return g.intn(2) == 0
	case 6:
		return []int{g.int(), 2}
	case 7:
		return map[string]int{"a": g.intn(5)}
	case 8:
		return g.recA().C
	}
	return struct {
		A int
		B string
	}{g.int(), g.str()}
}

var yamlSnippets = []string{"", " ", "\n", "a: 1\nb: [1, 2]\n", "- 1\n- two\n- 3.5\n- null\n- true\n", "key: value", "A: 1\nb: x\nC: [1.5, 2]\nD: true\n", "a: &x 1\nb: *x\n", "a: *unknown\n", "a: !!binary aGVsbG8=\n",
	"a: !!int notanint\n", "? complex\n: key\n", "a:\n  - b\n -c\n", "a: 1\na: 2\n", "--- \n...\n", "--- a\n--- b\n", "%YAML 1.2\n---\na: 1\n", "a: |\n  literal\n  text\n", "a: >\n  folded\n  text\n", "{a: 1, b: [1, 2}", "[1, 2", "\t- a", "a: 'it''s'", "a: \"\\x41\\u00e9\\N\"",
	"a: 0x1F\nb: 0o17\nc: 017\nd: 1_000\ne: .inf\nf: -.INF\ng: .nan\nh: ~\ni: yes\nj: No\nk: 2001-12-14t21:59:43.10-05:00\nl: 1e3\n", "<<: {a: 1}\nb: 2\n", "a: &a [*a]\n", "&a [*a, *a, *a, *a, *a, *a, *a, *a, *a]", "a: !!float 1\n", "a: !!str 1\n", "a: !foo bar\n",
	"name: n\ninner:\n  A: 3\n  b: x\nm:\n  k: 1\nany: [1, \"2\"]\n", "- - - a\n", "a: \xff\n", "\xef\xbb\xbfa: 1\n", "a: 1 # comment\n", "# only a comment\n", "a: 99999999999999999999\n", "a: -9223372036854775808\n", "12", "\"12\"", "[1, 2, 3]", "[a, b]", "{1: a, 2: b}", "[1, [2, [3]]]", "null", "~",
	"a: b: c\n", "a: [\n", "a: \"unterminated\n", "- a\nb: 1\n", "a: 1\n b: 2\n", "!!map [1]", "!!seq {a: 1}", "a: !!null x", "a: !!bool maybe", "a: !!timestamp nope", "a: 2001-01-01", "a: 1.5\nA: 2\n"}

func kindClass(v any) string {
	if v == nil {
		return "nil"
	}
	k := reflect.TypeOf(v).Kind()
	switch k {
	case reflect.Int, reflect.Int8, reflect.Int16, reflect.Int32, reflect.Int64:
		return "int"
	case reflect.Uint, reflect.Uint8, reflect.Uint16, reflect.Uint32, reflect.Uint64, reflect.Uintptr:
		return "uint"
	case reflect.Float32, reflect.Float64:
		return "float"
	}
	return k.String()
}
