package c25

import (
	"crypto/hmac"
	"crypto/sha256"
	"go/ast"
	"go/parser"
	"go/token"
	"os"
	"path/filepath"
	"sort"
	"strings"
	"testing"
	"time"

	"verif/core"
)

func TestPercentDecode(t *testing.T) {
	for _, c := range []struct {
		in, out string
		ok      bool
	}{{"abc-._~09AZ", "abc-._~09AZ", true}, {"%20%2b%2B%ff", " ++\xff", true}, {"a b", "", false}, {"%2", "", false}, {"%zz", "", false}, {"a+b", "", false}, {"é", "", false}, {"", "", true}, {"%", "", false}, {"a%41", "aA", true}} {
		out, ok := percentDecode(c.in)
		if ok != c.ok || out != c.out {
			t.Errorf("percentDecode(%q) = %q, %v; want %q, %v", c.in, out, ok, c.out, c.ok)
		}
	}
}

func TestCapitalizeModels(t *testing.T) {
	for _, c := range [][2]string{{"", ""}, {"a", "A"}, {"5a", "5a"}, {" ab,cd", " Ab,cd"}, {"€", "€"}, {"ıx", "Ix"}, {"ɐx", "Ɐx"}, {"ǆa", "Ǆa"}, {"--é", "--É"}, {"Ab", "Ab"}, {"_a", "_a"}} {
		if got := capitalizeModel(c[0])[0]; got != c[1] {
			t.Errorf("capitalizeModel(%q) = %q, want %q", c[0], got, c[1])
		}
	}
	if m := capitalizeModel(" \xffab"); len(m) != 2 || m[0] != " \xffab" || m[1] != " \uFFFDab" {
		t.Errorf("capitalizeModel with invalid byte: %q", m)
	}
	for _, c := range [][2]string{{"", ""}, {"ab cd", "Ab Cd"}, {" ab,cd", " Ab,Cd"}, {"5a b", "5a B"}, {"a€b", "A€b"}, {"ıx ɐy", "Ix Ɐy"}, {"a_b c-d", "A_b C-D"}, {"o'neil", "O'Neil"}} {
		if got := capitalizeAllModel(c[0]); got != c[1] {
			t.Errorf("capitalizeAllModel(%q) = %q, want %q", c[0], got, c[1])
		}
	}
}

func TestKebabPredicates(t *testing.T) {
	for _, ex := range kebabExamples {
		if v := kebabViolation(ex[0], ex[1]); v != "" {
			t.Errorf("example %q -> %q flagged: %s", ex[0], ex[1], v)
		}
	}
	for _, c := range [][2]string{{"aB", "a-B"}, {"ab", "-ab"}, {"ab", "ab-"}, {"a b", "a--b"}, {"ab", "a"}, {"aB", "ab-x"}, {"a1", "a"}} {
		if v := kebabViolation(c[0], c[1]); v == "" {
			t.Errorf("%q -> %q not flagged", c[0], c[1])
		}
	}
	if !isKebabASCII("a-b1-c") || isKebabASCII("a--b") || isKebabASCII("-a") || isKebabASCII("a-") || isKebabASCII("A") || isKebabASCII("") {
		t.Error("isKebabASCII")
	}
}

func TestParseJSDate(t *testing.T) {
	ok := map[string]string{
		`new Date("2020-01-01T00:00:00.000Z")`:         "2020-01-01T00:00:00Z",
		`new Date("2019-12-31T23:30:00.000-00:30")`:    "2020-01-01T00:00:00Z",
		`new Date("2020-01-01T05:30:00.123+05:30")`:    "2020-01-01T00:00:00.123Z",
		`new Date("+012345-06-07T08:09:10.000Z")`:      "",
		`new Date("-000001-12-31T00:00:00.000+01:00")`: "",
		`new Date("0000-01-01T00:00:00.000Z")`:         "0000-01-01T00:00:00Z",
	}
	for in, want := range ok {
		got, err := parseJSDate(in)
		if err != nil {
			t.Errorf("%s: %v", in, err)
			continue
		}
		if want != "" && got.UTC().Format(time.RFC3339Nano) != want {
			t.Errorf("%s = %s, want %s", in, got.UTC().Format(time.RFC3339Nano), want)
		}
	}
	if got, _ := parseJSDate(`new Date("+012345-06-07T08:09:10.000Z")`); got.Year() != 12345 {
		t.Errorf("expanded year: %v", got)
	}
	if got, _ := parseJSDate(`new Date("-000001-12-31T00:00:00.000+01:00")`); got.UTC().Year() != -1 || got.UTC().Hour() != 23 {
		t.Errorf("negative year: %v", got.UTC())
	}
	for _, in := range []string{`new Date("2020-1-01T00:00:00.000Z")`, `new Date("2020-01-01T00:00:00Z")`, `new Date("2020-01-01T00:00:00.000")`, `new Date("-000000-01-01T00:00:00.000Z")`, `new Date("2020-13-01T00:00:00.000Z")`, `new Date("2020-02-30T00:00:00.000Z")`,
		`new Date("2020-01-01T00:00:00.000+0:30")`, `new Date("12345-01-01T00:00:00.000Z")`, `Date("2020-01-01T00:00:00.000Z")`, `new Date("2020-01-01T00:00:00.000+00:-5")`, `new Date("2020-01-01T00:00:00.000+24:00")`} {
		if _, err := parseJSDate(in); err == nil {
			t.Errorf("%s accepted", in)
		}
	}
}

func TestHMACByDefinition(t *testing.T) {
	for _, key := range []string{"", "k", strings.Repeat("k", 64), strings.Repeat("k", 65), strings.Repeat("\xff", 200)} {
		m := hmac.New(sha256.New, []byte(key))
		m.Write([]byte("message"))
		if string(m.Sum(nil)) != string(hmacByDefinition(sha256sum, 64, []byte(key), []byte("message"))) {
			t.Errorf("key of %d bytes", len(key))
		}
	}
}

func TestYAMLEmitter(t *testing.T) {
	var b strings.Builder
	yamlEmit(&b, map[string]any{"a": []any{1, "x\ny", nil, []any{}, map[string]any{"k": true}}, "b\"": map[string]any{}, "c": []any{[]any{2}}}, 0, false)
	want := "\"a\": \n  - 1\n  - \"x\\x0ay\"\n  - null\n  - []\n  - \n    \"k\": true\n\"b\\\"\": {}\n\"c\": \n  - \n    - 2\n"
	if b.String() != want {
		t.Errorf("yamlEmit:\n%s\nwant:\n%s", b.String(), want)
	}
	if q := yamlQuote("\u0080\u2028\ufeff\U0001F600\u00e9\x00\"\\"); q != "\"\\x80\\u2028\\ufeff\U0001F600\u00e9\\x00\\\"\\\\\"" {
		t.Errorf("yamlQuote: %s", q)
	}
}

func TestJSONSafeForYAML(t *testing.T) {
	for _, d := range []string{`{"a":1,"b":[true,null,"x"]}`, `"\u00e9\n"`, `[1,2,3]`, `"caf\u00e9 \u65e5\u672c"`} {
		d = strings.ReplaceAll(d, `\u00e9`, "\u00e9")
		d = strings.ReplaceAll(d, `\u65e5\u672c`, "\u65e5\u672c")
		d = strings.ReplaceAll(d, `\n`, "")
		if !jsonSafeForYAML(d) {
			t.Errorf("%q rejected", d)
		}
	}
	for _, d := range []string{"\"\uffff\"", "\"\ufffe\"", "\"\u0080\"", "\"\x7f\"", "\"\u2028\"", "\"\U0001F600\"", `{"a":1,"a":2}`, `1.5`, `1e3`, `"\u0041"`, `-0`, "\"\x01\""} {
		if jsonSafeForYAML(d) {
			t.Errorf("%q accepted", d)
		}
	}
}

func TestIsDecimalFloat(t *testing.T) {
	for _, s := range []string{"0", "-1", "+1.5", ".5", "5.", "1e3", "1E-3", "1.5e+10"} {
		if !isDecimalFloat(s) {
			t.Errorf("%q rejected", s)
		}
	}
	for _, s := range []string{"", ".", "e1", "1e", "0x1", "1_0", "inf", " 1", "1 ", "--1", "1e+"} {
		if isDecimalFloat(s) {
			t.Errorf("%q accepted", s)
		}
	}
}

func TestArgsRoundTrip(t *testing.T) {
	a := sArgs("\xff\x00é\"\\", "").withI(-1)
	c := core.NewCase("x", caseData{Kind: "call", Fn: "Capitalize", Args: &a})
	var cd caseData
	c.Decode(&cd)
	if cd.Args.str(0) != "\xff\x00é\"\\" || cd.Args.str(1) != "" || cd.Args.int(0) != -1 {
		t.Errorf("args do not survive JSON: %#v", cd.Args)
	}
}

// TestEveryExportIsCovered parses the builtin package and requires that every exported
// function, type, variable and constant is claimed by some checker.
func TestEveryExportIsCovered(t *testing.T) {
	repo := os.Getenv("VERIF_REPO")
	if repo == "" {
		repo = "/repo"
	}
	fset := token.NewFileSet()
	pkgs, err := parser.ParseDir(fset, filepath.Join(repo, "builtin"), func(fi os.FileInfo) bool { return !strings.HasSuffix(fi.Name(), "_test.go") }, 0)
	if err != nil {
		t.Fatal(err)
	}
	covered := map[string]bool{}
	for _, c := range checkers {
		for _, n := range c.covers {
			covered[n] = true
		}
	}
	var missing []string
	for _, pkg := range pkgs {
		for _, f := range pkg.Files {
			for _, d := range f.Decls {
				switch d := d.(type) {
				case *ast.FuncDecl:
					name := d.Name.Name
					if d.Recv != nil {
						// methods are covered through their receiver type
						switch rt := d.Recv.List[0].Type.(type) {
						case *ast.Ident:
							name = rt.Name
						case *ast.StarExpr:
							name = rt.X.(*ast.Ident).Name
						}
						if name == "formFile" {
							name = "File"
						}
					}
					if ast.IsExported(name) && !covered[name] {
						missing = append(missing, name)
					}
				case *ast.GenDecl:
					for _, sp := range d.Specs {
						switch sp := sp.(type) {
						case *ast.TypeSpec:
							if ast.IsExported(sp.Name.Name) && !covered[sp.Name.Name] {
								missing = append(missing, sp.Name.Name)
							}
						case *ast.ValueSpec:
							for _, n := range sp.Names {
								if ast.IsExported(n.Name) && !covered[n.Name] {
									missing = append(missing, n.Name)
								}
							}
						}
					}
				}
			}
		}
	}
	sort.Strings(missing)
	if len(missing) > 0 {
		t.Errorf("exported identifiers of package builtin without a checker: %v", missing)
	}
}
