package c22

import (
	"strings"
	"testing"

	"github.com/open2b/scriggo/native"

	"verif/core"
)

// brokenPkg wraps a correct package and misbehaves in one selected way.
type brokenPkg struct {
	native.ImportablePackage
	spec PkgSpec
	mode string
}

func (b brokenPkg) Lookup(name string) native.Declaration {
	if b.mode == "last-match" {
		var last native.Declaration
		for _, l := range flatten(b.spec, nil) {
			for _, d := range l.Decls {
				if d.Name == name {
					last = d.Val
				}
			}
		}
		return last
	}
	return b.ImportablePackage.Lookup(name)
}

func (b brokenPkg) LookupFunc(f native.LookupFunc) error {
	switch b.mode {
	case "swallow-error":
		b.ImportablePackage.LookupFunc(f)
		return nil
	case "continue-after-error":
		var first error
		b.ImportablePackage.LookupFunc(func(n string, d native.Declaration) error {
			if err := f(n, d); err != nil && first == nil {
				first = err
			}
			return nil
		})
		if first == native.StopLookup {
			return nil
		}
		return first
	case "no-dedup":
		var ret error
		for _, l := range flatten(b.spec, nil) {
			for _, d := range l.Decls {
				if ret = f(d.Name, d.Val); ret != nil {
					if ret == native.StopLookup {
						return nil
					}
					return ret
				}
			}
		}
		return nil
	case "stop-is-error":
		var ret error
		b.ImportablePackage.LookupFunc(func(n string, d native.Declaration) error {
			ret = f(n, d)
			return ret
		})
		return ret
	case "skip-one":
		skipped := false
		return b.ImportablePackage.LookupFunc(func(n string, d native.Declaration) error {
			if !skipped {
				skipped = true
				return nil
			}
			return f(n, d)
		})
	}
	return b.ImportablePackage.LookupFunc(f)
}

var overlapSpec = PkgSpec{Kind: "combined", Parts: []PkgSpec{
	{Kind: "custom", Name: "p0", Decls: []Decl{{"A", 0}, {"B", 1}}},
	{Kind: "custom", Name: "p1", Decls: []Decl{{"B", 1000}, {"C", 1001}}},
}}

func TestOracleAcceptsCorrectImplementation(t *testing.T) {
	for _, spec := range []PkgSpec{overlapSpec, {Kind: "custom", Name: "x"}, {Kind: "combined"}, overlapSpec.Parts[0]} {
		st := &state{sigs: map[string]struct{}{}, counts: map[string]int64{}}
		// only contract-abiding custom leaves: independent of the code under test
		st.checkPackageWith(spec, nil, func(s PkgSpec) native.ImportablePackage { return refBuild(s) })
		if st.viol != "" {
			t.Errorf("correct implementation flagged: %s", st.viol)
		}
	}
}

// refBuild builds a fully harness-made reference (no scriggo code): leaves are customPkg,
// combinations are a flattened customPkg with first-occurrence semantics.
func refBuild(s PkgSpec) native.ImportablePackage {
	if s.Kind != "combined" {
		return &customPkg{name: s.Name, decls: s.Decls}
	}
	seen := map[string]bool{}
	var decls []Decl
	for _, l := range flatten(s, nil) {
		for _, d := range l.Decls {
			if !seen[d.Name] {
				seen[d.Name] = true
				decls = append(decls, d)
			}
		}
	}
	return &customPkg{name: firstName(s), decls: decls}
}

func TestOracleRejectsBrokenImplementations(t *testing.T) {
	want := map[string]string{
		"last-match":           "Lookup(",
		"swallow-error":        "want the callback's error",
		"continue-after-error": "no call after the callback returned an error",
		"no-dedup":             "called twice",
		"stop-is-error":        "want nil for StopLookup",
		"skip-one":             "want all",
	}
	for mode, frag := range want {
		st := &state{sigs: map[string]struct{}{}, counts: map[string]int64{}}
		st.checkPackageWith(overlapSpec, nil, func(s PkgSpec) native.ImportablePackage {
			return brokenPkg{ImportablePackage: refBuild(s), spec: s, mode: mode}
		})
		if !strings.Contains(st.viol, frag) {
			t.Errorf("mode %s: violation %q does not contain %q", mode, st.viol, frag)
		}
	}
}

func TestImporterModel(t *testing.T) {
	// the real CombinedImporter must pass on a chain with every answer kind ...
	spec := ImpSpec{Kind: "combined", Parts: []ImpSpec{
		{Kind: "custom", Entries: []ImpEntry{{Path: "a", Res: "none", ID: 0}, {Path: "b", Res: "err", ID: 1}}},
		{Kind: "packages", Entries: []ImpEntry{{Path: "a", Res: "pkg", ID: 2}, {Path: "c", Res: "nilpkg", ID: 3}}},
		{Kind: "custom", Entries: []ImpEntry{{Path: "a", Res: "err", ID: 4}, {Path: "b", Res: "pkg", ID: 5}, {Path: "c", Res: "both", ID: 6}}},
	}}
	st := &state{sigs: map[string]struct{}{}, counts: map[string]int64{}}
	st.checkImporter(spec, []string{"a", "b", "c", "zzz"})
	if st.viol != "" {
		t.Fatalf("unexpected violation: %s", st.viol)
	}
	if len(st.sigs) < 3 {
		t.Errorf("expected several distinct signatures, got %v", st.sigs)
	}
}

func TestWorkReportsViolationForReplay(t *testing.T) {
	// a case in the JSON shape of findings.json must decode and run
	c := core.NewCase("x", caseData{Kind: "package", Pkg: &overlapSpec, Only: &fault{At: 0, Kind: "stop"}})
	r := prop{}.Work(c)
	if r.Status != core.OK && r.Status != core.Violation {
		t.Fatalf("status %s: %s", r.Status, r.Detail)
	}
	if r.Evals == 0 {
		t.Error("no evaluations counted")
	}
}
