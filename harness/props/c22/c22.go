// Package c22 checks the documented contracts of native.Package,
// native.CombinedPackage, native.Packages and native.CombinedImporter.
//
// Oracle: a reference model over a flattened (depth-first) list of leaf packages /
// leaf importers, plus the recorded callback / Import call sequence. The lookup order
// inside one package is documented as undefined, so the model checks sets, prefixes and
// per-package monotonicity, never a concrete sequence.
//
// Workload (fault enumeration): for every generated package tree the callback is made
// to fail (with a unique error value) and to stop (native.StopLookup) at every call
// index 0..n-1, plus one run without a fault; for every importer chain every known path
// and one unknown path is imported.
package c22

import (
	"errors"
	"fmt"
	"math/rand"
	"sort"
	"strings"

	"github.com/open2b/scriggo/native"

	"verif/core"
)

type prop struct{}

func init() { core.Register(prop{}) }

func (prop) ID() string    { return "C22" }
func (prop) Level() string { return "fault_enumeration" }

// ---------------------------------------------------------------- case data

// Decl is one declaration of a leaf package. Val identifies the leaf and the slot, so
// the oracle can tell from which package a returned declaration comes.
type Decl struct {
	Name string `json:"name"`
	Val  int    `json:"val"`
}

// PkgSpec describes an ImportablePackage.
//
//	kind "pkg":      native.Package{Name, Declarations}
//	kind "ptr":      *native.Package
//	kind "custom":   a harness implementation of ImportablePackage that follows the
//	                 documented contract and visits its declarations in slice order
//	kind "combined": native.CombinedPackage of Parts
type PkgSpec struct {
	Kind  string    `json:"kind"`
	Name  string    `json:"name,omitempty"`
	Decls []Decl    `json:"decls,omitempty"`
	Parts []PkgSpec `json:"parts,omitempty"`
}

// ImpEntry is the scripted answer of a custom importer for one path.
type ImpEntry struct {
	Path string `json:"path"`
	// Res: "pkg" (package, nil), "err" (nil, error), "both" (package, error), "none" (nil, nil),
	// "nilpkg" (only for kind "packages": the map holds a nil ImportablePackage for the path).
	Res string `json:"res"`
	ID  int    `json:"id"` // identifies the package / error returned
}

// ImpSpec describes an Importer.
//
//	kind "packages": native.Packages (entries with res "pkg" or "nilpkg")
//	kind "custom":   harness importer returning the scripted answers
//	kind "combined": native.CombinedImporter of Parts
type ImpSpec struct {
	Kind    string     `json:"kind"`
	Entries []ImpEntry `json:"entries,omitempty"`
	Parts   []ImpSpec  `json:"parts,omitempty"`
}

type caseData struct {
	Kind  string   `json:"kind"` // "package" | "importer"
	Pkg   *PkgSpec `json:"pkg,omitempty"`
	Imp   *ImpSpec `json:"imp,omitempty"`
	Paths []string `json:"paths,omitempty"` // paths to import
	// Only: if set, restrict the fault enumeration to one (index, kind) pair (replays of
	// recorded witnesses). Index -1 = no fault.
	Only *fault `json:"only,omitempty"`
}

type fault struct {
	At   int    `json:"at"`
	Kind string `json:"kind"` // "err" | "stop" | "none"
}

// ---------------------------------------------------------------- driver

func (prop) Drive(d *core.Driver) error {
	d.T.Rule = "random package trees (native.Package, *native.Package, a contract-abiding custom ImportablePackage, native.CombinedPackage nested up to depth 3; 0-12 names per leaf drawn from a small pool so that names overlap) and importer chains (native.Packages, scripted custom importers answering package / error / both / nothing, nested native.CombinedImporter). For every tree: Lookup of every name and of absent names, PackageName, and LookupFunc with the callback failing with a unique error and stopping with StopLookup at EVERY call index plus one fault-free run; for every chain: Import of every known path and one unknown path. evaluations = API calls judged. distinct_nontrivial counts distinct (root shape, number of leaves, overlap yes/no, fault kind, fault position class) tuples for packages and (chain shape, answer kind of the first hit, hit position class) for importers"
	d.T.Assumptions = []string{
		"custom ImportablePackage / Importer implementations supplied by the harness follow the documented contract themselves",
		"declarations are never nil (a nil declaration is documented to mean 'does not exist')",
	}
	r := d.Rand("gen")
	var cases []core.Case
	n := d.N(1500, 150000)
	for i := 0; i < n; i++ {
		g := &gen{r: r}
		spec := g.pkg(0, i%5 == 0)
		cases = append(cases, core.NewCase(fmt.Sprintf("pkg-%d", i), caseData{Kind: "package", Pkg: &spec}))
		if i < 3 {
			d.T.Sample(map[string]any{"case": fmt.Sprintf("pkg-%d", i), "pkg": spec})
		}
	}
	m := d.N(500, 50000)
	for i := 0; i < m; i++ {
		g := &gen{r: r}
		spec, paths := g.importer()
		cases = append(cases, core.NewCase(fmt.Sprintf("imp-%d", i), caseData{Kind: "importer", Imp: &spec, Paths: paths}))
		if i < 2 {
			d.T.Sample(map[string]any{"case": fmt.Sprintf("imp-%d", i), "imp": spec, "paths": paths})
		}
	}
	d.Run(cases, core.RunOpts{})
	return nil
}

var namePool = []string{"A", "B", "C", "D", "E", "F", "G", "H", "I", "J", "K", "L", "M", "N", "P", "Q", "Rr", "Ss", "Tt", "Uu", "É", "Ω", "X1", "X2", "X_3"}

type gen struct {
	r    *rand.Rand
	leaf int
}

func (g *gen) leafPkg() PkgSpec {
	kinds := []string{"pkg", "pkg", "pkg", "ptr", "custom"}
	s := PkgSpec{Kind: kinds[g.r.Intn(len(kinds))], Name: fmt.Sprintf("p%d", g.leaf)}
	n := g.r.Intn(13)
	if g.r.Intn(8) == 0 {
		n = 0
	}
	perm := g.r.Perm(len(namePool))
	// small pool window so that different leaves overlap often
	win := 6 + g.r.Intn(len(namePool)-6)
	k := 0
	for _, pi := range perm {
		if k >= n {
			break
		}
		if pi >= win {
			continue
		}
		s.Decls = append(s.Decls, Decl{Name: namePool[pi], Val: g.leaf*1000 + k})
		k++
	}
	g.leaf++
	return s
}

func (g *gen) pkg(depth int, leafOnly bool) PkgSpec {
	if leafOnly || depth >= 3 || (depth > 0 && g.r.Intn(3) != 0) {
		return g.leafPkg()
	}
	s := PkgSpec{Kind: "combined"}
	n := g.r.Intn(5)
	if depth == 0 && n == 0 && g.r.Intn(4) != 0 {
		n = 2
	}
	for i := 0; i < n; i++ {
		s.Parts = append(s.Parts, g.pkg(depth+1, false))
	}
	return s
}

var pathPool = []string{"a", "b", "a/b", "c/d/e", "fmt", "strings", "x.y/z", "é"}

func (g *gen) importer() (ImpSpec, []string) {
	id := 0
	var leaf func() ImpSpec
	leaf = func() ImpSpec {
		s := ImpSpec{}
		if g.r.Intn(2) == 0 {
			s.Kind = "packages"
			for _, p := range pathPool {
				switch g.r.Intn(6) {
				case 0, 1:
					s.Entries = append(s.Entries, ImpEntry{Path: p, Res: "pkg", ID: id})
					id++
				case 2:
					if g.r.Intn(3) == 0 {
						s.Entries = append(s.Entries, ImpEntry{Path: p, Res: "nilpkg", ID: id})
						id++
					}
				}
			}
		} else {
			s.Kind = "custom"
			res := []string{"pkg", "err", "both", "none", "none", "none"}
			for _, p := range pathPool {
				if g.r.Intn(2) == 0 {
					s.Entries = append(s.Entries, ImpEntry{Path: p, Res: res[g.r.Intn(len(res))], ID: id})
					id++
				}
			}
		}
		return s
	}
	var build func(depth int) ImpSpec
	build = func(depth int) ImpSpec {
		if depth >= 3 || (depth > 0 && g.r.Intn(3) != 0) {
			return leaf()
		}
		s := ImpSpec{Kind: "combined"}
		n := g.r.Intn(6)
		for i := 0; i < n; i++ {
			s.Parts = append(s.Parts, build(depth+1))
		}
		return s
	}
	spec := build(0)
	paths := append([]string{}, pathPool...)
	paths = append(paths, "no/such/path")
	return spec, paths
}

// ---------------------------------------------------------------- subjects built from specs

// customPkg is a contract-abiding ImportablePackage written for the harness.
type customPkg struct {
	name  string
	decls []Decl
}

func (p *customPkg) PackageName() string { return p.name }
func (p *customPkg) Lookup(name string) native.Declaration {
	for _, d := range p.decls {
		if d.Name == name {
			return d.Val
		}
	}
	return nil
}
func (p *customPkg) LookupFunc(f native.LookupFunc) error {
	for _, d := range p.decls {
		if err := f(d.Name, d.Val); err != nil {
			if err == native.StopLookup {
				return nil
			}
			return err
		}
	}
	return nil
}

func buildPkg(s PkgSpec) native.ImportablePackage {
	switch s.Kind {
	case "pkg", "ptr":
		decls := native.Declarations{}
		for _, d := range s.Decls {
			decls[d.Name] = d.Val
		}
		p := native.Package{Name: s.Name, Declarations: decls}
		if s.Kind == "ptr" {
			return &p
		}
		return p
	case "custom":
		return &customPkg{name: s.Name, decls: s.Decls}
	case "combined":
		c := native.CombinedPackage{}
		for _, part := range s.Parts {
			c = append(c, buildPkg(part))
		}
		return c
	}
	panic("c22: bad package kind " + s.Kind)
}

// flatten returns the leaves in depth-first order.
func flatten(s PkgSpec, out []PkgSpec) []PkgSpec {
	if s.Kind == "combined" {
		for _, p := range s.Parts {
			out = flatten(p, out)
		}
		return out
	}
	return append(out, s)
}

// firstName returns the documented PackageName of the spec.
func firstName(s PkgSpec) string {
	if s.Kind == "combined" {
		if len(s.Parts) == 0 {
			return ""
		}
		return firstName(s.Parts[0])
	}
	return s.Name
}

// model is the reference: name -> (declaration of the first leaf that has it, index of that leaf).
type model struct {
	decl map[string]int
	leaf map[string]int
}

func newModel(leaves []PkgSpec) *model {
	m := &model{decl: map[string]int{}, leaf: map[string]int{}}
	for i, l := range leaves {
		for _, d := range l.Decls {
			if _, ok := m.decl[d.Name]; !ok {
				m.decl[d.Name] = d.Val
				m.leaf[d.Name] = i
			}
		}
	}
	return m
}

type call struct {
	name string
	decl native.Declaration
}

// ---------------------------------------------------------------- worker

type state struct {
	evals  int64
	sigs   map[string]struct{}
	counts map[string]int64
	viol   string
}

func (st *state) fail(format string, a ...any) {
	if st.viol == "" {
		st.viol = fmt.Sprintf(format, a...)
	}
}

func (prop) Work(c core.Case) core.Result {
	var cd caseData
	c.Decode(&cd)
	st := &state{sigs: map[string]struct{}{}, counts: map[string]int64{}}
	v, panicked, stack := core.Guard(func() {
		switch cd.Kind {
		case "package":
			st.checkPackage(*cd.Pkg, cd.Only)
		case "importer":
			st.checkImporter(*cd.Imp, cd.Paths)
		default:
			panic("c22: bad case kind")
		}
	})
	res := core.Result{Status: core.OK, Evals: st.evals, Counts: st.counts}
	for s := range st.sigs {
		res.Sigs = append(res.Sigs, s)
	}
	sort.Strings(res.Sigs)
	if panicked {
		res.Status = core.Violation
		res.Detail = fmt.Sprintf("panic during package/importer lookups: %v\n%s", v, stack)
	} else if st.viol != "" {
		res.Status = core.Violation
		res.Detail = st.viol
	}
	return res
}

func shape(s PkgSpec) string {
	if s.Kind != "combined" {
		return s.Kind
	}
	nested := false
	for _, p := range s.Parts {
		if p.Kind == "combined" {
			nested = true
		}
	}
	if nested {
		return "combined-nested"
	}
	return "combined"
}

func posClass(at, n int) string {
	switch {
	case at < 0:
		return "none"
	case at == 0:
		return "first"
	case at == n-1:
		return "last"
	}
	return "mid"
}

func (st *state) checkPackage(spec PkgSpec, only *fault) {
	st.checkPackageWith(spec, only, buildPkg)
}

// checkPackageWith judges the package that build makes from spec (build is buildPkg except
// in the oracle's own unit tests, which feed it deliberately wrong implementations).
func (st *state) checkPackageWith(spec PkgSpec, only *fault, buildPkg func(PkgSpec) native.ImportablePackage) {
	leaves := flatten(spec, nil)
	m := newModel(leaves)
	overlap := "disjoint"
	total := 0
	for _, l := range leaves {
		total += len(l.Decls)
	}
	if total > len(m.decl) {
		overlap = "overlap"
	}
	sh := shape(spec)
	desc := func() string { return "package " + string(core.MustJSON(spec)) }

	pkg := buildPkg(spec)

	// PackageName
	st.evals++
	if got, want := pkg.PackageName(), firstName(spec); got != want {
		st.fail("%s: PackageName() = %q, want %q (name of the first package)", desc(), got, want)
		return
	}

	// Lookup: every name of the pool (present or absent)
	for _, name := range append(append([]string{}, namePool...), "", "absent", "a") {
		st.evals++
		st.counts["lookup_calls"]++
		got := pkg.Lookup(name)
		want, ok := m.decl[name]
		if !ok {
			if got != nil {
				st.fail("%s: Lookup(%q) = %v, want nil (no package has the name)", desc(), name, got)
				return
			}
			continue
		}
		if got != want {
			st.fail("%s: Lookup(%q) = %v, want %v (declaration of the first package that has the name, leaf #%d)", desc(), name, got, want, m.leaf[name])
			return
		}
	}

	// LookupFunc: fault enumeration
	n := len(m.decl)
	var faults []fault
	if only != nil {
		faults = []fault{*only}
	} else {
		faults = append(faults, fault{At: -1, Kind: "none"})
		for k := 0; k < n; k++ {
			faults = append(faults, fault{At: k, Kind: "err"}, fault{At: k, Kind: "stop"})
		}
	}
	for _, ft := range faults {
		pkg := buildPkg(spec) // fresh subject for every run
		var calls []call
		var injected error
		afterFault := 0
		cb := func(name string, decl native.Declaration) error {
			if injected != nil {
				afterFault++
			}
			idx := len(calls)
			calls = append(calls, call{name, decl})
			if idx == ft.At {
				switch ft.Kind {
				case "err":
					injected = fmt.Errorf("injected error #%d", idx)
				case "stop":
					injected = native.StopLookup
				}
				return injected
			}
			if injected != nil {
				// keep failing with a different value: the first error is the one that must be returned
				return errors.New("later error (callback called again after it had failed)")
			}
			return nil
		}
		st.evals++
		st.counts["lookupfunc_runs"]++
		ret := pkg.LookupFunc(cb)
		st.counts["callback_calls"] += int64(len(calls))
		where := fmt.Sprintf("%s: LookupFunc with callback fault %s at call index %d", desc(), ft.Kind, ft.At)
		seq := func() string {
			var b strings.Builder
			for i, c := range calls {
				if i > 0 {
					b.WriteString(" ")
				}
				fmt.Fprintf(&b, "%s=%v", c.name, c.decl)
			}
			return b.String()
		}
		// every call: a distinct name, with the declaration of its first occurrence, package by package
		seen := map[string]bool{}
		lastLeaf := -1
		for i, c := range calls {
			if seen[c.name] {
				st.fail("%s: callback called twice for name %q (calls: %s)", where, c.name, seq())
				return
			}
			seen[c.name] = true
			want, ok := m.decl[c.name]
			if !ok {
				st.fail("%s: callback called with unknown name %q (calls: %s)", where, c.name, seq())
				return
			}
			if c.decl != want {
				st.fail("%s: callback call #%d got %s=%v, want the first occurrence %v of leaf #%d", where, i, c.name, c.decl, want, m.leaf[c.name])
				return
			}
			if lf := m.leaf[c.name]; lf < lastLeaf {
				st.fail("%s: packages not visited in order: name %q of leaf #%d reported after a name of leaf #%d (calls: %s)", where, c.name, lf, lastLeaf, seq())
				return
			} else {
				lastLeaf = lf
			}
		}
		if ft.At < 0 || ft.At >= n {
			// no fault happened
			if len(calls) != n {
				st.fail("%s: callback called for %d names, want all %d distinct names (calls: %s)", where, len(calls), n, seq())
				return
			}
			if ret != nil {
				st.fail("%s: returned %v, want nil (the callback never failed)", where, ret)
				return
			}
		} else {
			if afterFault > 0 || len(calls) != ft.At+1 {
				st.fail("%s: callback called %d times, want exactly %d (no call after the callback returned an error) (calls: %s)", where, len(calls), ft.At+1, seq())
				return
			}
			switch ft.Kind {
			case "err":
				if ret != injected {
					st.fail("%s: returned %v, want the callback's error %q", where, ret, injected)
					return
				}
			case "stop":
				if ret != nil {
					st.fail("%s: returned %v, want nil for StopLookup", where, ret)
					return
				}
			}
		}
		nl := len(leaves)
		if nl > 4 {
			nl = 4
		}
		st.sigs[fmt.Sprintf("pkg/%s/leaves%d/%s/%s/%s", sh, nl, overlap, ft.Kind, posClass(ft.At, n))] = struct{}{}
	}
}

// ---------------------------------------------------------------- importers

type impResult struct {
	pkg native.ImportablePackage
	err error
}

type customImporter struct {
	id      int
	answers map[string]impResult
	log     *[]string
}

func (ci *customImporter) Import(path string) (native.ImportablePackage, error) {
	*ci.log = append(*ci.log, fmt.Sprintf("%d:%s", ci.id, path))
	a := ci.answers[path]
	return a.pkg, a.err
}

// loggedPackages wraps native.Packages only to record that it was consulted; the answer is
// produced by native.Packages.Import itself.
type loggedPackages struct {
	id  int
	pp  native.Packages
	log *[]string
}

func (lp *loggedPackages) Import(path string) (native.ImportablePackage, error) {
	*lp.log = append(*lp.log, fmt.Sprintf("%d:%s", lp.id, path))
	return lp.pp.Import(path)
}

type impLeaf struct {
	id      int
	answers map[string]impResult // expected answers
}

type impBuild struct {
	log    []string
	leaves []impLeaf
}

func (b *impBuild) build(s ImpSpec) native.Importer {
	switch s.Kind {
	case "combined":
		c := native.CombinedImporter{}
		for _, p := range s.Parts {
			c = append(c, b.build(p))
		}
		return c
	case "packages":
		id := len(b.leaves)
		pp := native.Packages{}
		exp := map[string]impResult{}
		for _, e := range s.Entries {
			if e.Res == "nilpkg" {
				pp[e.Path] = nil
				continue
			}
			p := native.Package{Name: fmt.Sprintf("imp%d", e.ID)}
			pp[e.Path] = p
			exp[e.Path] = impResult{pkg: p}
		}
		b.leaves = append(b.leaves, impLeaf{id: id, answers: exp})
		return &loggedPackages{id: id, pp: pp, log: &b.log}
	case "custom":
		id := len(b.leaves)
		ans := map[string]impResult{}
		for _, e := range s.Entries {
			var r impResult
			if e.Res == "pkg" || e.Res == "both" {
				r.pkg = &customPkg{name: fmt.Sprintf("imp%d", e.ID)}
			}
			if e.Res == "err" || e.Res == "both" {
				r.err = fmt.Errorf("import error %d", e.ID)
			}
			ans[e.Path] = r
		}
		b.leaves = append(b.leaves, impLeaf{id: id, answers: ans})
		return &customImporter{id: id, answers: ans, log: &b.log}
	}
	panic("c22: bad importer kind " + s.Kind)
}

func impShape(s ImpSpec) string {
	if s.Kind != "combined" {
		return s.Kind
	}
	for _, p := range s.Parts {
		if p.Kind == "combined" {
			return "combined-nested"
		}
	}
	return "combined"
}

func samePkg(a, b native.ImportablePackage) bool {
	if a == nil || b == nil {
		return a == nil && b == nil
	}
	// native.Package holds a map and is not comparable with ==; the name carries the identity
	pa, oka := a.(native.Package)
	pb, okb := b.(native.Package)
	if oka || okb {
		return oka && okb && pa.Name == pb.Name
	}
	return a == b
}

func (st *state) checkImporter(spec ImpSpec, paths []string) {
	b := &impBuild{}
	imp := b.build(spec)
	sh := impShape(spec)
	desc := "importer " + string(core.MustJSON(spec))
	for _, path := range paths {
		b.log = b.log[:0]
		st.evals++
		st.counts["import_calls"]++
		gotP, gotErr := imp.Import(path)
		// model: first leaf, in depth-first order, that answers a package or an error
		var want impResult
		hit := -1
		var wantLog []string
		for i, l := range b.leaves {
			wantLog = append(wantLog, fmt.Sprintf("%d:%s", l.id, path))
			if a := l.answers[path]; a.pkg != nil || a.err != nil {
				want, hit = a, i
				break
			}
		}
		st.counts["importer_consultations"] += int64(len(b.log))
		if !samePkg(gotP, want.pkg) || gotErr != want.err {
			st.fail("%s: Import(%q) = (%v, %v), want (%v, %v) from importer #%d (the first one, in order, that returns a package or an error)", desc, path, pkgName(gotP), gotErr, pkgName(want.pkg), want.err, hit)
			return
		}
		if strings.Join(b.log, " ") != strings.Join(wantLog, " ") {
			st.fail("%s: Import(%q) consulted importers [%s], want [%s] (each importer in order, none after the first that answers)", desc, path, strings.Join(b.log, " "), strings.Join(wantLog, " "))
			return
		}
		kind := "none"
		switch {
		case want.pkg != nil && want.err != nil:
			kind = "both"
		case want.pkg != nil:
			kind = "pkg"
		case want.err != nil:
			kind = "err"
		}
		st.sigs[fmt.Sprintf("imp/%s/%s/%s", sh, kind, posClass(hit, len(b.leaves)))] = struct{}{}
	}
}

func pkgName(p native.ImportablePackage) string {
	if p == nil {
		return "<nil>"
	}
	return "package " + p.PackageName()
}
