package c16

import (
	"reflect"
	"strings"
	"testing"

	"verif/core"
)

func TestAtomsNonSpaceEnds(t *testing.T) {
	for ext, as := range atoms {
		for _, a := range as {
			if a == "" || strings.TrimSpace(a[:1]) == "" || strings.TrimSpace(a[len(a)-1:]) == "" {
				t.Errorf("%s atom %q starts or ends with white space", ext, a)
			}
			if strings.Contains(a, "{{") || strings.Contains(a, "{%") || strings.Contains(a, "{#") {
				t.Errorf("%s atom %q holds template syntax", ext, a)
			}
		}
	}
}

func TestGenCase(t *testing.T) {
	rels := map[string]int{}
	for i := 0; i < 600; i++ {
		a := genCase(core.Rand(5, "t"+string(rune('a'+i%26))+string(rune('a'+i/26))), true, true, true)
		b := genCase(core.Rand(5, "t"+string(rune('a'+i%26))+string(rune('a'+i/26))), true, true, true)
		if !reflect.DeepEqual(a, b) {
			t.Fatalf("generation is not deterministic")
		}
		rels[a.Rel]++
		if _, ok := a.A.Files[a.A.Root]; !ok {
			t.Fatalf("%s: root of A missing", a.Rel)
		}
		if _, ok := a.B.Files[a.B.Root]; !ok {
			t.Fatalf("%s: root of B missing", a.Rel)
		}
		switch a.Rel {
		case "show-vs-var":
			// under the scope only same-format partials or Markdown in HTML
			if !(strings.HasPrefix(a.Note, "partial .md in .html") || sameFormats(a.Note)) {
				t.Errorf("scope not respected: %s", a.Note)
			}
			if !strings.Contains(a.B.Files[a.B.Root], "{% var x_ = render") || strings.Contains(a.A.Files[a.A.Root], "x_") {
				t.Errorf("side B is not the variable form")
			}
		case "extends-vs-expanded":
			if !strings.HasPrefix(a.A.Files[a.A.Root], "{% extends ") {
				t.Errorf("side A does not extend")
			}
			if strings.Contains(a.B.Files[a.B.Root], "extends") {
				t.Errorf("side B still extends")
			}
		case "import-vs-local":
			// side B declares the macros itself (it may still import the library's own dependency)
			if !strings.Contains(a.A.Files[a.A.Root], "{% import ") || !strings.Contains(a.B.Files[a.B.Root], "{% macro ") || strings.Contains(a.A.Files[a.A.Root], "{% macro ") {
				t.Errorf("import-vs-local sides wrong")
			}
		}
	}
	for _, r := range []string{"show-vs-var", "local-rename", "using-vs-macro", "for-import-vs-qualified", "dead-code-removed", "render-repeated", "render-vs-alone", "md-render-vs-convert", "extends-vs-expanded", "import-vs-local", "default-missing", "default-present"} {
		if rels[r] == 0 {
			t.Errorf("relation %s never generated", r)
		}
	}
}

func sameFormats(note string) bool {
	f := strings.Fields(note) // partial .x in .y
	return len(f) == 4 && f[1] == f[3]
}
