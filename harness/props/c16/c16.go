// Package c16 checks that render, import and extends compose like their
// documented expansions.
//
// Oracle: metamorphic. Every case is a pair of file sets produced by the
// harness' own text-level rewriter from one generated structure; both are built
// and run by the real engine with the same globals and must agree:
//
//	show-vs-var           X{{ render "f" }}Y            ==  X{% var x_ = render "f" %}{{ x_ }}Y
//	render-vs-alone       X{{ render "f" }}Y            ==  X + (f built and run alone) + Y      (same format)
//	md-render-vs-convert  X{{ render "f.md" }}Y in HTML ==  X + convert(f.md run alone) + Y
//	render-repeated       X{{ render "f" }}Y{{ render "f" }}Z  ==  X + t + Y + t + Z, t = f run alone (converted if Markdown in HTML)
//	extends-vs-expanded   child extends layout          ==  layout file with the child's import, vars and macros declared in place
//	import-vs-local       {% import "lib" %} + calls    ==  the library's declarations written in the importing file
//	for-import-vs-qualified  {% import "f" for N %}{{ N() }} (also period imports; other imported files declare N too)  ==  {% import q "f" %}{{ q.N() }}
//	dead-code-removed     a page with renders inside code that never runs (if false, runtime-false if, else of a true if, macro never called)  ==  the page without it
//	using-vs-macro        {% show E(itea); using %}BODY{% end using %}  ==  {% macro U_ %}BODY{% end macro %}{% show E(U_()) %}, E(x) = x | x + render "p" | render "p" + x
//	local-rename          a file whose locals (captured by body-level macros, function literals, using bodies) are named like the package variables of the file it imports / that extends it  ==  the same file with fresh local names
//	default-missing       {{ render "missing" default E }} == {{ E }}
//	default-present       {{ render "f" default E }}       == {{ render "f" }}
//
// Both sides failing is agreement (messages are not compared); one side failing
// or different outputs is a violation.
package c16

import (
	"bytes"
	"fmt"
	"regexp"
	"strings"

	"github.com/open2b/scriggo/native"

	"verif/core"
	"verif/gen/tmplfiles"
)

type prop struct{}

func init() { core.Register(prop{}) }

func (prop) ID() string    { return "C16" }
func (prop) Level() string { return "exploration" }

const (
	scopeFastPath   = "render-show-other-format"
	scopeTypedMacro = "typed-macro-other-format"
	scopeDeadInit   = "pkg-var-init-dead-first-site"
)

func (prop) Drive(d *core.Driver) error {
	n := d.N(1200, 30000)
	d.T.Rule = "a set of 1-5 partials of mixed formats in nested directories (rendering each other through relative and absolute paths, with same-named decoy files in other directories), optional imported libraries with 1-3 macros (with/without parameters, package variables, calling each other) is generated; one of twelve rewrites produces the second file set; both are built and run with the same globals (strings holding < & \" ', ints, an HTML value, a slice). distinct_nontrivial counts distinct (relation, formats involved / import form, outcome class, whether nested renders, macros calls, conversions occurred) signatures among pairs where both sides produced output, plus agreeing-error signatures"
	d.T.Assumptions = []string{
		"text atoms start and end with a non-space byte, so the documented removal of statement-only lines cannot make the two sides differ",
		"globals are declared with values (the declared-without-value path is C17)",
		"error messages and positions are not compared, only success/failure",
	}
	inScope, typedScope, deadScope := d.InScope(scopeFastPath), d.InScope(scopeTypedMacro), d.InScope(scopeDeadInit)
	var cases []core.Case
	for i := 0; i < n; i++ {
		r := core.Rand(d.Seed, fmt.Sprintf("C16/%d", i))
		cd := genCase(r, inScope, typedScope, deadScope)
		cases = append(cases, core.NewCase(fmt.Sprintf("pair-%d", i), cd))
		if i < 3 {
			d.T.Sample(cd)
		}
	}
	d.Run(cases, core.RunOpts{})
	return nil
}

var (
	gS    = `<i>&"'x`
	gN    = 42
	gH    = native.HTML(`<u>h</u>`)
	gList = []string{"a&", "<b>"}
)

// globals returns the globals of one build+run and the number of calls of
// once per key.
func globals() (native.Declarations, map[string]int) {
	s, n, h, list := gS, gN, gH, append([]string{}, gList...)
	// once(key) is used by the initialisers of package variables: 1 the
	// first time it is called with a key, 100 times the number of calls after
	// that, so a variable initialised twice (or again at every use) shows
	calls := map[string]int{}
	once := func(key string) int {
		calls[key]++
		if calls[key] == 1 {
			return 1
		}
		return 100 * calls[key]
	}
	return native.Declarations{"s": &s, "n": &n, "h": &h, "list": &list, "once": once}, calls
}

func (prop) Work(c core.Case) core.Result {
	var cd caseData
	c.Decode(&cd)
	res := core.Result{Status: core.OK, Evals: 2, Counts: map[string]int64{}}
	ga, callsA := globals()
	gb, callsB := globals()
	a := tmplfiles.BuildRun(tmplfiles.FromStrings(cd.A.Files), cd.A.Root, ga, nil)
	b := tmplfiles.BuildRun(tmplfiles.FromStrings(cd.B.Files), cd.B.Root, gb, nil)
	describe := func() string {
		return fmt.Sprintf("\nrelation %s (%s)\nA root %s:\n%sB root %s:\n%s", cd.Rel, cd.Note, cd.A.Root, tmplfiles.FromStrings(cd.A.Files).String(), cd.B.Root, diffFiles(cd))
	}
	fail := func(format string, args ...any) core.Result {
		res.Status = core.Violation
		res.Detail = fmt.Sprintf(format, args...) + describe()
		return res
	}
	if a.Panic != "" {
		return fail("side A: %s", core.Truncate(a.Panic, 2000))
	}
	if b.Panic != "" {
		return fail("side B: %s", core.Truncate(b.Panic, 2000))
	}
	// invariant of both executions: the initialiser of a package variable of an
	// imported file runs at most once per run, however many files import it
	for side, calls := range map[string]map[string]int{"A": callsA, "B": callsB} {
		for k, n := range calls {
			if n > 1 {
				return fail("side %s: the initialiser of package variable %s ran %d times in one run", side, k, n)
			}
		}
	}
	errOf := func(o tmplfiles.Outcome) string { return o.BuildErr + o.RunErr }
	if a.Class() != b.Class() {
		return fail("the two sides do not agree: A %s (%s) out=%q; B %s (%s) out=%q", a.Class(), errOf(a), a.Out, b.Class(), errOf(b), b.Out)
	}
	res.Counts["pairs_"+cd.Rel]++
	if a.Failed() {
		res.Counts["pairs_both_fail"]++
		res.Sigs = []string{core.SigJoin(cd.Rel, cd.Note, "both-"+a.Class())}
		return res
	}
	want := b.Out
	switch cd.Rel {
	case "render-vs-alone":
		want = []byte(cd.Pre + string(b.Out) + cd.Post)
	case "render-repeated":
		t := b.Out
		if cd.Convert {
			var buf bytes.Buffer
			if err := tmplfiles.MarkdownConverter(b.Out, &buf); err != nil {
				res.Status = core.Inconclusive
				res.Detail = "goldmark failed: " + err.Error()
				return res
			}
			t = buf.Bytes()
		}
		var w bytes.Buffer
		for i, sep := range cd.Seps {
			w.WriteString(sep)
			if i < len(cd.Seps)-1 {
				w.Write(t)
			}
		}
		want = w.Bytes()
	case "md-render-vs-convert":
		var buf bytes.Buffer
		if err := tmplfiles.MarkdownConverter(b.Out, &buf); err != nil {
			res.Status = core.Inconclusive
			res.Detail = "goldmark failed: " + err.Error()
			return res
		}
		want = []byte(cd.Pre + buf.String() + cd.Post)
	}
	if !bytes.Equal(a.Out, want) {
		return fail("outputs differ:\n A: %q\n B: %q", a.Out, want)
	}
	all := ""
	for _, v := range cd.A.Files {
		all += v
	}
	feat := ""
	if strings.Count(all, "{{ render") > 1 {
		feat += "+nested-render"
	}
	if n := alternations(cd.A.Files, cd.A.Root); n >= 2 {
		feat += fmt.Sprintf("+alt%d", n)
	}
	if strings.Contains(all, "; using %}") {
		feat += "+using"
	}
	if strings.Contains(all, "once(") {
		feat += "+init-call"
	}
	if strings.Contains(all, "{% defer") {
		feat += "+defer"
	}
	if strings.Contains(all, "{% panic(") {
		feat += "+recovered-panic"
	}
	if strings.Contains(all, "{% import") && cd.Rel != "import-vs-local" {
		feat += "+lib"
	}
	if strings.Contains(all, "{% macro") {
		feat += "+macro"
	}
	if strings.Contains(all, "(a string)") {
		feat += "+params"
	}
	if strings.Contains(all, "../") {
		feat += "+dotdot"
	}
	res.Counts["pairs_both_ok"]++
	res.Sigs = []string{core.SigJoin(cd.Rel, cd.Note, "ok", feat)}
	return res
}

// diffFiles prints the files of side B that differ from side A.
func diffFiles(cd caseData) string {
	d := tmplfiles.Files{}
	for k, v := range cd.B.Files {
		if av, ok := cd.A.Files[k]; !ok || av != v {
			d[k] = []byte(v)
		}
	}
	if len(d) == 0 {
		return "(same files)\n"
	}
	return "(files that differ from A)\n" + d.String()
}

var renderRef = regexp.MustCompile(`render "([^"]+)"`)

// alternations returns the largest number of format changes along a chain of
// renders starting at root (coverage only; paths are resolved by base name).
func alternations(files map[string]string, root string) int {
	byBase := map[string]string{}
	for n := range files {
		byBase[n[strings.LastIndexByte(n, '/')+1:]] = n
	}
	var walk func(name string, depth int) int
	walk = func(name string, depth int) int {
		best := 0
		if depth > 6 {
			return 0
		}
		for _, m := range renderRef.FindAllStringSubmatch(files[name], -1) {
			t, ok := byBase[m[1][strings.LastIndexByte(m[1], '/')+1:]]
			if !ok {
				continue
			}
			n := walk(t, depth+1)
			if extOf(t) != extOf(name) {
				n++
			}
			if n > best {
				best = n
			}
		}
		return best
	}
	return walk(root, 0)
}
