package c16

import (
	"fmt"
	"math/rand"
	"path"
	"regexp"
	"strings"
)

// side is one of the two executions of a metamorphic pair.
type side struct {
	Files map[string]string `json:"files"`
	Root  string            `json:"root"`
}

// caseData is one metamorphic pair.
type caseData struct {
	Rel string `json:"rel"` // show-vs-var | render-repeated | render-vs-alone | md-render-vs-convert | extends-vs-expanded | import-vs-local | default-missing | default-present
	A   side   `json:"a"`
	B   side   `json:"b"`
	// for render-vs-alone / md-render-vs-convert: out(A) must equal Pre + f(out(B)) + Post
	Pre  string `json:"pre,omitempty"`
	Post string `json:"post,omitempty"`
	// for render-repeated: out(A) must equal Seps[0] + f(out(B)) + Seps[1] + f(out(B)) + … + Seps[k]
	Seps    []string `json:"seps,omitempty"`
	Convert bool     `json:"convert,omitempty"` // f converts Markdown to HTML (else identity)
	Note string `json:"note,omitempty"`
}

var formats = []string{".html", ".txt", ".md", ".css", ".js", ".json"}

// typeName is the macro result type that corresponds to a file format.
var typeName = map[string]string{".html": "html", ".txt": "string", ".md": "markdown", ".css": "css", ".js": "js", ".json": "json"}

// atoms are literal text fragments per format. Every atom starts and ends with
// a non-space byte (so that no line consists of statements only and the
// line-cut rules cannot make the two sides differ) and leaves the lexer in the
// format's base context.
var atoms = map[string][]string{
	".html": {"<b>bold</b>", "&amp;", "a &lt; b", "<p class=\"c\">p</p>", "x\ny", "<i>i</i>", "q'q\"q", "<!-- c -->", "<br>", "é"},
	".txt":  {"plain", "<b>&\"'", "x\ny", "a\\b", "100%", "é", "[t]"},
	".md":   {"# T", "*em*", "x\n\ny", "`c`", "[l](http://e.x/?a=1&b=2)", "<b>r</b>", "a_b", "1. o"},
	".css":  {"a{color:red}", ".c>.d{margin:0}", "/* c */", "b{content:\"s\"}", "x\ny"},
	".js":   {"var a=1;", "f(\"s\");", "/* c */", "a/b;", "x;\ny;", "g('t');"},
	".json": {"[1,2]", "{\"k\":\"v\"}", "null", "true", "\"s\""},
}

type g struct {
	r     *rand.Rand
	files map[string]string
	n     int
	parts []string // partial paths created so far (may be rendered by later files)
	libs  []*lib   // libraries created for partials (may be imported by several partials)
	// noUsing: no using statements in the bodies being generated (scope
	// typed-macro-other-format: the bodies will be written in a macro with an
	// explicit result type in a file of another format, where the body of a
	// using statement takes the format of the file)
	noUsing bool
}

func (g *g) pick(s []string) string { return s[g.r.Intn(len(s))] }

func (g *g) atom(ext string) string { return g.pick(atoms[ext]) }

// shows are the value shows usable in a format's base context.
func (g *g) show(ext string, params []string) string {
	c := []string{"{{ s }}", "{{ n }}", "{{ n + 1 }}", "{{ len(list) }}", "{{ list[1] }}"}
	if ext == ".html" || ext == ".md" {
		c = append(c, "{{ h }}")
	}
	for _, p := range params {
		c = append(c, "{{ "+p+" }}")
	}
	return g.pick(c)
}

var dirs = []string{"", "", "sub/", "sub/deep/", "other/"}

// relPath writes a reference from file `from` to file `to` (both rooted names).
func (g *g) relPath(from, to string) string {
	if g.r.Intn(3) == 0 {
		return "/" + to
	}
	var fd []string
	if i := strings.LastIndexByte(from, '/'); i >= 0 {
		fd = strings.Split(from[:i], "/")
	}
	te := strings.Split(to, "/")
	k := 0
	for k < len(fd) && k < len(te)-1 && fd[k] == te[k] {
		k++
	}
	return strings.Repeat("../", len(fd)-k) + strings.Join(te[k:], "/")
}

type env struct {
	file   string   // rooted name of the file the body lives in (for relative references)
	ext    string   // format of the body
	params []string // macro parameters in scope
	macros []string // macro call expressions usable here, e.g. `M1("a")`
	abs    bool     // write references as absolute paths only (the body will be moved to another directory)
}

// body generates a template body in format e.ext.
func (g *g) body(e env, n, depth int) string {
	var b strings.Builder
	b.WriteString(g.atom(e.ext))
	panics := false
	if depth == 0 && g.r.Intn(5) == 0 {
		// the body (of a macro, of a rendered file, of a page) has deferred
		// calls: it returns through the deferred-call path of the VM; some
		// bodies panic at their end and recover in a deferred call
		switch g.r.Intn(4) {
		case 0:
			b.WriteString("{% defer func() {}() %}")
		case 1:
			b.WriteString("{% defer func() { _ = len(list) }() %}{% defer func() {}() %}")
		case 2:
			b.WriteString("{% defer func() { recover() }() %}")
		default:
			b.WriteString("{% defer func() { recover() }() %}")
			panics = true
		}
		b.WriteString(g.atom(e.ext))
	}
	for i := 0; i < n; i++ {
		switch w := g.r.Intn(100); {
		case w < 30:
			b.WriteString(g.show(e.ext, e.params))
		case w < 42 && depth < 2:
			b.WriteString("{% if n > 1 %}" + g.body(e, 1, depth+1) + "{% else %}" + g.atom(e.ext) + "{% end if %}")
		case w < 50 && depth < 2:
			b.WriteString("{% for i, x := range list %}" + g.atom(e.ext) + "{{ i }}{{ x }}{% end for %}")
		case w < 68 && len(g.parts) > 0:
			// render an existing partial of a format that can be shown here
			var cand []string
			for _, p := range g.parts {
				pe := extOf(p)
				if pe == e.ext || (pe == ".md" && e.ext == ".html") || (pe == ".html" && e.ext == ".md") || g.r.Intn(5) == 0 {
					cand = append(cand, p)
				}
			}
			if len(cand) > 0 {
				t := g.pick(cand)
				ref := g.relPath(e.file, t)
				if e.abs {
					ref = "/" + t
				}
				fmt.Fprintf(&b, "{{ render %q }}", ref)
			}
		case w < 80 && len(e.macros) > 0:
			b.WriteString("{{ " + g.pick(e.macros) + " }}")
		case w < 86 && depth < 2 && !g.noUsing:
			// a using statement: its body is the value of itea
			b.WriteString("{% show itea; using %}" + g.body(e, g.r.Intn(2), depth+2) + "{% end using %}")
		default:
			b.WriteString(g.atom(e.ext))
		}
		b.WriteString(g.atom(e.ext))
	}
	if panics {
		b.WriteString("{% panic(\"recovered by the deferred call\") %}" + g.atom(e.ext))
	}
	return b.String()
}

func dirOf(name string) string {
	if i := strings.LastIndexByte(name, '/'); i >= 0 {
		return name[:i+1]
	}
	return ""
}

func extOf(name string) string {
	if i := strings.LastIndexByte(name, '.'); i >= 0 {
		return name[i:]
	}
	return ""
}

// newPartial creates a partial file (it may render earlier partials).
func (g *g) newPartial(ext string) string {
	g.n++
	name := fmt.Sprintf("%spart%d%s", g.pick(dirs), g.n, ext)
	if g.r.Intn(4) == 0 {
		// a same-named file in another directory with another content: a wrong
		// resolution of a relative path picks it up
		other := fmt.Sprintf("%spart%d%s", g.pick(dirs), g.n, ext)
		if _, ok := g.files[other]; !ok && other != name {
			g.files[other] = "WRONG-DIRECTORY" + g.atom(ext)
			if g.r.Intn(2) == 0 {
				// also a partial in its own right: the same relative path string
				// then names different files from different directories
				g.parts = append(g.parts, other)
			}
		}
	}
	g.files[name] = g.partialSource(name, ext, nil)
	g.parts = append(g.parts, name)
	return name
}

// partialSource writes a partial: an optional import of a library (often of
// another format) whose macros the body calls, the body, and a render of every
// file in must (the links of a format-alternating chain).
func (g *g) partialSource(name, ext string, must []string) string {
	e := env{file: name, ext: ext}
	imp := ""
	if g.r.Intn(3) == 0 {
		imp = g.useLib(&e, nil)
	}
	var b strings.Builder
	b.WriteString(imp)
	b.WriteString(g.body(e, 1+g.r.Intn(3), 0))
	for _, m := range must {
		ref := g.relPath(name, m)
		fmt.Fprintf(&b, "{{ render %q }}%s", ref, g.atom(ext))
		if len(e.macros) > 0 && g.r.Intn(2) == 0 {
			b.WriteString("{{ " + g.pick(e.macros) + " }}" + g.atom(ext))
		}
	}
	return b.String()
}

// useLib makes the body of e import a library: l if not nil, else one already
// imported by other partials (a library shared by several files) or a new one,
// often of another format. It returns the import statement.
func (g *g) useLib(e *env, l *lib) string {
	if l == nil && len(g.libs) > 0 && g.r.Intn(2) == 0 {
		l = g.libs[g.r.Intn(len(g.libs))]
	}
	if l == nil {
		lext := e.ext
		if g.r.Intn(3) > 0 {
			lext = g.altFormat(e.ext)
		}
		l = g.newLib(g.pick(dirs), lext, false)
		g.files[l.name] = l.source()
		g.libs = append(g.libs, l)
	}
	for _, m := range l.macros {
		e.macros = append(e.macros, m.call)
	}
	for _, v := range l.vars {
		e.params = append(e.params, strings.Fields(v)[2]) // the package variable is shown directly too
	}
	ref := "/" + l.name
	if g.r.Intn(2) == 0 {
		ref = g.relPath(e.file, l.name)
	}
	return fmt.Sprintf("{%% import %q %%}", ref)
}

// newSiblings creates k partials of format ext that all import one library
// holding a package variable (a file imported from several files).
func (g *g) newSiblings(ext string, k int) []string {
	var l *lib
	for l == nil || len(l.vars) == 0 {
		l = g.newLib(g.pick(dirs), g.pick([]string{ext, ext, g.altFormat(ext)}), false)
	}
	g.files[l.name] = l.source()
	g.libs = append(g.libs, l)
	var names []string
	for i := 0; i < k; i++ {
		g.n++
		name := fmt.Sprintf("%ssib%d%s", g.pick(dirs), g.n, ext)
		e := env{file: name, ext: ext}
		imp := g.useLib(&e, l)
		g.files[name] = imp + g.body(e, 1+g.r.Intn(3), 0) + "{{ " + e.params[0] + " }}" + g.atom(ext)
		g.parts = append(g.parts, name)
		names = append(names, name)
	}
	return names
}

var refRE = regexp.MustCompile(`(?:render|import|extends)(?: [a-z.]+)? "([^"]+)"`)

// closure returns the files reachable from name through render/import/extends.
func (g *g) closure(name string, seen map[string]bool) map[string]bool {
	if seen == nil {
		seen = map[string]bool{}
	}
	if seen[name] {
		return seen
	}
	seen[name] = true
	for _, m := range refRE.FindAllStringSubmatch(g.files[name], -1) {
		ref := m[1]
		var t string
		if strings.HasPrefix(ref, "/") {
			t = ref[1:]
		} else {
			t = path.Join(path.Dir(name), ref)
		}
		if _, ok := g.files[t]; ok {
			g.closure(t, seen)
		}
	}
	return seen
}

// reachesPackageVars reports whether name reaches an imported file that
// declares a package variable.
func (g *g) reachesPackageVars(name string) bool {
	for f := range g.closure(name, nil) {
		if strings.Contains(g.files[f], "{% var ") {
			return true
		}
	}
	return false
}

// altFormat returns a format that differs from ext, mostly along the
// HTML/Markdown axis (a Markdown file shown in HTML is converted).
func (g *g) altFormat(ext string) string {
	switch ext {
	case ".md":
		if g.r.Intn(5) > 0 {
			return ".html"
		}
		return ".txt"
	case ".html":
		if g.r.Intn(5) > 0 {
			return ".md"
		}
		return ".txt"
	}
	return g.pick([]string{".md", ".html", ".md"})
}

// newChain creates depth partials whose formats alternate, each rendering the
// next deeper one (sometimes twice), and returns the top one, of format topExt.
func (g *g) newChain(topExt string, depth int) string {
	exts := make([]string, depth)
	exts[depth-1] = topExt
	for i := depth - 2; i >= 0; i-- {
		exts[i] = g.altFormat(exts[i+1])
	}
	prev := ""
	for i := 0; i < depth; i++ {
		g.n++
		name := fmt.Sprintf("%schain%d%s", g.pick(dirs), g.n, exts[i])
		var must []string
		if prev != "" {
			must = []string{prev}
			if g.r.Intn(3) == 0 {
				must = append(must, prev)
			}
		}
		g.files[name] = g.partialSource(name, exts[i], must)
		g.parts = append(g.parts, name)
		prev = name
	}
	return prev
}

// newTarget creates the partial a relation is about: a single partial or the
// top of a format-alternating chain of depth 2-4.
func (g *g) newTarget(ext string) string {
	if g.r.Intn(2) == 0 {
		return g.newChain(ext, 2+g.r.Intn(3))
	}
	return g.newPartial(ext)
}

// prelude is something rendered before the construct under test, the same on
// both sides: completed renders (and conversions) of other partials.
func (g *g) prelude(root, rootExt string) string {
	if len(g.parts) == 0 || g.r.Intn(2) == 0 {
		return ""
	}
	var b strings.Builder
	k := 1 + g.r.Intn(2)
	for i := 0; i < k; i++ {
		t := g.pick(g.parts)
		fmt.Fprintf(&b, "%s{{ render %q }}", g.atom(rootExt), g.relPath(root, t))
	}
	return b.String()
}

type macroDecl struct {
	name   string
	params string // "(a string)" or ""
	body   string
	call   string // call expression with arguments
}

type lib struct {
	name   string
	ext    string
	dep    string   // another library that this one imports ("" if none)
	vars   []string // "{% var K1 = 3 %}"
	macros []macroDecl
}

// newLib creates an imported file with 1-3 macros (later macros may call earlier ones).
func (g *g) newLib(dir, ext string, abs bool) *lib {
	g.n++
	l := &lib{name: fmt.Sprintf("%slib%d%s", dir, g.n, ext), ext: ext}
	var calls []string
	var depVars []string
	if len(g.libs) > 0 && g.r.Intn(3) == 0 {
		// the library imports a library that other files import too
		d := g.libs[g.r.Intn(len(g.libs))]
		l.dep = d.name
		for _, m := range d.macros {
			calls = append(calls, m.call)
		}
		for _, v := range d.vars {
			depVars = append(depVars, strings.Fields(v)[2])
		}
	}
	if g.r.Intn(2) == 0 {
		if g.r.Intn(2) == 0 {
			// an initialiser with an observable call: it must run once per run
			l.vars = append(l.vars, fmt.Sprintf("{%% var K%d = %d + once(\"K%d\") %%}", g.n, 3+g.r.Intn(5), g.n))
		} else {
			l.vars = append(l.vars, fmt.Sprintf("{%% var K%d = %d %%}", g.n, 3+g.r.Intn(5)))
		}
	}
	k := 1 + g.r.Intn(3)
	for i := 0; i < k; i++ {
		g.n++
		m := macroDecl{name: fmt.Sprintf("M%d", g.n)}
		var params []string
		if g.r.Intn(2) == 0 {
			m.params = "(a string)"
			params = []string{"a"}
			m.call = m.name + "(" + g.pick([]string{`"x"`, `"<i>&"`, "s", `list[0]`}) + ")"
		} else {
			m.call = m.name + "()"
		}
		if len(l.vars) > 0 && g.r.Intn(2) == 0 {
			params = append(params, strings.Fields(l.vars[0])[2])
		}
		params = append(params, depVars...)
		m.body = g.body(env{file: l.name, ext: ext, params: params, macros: calls, abs: abs}, 1+g.r.Intn(3), 0)
		if i == 0 && len(l.vars) > 0 {
			// the variable must be used: as a local variable (inlined form) it would otherwise not compile
			m.body += "{{ " + strings.Fields(l.vars[0])[2] + " }}" + g.atom(ext)
		}
		l.macros = append(l.macros, m)
		calls = append(calls, m.call)
	}
	return l
}

// source of the imported file: declarations on separate lines.
func (l *lib) source() string {
	var b strings.Builder
	if l.dep != "" {
		fmt.Fprintf(&b, "{%% import %q %%}\n", "/"+l.dep)
	}
	for _, v := range l.vars {
		b.WriteString(v + "\n")
	}
	for _, m := range l.macros {
		fmt.Fprintf(&b, "{%% macro %s%s %%}%s{%% end macro %%}\n", m.name, m.params, m.body)
	}
	return b.String()
}

// inline returns the declarations of the file as they are written in place:
// no white space between them, explicit result type when asked.
func (l *lib) inline(explicit bool) string {
	var b strings.Builder
	if l.dep != "" {
		fmt.Fprintf(&b, "{%% import %q %%}", "/"+l.dep)
	}
	for _, v := range l.vars {
		b.WriteString(v)
	}
	for _, m := range l.macros {
		typ := ""
		if explicit {
			typ = " " + typeName[l.ext]
		}
		p := m.params
		if p == "" && explicit {
			p = "()"
		}
		fmt.Fprintf(&b, "{%% macro %s%s%s %%}%s{%% end macro %%}", m.name, p, typ, m.body)
	}
	return b.String()
}

func copyFiles(m map[string]string) map[string]string {
	c := map[string]string{}
	for k, v := range m {
		c[k] = v
	}
	return c
}

// genCase generates one pair. fastPathScope: keep show-vs-var pairs to the
// combinations outside the recorded finding (partial format == context format,
// or Markdown partial in HTML).
func genCase(r *rand.Rand, fastPathScope, typedMacroScope, deadInitScope bool) caseData {
	gg := &g{r: r, files: map[string]string{}}
	// a few partials of mixed formats, shared by everything that follows
	np := 1 + r.Intn(4)
	for i := 0; i < np; i++ {
		if r.Intn(3) == 0 {
			gg.newChain(gg.pick([]string{".md", ".html", ".html", ".txt"}), 2+r.Intn(3))
		} else if r.Intn(5) == 0 {
			gg.newSiblings(gg.pick([]string{".html", ".md", ".txt"}), 2)
		} else {
			gg.newPartial(formats[r.Intn(len(formats))])
		}
	}
	rootDir := gg.pick(dirs)
	switch rel := r.Intn(100); {
	case rel < 20: // {{ render f }} vs {% var x = render f %}{{ x }}
		rootExt := formats[r.Intn(len(formats))]
		fext := rootExt
		switch r.Intn(4) {
		case 0:
			fext = formats[r.Intn(len(formats))]
		case 1, 2:
			if rootExt == ".html" || r.Intn(3) == 0 {
				rootExt, fext = ".html", ".md"
			}
		}
		if fastPathScope && !(fext == rootExt || (fext == ".md" && rootExt == ".html")) {
			fext = rootExt
		}
		f := gg.newTarget(fext)
		root := rootDir + "index" + rootExt
		ref := gg.relPath(root, f)
		// completed renders before the construct, the same on both sides
		x, y := gg.prelude(root, rootExt)+gg.atom(rootExt), gg.atom(rootExt)
		cd := caseData{Rel: "show-vs-var", Note: "partial " + fext + " in " + rootExt}
		cd.A = side{Files: copyFiles(gg.files), Root: root}
		cd.B = side{Files: copyFiles(gg.files), Root: root}
		cd.A.Files[root] = fmt.Sprintf("%s{{ render %q }}%s", x, ref, y)
		cd.B.Files[root] = fmt.Sprintf("%s{%% var x_ = render %q %%}{{ x_ }}%s", x, ref, y)
		if r.Intn(3) == 0 {
			// and once more after it
			cd.A.Files[root] += fmt.Sprintf("{{ render %q }}%s", ref, y)
			cd.B.Files[root] += fmt.Sprintf("{{ render %q }}%s", ref, y)
		}
		return cd
	case rel < 33: // render vs running the file alone (same format); Markdown in HTML vs converting it
		ext := formats[r.Intn(len(formats))]
		rootExt := ext
		cd := caseData{Rel: "render-vs-alone"}
		if r.Intn(3) == 0 {
			ext, rootExt = ".md", ".html"
			cd.Rel = "md-render-vs-convert"
		}
		f := gg.newTarget(ext)
		root := rootDir + "index" + rootExt
		cd.Pre, cd.Post = gg.atom(rootExt), gg.atom(rootExt)
		cd.A = side{Files: copyFiles(gg.files), Root: root}
		cd.A.Files[root] = fmt.Sprintf("%s{{ render %q }}%s", cd.Pre, gg.relPath(root, f), cd.Post)
		cd.B = side{Files: copyFiles(gg.files), Root: f}
		cd.Note = "partial " + ext + " in " + rootExt
		return cd
	case rel < 45: // the same file rendered 2-3 times in one page: every rendering equals the file run alone
		ext := gg.pick([]string{".md", ".md", ".html", ".txt", ".md", ".js"})
		rootExt := ext
		cd := caseData{Rel: "render-repeated"}
		if ext == ".md" && r.Intn(4) > 0 {
			rootExt = ".html"
			cd.Convert = true
		}
		f := gg.newTarget(ext)
		root := rootDir + "index" + rootExt
		k := 2 + r.Intn(2)
		var src strings.Builder
		for i := 0; i <= k; i++ {
			sep := gg.atom(rootExt)
			cd.Seps = append(cd.Seps, sep)
			src.WriteString(sep)
			if i < k {
				fmt.Fprintf(&src, "{{ render %q }}", gg.relPath(root, f))
			}
		}
		cd.A = side{Files: copyFiles(gg.files), Root: root}
		cd.A.Files[root] = src.String()
		cd.B = side{Files: copyFiles(gg.files), Root: f}
		cd.Note = "partial " + ext + " in " + rootExt
		return cd
	case rel < 58: // extends vs the mechanically expanded single file
		ext := []string{".html", ".html", ".txt", ".md", ".js"}[r.Intn(5)]
		layoutExt := ext
		if ext == ".md" && r.Intn(2) == 0 && !typedMacroScope {
			layoutExt = ".html" // a Markdown file may extend an HTML layout
		}
		layout := gg.pick(dirs) + "layout" + layoutExt
		child := rootDir + "index" + ext
		sameDir := dirOf(layout) == dirOf(child)
		// the child's declarations: an optional import, vars, macros
		var l *lib
		if r.Intn(2) == 0 {
			l = gg.newLib(gg.pick(dirs), ext, false)
			gg.files[l.name] = l.source()
		}
		own := &lib{name: child, ext: ext}
		var calls []string
		if l != nil {
			for _, m := range l.macros {
				calls = append(calls, m.call)
			}
		}
		if r.Intn(2) == 0 {
			own.vars = append(own.vars, `{% var Title = "T<&>" %}`)
		}
		k := 1 + r.Intn(3)
		var ownCalls []string
		for i := 0; i < k; i++ {
			m := macroDecl{name: fmt.Sprintf("Block%d", i)}
			if r.Intn(3) == 0 {
				m.params = "(a string)"
				m.call = m.name + `("arg<")`
			} else {
				m.call = m.name + "()"
			}
			var params []string
			if m.params != "" {
				params = []string{"a"}
			}
			if len(own.vars) > 0 {
				params = append(params, "Title")
			}
			m.body = gg.body(env{file: child, ext: ext, params: params, macros: append(append([]string{}, calls...), ownCalls...), abs: !sameDir}, 1+r.Intn(3), 0)
			own.macros = append(own.macros, m)
			ownCalls = append(ownCalls, m.call)
		}
		// layout body: text, its own renders, calls of the child's macros, the child's var
		var lb strings.Builder
		lb.WriteString(gg.atom(layoutExt))
		for _, c := range ownCalls {
			lb.WriteString("{{ " + c + " }}" + gg.atom(layoutExt))
		}
		if len(own.vars) > 0 {
			lb.WriteString("{{ Title }}" + gg.atom(layoutExt))
		}
		lb.WriteString(gg.body(env{file: layout, ext: layoutExt}, 1+r.Intn(2), 0))
		imp := ""
		if l != nil {
			imp = fmt.Sprintf("{%% import %q %%}", "/"+l.name)
		}
		cd := caseData{Rel: "extends-vs-expanded", Note: ext + " extends " + layoutExt}
		cd.A = side{Files: copyFiles(gg.files), Root: child}
		cd.A.Files[layout] = lb.String()
		cd.A.Files[child] = fmt.Sprintf("{%% extends %q %%}\n%s\n%s", gg.relPath(child, layout), imp, own.source())
		cd.B = side{Files: copyFiles(gg.files), Root: layout}
		cd.B.Files[layout] = imp + own.inline(ext != layoutExt) + lb.String()
		return cd
	case rel < 71: // imported macro vs the same macro declared locally
		rootExt := formats[r.Intn(3)]
		libExt := rootExt
		if r.Intn(4) == 0 {
			libExt = formats[r.Intn(3)]
		}
		if typedMacroScope && libExt != rootExt && libExt != ".txt" {
			// the local form would be an html/markdown typed macro in a file of another format
			libExt = rootExt
		}
		root := rootDir + "index" + rootExt
		// the macro bodies are moved into the root file: their references must
		// resolve the same, so the library is in the root's directory or its
		// bodies use absolute paths
		libDir := rootDir
		if r.Intn(2) == 0 {
			libDir = gg.pick(dirs)
		}
		gg.noUsing = typedMacroScope && libExt != rootExt
		l := gg.newLib(libDir, libExt, libDir != rootDir)
		gg.noUsing = false
		gg.files[l.name] = l.source()
		ref := gg.relPath(root, l.name)
		form := r.Intn(4)
		prefix := ""
		var imp string
		switch form {
		case 0:
			imp = fmt.Sprintf("{%% import %q %%}", ref)
		case 1:
			imp = fmt.Sprintf("{%% import lib %q %%}", ref)
			prefix = "lib."
		case 2:
			imp = fmt.Sprintf("{%% import . %q %%}", ref)
		default:
			var names []string
			for _, m := range l.macros {
				names = append(names, m.name)
			}
			imp = fmt.Sprintf("{%% import %q for %s %%}", ref, strings.Join(names, ", "))
		}
		var use strings.Builder
		use.WriteString(gg.atom(rootExt))
		var bUse strings.Builder
		bUse.WriteString(use.String())
		for _, m := range l.macros {
			t := gg.atom(rootExt)
			use.WriteString("{{ " + prefix + m.call + " }}" + t)
			bUse.WriteString("{{ " + m.call + " }}" + t)
		}
		cd := caseData{Rel: "import-vs-local", Note: fmt.Sprintf("lib %s into %s, form %d", libExt, rootExt, form)}
		cd.A = side{Files: copyFiles(gg.files), Root: root}
		cd.A.Files[root] = imp + use.String()
		cd.B = side{Files: copyFiles(gg.files), Root: root}
		cd.B.Files[root] = l.inline(libExt != rootExt || r.Intn(3) == 0) + bUse.String()
		if libExt != rootExt {
			cd.Note += ", typed"
		}
		return cd
	case rel < 80: // {% import "f" for N %} / period imports vs qualified imports, with files that declare the same names
		rootExt := formats[r.Intn(3)]
		root := rootDir + "index" + rootExt
		pool := []string{"Na", "Nb", "Nc", "Va", "Vb"}
		k := 2 + r.Intn(2)
		libs := make([]*lib, k)
		declares := make([]map[string]bool, k)
		for i := range libs {
			gg.n++
			l := &lib{name: fmt.Sprintf("%sbind%d%s", gg.pick([]string{rootDir, rootDir, gg.pick(dirs)}), gg.n, rootExt), ext: rootExt}
			declares[i] = map[string]bool{}
			for _, name := range pool {
				if r.Intn(2) == 0 {
					continue
				}
				declares[i][name] = true
				tag := fmt.Sprintf("lib%d.%s", i, name)
				if name[0] == 'V' {
					l.vars = append(l.vars, fmt.Sprintf("{%% var %s = %q %%}", name, tag))
				} else {
					l.macros = append(l.macros, macroDecl{name: name, call: name + "()", body: tag + gg.body(env{file: l.name, ext: rootExt}, r.Intn(2), 1)})
				}
			}
			if len(declares[i]) == 0 {
				declares[i]["Na"] = true
				l.macros = append(l.macros, macroDecl{name: "Na", call: "Na()", body: fmt.Sprintf("lib%d.Na", i)})
			}
			libs[i] = l
			gg.files[l.name] = l.source()
		}
		// every declared name is imported from exactly one of the files that declare it (or from none)
		owned := make([][]string, k)
		for _, name := range pool {
			var ds []int
			for i := range libs {
				if declares[i][name] {
					ds = append(ds, i)
				}
			}
			if len(ds) == 0 || r.Intn(6) == 0 {
				continue
			}
			o := ds[r.Intn(len(ds))]
			owned[o] = append(owned[o], name)
		}
		var impA, impB []string
		var useA, useB strings.Builder
		useA.WriteString(gg.atom(rootExt))
		useB.WriteString(useA.String())
		for _, i := range r.Perm(k) {
			if len(owned[i]) == 0 {
				continue
			}
			ref := gg.relPath(root, libs[i].name)
			if len(owned[i]) == len(declares[i]) && r.Intn(2) == 0 {
				// the file imports all it declares: a period import says the same
				impA = append(impA, fmt.Sprintf("{%% import %s%q %%}", gg.pick([]string{"", ". "}), ref))
			} else {
				impA = append(impA, fmt.Sprintf("{%% import %q for %s %%}", ref, strings.Join(owned[i], ", ")))
			}
			impB = append(impB, fmt.Sprintf("{%% import q%d %q %%}", i, ref))
			for _, name := range owned[i] {
				t := gg.atom(rootExt)
				if name[0] == 'V' {
					fmt.Fprintf(&useA, "{{ %s }}%s", name, t)
					fmt.Fprintf(&useB, "{{ q%d.%s }}%s", i, name, t)
				} else {
					fmt.Fprintf(&useA, "{{ %s() }}%s", name, t)
					fmt.Fprintf(&useB, "{{ q%d.%s() }}%s", i, name, t)
				}
			}
		}
		cd := caseData{Rel: "for-import-vs-qualified", Note: fmt.Sprintf("%d files in %s", k, rootExt)}
		cd.A = side{Files: copyFiles(gg.files), Root: root}
		cd.A.Files[root] = strings.Join(impA, "") + useA.String()
		cd.B = side{Files: copyFiles(gg.files), Root: root}
		cd.B.Files[root] = strings.Join(impB, "") + useB.String()
		return cd
	case rel < 85: // using statement vs the macro it stands for
		rootExt := formats[r.Intn(3)]
		root := rootDir + "index" + rootExt
		p := gg.newTarget(rootExt)
		if r.Intn(2) == 0 {
			// the rendered file has a using statement of its own
			gg.files[p] += "{% show itea; using %}" + gg.atom(rootExt) + "{% end using %}" + gg.atom(rootExt)
		}
		ref := gg.relPath(root, p)
		body := gg.body(env{file: root, ext: rootExt}, 1+r.Intn(2), 1)
		x, y := gg.atom(rootExt), gg.atom(rootExt)
		var ea, eb string
		switch r.Intn(4) {
		case 0:
			ea, eb = "itea", "U_()"
		case 1:
			ea, eb = fmt.Sprintf("itea + render %q", ref), fmt.Sprintf("U_() + render %q", ref)
		default:
			ea, eb = fmt.Sprintf("render %q + itea", ref), fmt.Sprintf("render %q + U_()", ref)
		}
		cd := caseData{Rel: "using-vs-macro", Note: ea[:4] + " in " + rootExt}
		cd.A = side{Files: copyFiles(gg.files), Root: root}
		cd.A.Files[root] = x + "{% show " + ea + "; using %}" + body + "{% end using %}" + y
		cd.B = side{Files: copyFiles(gg.files), Root: root}
		cd.B.Files[root] = x + "{% macro U_ %}" + body + "{% end macro %}{% show " + eb + " %}" + y
		return cd
	case rel < 92: // renaming the local variables of a file does not change its output
		// Side A names the locals captured by body-level macros, function literals and
		// using bodies like the package variables (unexported and exported) of the
		// file it imports, or of the file that extends it; side B gives them names
		// that occur nowhere else.
		ext := formats[r.Intn(3)]
		pool := []string{"n", "count", "tmp"}
		unit := func(names []string, libMacro string) string {
			var b strings.Builder
			b.WriteString(gg.atom(ext))
			for i, name := range names {
				open, close := "", ""
				if inner := r.Intn(3) == 0; inner || i >= len(pool) {
					// (the names after the pool are the exported ones, on both sides)
					// in an inner block (an exported name of a period import can only be shadowed there)
					open, close = "{% if true %}", "{% end if %}"
				}
				b.WriteString(open)
				fmt.Fprintf(&b, "{%% var %s = \"loc%d\" %%}", name, i)
				fmt.Fprintf(&b, "{%% macro C%d %%}c:{{ %s }}{%% %s = %s + \"+\" %%}{%% end macro %%}", i, name, name, name)
				fmt.Fprintf(&b, "%s{{ C%d() }}[{{ %s }}]{{ C%d() }}%s", gg.atom(ext), i, name, i, gg.atom(ext))
				switch r.Intn(3) {
				case 0:
					fmt.Fprintf(&b, "{%% f%d := func() string { return %s } %%}{{ f%d() }}%s", i, name, i, gg.atom(ext))
				case 1:
					fmt.Fprintf(&b, "{%% show itea; using %%}u:{{ %s }}{%% end using %%}%s", name, gg.atom(ext))
				}
				b.WriteString("{{ " + libMacro + " }}" + gg.atom(ext))
				b.WriteString(close)
			}
			return b.String()
		}
		k := 1 + r.Intn(3)
		if r.Intn(2) == 0 {
			k = len(pool) // so that an appended exported name has an index after the pool
		}
		namesA := append([]string{}, pool[:k]...)
		var namesB []string
		for i := range namesA {
			namesB = append(namesB, fmt.Sprintf("zq%d", i))
		}
		cd := caseData{Rel: "local-rename"}
		libSrc := "{% var n = 11 %}\n{% var count = 12 %}\n{% var tmp = 13 %}\n{% var Kx = 14 %}\n{% macro LM %}lm:{{ n }}{{ count }}{{ tmp }}{{ Kx }}{% n++ %}{% end macro %}\n"
		root := rootDir + "index" + ext
		switch form := r.Intn(4); form {
		case 0, 1: // the page imports the file (period, named or for import)
			lname := gg.pick(dirs) + "priv" + ext
			gg.files[lname] = libSrc
			ref := gg.relPath(root, lname)
			imp, call := fmt.Sprintf("{%% import %q %%}", ref), "LM()"
			switch r.Intn(3) {
			case 0:
				imp, call = fmt.Sprintf("{%% import lib %q %%}", ref), "lib.LM()"
			case 1:
				imp = fmt.Sprintf("{%% import %q for LM %%}", ref)
			default:
				// period import: the exported variable can be shadowed in an inner block too
				if len(namesA) == len(pool) {
					namesA = append(namesA, "Kx")
					namesB = append(namesB, "zqx")
				}
			}
			state := r.Int63()
			mk := func(names []string) string {
				r.Seed(state) // the two sides differ in the names only
				return imp + unit(names, call)
			}
			cd.Note = "page imports, " + ext
			cd.A = side{Files: copyFiles(gg.files), Root: root}
			cd.B = side{Files: copyFiles(gg.files), Root: root}
			cd.A.Files[root] = mk(namesA)
			cd.B.Files[root] = mk(namesB)
		case 2: // a rendered file imports it
			lname := gg.pick(dirs) + "priv" + ext
			gg.files[lname] = libSrc
			pname := gg.pick(dirs) + "user" + ext
			state := r.Int63()
			mk := func(names []string) string {
				r.Seed(state)
				return fmt.Sprintf("{%% import %q %%}", "/"+lname) + unit(names, "LM()")
			}
			rootSrc := fmt.Sprintf("%s{{ render %q }}%s{{ render %q }}%s", gg.atom(ext), gg.relPath(root, pname), gg.atom(ext), "/"+pname, gg.atom(ext))
			cd.Note = "rendered file imports, " + ext
			cd.A = side{Files: copyFiles(gg.files), Root: root}
			cd.B = side{Files: copyFiles(gg.files), Root: root}
			cd.A.Files[root], cd.B.Files[root] = rootSrc, rootSrc
			cd.A.Files[pname] = mk(namesA)
			cd.B.Files[pname] = mk(namesB)
		default: // the layout's locals against the private variables of the file that extends it
			layout := gg.pick(dirs) + "layout" + ext
			child := fmt.Sprintf("{%% extends %q %%}\n{%% var n = 100 %%}\n{%% var count = 200 %%}\n{%% var tmp = 300 %%}\n{%% macro Body %%}b:{{ n }}{{ count }}{{ tmp }}{%% n++ %%}{%% end macro %%}\n", gg.relPath(root, layout))
			state := r.Int63()
			mk := func(names []string) string {
				r.Seed(state)
				return unit(names, "Body()")
			}
			cd.Note = "layout vs extending file, " + ext
			cd.A = side{Files: copyFiles(gg.files), Root: root}
			cd.B = side{Files: copyFiles(gg.files), Root: root}
			cd.A.Files[root], cd.B.Files[root] = child, child
			cd.A.Files[layout] = mk(namesA)
			cd.B.Files[layout] = mk(namesB)
		}
		return cd
	case rel < 97: // a page with code that never runs vs the page without it
		rootExt := gg.pick([]string{".html", ".html", ".md", ".txt", ".js"})
		root := rootDir + "index" + rootExt
		var live []string
		if r.Intn(2) == 0 {
			live = gg.newSiblings(rootExt, 2+r.Intn(2))
		} else {
			live = []string{gg.newTarget(rootExt), gg.newTarget(rootExt)}
		}
		// what the dead code renders: files that the live code renders too, or others
		cand := append(append([]string{}, live...), gg.parts...)
		var dead []string
		for _, c := range cand {
			pe := extOf(c)
			if !(pe == rootExt || (pe == ".md" && rootExt == ".html")) {
				continue
			}
			if deadInitScope && gg.reachesPackageVars(c) {
				continue
			}
			dead = append(dead, c)
		}
		var deadBody strings.Builder
		deadBody.WriteString(gg.atom(rootExt))
		for i := 0; i < 1+r.Intn(2) && len(dead) > 0; i++ {
			fmt.Fprintf(&deadBody, "{{ render %q }}%s", gg.relPath(root, dead[r.Intn(len(dead))]), gg.atom(rootExt))
		}
		var block, form string
		switch r.Intn(4) {
		case 0:
			form = "if-false"
			block = "{% if false %}" + deadBody.String() + "{% end if %}"
		case 1:
			form = "macro-never-called"
			block = "{% macro Dead %}" + deadBody.String() + "{% end macro %}"
		case 2:
			form = "else-of-true"
			block = "{% if n > 0 %}" + gg.atom(rootExt) + "{% else %}" + deadBody.String() + "{% end if %}"
		default:
			form = "if-runtime-false"
			block = "{% if n < 0 %}" + deadBody.String() + "{% end if %}"
		}
		var woDead string
		if form == "else-of-true" {
			woDead = block[:strings.Index(block, "{% else %}")] + "{% end if %}"
		}
		at := r.Intn(len(live) + 1)
		if r.Intn(2) == 0 {
			at = 0 // before the first live use
		}
		var a, b strings.Builder
		for i := 0; i <= len(live); i++ {
			t := gg.atom(rootExt)
			a.WriteString(t)
			b.WriteString(t)
			if i == at {
				a.WriteString(block)
				b.WriteString(woDead)
				t = gg.atom(rootExt)
				a.WriteString(t)
				b.WriteString(t)
			}
			if i < len(live) {
				rs := fmt.Sprintf("{{ render %q }}", gg.relPath(root, live[i]))
				a.WriteString(rs)
				b.WriteString(rs)
			}
		}
		cd := caseData{Rel: "dead-code-removed", Note: form + " in " + rootExt}
		cd.A = side{Files: copyFiles(gg.files), Root: root}
		cd.A.Files[root] = a.String()
		cd.B = side{Files: copyFiles(gg.files), Root: root}
		cd.B.Files[root] = b.String()
		return cd
	default: // render … default
		rootExt := formats[r.Intn(len(formats))]
		root := rootDir + "index" + rootExt
		x, y := gg.atom(rootExt), gg.atom(rootExt)
		def := gg.pick([]string{`"D<&>"`, "s", `"d" + s`})
		cd := caseData{}
		present := r.Intn(2) == 0
		var f string
		if present {
			f = gg.newPartial(rootExt)
		}
		cd.A = side{Files: copyFiles(gg.files), Root: root}
		cd.B = side{Files: copyFiles(gg.files), Root: root}
		if !present {
			cd.Rel = "default-missing"
			cd.A.Files[root] = fmt.Sprintf("%s{{ render %q default %s }}%s", x, "missing"+rootExt, def, y)
			cd.B.Files[root] = fmt.Sprintf("%s{{ %s }}%s", x, def, y)
		} else {
			cd.Rel = "default-present"
			ref := gg.relPath(root, f)
			cd.A.Files[root] = fmt.Sprintf("%s{{ render %q default %s }}%s", x, ref, def, y)
			cd.B.Files[root] = fmt.Sprintf("%s{{ render %q }}%s", x, ref, y)
		}
		return cd
	}
}
